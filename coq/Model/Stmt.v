(* Model of the statement consumer of gin/config.py: parse_config (2366-2404),
   the ParserDelegate (849-869), _should_skip (839-846), parse_config_file
   (2492-2505) with reader / location resolution, try_with_location
   (utils.py:56-60) and parse_config_files_and_bindings (2540-2558).
   Values are the parser's [out] trees; references are resolved when created.
   Definitions only. *)
From Coq Require Import List String ZArith Bool Arith Ascii.
From GinV Require Import Lib.Out Lib.PyStr Model.SelectorMap Model.Parser.
Import ListNotations.
Open Scope string_scope.
Open Scope list_scope.

Record cspec : Type := {
  cs_sel : string; cs_args : list string; cs_varkw : bool; cs_allow : list string; cs_deny : list string }.

Definition ckey := (string * string)%type.
Definition ckey_eqb (a b : ckey) : bool := String.eqb (fst a) (fst b) && String.eqb (snd a) (snd b).
Definition loc := (string * nat)%type.          (* (file name or "" for a bindings string, line) *)

Section AL.
  Context {K V : Type} (eqb : K -> K -> bool).
  Fixpoint al_get (k : K) (l : list (K * V)) : option V :=
    match l with [] => None | (j, v) :: r => if eqb k j then Some v else al_get k r end.
  Fixpoint al_set (k : K) (v : V) (l : list (K * V)) : list (K * V) :=
    match l with
    | [] => [(k, v)]
    | (j, w) :: r => if eqb k j then (j, v) :: r else (j, w) :: al_set k v r
    end.
End AL.

Record tstate : Type := {
  t_reg : smap cspec;
  t_consts : smap unit;
  t_store : list (ckey * list (string * out));
  t_prov : list (ckey * list (string * loc));
  t_imports : list string;              (* _IMPORTS: modules of the import statements that took effect, in order *)
  t_locked : bool }.

Definition set_store st pv (s : tstate) := {| t_reg := t_reg s; t_consts := t_consts s; t_store := st; t_prov := pv;
  t_imports := t_imports s; t_locked := t_locked s |}.
Definition add_imports l (s : tstate) := {| t_reg := t_reg s; t_consts := t_consts s; t_store := t_store s; t_prov := t_prov s;
  t_imports := t_imports s ++ l; t_locked := t_locked s |}.
Definition set_locked b (s : tstate) := {| t_reg := t_reg s; t_consts := t_consts s; t_store := t_store s; t_prov := t_prov s;
  t_imports := t_imports s; t_locked := b |}.

(* errors: class + location chain (innermost first); SyntaxError keeps its own (file, line) *)
Inductive serr := SESyntax (file : string) (line : nat) | SEOther (cls : string) (chain : list loc).
Inductive sres (A : Type) := SOk (a : A) | SErr (e : serr).
Arguments SOk {A}. Arguments SErr {A}.
(* try_with_location *)
Definition with_loc {A} (l : loc) (r : sres A) : sres A :=
  match r with
  | SErr (SEOther c ch) => SErr (SEOther c (ch ++ [l]))
  | x => x
  end.

Inductive skip_unknown := SkFalse | SkTrue | SkList (l : list string).
Definition sk_truthy (sk : skip_unknown) : bool :=
  match sk with SkFalse => false | SkTrue => true | SkList [] => false | SkList _ => true end.
Definition str_in (s : string) (l : list string) : bool := existsb (String.eqb s) l.

(* _should_skip (839-846) *)
Definition should_skip (s : tstate) (sel : string) (sk : skip_unknown) : bool :=
  match sm_matching (to_key sel) (t_reg s) with
  | _ :: _ => false
  | [] => match sk with SkList l => str_in sel l | SkTrue => true | SkFalse => false end
  end.

Definition last_slash (s : string) : string := last (split_slash s) "".

(* the delegate: what a reference / macro token becomes *)
Definition make_reference (s : tstate) (sk : skip_unknown) (scoped : string) (ev : bool) : sres out :=
  let sel := last_slash scoped in
  if should_skip s sel sk then SOk (OT "Unk" [OS sel; OB ev]) else
  match sm_get_match (to_key sel) (t_reg s) with
  | MOne _ (Some c) => SOk (OT "Ref" [OL (map OS (removelast (split_slash scoped))); OS (cs_sel c); OB ev])
  | MOne _ None => SErr (SEOther "ModelError" [])
  | MAmbiguous => SErr (SEOther "KeyError" [])
  | MNone => SErr (SEOther "ValueError" [])
  end.
Definition make_macro (s : tstate) (name : string) : sres out :=
  match sm_matching (to_key name) (t_consts s) with
  | [] => SOk (OT "Ref" [OL (map OS (split_slash name)); OS "gin.macro"; OB true])
  | [k] => SOk (OT "Ref" [OL (map OS (split_slash (of_key k))); OS "gin.constant"; OB true])
  | _ => SErr (SEOther "ValueError" [])
  end.

(* resolve the references of a parsed value in parse order *)
Fixpoint resolve_value (fuel : nat) (s : tstate) (sk : skip_unknown) (v : out) : sres out :=
  match fuel with
  | O => SErr (SEOther "OutOfFuel" [])
  | S f =>
      let go := (fix go (l : list out) : sres (list out) :=
                   match l with
                   | [] => SOk []
                   | x :: r => match resolve_value f s sk x with
                               | SErr e => SErr e
                               | SOk x' => match go r with SErr e => SErr e | SOk r' => SOk (x' :: r') end
                               end
                   end) in
      match v with
      | OT "Ref" [OS name; OT ev []] => make_reference s sk name (String.eqb ev "True")
      | OT "Macro" [OS name] => make_macro s name
      | OT "L" l => match go l with SErr e => SErr e | SOk l' => SOk (OT "L" l') end
      | OT "T" l => match go l with SErr e => SErr e | SOk l' => SOk (OT "T" l') end
      | OT "D" l => match go l with SErr e => SErr e | SOk l' => SOk (OT "D" l') end
      | OL l => match go l with SErr e => SErr e | SOk l' => SOk (OL l') end
      | _ => SOk v
      end
  end.

(* ParsedBindingKey.parse + bind_parameter (889-948, 1067-1078) *)
Definition bind (s : tstate) (scope sel arg : string) (v : out) (l : loc) : sres tstate :=
  if t_locked s then SErr (SEOther "RuntimeError" []) else
  match sm_get_match (to_key sel) (t_reg s) with
  | MNone | MOne _ None => SErr (SEOther "ValueError" [])
  | MAmbiguous => SErr (SEOther "KeyError" [])
  | MOne _ (Some c) =>
      if negb (cs_varkw c || str_in arg (cs_args c)) then SErr (SEOther "ValueError" [])
      else if negb (match cs_allow c with [] => true | _ => false end) && negb (str_in arg (cs_allow c))
        then SErr (SEOther "ValueError" [])
      else if str_in arg (cs_deny c) then SErr (SEOther "ValueError" [])
      else
        let ck := (scope, cs_sel c) in
        let d := match al_get ckey_eqb ck (t_store s) with Some d => d | None => [] end in
        let p := match al_get ckey_eqb ck (t_prov s) with Some d => d | None => [] end in
        SOk (set_store (al_set ckey_eqb ck (al_set String.eqb arg v d) (t_store s))
                       (al_set ckey_eqb ck (al_set String.eqb arg l p) (t_prov s)) s)
  end.

(* ---- files ---- *)
Record gfile : Type := { f_tokens : list token; f_oracle : oracle }.
(* the universe: for reader r and full path p, the file if r can read it *)
Record fenv : Type := {
  e_files : list ((nat * string) * gfile);     (* (reader index, path with prefix) *)
  e_readers : list nat;                        (* registration order *)
  e_prefixes : list string;                    (* _LOCATION_PREFIXES, '' first *)
  e_modules : list string;                     (* importable module names *)
  e_mod_regs : list (string * list cspec) }.   (* configurables that importing module m registers (its decorators run) *)
Definition rp_eqb (a b : nat * string) : bool := Nat.eqb (fst a) (fst b) && String.eqb (snd a) (snd b).

(* os.path.join / isabs for POSIX paths *)
Definition is_abs (p : string) : bool := match p with String c _ => Ascii.eqb c "/"%char | _ => false end.
Definition ends_slash (p : string) : bool :=
  match rev (list_ascii_of_string p) with c :: _ => Ascii.eqb c "/"%char | _ => false end.
Definition path_join (a b : string) : string :=
  if is_abs b then b else if String.eqb a "" then b else if ends_slash a then a ++ b else a ++ "/" ++ b.

(* parse_config_file's double loop: locations outer, readers inner *)
Definition resolve_file (env : fenv) (name : string) : option (string * gfile) :=
  let prefixes := if is_abs name then [""] else e_prefixes env in
  (fix outer (ps : list string) : option (string * gfile) :=
     match ps with
     | [] => None
     | p :: r =>
         let full := path_join p name in
         match (fix inner (rs : list nat) : option gfile :=
                  match rs with
                  | [] => None
                  | x :: t => match al_get rp_eqb (x, full) (e_files env) with Some g => Some g | None => inner t end
                  end) (e_readers env) with
         | Some g => Some (full, g)
         | None => outer r
         end
     end) prefixes.

(* ---- imports with side effects: importing module m runs its decorators, which register configurables ---- *)
Definition set_reg r (s : tstate) := {| t_reg := r; t_consts := t_consts s; t_store := t_store s; t_prov := t_prov s;
  t_imports := t_imports s; t_locked := t_locked s |}.
Definition list_str_eqb (a b : list string) : bool :=
  Nat.eqb (List.length a) (List.length b) && forallb (fun p => String.eqb (fst p) (snd p)) (combine a b).
Definition cspec_eqb (a b : cspec) : bool :=
  String.eqb (cs_sel a) (cs_sel b) && list_str_eqb (cs_args a) (cs_args b) && Bool.eqb (cs_varkw a) (cs_varkw b)
  && list_str_eqb (cs_allow a) (cs_allow b) && list_str_eqb (cs_deny a) (cs_deny b).
Definition mod_regs (env : fenv) (m : string) : list cspec :=
  match al_get String.eqb m (e_mod_regs env) with Some cs => cs | None => [] end.
(* c is already in the registry under its selector *)
Definition registered (s : tstate) (c : cspec) : bool :=
  match fget (to_key (cs_sel c)) (sm_flat (t_reg s)) with Some c' => cspec_eqb c c' | None => false end.
Definition reg_add (cs : list cspec) (r : smap cspec) : smap cspec :=
  fold_left (fun r c => sm_set (to_key (cs_sel c)) c r) cs r.
(* a module imported before does nothing (Python caches modules); registering while locked is the RuntimeError *)
Definition register_mod (env : fenv) (m : string) (s : tstate) : sres tstate :=
  let cs := mod_regs env m in
  if forallb (registered s) cs then SOk s
  else if t_locked s then SErr (SEOther "RuntimeError" [])
  else SOk (set_reg (reg_add cs (t_reg s)) s).

Definition str_of_value (v : out) : string := match v with OT "str" [OS s] => s | _ => "" end.

(* result tree of parse_config_file *)
Inductive itree := INode (filename : string) (imports : list string) (includes : list itree).

(* references are created (and may fail) while the statement — for a block: the whole block — is being
   parsed, i.e. before any of its members is applied: resolve every value of the yielded group first *)
Fixpoint resolve_group (s : tstate) (sk : skip_unknown) (fname : string) (stmts : list stmt) : sres (list stmt) :=
  match stmts with
  | [] => SOk []
  | SBind sc sel arg v line :: rest =>
      match resolve_value 100 s sk v with
      | SErr e => with_loc (fname, line) (SErr e)
      | SOk v' => match resolve_group s sk fname rest with
                  | SErr e => SErr e
                  | SOk r' => SOk (SBind sc sel arg v' line :: r')
                  end
      end
  | st :: rest => match resolve_group s sk fname rest with SErr e => SErr e | SOk r' => SOk (st :: r') end
  end.

(* what an include statement does: given the file name, the line and the state *)
Definition inc_handler := string -> tstate -> tstate * sres itree.

(* the statement consumer (2371-2398) on the statements one parse step yielded.  An import statement that took
   effect is recorded (_IMPORTS.update, 2553) at once, in the state, besides being listed in the result: it stays
   recorded when a later statement of the file fails *)
Fixpoint apply_stmts (env : fenv) (sk : skip_unknown) (fname : string) (inc : inc_handler)
         (stmts : list stmt) (s : tstate) (imports : list string) (incl : list itree)
  : tstate * sres (list string * list itree) :=
  match stmts with
  | [] => (s, SOk (imports, incl))
  | st :: rest =>
      match st with
      | SBind sc sel arg v line =>
          let l := (fname, line) in
          if String.eqb arg "" then
            match bind s (if String.eqb sc "" then sel else sc ++ "/" ++ sel) "gin.macro" "value" v l with
            | SErr e => (s, with_loc l (SErr e))
            | SOk s' => apply_stmts env sk fname inc rest s' imports incl
            end
          else if should_skip s sel sk then apply_stmts env sk fname inc rest s imports incl
          else match bind s sc sel arg v l with
               | SErr e => (s, with_loc l (SErr e))
               | SOk s' => apply_stmts env sk fname inc rest s' imports incl
               end
      | SBlock sc sel line =>
          if should_skip s sel sk then apply_stmts env sk fname inc rest s imports incl else
          match sm_get_match (to_key sel) (t_reg s) with
          | MOne _ (Some _) => apply_stmts env sk fname inc rest s imports incl
          | MAmbiguous => (s, with_loc (fname, line) (SErr (SEOther "KeyError" [])))
          | _ => (s, with_loc (fname, line) (SErr (SEOther "ValueError" [])))
          end
      | SImport m is_from alias line =>
          if str_in m (e_modules env) then
            match register_mod env m s with
            | SErr e => (s, with_loc (fname, line) (SErr e))
            | SOk s' => apply_stmts env sk fname inc rest (add_imports [m] s') (imports ++ [m]) incl
            end
          else if sk_truthy sk then apply_stmts env sk fname inc rest s imports incl
          else (s, with_loc (fname, line) (SErr (SEOther "ModuleNotFoundError" [])))
      | SInclude v line =>
          let '(s', r) := inc (str_of_value v) s in
          match r with
          | SErr e => (s', with_loc (fname, line) (SErr e))
          | SOk t => apply_stmts env sk fname inc rest s' imports (incl ++ [t])
          end
      end
  end.

(* parse_config on a token list: each statement (group) is applied before the next is tokenised;
   include statements parse the named file immediately (parse_config_file, 2492-2505), which records ITS imports
   as they take effect and returns its own import list *)
Fixpoint parse_tokens (fuel : nat) (env : fenv) (sk : skip_unknown) (fname : string)
         (o : oracle) (pending : bool) (ts : list token) (s : tstate) (imports : list string) (incl : list itree)
         {struct fuel} : tstate * sres (list string * list itree) :=
  match fuel with
  | O => (s, SErr (SEOther "RecursionError" []))
  | S f =>
      match parse_statement o pending ts with
      | PErr (ESyntax line) => (s, SErr (SESyntax fname line))
      | PErr (EOther c) => (s, SErr (SEOther c []))
      | POk None => (s, SOk (imports, incl))
      | POk (Some (stmts, ts', pending')) =>
          match resolve_group s sk fname stmts with
          | SErr e => (s, SErr e)
          | SOk stmts' =>
              let inc : inc_handler := fun name s =>
                match resolve_file env name with
                | None => (s, SErr (SEOther "OSError" []))
                | Some (full, g) =>
                    let '(s', r) :=
                      match settle (f_tokens g) with
                      | PErr (ESyntax ln) => (s, SErr (SESyntax full ln))
                      | PErr (EOther c) => (s, SErr (SEOther c []))
                      | POk ts0 => parse_tokens f env sk full (f_oracle g) false ts0 s [] []
                      end in
                    match r with
                    | SErr e => (s', SErr e)
                    | SOk (im, ic) => (s', SOk (INode name im ic))
                    end
                end in
              let '(s1, r) := apply_stmts env sk fname inc stmts' s imports incl in
              match r with
              | SErr e => (s1, SErr e)
              | SOk (imports', incl') => parse_tokens f env sk fname o pending' ts' s1 imports' incl'
              end
          end
      end
  end.

(* parse_config(text) : __init__ settles the first token; a tokenizer error there escapes the constructor *)
Definition parse_config (env : fenv) (sk : skip_unknown) (fname : string) (g : gfile) (s : tstate)
  : tstate * sres (list string * list itree) :=
  match settle (f_tokens g) with
  | PErr (ESyntax line) => (s, SErr (SESyntax fname line))
  | PErr (EOther c) => (s, SErr (SEOther c []))
  | POk ts => parse_tokens 60 env sk fname (f_oracle g) false ts s [] []
  end.

Definition parse_config_file (env : fenv) (sk : skip_unknown) (name : string) (s : tstate)
  : tstate * sres itree :=
  match resolve_file env name with
  | None => (s, SErr (SEOther "OSError" []))
  | Some (full, g) =>
      let '(s', r) := parse_config env sk full g s in
      match r with
      | SErr e => (s', SErr e)
      | SOk (im, inc) => (s', SOk (INode name im inc))
      end
  end.

(* ---- the code before the repair (fix e251e03): the imports of a file were recorded only once, after its last
   statement (`_IMPORTS.update(parse_context.imports)` after the loop), so a parse that failed later on left imports
   that HAD taken effect unrecorded (refuted: C16_orig_failed_parse_loses_imports) ---- *)
Fixpoint apply_stmts_orig (env : fenv) (sk : skip_unknown) (fname : string) (inc : inc_handler)
         (stmts : list stmt) (s : tstate) (imports : list string) (incl : list itree)
  : tstate * sres (list string * list itree) :=
  match stmts with
  | [] => (s, SOk (imports, incl))
  | st :: rest =>
      match st with
      | SBind sc sel arg v line =>
          let l := (fname, line) in
          if String.eqb arg "" then
            match bind s (if String.eqb sc "" then sel else sc ++ "/" ++ sel) "gin.macro" "value" v l with
            | SErr e => (s, with_loc l (SErr e))
            | SOk s' => apply_stmts_orig env sk fname inc rest s' imports incl
            end
          else if should_skip s sel sk then apply_stmts_orig env sk fname inc rest s imports incl
          else match bind s sc sel arg v l with
               | SErr e => (s, with_loc l (SErr e))
               | SOk s' => apply_stmts_orig env sk fname inc rest s' imports incl
               end
      | SBlock sc sel line =>
          if should_skip s sel sk then apply_stmts_orig env sk fname inc rest s imports incl else
          match sm_get_match (to_key sel) (t_reg s) with
          | MOne _ (Some _) => apply_stmts_orig env sk fname inc rest s imports incl
          | MAmbiguous => (s, with_loc (fname, line) (SErr (SEOther "KeyError" [])))
          | _ => (s, with_loc (fname, line) (SErr (SEOther "ValueError" [])))
          end
      | SImport m is_from alias line =>
          if str_in m (e_modules env) then
            match register_mod env m s with
            | SErr e => (s, with_loc (fname, line) (SErr e))
            | SOk s' => apply_stmts_orig env sk fname inc rest s' (imports ++ [m]) incl
            end
          else if sk_truthy sk then apply_stmts_orig env sk fname inc rest s imports incl
          else (s, with_loc (fname, line) (SErr (SEOther "ModuleNotFoundError" [])))
      | SInclude v line =>
          let '(s', r) := inc (str_of_value v) s in
          match r with
          | SErr e => (s', with_loc (fname, line) (SErr e))
          | SOk t => apply_stmts_orig env sk fname inc rest s' imports (incl ++ [t])
          end
      end
  end.

Fixpoint parse_tokens_orig (fuel : nat) (env : fenv) (sk : skip_unknown) (fname : string)
         (o : oracle) (pending : bool) (ts : list token) (s : tstate) (imports : list string) (incl : list itree)
         {struct fuel} : tstate * sres (list string * list itree) :=
  match fuel with
  | O => (s, SErr (SEOther "RecursionError" []))
  | S f =>
      match parse_statement o pending ts with
      | PErr (ESyntax line) => (s, SErr (SESyntax fname line))
      | PErr (EOther c) => (s, SErr (SEOther c []))
      | POk None => (add_imports imports s, SOk (imports, incl))
      | POk (Some (stmts, ts', pending')) =>
          match resolve_group s sk fname stmts with
          | SErr e => (s, SErr e)
          | SOk stmts' =>
              let inc : inc_handler := fun name s =>
                match resolve_file env name with
                | None => (s, SErr (SEOther "OSError" []))
                | Some (full, g) =>
                    let '(s', r) :=
                      match settle (f_tokens g) with
                      | PErr (ESyntax ln) => (s, SErr (SESyntax full ln))
                      | PErr (EOther c) => (s, SErr (SEOther c []))
                      | POk ts0 => parse_tokens_orig f env sk full (f_oracle g) false ts0 s [] []
                      end in
                    match r with
                    | SErr e => (s', SErr e)
                    | SOk (im, ic) => (s', SOk (INode name im ic))
                    end
                end in
              let '(s1, r) := apply_stmts_orig env sk fname inc stmts' s imports incl in
              match r with
              | SErr e => (s1, SErr e)
              | SOk (imports', incl') => parse_tokens_orig f env sk fname o pending' ts' s1 imports' incl'
              end
          end
      end
  end.

Definition parse_config_orig (env : fenv) (sk : skip_unknown) (fname : string) (g : gfile) (s : tstate)
  : tstate * sres (list string * list itree) :=
  match settle (f_tokens g) with
  | PErr (ESyntax line) => (s, SErr (SESyntax fname line))
  | PErr (EOther c) => (s, SErr (SEOther c []))
  | POk ts => parse_tokens_orig 60 env sk fname (f_oracle g) false ts s [] []
  end.

(* ---- observations ---- *)
Definition serr_out (e : serr) : out :=
  match e with
  | SESyntax _ l => OT "SyntaxError" [OZ (Z.of_nat l)]
  | SEOther c ch => OT "Err" [OS c; OL (map (fun x => OL [OS (fst x); OZ (Z.of_nat (snd x))]) ch)]
  end.
Fixpoint itree_out (t : itree) : out :=
  match t with INode f im inc => OT "File" [OS f; OL (map OS im); OL (map itree_out inc)] end.
Definition store_out (s : tstate) : out :=
  OL (map (fun e => OL [OS (fst (fst e)); OS (snd (fst e));
                        OL (map (fun kv => OL [OS (fst kv); snd kv]) (snd e))]) (t_store s)).
Definition prov_out (s : tstate) : out :=
  OL (map (fun e => OL [OS (fst (fst e)); OS (snd (fst e));
                        OL (map (fun kv => OL [OS (fst kv); OS (fst (snd kv)); OZ (Z.of_nat (snd (snd kv)))]) (snd e))])
          (t_prov s)).

(* engine: a sequence of parse calls on one state *)
Inductive pcall :=
| PText (g : gfile) (sk : skip_unknown)           (* parse_config(text, skip_unknown) *)
| PFile (name : string) (sk : skip_unknown).      (* parse_config_file(name, skip_unknown) *)

Definition run_call (env : fenv) (s : tstate) (c : pcall) : tstate * out :=
  match c with
  | PText g sk =>
      let '(s', r) := parse_config env sk "" g s in
      (s', match r with
           | SErr e => serr_out e
           | SOk (im, inc) => OT "Ok" [OL (map OS im); OL (map itree_out inc)]
           end)
  | PFile name sk =>
      let '(s', r) := parse_config_file env sk name s in
      (s', match r with SErr e => serr_out e | SOk t => OT "Ok" [itree_out t] end)
  end.

Definition init_tstate (regs : list cspec) (consts : list string) : tstate :=
  {| t_reg := fold_left (fun m c => sm_set (to_key (cs_sel c)) c m)
                        (regs ++ [ {| cs_sel := "gin.macro"; cs_args := ["value"]; cs_varkw := false; cs_allow := []; cs_deny := [] |};
                                   {| cs_sel := "gin.constant"; cs_args := []; cs_varkw := false; cs_allow := []; cs_deny := [] |};
                                   {| cs_sel := "gin.singleton"; cs_args := ["constructor"]; cs_varkw := false; cs_allow := []; cs_deny := [] |} ])
                        sm_empty;
     t_consts := fold_left (fun m c => sm_set (to_key c) tt m) ("gin.REQUIRED" :: consts) sm_empty;
     t_store := []; t_prov := []; t_imports := []; t_locked := false |}.

Definition run (p : (list cspec * list string) * fenv * list pcall) : out :=
  let '(rc, env, calls) := p in
  let '(s, outs) := fold_left (fun acc c => let '(s, outs) := acc in
                                            let '(s', o) := run_call env s c in (s', outs ++ [o]))
                              calls (init_tstate (fst rc) (snd rc), []) in
  OL (outs ++ [store_out s; prov_out s]).
