(* Model of the registration core gin/config.py:_make_configurable (1677-1732) with the
   return conventions of configurable / register / external_configurable (1735-1969) and
   the class-decoration decision of _decorate_fn_or_cls (536-641) — as a transition
   system over an abstract registry.  What CPython's type machinery does with the
   dynamic subclass (name, module, doc, pickling, metaclass __call__) is observed by
   the harness, not modelled.  Definitions only. *)
From Coq Require Import List String ZArith Bool Arith.
From GinV Require Import Lib.Out Lib.PyStr.
Import ListNotations.
Open Scope string_scope.
Open Scope list_scope.

Inductive api := ApiConfigurable | ApiRegister | ApiExternal.

Record request : Type := {
  r_api : api;
  r_obj : nat;                    (* identity of the function / class being registered *)
  r_is_class : bool;
  r_name : string;                (* explicit or inferred name (may contain module components) *)
  r_module : option string;       (* explicit module, or the object's __module__, or None *)
  r_allow : list string;
  r_deny : list string;
  r_lists_are_lists : bool;       (* allowlist / denylist are list or tuple *)
  r_params : list string;         (* parameter names of the signature *)
  r_varkw : bool;
  r_required_listed : bool;       (* a signature-level REQUIRED parameter is denylisted / not allowlisted *)
  r_registered_methods : bool }.  (* the class has Gin-registered methods that need overriding *)

Record rstate : Type := {
  rs_registry : list (string * nat);   (* selector -> wrapped object id, registration order *)
  rs_locked : bool;
  rs_interactive : bool }.

Fixpoint rget (s : string) (l : list (string * nat)) : option nat :=
  match l with [] => None | (k, v) :: r => if String.eqb s k then Some v else rget s r end.
Fixpoint rset (s : string) (v : nat) (l : list (string * nat)) : list (string * nat) :=
  match l with [] => [(s, v)] | (k, w) :: r => if String.eqb s k then (k, v) :: r else (k, w) :: rset s v r end.
Definition str_in (s : string) (l : list string) : bool := existsb (String.eqb s) l.

Inductive outcome := Registered (selector : string) (returns_original : bool) | Rejected (cls : string).

(* the selector that would be registered *)
Definition selector_of (r : request) : option string :=
  if is_identifier (r_name r) then
    match r_module r with
    | Some m => if is_selector m then Some (m ++ "." ++ r_name r)%string else None
    | None => Some (r_name r)
    end
  else if is_selector (r_name r) then
    match r_module r with
    | Some m => if is_selector m then Some (m ++ "." ++ r_name r)%string else None
    | None => Some (r_name r)
    end
  else None.

Definition make_configurable (s : rstate) (r : request) : rstate * outcome :=
  if rs_locked s then (s, Rejected "RuntimeError") else
  match selector_of r with
  | None => (s, Rejected "ValueError")
  | Some sel =>
      if negb (rs_interactive s) &&
         match rget sel (rs_registry s) with Some o => negb (Nat.eqb o (r_obj r)) | None => false end
      then (s, Rejected "ValueError")
      else if negb (match r_allow r with [] => true | _ => false end) && negb (match r_deny r with [] => true | _ => false end)
      then (s, Rejected "ValueError")
      else if negb (r_lists_are_lists r) then (s, Rejected "TypeError")
      else if negb (forallb (fun a => r_varkw r || str_in a (r_params r)) (r_allow r ++ r_deny r))
      then (s, Rejected "ValueError")
      else if r_required_listed r then (s, Rejected "ValueError")
      else ({| rs_registry := rset sel (r_obj r) (rs_registry s); rs_locked := rs_locked s; rs_interactive := rs_interactive s |},
            Registered sel (match r_api r with ApiRegister => true | _ => false end))
  end.

(* what constructing through a registry handle yields: the original class exactly, unless registered
   methods have to be overridden (then an instance of the dynamic subclass, still a subclass instance) *)
Inductive instance_kind := ExactlyOriginal | SubclassInstance | OriginalMutatedInPlace.
Definition instance_class (a : api) (scoped has_methods : bool) : instance_kind :=
  match a with
  | ApiConfigurable => if scoped then (if has_methods then SubclassInstance else ExactlyOriginal) else OriginalMutatedInPlace
  | _ => if has_methods then SubclassInstance else ExactlyOriginal
  end.

Definition outcome_out (o : outcome) : out :=
  match o with
  | Registered sel orig => OT "Registered" [OS sel; OB orig]
  | Rejected c => OT "Rejected" [OS c]
  end.
Definition kind_out (k : instance_kind) : out :=
  match k with ExactlyOriginal => OS "exact" | SubclassInstance => OS "subclass" | OriginalMutatedInPlace => OS "exact" end.

Inductive rop := RReg (r : request) | REnterInteractive | RExitInteractive | RLock | RUnlock.
Definition rstep (s : rstate) (o : rop) : rstate * out :=
  match o with
  | RReg r => let '(s', oc) := make_configurable s r in
              (s', OL [outcome_out oc; OL (map (fun kv => OS (fst kv)) (rs_registry s'))])
  | REnterInteractive => ({| rs_registry := rs_registry s; rs_locked := rs_locked s; rs_interactive := true |}, ONone)
  | RExitInteractive => ({| rs_registry := rs_registry s; rs_locked := rs_locked s; rs_interactive := false |}, ONone)
  | RLock => ({| rs_registry := rs_registry s; rs_locked := true; rs_interactive := rs_interactive s |}, ONone)
  | RUnlock => ({| rs_registry := rs_registry s; rs_locked := false; rs_interactive := rs_interactive s |}, ONone)
  end.
Definition run (ops : list rop) : out :=
  OL (snd (fold_left (fun acc o => let '(s, outs) := acc in let '(s', ob) := rstep s o in (s', outs ++ [ob]))
                     ops ({| rs_registry := []; rs_locked := false; rs_interactive := false |}, []))).
