(* correspondence entry point for Model/Lexer.v: the text itself is the input; the observation is the token list of
   the real tokenizer (or Unsupported for a text outside the modelled class) *)
From Coq Require Import List String ZArith.
From GinV Require Import Lib.Out Model.Parser Model.Lexer.
Import ListNotations.
Open Scope string_scope.
Definition ttype_name (t : ttype) : string :=
  match t with
  | NAME => "NAME" | NUMBER => "NUMBER" | STRING => "STRING" | OP => "OP" | NEWLINE => "NEWLINE" | NL => "NL"
  | COMMENT => "COMMENT" | INDENT => "INDENT" | DEDENT => "DEDENT" | ENDMARKER => "ENDMARKER"
  | ERRORTOKEN => "ERRORTOKEN" | TERR => "TERR" | OTHER => "OTHER"
  end.
Definition tok_out (t : token) : out :=
  OT (ttype_name (ty t)) [OS (text t); OZ (Z.of_nat (srow t)); OZ (Z.of_nat (scol t)); OZ (Z.of_nat (erow t)); OZ (Z.of_nat (ecol t))].
Definition run_lex (s : string) : out :=
  match lex s with None => OT "Unsupported" [] | Some ts => OL (map tok_out ts) end.
(* the parser model on the LEXER's tokens (atoms through the oracle): text -> statements, no tokenizer oracle at all *)
Definition run_text (p : oracle * string) : out :=
  match lex (snd p) with None => OT "Unsupported" [] | Some ts => run_stmts (fst p, ts) end.
