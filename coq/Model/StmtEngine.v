(* Extra entry point for the text machine: parse_config_files_and_bindings (2540-2558):
   files in the order given, then the bindings, then finalize unless told not to.
   finalize is modelled only as "lock" here: the generator keeps the configuration free of
   macros / unknown references / user hooks when it asks for finalization. *)
From Coq Require Import List String ZArith Bool Arith.
From GinV Require Import Lib.Out Lib.PyStr Model.SelectorMap Model.Parser Model.Stmt.
Import ListNotations.
Open Scope string_scope.
Open Scope list_scope.

Inductive pcall2 :=
| P1 (c : pcall)
| PFilesBindings (files : list string) (bindings : gfile) (finalize : bool) (sk : skip_unknown)
| PBindApi (scope sel arg : string) (v : out).     (* gin.bind_parameter from Python: no statement, hence no location *)

(* bind_parameter (1087-1094) records the location even when there is none, so that a value set from Python is not
   attributed to the statement that set the previous value *)
Definition no_loc : loc := ("<none>", 0).

Definition run_call2 (env : fenv) (s : tstate) (c : pcall2) : tstate * out :=
  match c with
  | P1 c => run_call env s c
  | PBindApi scope sel arg v =>
      match bind s scope sel arg v no_loc with
      | SOk s' => (s', OT "Ok" [])
      | SErr e => (s, serr_out e)
      end
  | PFilesBindings files b fin sk =>
      let '(s1, r) :=
        fold_left (fun acc f =>
                     let '(s, r) := acc in
                     match r with
                     | SErr e => (s, SErr e)
                     | SOk trees =>
                         let '(s', r') := parse_config_file env sk f s in
                         match r' with SErr e => (s', SErr e) | SOk t => (s', SOk (trees ++ [t])) end
                     end) files (s, SOk []) in
      match r with
      | SErr e => (s1, serr_out e)
      | SOk trees =>
          let '(s2, r2) := parse_config env sk "" b s1 in
          match r2 with
          | SErr e => (s2, serr_out e)
          | SOk _ =>
              if fin then
                if t_locked s2 then (s2, OT "Err" [OS "RuntimeError"; OL []])
                else (set_locked true s2, OT "Ok" [OL (map itree_out trees)])
              else (s2, OT "Ok" [OL (map itree_out trees)])
          end
      end
  end.

Definition run2 (p : (list cspec * list string) * fenv * list pcall2) : out :=
  let '(rc, env, calls) := p in
  let '(s, outs) := fold_left (fun acc c => let '(s, outs) := acc in
                                            let '(s', o) := run_call2 env s c in (s', outs ++ [o]))
                              calls (init_tstate (fst rc) (snd rc), []) in
  OL (outs ++ [store_out s; prov_out s; OB (t_locked s)]).

(* ---- the recorded imports (gin.config._IMPORTS) as the harness observes them: the SET of module names, sorted ---- *)
Fixpoint imp_insert (m : string) (l : list string) : list string :=
  match l with
  | [] => [m]
  | x :: r => if String.eqb m x then l else if String.leb m x then m :: l else x :: imp_insert m r
  end.
Definition imports_canon (l : list string) : list string := fold_right imp_insert [] l.
Definition imports_out (s : tstate) : out := OL (map OS (imports_canon (t_imports s))).

(* Stmt.run, observing in addition which imports are recorded when the calls are over (whether they succeeded or not) *)
Definition run_imports (p : (list cspec * list string) * fenv * list pcall) : out :=
  let '(rc, env, calls) := p in
  let '(s, outs) := fold_left (fun acc c => let '(s, outs) := acc in
                                            let '(s', o) := run_call env s c in (s', outs ++ [o]))
                              calls (init_tstate (fst rc) (snd rc), []) in
  OL (outs ++ [store_out s; prov_out s; imports_out s]).
