(* Character-level model of pprint.pformat (CPython 3.12.1, Lib/pprint.py) on literal value trees (Model/Repr.v),
   with the settings gin's _config_str uses:  pprint.pformat(value, width = W)  i.e.
   indent = 1, depth = None, compact = False, sort_dicts = True, underscore_numbers = False.

   PrettyPrinter._format(object, stream, indent, allowance, context, level):
       rep = self._repr(object, ...)                      -- = repr(object), dict items in pprint's sorted order
       max_width = self._width - indent - allowance
       if len(rep) > max_width:  dispatch on type(object).__repr__   (list / tuple / dict / str / bytes ...)
       else / no dispatch entry:  stream.write(rep)
   _pprint_list:   '[' + _format_items(items, indent, allowance + 1) + ']'
   _pprint_tuple:  '(' + _format_items(items, indent, allowance + len(endchar)) + endchar,  endchar = ',)' for one item
   _pprint_dict:   '{' + _format_dict_items(sorted items, indent, allowance + 1) + '}'
   _format_items (compact = False): indent += 1; the items separated by ',\n' + ' ' * indent, each written by
       _format(item, indent, allowance if last else 1)
   _format_dict_items: indent += 1; each item  repr(key) + ': ' + _format(value, indent + len(repr(key)) + 2,
       allowance if last else 1), separated by ',\n' + ' ' * indent.
   The comparison  len(rep) > width - indent - allowance  is on Python integers (the right side may be negative); on
   naturals it is written  width < len(rep) + indent + allowance.

   RESTRICTIONS (stated, not modelled):
   * the dict items of the input tree are taken in the order given: the tree is built with the items already in
     pprint's order (sorted by pprint._safe_key), as the correspondence harness does; that the order of dict items
     does not matter for the value read back is C06_dict_order_irrelevant;
   * string atoms are written as their token text.  pprint._pprint_str splits a str that does not fit into several
     adjacent literals (at line breaks and blanks) and _pprint_bytes splits bytes objects longer than 4 bytes; with a
     single chunk both write repr unchanged.  The tree has the TOKEN of the string, not its content, so splitting is
     outside this model: it is exact for strs without whitespace / line breaks (never split) or short enough to fit,
     and for bytes of length <= 4.
   Definitions only. *)
From Coq Require Import List String ZArith Bool Arith Ascii.
From GinV Require Import Lib.Out Lib.PyStr Model.Parser Model.ParserSpec Model.Repr Model.Lexer Model.ReprText.
Import ListNotations.
Open Scope string_scope.
Open Scope list_scope.

Fixpoint blanks (n : nat) : string :=
  match n with O => "" | S k => String " " (blanks k) end.
Definition nls : string := String nl "".
(* the separator of _format_items / _format_dict_items: ',\n' + ' ' * indent *)
Definition delimnl (indent : nat) : string := ("," ++ nls ++ blanks indent)%string.

(* does [rep] fail to fit: len(rep) > width - indent - allowance *)
Definition too_wide (w : nat) (rep : string) (indent allowance : nat) : bool :=
  Nat.ltb w (String.length rep + indent + allowance)%nat.

(* PrettyPrinter._format; [indent] is the column the text starts in, [allowance] the room to leave at the end of the
   last line for the closing brackets / the comma of the enclosing containers *)
Fixpoint pformat_at (w : nat) (v : pv) {struct v} : nat -> nat -> string :=
  fun indent allowance =>
  let rep := repr_string v in
  if too_wide w rep indent allowance then
    match v with
    | PAtom _ | PNeg _ | PStr _ => rep
    | PList l =>
        ("[" ++
         (fix items (l : list pv) : string :=
            match l with
            | [] => ""
            | x :: r =>
                match r with
                | [] => pformat_at w x (S indent) (S allowance)
                | _ :: _ => pformat_at w x (S indent) 1 ++ delimnl (S indent) ++ items r
                end
            end) l ++ "]")%string
    | PTuple l =>
        let endlen := match l with [_] => 2 | _ => 1 end in
        ("(" ++
         (fix items (l : list pv) : string :=
            match l with
            | [] => ""
            | x :: r =>
                match r with
                | [] => pformat_at w x (S indent) (allowance + endlen)%nat
                | _ :: _ => pformat_at w x (S indent) 1 ++ delimnl (S indent) ++ items r
                end
            end) l ++ (match l with [_] => "," | _ => "" end) ++ ")")%string
    | PDict l =>
        ("{" ++
         (fix items (l : list (pv * pv)) : string :=
            match l with
            | [] => ""
            | (k, x) :: r =>
                let krep := repr_string k in
                let col := (S indent + String.length krep + 2)%nat in
                match r with
                | [] => krep ++ ": " ++ pformat_at w x col (S allowance)
                | _ :: _ => krep ++ ": " ++ pformat_at w x col 1 ++ delimnl (S indent) ++ items r
                end
            end) l ++ "}")%string
    end
  else rep.

(* pprint.pformat(value, width = w) *)
Definition pformat (w : nat) (v : pv) : string := pformat_at w v 0 0.

(* ---- gin/config.py: _config_str.format_binding ----
     formatted_val = pprint.pformat(value, width = max_line_length - continuation_indent)
     one line and len(key + formatted_val) <= max_line_length:  key = formatted_val
     else:  key = \ <newline> and the lines of formatted_val, each indented by continuation_indent blanks *)
Fixpoint has_nl (s : string) : bool :=
  match s with
  | EmptyString => false
  | String c r => Ascii.eqb c nl || has_nl r
  end.
(* '\n'.join(' ' * k + line for line in s.split('\n')) *)
Fixpoint indent_lines_from (k : nat) (s : string) : string :=
  match s with
  | EmptyString => EmptyString
  | String c r => if Ascii.eqb c nl then String c (blanks k ++ indent_lines_from k r) else String c (indent_lines_from k r)
  end.
Definition indent_lines (k : nat) (s : string) : string := (blanks k ++ indent_lines_from k s)%string.

Definition format_binding (maxlen indent : nat) (key : string) (v : pv) : string :=
  let text := pformat (maxlen - indent)%nat v in
  if negb (has_nl text) && Nat.leb (String.length key + String.length text)%nat maxlen
  then (key ++ " = " ++ text)%string
  else (key ++ " = \" ++ nls ++ indent_lines indent text)%string.

(* ---- erasing the layout (specification function for pformat_erase_layout) ----
   behind a comma, a newline and the blanks that follow it are replaced by one blank; everything else is kept *)
Inductive estate := ENormal | EComma | ESkip.
Fixpoint erase_chars (st : estate) (l : list ascii) : list ascii :=
  match l with
  | [] => []
  | c :: r =>
      let plain := c :: erase_chars (if Ascii.eqb c "," then EComma else ENormal) r in
      match st with
      | ENormal => plain
      | EComma => if Ascii.eqb c nl then " "%char :: erase_chars ESkip r else plain
      | ESkip => if Ascii.eqb c " " then erase_chars ESkip r else plain
      end
  end.
Definition erase_layout (s : string) : string := string_of_list_ascii (erase_chars ENormal (list_ascii_of_string s)).

(* an atom text that the erasure leaves alone wherever it stands: not empty, does not begin with a blank or a newline,
   contains no newline, does not end with a comma (every NAME / NUMBER token and every one-line STRING token) *)
Fixpoint plain_tail (prev_comma : bool) (l : list ascii) : bool :=
  match l with
  | [] => negb prev_comma
  | c :: r => negb (Ascii.eqb c nl) && plain_tail (Ascii.eqb c ",") r
  end.
Definition plain_text (s : string) : bool :=
  match list_ascii_of_string s with
  | [] => false
  | c :: r => negb (Ascii.eqb c " ") && negb (Ascii.eqb c nl) && plain_tail (Ascii.eqb c ",") r
  end.
