(* Operation language over the Gin machine + its interpreter.  A program is a
   list of ops; an exception escaping an op at top level is recorded and the
   run continues (the harness does the same with try/except around each
   top-level op); inside a body it propagates as in Python. *)
From Coq Require Import List String ZArith Bool Arith.
From GinV Require Import Lib.Out Lib.PyStr Model.SelectorMap Model.Values Model.Gin.
Import ListNotations.
Open Scope string_scope.
Open Scope list_scope.

Inductive op :=
| OBind (key : string) (v : value)                 (* bind_parameter('scope/sel.arg', v) *)
| OBindT (scope sel arg : string) (v : value)      (* bind_parameter((scope, sel, arg), v) *)
| OParse (key : string) (v : value)                (* parse_config('key = <v>') : one statement *)
| OQuery (key : string)
| OCall (sel : string) (args : list value) (kwargs : pdict)
| OCallVia (target : string) (args : list value) (kwargs : pdict)  (* gin.get_configurable('sc/sel')(...) *)
| OWith (a : scope_arg) (body : list op)
| ORaise
| OCurScope
| OGetBindings (target : string) (resolve inherit : bool)
| OFinalize
| OUnlock (body : list op)
| OClear (consts : bool)
| OLocked
| OConstant (name : string) (v : value)
| OInteractive (body : list op)
| ORegister (c : cfgable)
| OHook (h : hook)
| ODumpConfig
| ODumpOperative
| ODumpCalls.

(* ---- resolution of references when a value object is created (parse time) ---- *)
Fixpoint resolve (s : state) (v : value) {struct v} : res value :=
  match v with
  | VList l =>
      match (fix go (l : list value) : res (list value) :=
               match l with
               | [] => Ok []
               | x :: t => match resolve s x with
                           | Raise e => Raise e
                           | Ok x' => match go t with Raise e => Raise e | Ok t' => Ok (x' :: t') end
                           end
               end) l with Ok l' => Ok (VList l') | Raise e => Raise e end
  | VTuple l =>
      match (fix go (l : list value) : res (list value) :=
               match l with
               | [] => Ok []
               | x :: t => match resolve s x with
                           | Raise e => Raise e
                           | Ok x' => match go t with Raise e => Raise e | Ok t' => Ok (x' :: t') end
                           end
               end) l with Ok l' => Ok (VTuple l') | Raise e => Raise e end
  | VDict l =>
      match (fix go (l : list (value * value)) : res (list (value * value)) :=
               match l with
               | [] => Ok []
               | (k, x) :: t =>
                   match resolve s k with
                   | Raise e => Raise e
                   | Ok k' => match resolve s x with
                              | Raise e => Raise e
                              | Ok x' => match go t with Raise e => Raise e | Ok t' => Ok ((k', x') :: t') end
                              end
                   end
               end) l with
      (* config_parser._maybe_parse_container: dict(values) once every item has been parsed (so the references of
         all items exist): keys that are equal in Python (1 / True, equal tuples, references with the same config
         key and flag) are one entry, a key that cannot be hashed raises TypeError.  A Python dict handed to
         bind_parameter has been through the same construction. *)
      | Ok l' => match vdict_build l' with Some d => Ok (VDict d) | None => Raise "TypeError" end
      | Raise e => Raise e
      end
  | VRef sc sel ev =>
      match reg_lookup s sel with
      | LFound c => Ok (VRef sc (c_sel c) ev)
      | LAmbiguous => Raise "KeyError"
      | LNone => Raise "ValueError"
      end
  | VMacro name =>
      (* ParserDelegate.macro (861-869) *)
      match sm_matching (to_key name) (constants s) with
      | [] => Ok (VRef (split_slash name) "gin.macro" true)
      | [k] => Ok (VRef (split_slash (of_key k)) "gin.constant" true)
      | _ => Raise "ValueError"
      end
  | _ => Ok v
  end.

Definition pdict_out (d : pdict) : out := OL (map (fun kv => OL [OS (fst kv); value_out (snd kv)]) d).
Definition cdict_out (c : cdict) : out :=
  OL (map (fun e => OL [OS (fst (fst e)); OS (snd (fst e)); pdict_out (snd e)]) c).
Definition call_out (c : callrec) : out :=
  OL [OS (cr_sel c); OL (map OS (cr_scope c)); pdict_out (cr_env c); OZ (cr_n c)].

(* iterate_references / _iterate_flattened_values restricted to what the built-in hooks need *)
Fixpoint flat_values (fuel : nat) (v : value) : list value :=
  match fuel with
  | O => [v]
  | S f =>
      match v with
      | VList l | VTuple l => flat_map (flat_values f) l ++ [v]
      (* repaired code: keys are visited too (they are evaluated when the value is used) *)
      | VDict l => flat_map (fun kv => flat_values f (fst kv)) l ++ flat_map (fun kv => flat_values f (snd kv)) l ++ [v]
      | _ => [v]
      end
  end.
Definition all_config_values (s : state) : list (ckey * string * value) :=
  flat_map (fun e => map (fun kv => (fst e, fst kv, snd kv)) (snd e)) (config s).

(* validate_macros_hook (2847-2850) with the active scope empty *)
Definition macros_hook_ok (s : state) : bool :=
  forallb (fun t => forallb (fun x =>
             match x with
             | VRef sc "gin.macro" ev => amem ckey_eqb (scope_str sc, "gin.macro") (config s) && ev
             | _ => true
             end) (flat_values 50 (snd t))) (all_config_values s).
Definition unknown_refs_hook_ok (s : state) : bool :=
  forallb (fun t => forallb (fun x => match x with VUnk _ _ => false | _ => true end)
                            (flat_values 50 (snd t))) (all_config_values s).
(* find_missing_overrides_hook (2871-2883): a top-level %CONST binding is
   evaluated through the scoped gin.constant wrapper (which records the call in
   the operative config) and rejected when it yields gin.REQUIRED *)
Definition missing_overrides_hook (s : state) : state * res bool :=
  fold_left (fun acc t =>
     let '(st, r) := acc in
     match r with
     | Raise e => (st, Raise e)
     | Ok false => (st, Ok false)
     | Ok true =>
         match snd t with
         | VRef sc "gin.constant" _ =>
             let st := oper_update st (scope_str sc, "gin.constant") [] in
             match fget (to_key (scope_str sc)) (sm_flat (constants st)) with
             | Some VReq => (st, Ok false)
             | Some _ => (st, Ok true)
             | None => (st, Raise "KeyError")
             end
         | _ => (st, Ok true)
         end
     end) (all_config_values s) (s, Ok true).

(* finalize (2658-2675).  Keys of the collected dict are ParsedBindingKeys whose
   equality (repaired code) ignores the spelling. *)
Definition pbk := (ckey * string)%type.
Definition pbk_eqb (a b : pbk) : bool := ckey_eqb (fst a) (fst b) && String.eqb (snd a) (snd b).

Fixpoint collect_hooks (s : state) (hs : list hook) (acc : list (pbk * value)) : res (list (pbk * value)) :=
  match hs with
  | [] => Ok acc
  | HRaise e :: _ => Raise e
  | HReturn kvs :: r =>
      match (fix go (kvs : list (string * value)) (acc : list (pbk * value)) : res (list (pbk * value)) :=
               match kvs with
               | [] => Ok acc
               | (k, v) :: t =>
                   let '(scope, sel, arg) := parse_binding_key k in
                   match pbk_validate s scope sel arg with
                   | Raise e => Raise e
                   | Ok p => if amem pbk_eqb p acc then Raise "ValueError" else go t (acc ++ [(p, v)])
                   end
               end) kvs acc with
      | Raise e => Raise e
      | Ok acc' => collect_hooks s r acc'
      end
  end.

Definition finalize (s : state) : state * res unit :=
  if locked s then (s, Raise "RuntimeError") else
  if negb (macros_hook_ok s) then (s, Raise "ValueError") else
  if negb (unknown_refs_hook_ok s) then (s, Raise "ValueError") else
  let '(s, r) := missing_overrides_hook s in
  match r with
  | Raise e => (s, Raise e)
  | Ok false => (s, Raise "ValueError")
  | Ok true =>
      match collect_hooks s (hooks s) [] with
      | Raise e => (s, Raise e)
      | Ok upd =>
          let s' := fold_left (fun st pv =>
                      let '((ck, a), v) := pv in
                      let d := match cget ck (config st) with Some d => d | None => [] end in
                      set_config (cset ck (sset a v d) (config st)) st) upd s in
          (set_locked true s', Ok tt)
      end
  end.

(* constant (2803-2810) *)
Definition define_constant (s : state) (name : string) (v : value) : state * res unit :=
  if negb (is_selector name) then (s, Raise "ValueError") else
  if negb (interactive s) && negb (match sm_matching (to_key name) (constants s) with [] => true | _ => false end)
  then (s, Raise "ValueError")
  else (set_constants (sm_set (to_key name) v (constants s)) s, Ok tt).

(* clear_config (1015-1029) as it was before the repair (saved constants re-defined through
   constant(), which can raise): kept for the refutation theorem *)
Definition clear_config_orig (s : state) (consts : bool) : state * res unit :=
  let s := set_locked false s in
  let s := set_config [] s in
  let s := set_singletons [] s in
  if consts then (set_operative [] (set_constants req_constants s), Ok tt)
  else
    let saved := sm_flat (constants s) in
    let s := set_constants sm_empty s in
    let '(s, r) := fold_left (fun acc kv =>
                      let '(st, r) := acc in
                      match r with
                      | Raise e => (st, Raise e)
                      | Ok _ => define_constant st (of_key (fst kv)) (snd kv)
                      end) saved (s, Ok tt) in
    match r with
    | Raise e => (s, Raise e)
    | Ok _ => (set_operative [] s, Ok tt)
    end.

(* clear_config (1015-1029), repaired: the saved constants are re-inserted directly *)
Definition clear_config (s : state) (consts : bool) : state * res unit :=
  let s := set_locked false s in
  let s := set_config [] s in
  let s := set_singletons [] s in
  if consts then (set_operative [] (set_constants req_constants s), Ok tt)
  else
    let saved := sm_flat (constants s) in
    let rebuilt := fold_left (fun m kv => sm_set (fst kv) (snd kv) m) saved sm_empty in
    (set_operative [] (set_constants rebuilt s), Ok tt).

(* _make_configurable (1677-1732), for function-shaped probes *)
Definition same_cfg (a b : cfgable) : bool := String.eqb (c_sel a) (c_sel b).
Definition register (s : state) (c : cfgable) (same_object : bool) : state * res unit :=
  if locked s then (s, Raise "RuntimeError") else
  if negb (is_selector (c_sel c)) then (s, Raise "ValueError") else
  if negb (interactive s) && fmem (to_key (c_sel c)) (sm_flat (reg s)) && negb same_object
  then (s, Raise "ValueError") else
  if negb (match c_allow c with [] => true | _ => false end) && negb (match c_deny c with [] => true | _ => false end)
  then (s, Raise "ValueError") else
  if negb (forallb (might_have_parameter (c_sig c)) (c_allow c)) then (s, Raise "ValueError") else
  if negb (forallb (might_have_parameter (c_sig c)) (c_deny c)) then (s, Raise "ValueError") else
  (* _get_validated_required_kwargs (1195-1210) *)
  if existsb (fun k => str_in k (c_deny c) ||
                       (negb (match c_allow c with [] => true | _ => false end) && negb (str_in k (c_allow c))))
             (signature_required c)
  then (s, Raise "ValueError") else
  (set_reg (sm_set (to_key (c_sel c)) c (reg s)) s, Ok tt).

Definition run_res (x : state * res unit) (okobs : out) : state * res unit :=
  let '(s, r) := x in match r with Ok _ => (emit okobs s, Ok tt) | Raise e => (s, Raise e) end.

Fixpoint exec (fuel : nat) (s : state) (o : op) {struct fuel} : state * res unit :=
  match fuel with
  | O => (s, Raise "RecursionError")
  | S f =>
      let exec_body := (fix go (s : state) (body : list op) : state * res unit :=
         match body with
         | [] => (s, Ok tt)
         | x :: t => let '(s1, r) := exec f s x in
                     match r with Raise e => (s1, Raise e) | Ok _ => go s1 t end
         end) in
      match o with
      | OBind key v =>
          match resolve s v with
          | Raise e => (s, Raise e)
          | Ok v' => let '(scope, sel, arg) := parse_binding_key key in
                     run_res (bind_split s scope sel arg v') ONone
          end
      | OParse key v =>
          (* statement consumer (2371-2380): a key without '.arg' defines a macro *)
          match resolve s v with
          | Raise e => (s, Raise e)
          | Ok v' => let '(scope, sel, arg) := parse_binding_key key in
                     if String.eqb arg "" then
                       run_res (bind_split s (if String.eqb scope "" then sel else scope ++ "/" ++ sel)
                                           "gin.macro" "value" v') ONone
                     else run_res (bind_split s scope sel arg v') ONone
          end
      | OBindT scope sel arg v =>
          match resolve s v with
          | Raise e => (s, Raise e)
          | Ok v' => run_res (bind_split s scope sel arg v') ONone
          end
      | OQuery key =>
          (* query_parameter (1101-1115) *)
          let cm := if is_selector key then sm_matching (to_key key) (constants s) else [] in
          match cm with
          | [k] => match fget k (sm_flat (constants s)) with
                   | Some v => (emit (value_out v) s, Ok tt)
                   | None => (s, Raise "ModelError")
                   end
          | _ :: _ :: _ => (s, Raise "ValueError")
          | [] =>
              let '(scope, sel, arg) := parse_binding_key key in
              match pbk_validate s scope sel arg with
              | Raise e => (s, Raise e)
              | Ok (ck, a) =>
                  match cget ck (config s) with
                  | None => (s, Raise "ValueError")
                  | Some d => match sget a d with
                              | None => (s, Raise "ValueError")
                              | Some v => (emit (value_out v) s, Ok tt)
                              end
                  end
              end
          end
      | OCall sel args kwargs =>
          let '(s1, r) := call f s sel args kwargs in
          match r with
          | Ok v => (emit (value_out v) s1, Ok tt)
          | Raise e => (s1, Raise e)
          end
      | OCallVia target args kwargs =>
          (* get_configurable (1469-1471): _as_scope_and_selector, then _decorate_with_scope *)
          let parts := split_slash target in
          match reg_lookup s (last parts "") with
          | LAmbiguous => (s, Raise "KeyError")
          | LNone => (s, Raise "ValueError")
          | LFound c =>
              let sc := match removelast parts with [] => current_scope s | sc => sc end in
              let '(s1, r) := call_handle f s sc (c_sel c) args kwargs in
              match r with
              | Ok v => (emit (value_out v) s1, Ok tt)
              | Raise e => (s1, Raise e)
              end
          end
      | OWith a body =>
          let '(new_scope, valid) := enter_scope_value (current_scope s) a in
          let s1 := set_scopes (new_scope :: scopes s) s in
          if negb valid || negb (scope_valid new_scope)
          then (set_scopes (scopes s) s1, Raise "ValueError")
          else
            let s1 := emit (OL (map OS new_scope)) s1 in
            let '(s2, r) := exec_body s1 body in
            (set_scopes (tl (scopes s2)) s2, r)
      | ORaise => (s, Raise "KeyError")
      | OCurScope => (emit (OL (map OS (current_scope s))) s, Ok tt)
      | OGetBindings target resolve_refs inherit =>
          (* _as_scope_and_selector (1348-1378) for a selector string + get_bindings *)
          let parts := split_slash target in
          let sc := removelast parts in
          let sel := last parts "" in
          match reg_lookup s sel with
          | LAmbiguous => (s, Raise "KeyError")
          | LNone => (s, Raise "ValueError")
          | LFound c =>
              let sc := match sc with [] => current_scope s | _ => sc end in
              let b := get_bindings_for (config s) (match sc with [] => current_scope s | _ => sc end)
                                        (c_sel c) inherit in
              if resolve_refs then
                let '(s1, r) := eval f s (VDict (map (fun kv => (VStr (fst kv), snd kv)) b)) in
                match r with
                | Ok (VDict l) => (emit (OL (map (fun kv => OL [value_out (fst kv); value_out (snd kv)]) l)) s1, Ok tt)
                | Ok _ => (s1, Raise "ModelError")
                | Raise e => (s1, Raise e)
                end
              else (emit (pdict_out b) s, Ok tt)
          end
      | OFinalize => run_res (finalize s) ONone
      | OUnlock body =>
          (* unlock_config with the repaired try/finally *)
          let was := locked s in
          let '(s1, r) := exec_body (set_locked false s) body in
          (set_locked was s1, r)
      | OClear consts => run_res (clear_config s consts) ONone
      | OLocked => (emit (OB (locked s)) s, Ok tt)
      | OConstant name v => run_res (define_constant s name v) ONone
      | OInteractive body =>
          let '(s1, r) := exec_body (set_interactive true s) body in
          (set_interactive false s1, r)
      | ORegister c => run_res (register s c false) ONone
      | OHook h => (emit ONone (set_hooks (hooks s ++ [h]) s), Ok tt)
      | ODumpConfig => (emit (cdict_out (config s)) s, Ok tt)
      | ODumpOperative => (emit (cdict_out (operative s)) s, Ok tt)
      | ODumpCalls => (emit (OL (map call_out (rev (calllog s)))) s, Ok tt)
      end
  end.

Fixpoint run_top (fuel : nat) (s : state) (ops : list op) : state :=
  match ops with
  | [] => s
  | o :: r =>
      let '(s1, res) := exec fuel s o in
      let s2 := match res with Ok _ => s1 | Raise e => emit (OErr e) s1 end in
      run_top fuel s2 r
  end.

Definition setup (regs : list cfgable) : state :=
  fold_left (fun s c => fst (register s c false)) regs init_state.

Definition run (p : list cfgable * list op) : out :=
  let s := run_top 200 (setup (fst p)) (snd p) in
  OL (rev (obs s)).
