(* Model of gin/config_parser.py: the recursive-descent parser over the token
   stream produced by CPython's tokenizer (which is NOT modelled: the harness
   runs the real tokenizer and hands the token list, with the position where
   the tokenizer raised, to this model).  Atoms are evaluated by an oracle
   table text -> value built by the harness with ast.literal_eval.
   Line numbers refer to /repo/gin/config_parser.py.  Definitions only. *)
From Coq Require Import List String ZArith Bool Arith Ascii.
From GinV Require Import Lib.Out Lib.PyStr.
Import ListNotations.
Open Scope string_scope.
Open Scope list_scope.

Inductive ttype := NAME | NUMBER | STRING | OP | NEWLINE | NL | COMMENT | INDENT | DEDENT
                 | ENDMARKER | ERRORTOKEN | OTHER | TERR.
Definition ttype_eqb (a b : ttype) : bool :=
  match a, b with
  | NAME, NAME | NUMBER, NUMBER | STRING, STRING | OP, OP | NEWLINE, NEWLINE | NL, NL
  | COMMENT, COMMENT | INDENT, INDENT | DEDENT, DEDENT | ENDMARKER, ENDMARKER
  | ERRORTOKEN, ERRORTOKEN | OTHER, OTHER | TERR, TERR => true
  | _, _ => false
  end.

(* TERR: the tokenizer raised here; text = exception class name *)
Record token := { ty : ttype; text : string; srow : nat; scol : nat; erow : nat; ecol : nat }.
Definition eof_token : token := {| ty := ENDMARKER; text := ""; srow := 0; scol := 0; erow := 0; ecol := 0 |}.

(* errors: SyntaxError carries the line of its location; other classes propagate by name *)
Inductive perr := ESyntax (line : nat) | EOther (cls : string).
Inductive pres (A : Type) := POk (a : A) | PErr (e : perr).
Arguments POk {A}. Arguments PErr {A}.

Definition oracle := list (string * option out).   (* text -> ast.literal_eval(text), None = raises *)
Fixpoint olookup (o : oracle) (s : string) : option (option out) :=
  match o with [] => None | (k, v) :: r => if String.eqb s k then Some v else olookup r s end.

Definition cur (ts : list token) : token := hd eof_token ts.
Definition cur_is (ts : list token) (s : string) : bool := String.eqb (text (cur ts)) s.
Definition cur_ty (ts : list token) (t : ttype) : bool := ttype_eqb (ty (cur ts)) t.
Definition in_types (t : ttype) (l : list ttype) : bool := existsb (ttype_eqb t) l.

(* _advance_one_token (285-291): next(generator), then skip ERRORTOKENs made of blanks *)
Fixpoint settle (ts : list token) : pres (list token) :=
  match ts with
  | [] => PErr (EOther "StopIteration")
  | t :: r =>
      match ty t with
      | TERR => if String.eqb (text t) "TokenError" then PErr (EOther (text t))
                else PErr (ESyntax (srow t))      (* IndentationError / TabError / SyntaxError: lineno *)
      | ERRORTOKEN =>
          if String.eqb (text t) " " || String.eqb (text t) (String (ascii_of_nat 9) "") || String.eqb (text t) ""
          then settle r else POk ts
      | _ => POk ts
      end
  end.
Definition advance_one (ts : list token) : pres (list token) :=
  match ts with [] => PErr (EOther "StopIteration") | _ :: r => settle r end.

(* _skip (346-348) *)
Fixpoint skip (fuel : nat) (types : list ttype) (ts : list token) : pres (list token) :=
  match fuel with
  | O => POk ts
  | S f => if in_types (ty (cur ts)) types
           then match advance_one ts with PErr e => PErr e | POk ts' => skip f types ts' end
           else POk ts
  end.
Definition ws_types (within_block : bool) : list ttype :=
  if within_block then [COMMENT; NL] else [COMMENT; NL; INDENT; DEDENT].
Definition skip_ws (wb : bool) (ts : list token) : pres (list token) := skip (S (List.length ts)) (ws_types wb) ts.
(* _advance (314-316) *)
Definition advance (wb : bool) (ts : list token) : pres (list token) :=
  match advance_one ts with PErr e => PErr e | POk ts' => skip_ws wb ts' end.

Definition syntax_here {A} (ts : list token) : pres A := PErr (ESyntax (srow (cur ts))).

(* ---- _parse_selector (358-415) ---- *)
(* the alternating NAME / sep loop; returns parts, the consumed tokens and the rest *)
Fixpoint sel_loop (fuel : nat) (parity : bool) (ts : list token) (parts : list string) (toks : list token)
  : pres (list string * list token * list token) :=
  match fuel with
  | O => POk (parts, toks, ts)
  | S f =>
      let c := cur ts in
      if (negb parity && ttype_eqb (ty c) NAME) || (parity && (String.eqb (text c) "/" || String.eqb (text c) "."))
      then match advance_one ts with
           | PErr e => PErr e
           | POk ts' => sel_loop f (negb parity) ts' (parts ++ [text c]) (toks ++ [c])
           end
      else POk (parts, toks, ts)
  end.
(* line[begin:end] == ''.join(parts): all consumed tokens on one line, each starting where the previous ended *)
Fixpoint contiguous (toks : list token) : bool :=
  match toks with
  | a :: ((b :: _) as r) => Nat.eqb (srow a) (srow b) && Nat.eqb (erow a) (srow b) && Nat.eqb (ecol a) (scol b) && contiguous r
  | [a] => Nat.eqb (srow a) (erow a)
  | [] => true
  end.
Fixpoint concat_strs (l : list string) : string := match l with [] => "" | x :: r => (x ++ concat_strs r)%string end.
Definition selector_format_ok (scoped allow_periods : bool) (s : string) : bool :=
  let parts := split_slash s in
  let scopes := removelast parts in
  let last_ := last parts "" in
  forallb (if allow_periods then is_selector else is_identifier) scopes && is_selector last_
  && (scoped || Nat.eqb (List.length parts) 1).
Definition parse_selector (scoped allow_periods wb : bool) (ts : list token) : pres (string * list token) :=
  if negb (cur_ty ts NAME) then syntax_here ts else
  let begin_line := srow (cur ts) in
  match sel_loop (S (List.length ts)) false ts [] [] with
  | PErr e => PErr e
  | POk (parts, toks, ts1) =>
      match skip_ws wb ts1 with
      | PErr e => PErr e
      | POk ts2 =>
          let s := concat_strs parts in
          if contiguous toks && selector_format_ok scoped allow_periods s then POk (s, ts2)
          else PErr (ESyntax begin_line)
      end
  end.

(* _parse_identifier (417-422) *)
Definition parse_identifier (wb : bool) (ts : list token) : pres (string * list token) :=
  let s := text (cur ts) in
  if negb (is_identifier s) then syntax_here ts else
  match advance wb ts with PErr e => PErr e | POk ts' => POk (s, ts') end.

(* _expect (333-344) *)
Definition expect_str (s : string) (ts : list token) : pres (list token) :=
  if cur_is ts s then advance_one ts else syntax_here ts.
Definition expect_ty (t : ttype) (ts : list token) : pres (list token) :=
  if cur_ty ts t then advance_one ts else syntax_here ts.

(* ---- values ---- *)
Definition is_str_value (v : out) : bool :=
  match v with OT "str" _ => true | _ => false end.

(* _maybe_parse_basic_type (510-537) : None = not a basic type *)
Fixpoint basic_loop (fuel : nat) (o : oracle) (wb : bool) (ts : list token) (acc : string)
  : pres (out * list token) :=
  match fuel with
  | O => PErr (EOther "OutOfFuel")
  | S f =>
      (* 523-528 (repaired): pieces after the first are separated by one blank *)
      let acc' := (if String.eqb acc "" || String.eqb acc "-" then acc ++ text (cur ts)
                   else acc ++ " " ++ text (cur ts))%string in
      match olookup o acc' with
      | None => PErr (EOther "OracleMiss")
      | Some None => syntax_here ts
      | Some (Some v) =>
          let was_string := cur_ty ts STRING in
          match advance wb ts with
          | PErr e => PErr e
          | POk ts' => if was_string && cur_ty ts' STRING then basic_loop f o wb ts' acc' else POk (v, ts')
          end
      end
  end.
Definition maybe_basic (o : oracle) (wb : bool) (ts : list token) : pres (option (out * list token)) :=
  let neg := cur_is ts "-" in
  match (if neg then advance wb ts else POk ts) with
  | PErr e => PErr e
  | POk ts1 =>
      if in_types (ty (cur ts1)) [NAME; NUMBER; STRING]
      then match basic_loop (S (List.length ts1)) o wb ts1 (if neg then "-" else "") with
           | PErr e => PErr e
           | POk r => POk (Some r)
           end
      else if neg then syntax_here ts1   (* repaired code: a '-' that is not followed by a NAME / NUMBER / STRING token is an error *)
      else POk None
  end.

(* the code before the repair: the consumed '-' was silently dropped and the reference / macro parsers took over *)
Definition maybe_basic_orig (o : oracle) (wb : bool) (ts : list token) : pres (option (out * list token)) :=
  let neg := cur_is ts "-" in
  match (if neg then advance wb ts else POk ts) with
  | PErr e => PErr e
  | POk ts1 =>
      if in_types (ty (cur ts1)) [NAME; NUMBER; STRING]
      then match basic_loop (S (List.length ts1)) o wb ts1 (if neg then "-" else "") with
           | PErr e => PErr e
           | POk r => POk (Some r)
           end
      else POk None
  end.

Definition closer (open_ : string) : option string :=
  if String.eqb open_ "{" then Some "}" else if String.eqb open_ "(" then Some ")"
  else if String.eqb open_ "[" then Some "]" else None.

(* ---- Python's dict-key discipline on observations: dict(values), _maybe_parse_container (542) ----
   Observations of atoms are what the harness' canon_lit writes: OT "none" [], OT "bool" [OS "True"], OT "int" [OS decimal],
   OT "float" [OS float.hex()], OT "complex" [OS real.hex(); OS imag.hex()], OT "str" [..], OT "bytes" [..]; containers
   OT "L" / "T" / "D" / "set"; what the delegate returned for a reference / macro is OT "Ref" [..] / OT "Macro" [..]. *)

(* hash(v) succeeds: lists, dicts and sets (and tuples holding one) raise TypeError *)
Fixpoint out_hashable (v : out) {struct v} : bool :=
  match v with
  | OT tag l =>
      if String.eqb tag "L" || String.eqb tag "D" || String.eqb tag "set" then false
      else if String.eqb tag "T" then
        (fix go (l : list out) : bool := match l with [] => true | x :: r => out_hashable x && go r end) l
      else true
  | _ => true
  end.

(* numbers: bool < int < float < complex compare by VALUE (True == 1 == 1.0 == (1+0j), -0.0 == 0).  A finite number
   is m * 2^e, exactly. *)
Inductive num := NFin (m e : Z) | NInf (neg : bool) | NNan.
Definition digit_val (c : ascii) : option Z :=
  let n := nat_of_ascii c in
  if Nat.leb 48 n && Nat.leb n 57 then Some (Z.of_nat (n - 48)) else None.
Definition hexdigit_val (c : ascii) : option Z :=
  let n := nat_of_ascii c in
  if Nat.leb 48 n && Nat.leb n 57 then Some (Z.of_nat (n - 48))
  else if Nat.leb 97 n && Nat.leb n 102 then Some (Z.of_nat (n - 87)) else None.
Fixpoint dec_acc (acc : Z) (s : string) : option Z :=
  match s with
  | EmptyString => Some acc
  | String c r => match digit_val c with Some d => dec_acc (10 * acc + d) r | None => None end
  end.
(* str(int): an optional '-' and at least one decimal digit *)
Definition signed_dec (s : string) : option Z :=
  match s with
  | String "-" (String c r) => match dec_acc 0 (String c r) with Some z => Some (- z)%Z | None => None end
  | String "+" (String c r) => dec_acc 0 (String c r)
  | EmptyString => None
  | _ => dec_acc 0 s
  end.
(* the hex digits up to 'p': (value read as an integer, number of digits after the point), then the exponent text *)
Fixpoint hex_mant (acc : Z) (frac : Z) (seen_point : bool) (s : string) : option (Z * Z * string) :=
  match s with
  | EmptyString => None
  | String c r =>
      if Ascii.eqb c "p" then Some (acc, frac, r)
      else if Ascii.eqb c "." then (if seen_point then None else hex_mant acc frac true r)
      else match hexdigit_val c with
           | Some d => hex_mant (16 * acc + d) (if seen_point then frac + 1 else frac)%Z seen_point r
           | None => None
           end
  end.
(* float.hex(): [-]0xh.hhhhhhhhhhhhhp[+-]d, inf, -inf, nan *)
Definition float_num (s : string) : option num :=
  if String.eqb s "inf" then Some (NInf false) else if String.eqb s "-inf" then Some (NInf true)
  else if String.eqb s "nan" then Some NNan else
  let '(neg, body) := match s with String "-" r => (true, r) | _ => (false, s) end in
  match body with
  | String "0" (String "x" r) =>
      match hex_mant 0 0 false r with
      | Some (m, k, etxt) =>
          match signed_dec etxt with
          | Some e => Some (NFin (if neg then - m else m) (e - 4 * k))
          | None => None
          end
      | None => None
      end
  | _ => None
  end.
Definition num_eqb (a b : num) : bool :=
  match a, b with
  | NFin m1 e1, NFin m2 e2 =>
      let e := Z.min e1 e2 in Z.eqb (m1 * 2 ^ (e1 - e)) (m2 * 2 ^ (e2 - e))
  | NInf x, NInf y => Bool.eqb x y
  | NNan, NNan => true      (* one and the same object; no atom of the grammar evaluates to nan *)
  | _, _ => false
  end.
(* (real, imaginary) of a numeric observation *)
Definition out_num (v : out) : option (num * num) :=
  match v with
  | OT tag [OS x] =>
      if String.eqb tag "bool" then
        (if String.eqb x "True" then Some (NFin 1 0, NFin 0 0)
         else if String.eqb x "False" then Some (NFin 0 0, NFin 0 0) else None)
      else if String.eqb tag "int" then match signed_dec x with Some z => Some (NFin z 0, NFin 0 0) | None => None end
      else if String.eqb tag "float" then match float_num x with Some n => Some (n, NFin 0 0) | None => None end
      else None
  | OT tag [OS x; OS y] =>
      if String.eqb tag "complex" then
        match float_num x, float_num y with Some a, Some b => Some (a, b) | _, _ => None end
      else None
  | _ => None
  end.
(* a and b are the same dict key (hash(a) == hash(b) and a == b): numbers by value; tuples pointwise; everything else
   (None, str, bytes, what the delegate returned for a reference or a macro) when the observations are the same *)
Fixpoint out_py_eqb (a b : out) {struct a} : bool :=
  match out_num a, out_num b with
  | Some (r1, i1), Some (r2, i2) => num_eqb r1 r2 && num_eqb i1 i2
  | Some _, None | None, Some _ => false
  | None, None =>
      match a, b with
      | OT t xs, OT u ys =>
          if String.eqb t "T" && String.eqb u "T" then
            (fix go (l1 l2 : list out) {struct l1} : bool :=
               match l1, l2 with
               | [], [] => true
               | x :: r1, y :: r2 => out_py_eqb x y && go r1 r2
               | _, _ => false
               end) xs ys
          else out_eqb a b
      | _, _ => out_eqb a b
      end
  end.

(* dict(values): y[k] = v per pair, in order: an equal key keeps its place (and the key already there) and takes the
   new value; a key that cannot be hashed makes the whole construction raise TypeError *)
Fixpoint dict_set (k v : out) (l : list (out * out)) : list (out * out) :=
  match l with
  | [] => [(k, v)]
  | (j, w) :: r => if out_py_eqb k j then (j, v) :: r else (j, w) :: dict_set k v r
  end.
Definition keys_hashable (items : list (out * out)) : bool := forallb (fun kv => out_hashable (fst kv)) items.
Definition build_dict (items : list (out * out)) : out :=
  OT "D" (map (fun kv => OL [fst kv; snd kv]) (fold_left (fun acc kv => dict_set (fst kv) (snd kv) acc) items [])).
(* the code of the model before it followed Python's equality: keys compared as observations (1 and True apart) *)
Fixpoint dict_set_orig (k v : out) (l : list (out * out)) : list (out * out) :=
  match l with
  | [] => [(k, v)]
  | (j, w) :: r => if out_eqb k j then (j, v) :: r else (j, w) :: dict_set_orig k v r
  end.

(* parse_value (269-283) and _maybe_parse_container (478-508), _parse_dict_item (350-356),
   references (539-560) and macros (562-574) *)
Fixpoint parse_value (fuel : nat) (o : oracle) (wb : bool) (ts : list token) {struct fuel}
  : pres (out * list token) :=
  match fuel with
  | O => PErr (EOther "OutOfFuel")
  | S f =>
      match closer (text (cur ts)) with
      | Some close =>
          let is_dict := String.eqb (text (cur ts)) "{" in
          let is_tuple := String.eqb (text (cur ts)) "(" in
          match advance wb ts with
          | PErr e => PErr e
          | POk ts1 =>
              (* the item loop *)
              let loop := (fix loop (n : nat) (ts : list token) (vals : list out) (pairs : list (out * out))
                                    (saw_comma : bool) {struct n}
                             : pres (list out * list (out * out) * bool * list token) :=
                 match n with
                 | O => PErr (EOther "OutOfFuel")
                 | S n' =>
                     if cur_is ts close then POk (vals, pairs, saw_comma, ts) else
                     let item :=
                       if is_dict then
                         match parse_value f o wb ts with
                         | PErr e => PErr e
                         | POk (k, ts') =>
                             if negb (cur_is ts' ":") then syntax_here ts' else
                             match advance wb ts' with
                             | PErr e => PErr e
                             | POk ts'' =>
                                 match parse_value f o wb ts'' with
                                 | PErr e => PErr e
                                 | POk (v, ts3) => POk (v, Some (k, v), ts3)
                                 end
                             end
                         end
                       else match parse_value f o wb ts with
                            | PErr e => PErr e
                            | POk (v, ts') => POk (v, None, ts')
                            end in
                     match item with
                     | PErr e => PErr e
                     | POk (v, kv, ts') =>
                         let vals' := vals ++ [v] in
                         let pairs' := match kv with Some p => pairs ++ [p] | None => pairs end in
                         if cur_is ts' "," then
                           match advance wb ts' with
                           | PErr e => PErr e
                           | POk ts'' => loop n' ts'' vals' pairs' true
                           end
                         else if negb (cur_is ts' close) then syntax_here ts'
                         else loop n' ts' vals' pairs' saw_comma
                     end
                 end) in
              match loop (S (List.length ts1)) ts1 [] [] false with
              | PErr e => PErr e
              | POk (vals, pairs, saw_comma, ts2) =>
                  match advance wb ts2 with
                  | PErr e => PErr e
                  | POk ts3 =>
                      (* type_fn(values), after the closing bracket has been passed; dict(values) raises TypeError for a
                         key that cannot be hashed *)
                      if is_dict && negb (keys_hashable pairs) then PErr (EOther "TypeError") else
                      let v :=
                        if is_dict then build_dict pairs
                        else if is_tuple then
                          match vals with
                          | [x] => if saw_comma then OT "T" vals else x
                          | _ => OT "T" vals
                          end
                        else OT "L" vals in
                      POk (v, ts3)
                  end
              end
          end
      | None =>
          match maybe_basic o wb ts with
          | PErr e => PErr e
          | POk (Some r) => POk r
          | POk None =>
              (* maybe_basic may have consumed a leading '-' : continue from where it stopped *)
              let tsb := if cur_is ts "-" then match advance wb ts with POk t => t | PErr _ => ts end else ts in
              if cur_is tsb "@" then
                match advance_one tsb with
                | PErr e => PErr e
                | POk ts1 =>
                    match parse_selector true true wb ts1 with
                    | PErr e => PErr e
                    | POk (name, ts2) =>
                        if cur_is ts2 "(" then
                          match advance wb ts2 with
                          | PErr e => PErr e
                          | POk ts3 =>
                              if negb (cur_is ts3 ")") then syntax_here ts3 else
                              match advance_one ts3 with
                              | PErr e => PErr e
                              | POk ts4 => match skip_ws wb ts4 with
                                           | PErr e => PErr e
                                           | POk ts5 => POk (OT "Ref" [OS name; OB true], ts5)
                                           end
                              end
                          end
                        else match skip_ws wb ts2 with
                             | PErr e => PErr e
                             | POk ts3 => POk (OT "Ref" [OS name; OB false], ts3)
                             end
                    end
                end
              else if cur_is tsb "%" then
                match advance_one tsb with
                | PErr e => PErr e
                | POk ts1 =>
                    match parse_selector true true wb ts1 with
                    | PErr e => PErr e
                    | POk (name, ts2) => POk (OT "Macro" [OS name], ts2)
                    end
                end
              else syntax_here tsb
          end
      end
  end.

Definition value_fuel (ts : list token) : nat := S (S (List.length ts)).

(* ---- parse_binding_key on the selector string (577-596) ---- *)
Fixpoint rsplit1 (sep : ascii) (s : string) : option (string * string) :=
  match s with
  | EmptyString => None
  | String c r =>
      match rsplit1 sep r with
      | Some (a, b) => Some (String c a, b)
      | None => if Ascii.eqb c sep then Some (EmptyString, r) else None
      end
  end.
Definition split_scoped (s : string) : string * string :=
  match rsplit1 slash s with Some (a, b) => (a, b) | None => ("", s) end.
Definition split_binding_key (s : string) : string * string * string :=
  let '(scope, sel) := split_scoped s in
  match rsplit1 dot sel with Some (a, b) => (scope, a, b) | None => (scope, sel, "") end.

(* ---- statements ---- *)
Inductive stmt :=
| SBind (scope sel arg : string) (v : out) (line : nat)
| SBlock (scope sel : string) (line : nat)
| SImport (module : string) (is_from : bool) (alias : option string) (line : nat)
| SInclude (file : out) (line : nat).

(* _parse_binding_block (444-476): returns the declaration, the member bindings and the rest *)
Fixpoint block_members (fuel : nat) (o : oracle) (scope sel : string) (ts : list token) (acc : list stmt)
  : pres (list stmt * list token) :=
  match fuel with
  | O => PErr (EOther "OutOfFuel")
  | S f =>
      if cur_ty ts DEDENT then POk (acc, ts) else
      let line := srow (cur ts) in
      match parse_identifier true ts with
      | PErr e => PErr e
      | POk (arg, ts1) =>
          match expect_str "=" ts1 with
          | PErr e => PErr e
          | POk ts2 =>
              match parse_value (value_fuel ts2) o true ts2 with
              | PErr e => PErr e
              | POk (v, ts3) =>
                  match expect_ty NEWLINE ts3 with
                  | PErr e => PErr e
                  | POk ts4 =>
                      match skip_ws true ts4 with
                      | PErr e => PErr e
                      | POk ts5 => block_members f o scope sel ts5 (acc ++ [SBind scope sel arg v line])
                      end
                  end
              end
          end
      end
  end.

Definition parse_block (o : oracle) (key : string) (line : nat) (ts : list token)
  : pres (stmt * list stmt * list token) :=
  match expect_str ":" ts with
  | PErr e => PErr e
  | POk ts1 =>
  match skip (S (List.length ts1)) [COMMENT] ts1 with
  | PErr e => PErr e
  | POk ts2 =>
  match expect_ty NEWLINE ts2 with
  | PErr e => PErr e
  | POk ts3 =>
  match skip (S (List.length ts3)) [COMMENT; NL] ts3 with
  | PErr e => PErr e
  | POk ts4 =>
  match expect_ty INDENT ts4 with
  | PErr e => PErr e
  | POk ts5 =>
  match skip (S (List.length ts5)) [COMMENT; NL] ts5 with
  | PErr e => PErr e
  | POk ts6 =>
      let '(scope, sel) := split_scoped key in
      match block_members (S (List.length ts6)) o scope sel ts6 [] with
      | PErr e => PErr e
      | POk (members, ts7) => POk (SBlock scope sel line, members, ts7)
      end
  end end end end end end.

(* _parse_import (424-442) *)
Definition parse_import (keyword : string) (line : nat) (ts : list token) : pres (stmt * list token) :=
  match parse_selector false false false ts with
  | PErr e => PErr e
  | POk (module, ts1) =>
      let r := if String.eqb keyword "from" then
                 match expect_str "import" ts1 with
                 | PErr e => PErr e
                 | POk ts2 => match parse_identifier false ts2 with
                              | PErr e => PErr e
                              | POk (sub, ts3) => POk ((module ++ "." ++ sub)%string, ts3)
                              end
                 end
               else POk (module, ts1) in
      match r with
      | PErr e => PErr e
      | POk (module, ts2) =>
          if cur_is ts2 "as" then
            match advance_one ts2 with
            | PErr e => PErr e
            | POk ts3 => match parse_identifier false ts3 with
                         | PErr e => PErr e
                         | POk (al, ts4) => POk (SImport module (String.eqb keyword "from") (Some al) line, ts4)
                         end
            end
          else POk (SImport module (String.eqb keyword "from") None line, ts2)
      end
  end.

(* parse_statement (220-267) without the queue: returns the statement(s) it yields, the token list
   positioned on the statement's end token, and whether an advance past it is pending (repaired code:
   the look-ahead is deferred to the next call).  None = EOF *)
Definition parse_statement (o : oracle) (pending : bool) (ts : list token)
  : pres (option (list stmt * list token * bool)) :=
  match (if pending then advance_one ts else POk ts) with
  | PErr e => PErr e
  | POk tsp =>
  match skip_ws false tsp with
  | PErr e => PErr e
  | POk ts0 =>
      if cur_ty ts0 ENDMARKER then POk None else
      let line := srow (cur ts0) in
      match parse_selector true false false ts0 with
      | PErr e => PErr e
      | POk (key, ts1) =>
          let r :=
            if cur_is ts1 "=" then
              match advance_one ts1 with
              | PErr e => PErr e
              | POk ts2 =>
                  match parse_value (value_fuel ts2) o false ts2 with
                  | PErr e => PErr e
                  | POk (v, ts3) => let '(scope, sel, arg) := split_binding_key key in
                                    POk ([SBind scope sel arg v line], ts3)
                  end
              end
            else if cur_is ts1 ":" then
              match parse_block o key line ts1 with
              | PErr e => PErr e
              | POk (decl, members, ts2) => POk (decl :: members, ts2)
              end
            else if String.eqb key "import" || String.eqb key "from" then
              match parse_import key line ts1 with
              | PErr e => PErr e
              | POk (s, ts2) => POk ([s], ts2)
              end
            else if String.eqb key "include" then
              match maybe_basic o false ts1 with
              | PErr e => PErr e
              | POk (Some (v, ts2)) => if is_str_value v then POk ([SInclude v line], ts2) else syntax_here ts1
              | POk None => syntax_here ts1
              end
            else syntax_here ts1 in
          match r with
          | PErr e => PErr e
          | POk (stmts, ts2) =>
              if negb (in_types (ty (cur ts2)) [NEWLINE; DEDENT; ENDMARKER]) then syntax_here ts2
              else POk (Some (stmts, ts2, negb (cur_ty ts2 ENDMARKER)))
          end
      end
  end end.

(* iterate: the statements yielded before the first error, and how it ended *)
Fixpoint parse_all (fuel : nat) (o : oracle) (pending : bool) (ts : list token) (acc : list stmt)
  : list stmt * option perr :=
  match fuel with
  | O => (acc, Some (EOther "OutOfFuel"))
  | S f =>
      match parse_statement o pending ts with
      | PErr e => (acc, Some e)
      | POk None => (acc, None)
      | POk (Some (stmts, ts', pending')) => parse_all f o pending' ts' (acc ++ stmts)
      end
  end.

Definition stmt_out (s : stmt) : out :=
  match s with
  | SBind sc sel arg v line => OT "Bind" [OS sc; OS sel; OS arg; v; OZ (Z.of_nat line)]
  | SBlock sc sel line => OT "Block" [OS sc; OS sel; OZ (Z.of_nat line)]
  | SImport m f a line => OT "Import" [OS m; OB f; match a with Some x => OS x | None => ONone end; OZ (Z.of_nat line)]
  | SInclude v line => OT "Include" [v; OZ (Z.of_nat line)]
  end.
Definition perr_out (e : perr) : out :=
  match e with ESyntax l => OT "SyntaxError" [OZ (Z.of_nat l)] | EOther c => OT "Err" [OS c] end.

(* engine entry points; __init__ performs one _advance_one_token (205) *)
Definition run_value (p : oracle * list token) : out :=
  match settle (snd p) with
  | PErr e => perr_out e
  | POk ts => match parse_value (value_fuel ts) (fst p) false ts with
              | PErr e => perr_out e
              | POk (v, _) => OT "Value" [v]
              end
  end.
(* gin.config.parse_value (config.py) over ConfigParser.parse_single_value (repaired code, F39): the value must be all
   there is -- after it only newlines, comments and indentation up to the end marker *)
Definition end_types : list ttype := [NEWLINE; NL; COMMENT; INDENT; DEDENT].
Definition parse_single_value (o : oracle) (ts : list token) : pres out :=
  match parse_value (value_fuel ts) o false ts with
  | PErr e => PErr e
  | POk (v, rest) =>
      match skip (S (List.length rest)) end_types rest with
      | PErr e => PErr e
      | POk rest' => if cur_ty rest' ENDMARKER then POk v else syntax_here rest'
      end
  end.
(* the code before the repair stopped after the first complete value *)
Definition parse_single_value_orig (o : oracle) (ts : list token) : pres out :=
  match parse_value (value_fuel ts) o false ts with PErr e => PErr e | POk (v, _) => POk v end.
Definition run_value_api (p : oracle * list token) : out :=
  match settle (snd p) with
  | PErr e => perr_out e
  | POk ts => match parse_single_value (fst p) ts with PErr e => perr_out e | POk v => OT "Value" [v] end
  end.
Definition run_stmts (p : oracle * list token) : out :=
  match settle (snd p) with
  | PErr e => OL [perr_out e]
  | POk ts => let '(ss, e) := parse_all (S (List.length ts)) (fst p) false ts [] in
              OL (map stmt_out ss ++ match e with Some x => [perr_out x] | None => [] end)
  end.
