(* config_text with the import header (static registration): gin/config.py:_config_str begins with
     formatted_statements = [statement.format() for statement in import_manager.sorted_imports]
     if formatted_statements: formatted_statements.append('')
   i.e. the lines  import a.b [as c]  /  from a import b [as c]  (Model/Serial.v: import_manager, sorted_imports,
   import_format), one empty string when there is at least one, then the statements of Model/ConfigText.v; everything
   joined with newlines.  Dynamic registration (from __gin__ import dynamic_registration first, selectors re-spelled through
   the aliases of the imported modules) is NOT modelled here.  Definitions only. *)
From Coq Require Import List String ZArith Bool Arith Ascii.
From GinV Require Import Lib.Out Lib.PyStr Model.SelectorMap Model.Parser Model.ParserSpec Model.Repr Model.Lexer Model.ReprText.
From GinV Require Import Model.Serial Model.PPrint Model.ConfigText.
Import ListNotations.
Open Scope string_scope.
Open Scope list_scope.

Inductive xitem := XImport (i : simport) | XItem (it : citem).
Definition xitem_text (maxlen indent : nat) (x : xitem) : string :=
  match x with XImport i => import_format i | XItem it => item_text maxlen indent it end.
Definition header_imports (imports : list simport) : list simport := sorted_imports (import_manager imports).
Definition config_xitems (registry : list string) (imports : list simport) (entries : list centry) (maxlen : nat) : list xitem :=
  let imps := header_imports imports in
  map XImport imps ++ (match imps with [] => [] | _ :: _ => [XItem CBlank] end) ++ map XItem (config_items registry entries maxlen).
Definition xitems_text (maxlen indent : nat) (xs : list xitem) : string := join_strs nls (map (xitem_text maxlen indent) xs).
Definition config_text_imports (registry : list string) (imports : list simport) (entries : list centry) (maxlen indent : nat) : string :=
  xitems_text maxlen indent (config_xitems registry imports entries maxlen).

(* what a reader obtains: the import statements (one line each), then the bindings *)
Definition xitem_lines (maxlen indent : nat) (x : xitem) : nat :=
  match x with XImport _ => 1 | XItem it => item_lines maxlen indent it end.
Definition xitem_stmts (o : oracle) (x : xitem) (line : nat) : list stmt :=
  match x with
  | XImport i => [SImport (i_module i) (i_from i) (i_alias i) line]
  | XItem it => item_stmts o it line
  end.
Fixpoint xitems_stmts (o : oracle) (maxlen indent : nat) (xs : list xitem) (line : nat) : list stmt :=
  match xs with
  | [] => []
  | x :: r => xitem_stmts o x line ++ xitems_stmts o maxlen indent r (line + xitem_lines maxlen indent x)
  end.
Definition expected_stmts_imports (o : oracle) (registry : list string) (imports : list simport) (entries : list centry)
           (maxlen indent : nat) : list stmt :=
  xitems_stmts o maxlen indent (config_xitems registry imports entries maxlen) 1.

Definition run_imports (p : (list string * list simport * list centry) * (nat * nat)) : string :=
  let '((registry, imports, entries), (maxlen, indent)) := p in config_text_imports registry imports entries maxlen indent.
