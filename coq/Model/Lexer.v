(* Character-level model of CPython 3.12's tokenizer as gin's ConfigParser drives it:
     tokenize.generate_tokens(io.StringIO(text).readline)
   i.e. Parser/tokenizer.c (tok_get_normal_mode) in "extra tokens" mode behind Python-tokenize.c.

   [lex s] is the token list of the text [s] in the representation of Model/Parser.v (the rows the
   harness function parsing.tokens_of produces), ending with ENDMARKER, or with the pseudo token TERR
   where the real tokenizer raises:
     TERR "TokenError"        srow 0   every plain SyntaxError of the C tokenizer; tokenize.py turns it into
                                       tokenize.TokenError, which has no lineno (unterminated string, bad number
                                       literal, stray backslash, EOF inside brackets, > 200 nested brackets, ...)
     TERR "IndentationError"  srow n   inconsistent dedent / more than 99 indentation levels, at line n.

   MODELLED CLASS ([supported]).  Coq strings are the bytes of the UTF-8 text.  A text is supported iff
     (1) every byte is a newline (10) or a printable 7-bit ASCII character 32..126
         (no tabs, no form feeds, no carriage returns, no other control characters, nothing non-ASCII), and
     (2) no f-string prefix (f, fr, rf in any case, directly in front of a quote) stands where a token may start:
         the prefix is harmless inside a run of identifier characters that begins with a letter or underscore and does
         not follow a "." ('pdf', "self", xrf'..' are inside the class); anywhere else it is refused -- conservatively:
         ' f' or "%f" (string CONTENT) are outside.  3.12 tokenizes f-strings as FSTRING_START ...; note that
         1f'x', 1jf'x', 0xarf'x', 1.e5f'x' are a NUMBER followed by an f-string.
   Everything else is modelled exactly, including the tokenizer's answers to malformed text.

   Positions: srow/erow 1-based lines, scol/ecol 0-based columns.  Definitions only. *)
From Coq Require Import List String Bool Arith Ascii.
From GinV Require Import Lib.Out Lib.PyStr Model.Parser.
Import ListNotations.
Open Scope char_scope.
Open Scope list_scope.
Open Scope nat_scope.

Definition chars := list ascii.
Definition nl : ascii := ascii_of_nat 10.

(* ---- character classes ---- *)
Definition is_digit (c : ascii) : bool := let n := nat_of_ascii c in (48 <=? n)%nat && (n <=? 57)%nat.
Definition is_hex (c : ascii) : bool :=
  let n := nat_of_ascii c in is_digit c || ((65 <=? n)%nat && (n <=? 70)%nat) || ((97 <=? n)%nat && (n <=? 102)%nat).
Definition is_oct (c : ascii) : bool := let n := nat_of_ascii c in (48 <=? n)%nat && (n <=? 55)%nat.
Definition is_bin (c : ascii) : bool := Ascii.eqb c "0" || Ascii.eqb c "1".
Definition is_quote (c : ascii) : bool := Ascii.eqb c "'" || Ascii.eqb c """".
Definition is_space (c : ascii) : bool := Ascii.eqb c " ".
Definition not_nl (c : ascii) : bool := negb (Ascii.eqb c nl).
Definition either (a b c : ascii) : bool := Ascii.eqb c a || Ascii.eqb c b.
Definition char_ok (c : ascii) : bool :=
  let n := nat_of_ascii c in Ascii.eqb c nl || ((32 <=? n)%nat && (n <=? 126)%nat).

(* ---- the supported class ---- *)
(* an f-string prefix -- f, fr, rf in any case directly in front of a quote -- at the head of [l] *)
Definition fprefix_here (l : chars) : bool :=
  match l with
  | a :: b :: r =>
      let q3 := match r with q :: _ => is_quote q | [] => false end in
      (either "f" "F" a && (is_quote b || (either "r" "R" b && q3))) || (either "r" "R" a && either "f" "F" b && q3)
  | _ => false
  end.
(* where a token may start.  Inside a run of identifier characters that began with a letter or underscore and does
   not follow a "." no token starts ([FSafe]: the run is a NAME, or lies inside a string or a comment); a run that
   begins with a digit or follows a "." may be a NUMBER ending in a letter (1jf"x", 0xarf"x", 1.e5f"x" ARE f-strings) *)
Inductive fstate := FBound | FDot | FSafe | FOther.
Definition fnext (st : fstate) (c : ascii) : fstate :=
  if is_word c then
    match st with FBound => if is_digit c then FOther else FSafe | FDot => FOther | FSafe => FSafe | FOther => FOther end
  else if Ascii.eqb c "." then FDot else FBound.
Fixpoint no_fprefix (st : fstate) (l : chars) : bool :=
  match l with
  | [] => true
  | c :: r => (match st with FSafe => true | _ => negb (fprefix_here l) end) && no_fprefix (fnext st c) r
  end.
Definition no_fquote (l : chars) : bool := no_fprefix FBound l.
Definition supported_chars (l : chars) : bool := forallb char_ok l && no_fquote l.
Definition supported (s : string) : bool := supported_chars (list_ascii_of_string s).

(* ---- positions ---- *)
Definition pos := (nat * nat)%type.
Definition adv (p : pos) (c : ascii) : pos := if Ascii.eqb c nl then (S (fst p), 0) else (fst p, S (snd p)).
Fixpoint pos_after (p : pos) (l : chars) : pos :=
  match l with [] => p | c :: r => pos_after (adv p c) r end.

(* a token whose text is the lexeme [lx] starting at [p] *)
Definition mk (t : ttype) (lx : chars) (p : pos) : token :=
  let q := pos_after p lx in
  {| ty := t; text := string_of_list_ascii lx; srow := fst p; scol := snd p; erow := fst q; ecol := snd q |}.
(* NEWLINE / NL for the line end at [p]; the newline the tokenizer adds to an unterminated last line
   ([imp], nothing behind it) has the empty text.  The token is one column wide. *)
Definition mk_nl (t : ttype) (imp : bool) (rest : chars) (p : pos) : token :=
  {| ty := t; text := if imp && match rest with [] => true | _ => false end then EmptyString else String nl EmptyString;
     srow := fst p; scol := snd p; erow := fst p; ecol := S (snd p) |}.
Definition mk_empty (t : ttype) (p : pos) : token :=
  {| ty := t; text := EmptyString; srow := fst p; scol := snd p; erow := fst p; ecol := snd p |}.
Definition terr_token : token :=
  {| ty := TERR; text := "TokenError"%string; srow := 0; scol := 0; erow := 0; ecol := 0 |}.
Definition terr_indent (line : nat) : token :=
  {| ty := TERR; text := "IndentationError"%string; srow := line; scol := 0; erow := line; ecol := 0 |}.

(* ---- scanners: Some (lexeme, rest) with input = lexeme ++ rest, None = the tokenizer raises ---- *)
Definition scan := option (chars * chars).
Definition pre (a : chars) (r : scan) : scan :=
  match r with Some (b, rest) => Some (a ++ b, rest) | None => None end.
Definition andthen (r : scan) (f : chars -> scan) : scan :=
  match r with Some (a, rest) => pre a (f rest) | None => None end.

Fixpoint span (p : ascii -> bool) (l : chars) : chars * chars :=
  match l with
  | c :: r => if p c then let (a, b) := span p r in (c :: a, b) else ([], l)
  | [] => ([], [])
  end.

(* tok_decimal_tail and the digit loops of hex / octal / binary literals: digits, single underscores
   only between digits *)
Fixpoint digits_tail (ok : ascii -> bool) (l : chars) : scan :=
  match l with
  | c :: r =>
      if ok c then pre [c] (digits_tail ok r)
      else if Ascii.eqb c "_" then
        match r with
        | d :: r' => if ok d then pre [c; d] (digits_tail ok r') else None
        | [] => None
        end
      else Some ([], l)
  | [] => Some ([], [])
  end.
(* behind 0x / 0o / 0b: an optional underscore, then at least one digit *)
Definition radix_start (ok : ascii -> bool) (l : chars) : scan :=
  match l with
  | c :: r =>
      if ok c then pre [c] (digits_tail ok r)
      else if Ascii.eqb c "_" then
        match r with
        | d :: r' => if ok d then pre [c; d] (digits_tail ok r') else None
        | [] => None
        end
      else None
  | [] => None
  end.
(* octal / binary: a decimal digit right behind the literal is an error *)
Definition no_digit_behind (r : scan) : scan :=
  match r with
  | Some (a, d :: rest) => if is_digit d then None else r
  | _ => r
  end.
Definition opt_digits (l : chars) : scan :=
  match l with
  | d :: r => if is_digit d then pre [d] (digits_tail is_digit r) else Some ([], l)
  | [] => Some ([], [])
  end.
Definition scan_imag (l : chars) : scan :=
  match l with
  | c :: r => if either "j" "J" c then Some ([c], r) else Some ([], l)
  | [] => Some ([], [])
  end.
(* an exponent needs a digit; "1e" / "1ex" end the number in front of the e *)
Definition scan_exponent (l : chars) : scan :=
  match l with
  | e :: r =>
      if either "e" "E" e then
        match r with
        | s :: r' =>
            if either "+" "-" s then
              match r' with
              | d :: r'' => if is_digit d then pre [e; s; d] (andthen (digits_tail is_digit r'') scan_imag) else None
              | [] => None
              end
            else if is_digit s then pre [e; s] (andthen (digits_tail is_digit r') scan_imag)
            else Some ([], l)
        | [] => Some ([], l)
        end
      else scan_imag l
  | [] => Some ([], [])
  end.
Definition scan_fraction (l : chars) : scan := andthen (opt_digits l) scan_exponent.
Definition after_int (l : chars) : scan :=
  match l with
  | c :: r => if Ascii.eqb c "." then pre [c] (scan_fraction r) else scan_exponent l
  | [] => Some ([], [])
  end.
(* behind a leading 0: zeros with single underscores; an underscore needs a digit behind it *)
Fixpoint zeros (l : chars) : scan :=
  match l with
  | c :: r =>
      if Ascii.eqb c "0" then pre [c] (zeros r)
      else if Ascii.eqb c "_" then
        match r with
        | d :: r' => if Ascii.eqb d "0" then pre [c; d] (zeros r')
                     else if is_digit d then Some ([c], r) else None
        | [] => None
        end
      else Some ([], l)
  | [] => Some ([], [])
  end.
(* [l] starts with a digit, or with a dot and a digit *)
Definition scan_number (l : chars) : scan :=
  match l with
  | c :: r =>
      if Ascii.eqb c "." then pre [c] (scan_fraction r)
      else if Ascii.eqb c "0" then
        match r with
        | x :: r' =>
            if either "x" "X" x then pre [c; x] (radix_start is_hex r')
            else if either "o" "O" x then pre [c; x] (no_digit_behind (radix_start is_oct r'))
            else if either "b" "B" x then pre [c; x] (no_digit_behind (radix_start is_bin r'))
            else pre [c] (andthen (zeros r) (fun l1 => andthen (opt_digits l1) after_int))
        | [] => Some ([c], [])
        end
      else pre [c] (andthen (digits_tail is_digit r) after_int)
  | [] => None
  end.

(* string bodies behind the opening quote(s); a backslash protects the next character *)
Fixpoint str1 (q : ascii) (l : chars) : scan :=
  match l with
  | [] => None
  | c :: r =>
      if Ascii.eqb c nl then None
      else if Ascii.eqb c q then Some ([c], r)
      else if Ascii.eqb c "\" then match r with d :: r' => pre [c; d] (str1 q r') | [] => None end
      else pre [c] (str1 q r)
  end.
Fixpoint str3 (q : ascii) (run : nat) (l : chars) : scan :=
  match l with
  | [] => None
  | c :: r =>
      if Ascii.eqb c q then (if Nat.eqb run 2 then Some ([c], r) else pre [c] (str3 q (S run) r))
      else if Ascii.eqb c "\" then match r with d :: r' => pre [c; d] (str3 q 0 r') | [] => None end
      else pre [c] (str3 q 0 r)
  end.
(* [l] starts with a quote *)
Definition scan_string (l : chars) : scan :=
  match l with
  | q :: r =>
      match r with
      | q1 :: q2 :: r' =>
          if Ascii.eqb q1 q && Ascii.eqb q2 q then pre [q; q1; q2] (str3 q 0 r') else pre [q] (str1 q r)
      | _ => pre [q] (str1 q r)
      end
  | [] => None
  end.
(* string prefixes r b u br rb (any case) directly in front of a quote: Some (prefix, rest from the quote) *)
Definition is_b := either "b" "B".
Definition is_r := either "r" "R".
Definition is_u := either "u" "U".
Definition string_prefix (l : chars) : option (chars * chars) :=
  match l with
  | a :: q :: r =>
      if is_quote q then (if is_b a || is_r a || is_u a then Some ([a], q :: r) else None)
      else match r with
           | q2 :: r' =>
               if is_quote q2 && ((is_b a && is_r q) || (is_r a && is_b q)) then Some ([a; q], q2 :: r') else None
           | [] => None
           end
  | _ => None
  end.

(* operators and delimiters (token.EXACT_TOKEN_TYPES of 3.12) with maximal munch; the characters
   $ ? ` -- no tokens of Python -- come out as one-character OP tokens as well *)
Definition ops3 : list string := ["**="; "..."; "//="; "<<="; ">>="]%string.
Definition ops2 : list string :=
  ["!="; "%="; "&="; "**"; "*="; "+="; "-="; "->"; "//"; "/="; ":="; "<<"; "<="; "<>"; "=="; ">="; ">>";
   "@="; "^="; "|="]%string.
Definition ops1 : list string :=
  ["("; ")"; "["; "]"; "{"; "}"; ":"; ","; ";"; "+"; "-"; "*"; "/"; "|"; "&"; "<"; ">"; "="; "."; "%"; "~";
   "^"; "@"; "!"; "$"; "?"; "`"]%string.
Definition op_table : list string := ops3 ++ ops2 ++ ops1.
Definition in_table (tbl : list string) (l : chars) : bool := existsb (String.eqb (string_of_list_ascii l)) tbl.
Definition scan_op (l : chars) : scan :=
  match l with
  | a :: b :: c :: r =>
      if in_table ops3 [a; b; c] then Some ([a; b; c], r)
      else if in_table ops2 [a; b] then Some ([a; b], c :: r)
      else if in_table ops1 [a] then Some ([a], b :: c :: r) else None
  | a :: b :: r =>
      if in_table ops2 [a; b] then Some ([a; b], r)
      else if in_table ops1 [a] then Some ([a], b :: r) else None
  | a :: r => if in_table ops1 [a] then Some ([a], r) else None
  | [] => None
  end.
Definition is_open_op (l : chars) : bool := in_table ["("; "["; "{"]%string l.
Definition is_close_op (l : chars) : bool := in_table [")"; "]"; "}"]%string l.
(* bracket depth behind the operator [op]; an unmatched closer at depth 0 is an ordinary OP token *)
Definition new_level (lv : nat) (op : chars) : nat :=
  if is_open_op op then S lv else if is_close_op op then Nat.pred lv else lv.

(* indentation at the start of a line: blanks, and backslash-newline pairs (the blanks of all the joined
   physical lines add up; the column at the FIRST backslash, if not 0, wins).  Result:
   (text up to the start of the last physical line, its blanks, blank count, column at first backslash, rest) *)
Fixpoint scan_indent (l before sp : chars) (icol cont : nat) : option (chars * chars * nat * nat * chars) :=
  match l with
  | c :: r =>
      if is_space c then scan_indent r before (sp ++ [c]) (S icol) cont
      else if Ascii.eqb c "\" then
        match r with
        | n :: r' =>
            if Ascii.eqb n nl then
              match r' with
              | [] => None                  (* end of file behind the continuation *)
              | _ => scan_indent r' (before ++ sp ++ [c; n]) [] icol (if Nat.eqb cont 0 then icol else cont)
              end
            else None
        | [] => None
        end
      else Some (before, sp, icol, cont, l)
  | [] => Some (before, sp, icol, cont, [])
  end.

(* indentation stack (top first, the bottom 0 is implicit) *)
Fixpoint pop_to (ind : nat) (stk : list nat) : nat * list nat :=
  match stk with
  | top :: r => if ind <? top then let (k, s) := pop_to ind r in (S k, s) else (0, stk)
  | [] => (0, [])
  end.
Definition MAXINDENT := 100.
Definition MAXLEVEL := 200.

(* ---- the tokenizer state and one step of it ---- *)
Record lstate := { lpos : pos; atbol : bool; stack : list nat; level : nat }.
Definition init_state : lstate := {| lpos := (1, 0); atbol := true; stack := []; level := 0 |}.
Definition move (st : lstate) (p : pos) (bol : bool) : lstate :=
  {| lpos := p; atbol := bol; stack := stack st; level := level st |}.
Definition next_line (p : pos) : pos := (S (fst p), 0).

Inductive outcome :=
| Next (emit : list token) (st : lstate) (rest : chars)
| Done (emit : list token).

(* at the beginning of a line *)
Definition step_bol (imp : bool) (st : lstate) (l : chars) : outcome :=
  match scan_indent l [] [] 0 0 with
  | None => Done [terr_token]
  | Some (before, sp, icol, cont, rest) =>
      let p0 := pos_after (lpos st) before in     (* start of the last physical line *)
      let p1 := pos_after p0 sp in
      let indentation (_ : unit) :=
        if negb (Nat.eqb (level st) 0) then Next [] (move st p1 false) rest else
        let ind := if Nat.eqb cont 0 then icol else cont in
        let top := hd 0 (stack st) in
        if top <? ind then
          if MAXINDENT <=? S (List.length (stack st)) then Done [terr_indent (fst p1)]
          else Next [mk INDENT sp p0]
                    {| lpos := p1; atbol := false; stack := ind :: stack st; level := level st |} rest
        else if ind <? top then
          let (k, stk) := pop_to ind (stack st) in
          if Nat.eqb ind (hd 0 stk)
          then Next (repeat (mk_empty DEDENT p1) k)
                    {| lpos := p1; atbol := false; stack := stk; level := level st |} rest
          else Done [terr_indent (fst p1)]
        else Next [] (move st p1 false) rest in
      match rest with
      | c :: r =>
          if Ascii.eqb c nl then Next [mk_nl NL imp r p1] (move st (next_line p1) true) r
          else if Ascii.eqb c "#" then
            let (cm, r2) := span not_nl rest in
            let p2 := pos_after p1 cm in
            match r2 with
            | _ :: r3 => Next [mk COMMENT cm p1; mk_nl NL imp r3 p2] (move st (next_line p2) true) r3
            | [] => Next [mk COMMENT cm p1] (move st p2 false) []
            end
          else indentation tt
      | [] =>
          (* end of file (always right behind a newline: the column is 0): every open block is closed *)
          if negb (Nat.eqb (level st) 0) then Next [] (move st p1 false) [] else
          Next (repeat (mk_empty DEDENT p1) (List.length (stack st)))
               {| lpos := p1; atbol := false; stack := []; level := level st |} []
      end
  end.

(* inside a line *)
Definition step_tok (imp : bool) (st : lstate) (l : chars) : outcome :=
  let (sp, rest) := span is_space l in
  let p1 := pos_after (lpos st) sp in
  let token_of (t : ttype) (r : scan) :=
    match r with
    | Some (lx, rest') => Next [mk t lx p1] (move st (pos_after p1 lx) false) rest'
    | None => Done [terr_token]
    end in
  match rest with
  | [] => if Nat.eqb (level st) 0 then Done [mk_empty ENDMARKER p1] else Done [terr_token]
  | c :: r =>
      if Ascii.eqb c "#" then token_of COMMENT (Some (span not_nl rest))
      else if Ascii.eqb c nl then
        Next [mk_nl (if Nat.eqb (level st) 0 then NEWLINE else NL) imp r p1] (move st (next_line p1) true) r
      else if is_alpha_ c then
        match string_prefix rest with
        | Some (pfx, qrest) => token_of STRING (pre pfx (scan_string qrest))
        | None => token_of NAME (Some (span is_word rest))
        end
      else if is_digit c || (Ascii.eqb c "." && match r with d :: _ => is_digit d | [] => false end)
      then token_of NUMBER (scan_number rest)
      else if is_quote c then token_of STRING (scan_string rest)
      else if Ascii.eqb c "\" then
        match r with
        | n :: ((_ :: _) as r') => if Ascii.eqb n nl then Next [] (move st (next_line p1) false) r' else Done [terr_token]
        | _ => Done [terr_token]
        end
      else
        match scan_op rest with
        | None => Done [terr_token]       (* a non-printable character: outside [supported] *)
        | Some (op, rest') =>
            if is_open_op op && (MAXLEVEL <=? level st) then Done [terr_token] else
            Next [mk OP op p1]
                 {| lpos := pos_after p1 op; atbol := false; stack := stack st; level := new_level (level st) op |} rest'
        end
  end.

Definition step (imp : bool) (st : lstate) (l : chars) : outcome :=
  if atbol st then step_bol imp st l else step_tok imp st l.

Fixpoint run (fuel : nat) (imp : bool) (st : lstate) (l : chars) : list token :=
  match fuel with
  | O => []
  | S f =>
      match step imp st l with
      | Done e => e
      | Next e st' l' => e ++ run f imp st' l'
      end
  end.

(* the tokenizer reads lines; a last line without a newline gets one ([imp]licit newline) *)
Definition needs_nl (l : chars) : bool :=
  match l with [] => false | _ => negb (Ascii.eqb (last l nl) nl) end.
Definition normalize (l : chars) : chars := if needs_nl l then l ++ [nl] else l.
Definition lex_chars (l : chars) : list token :=
  let n := normalize l in run (2 * List.length n + 2) (needs_nl l) init_state n.
Definition lex_raw (s : string) : list token := lex_chars (list_ascii_of_string s).

Definition lex (s : string) : option (list token) := if supported s then Some (lex_raw s) else None.
