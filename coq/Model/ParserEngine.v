From Coq Require Import List String.
From GinV Require Import Lib.Out Model.Parser.
Import ListNotations.
(* several texts in one case (e.g. two layouts of the same statements) *)
Definition run_many (l : list (oracle * list token)) : out := OL (map run_stmts l).
