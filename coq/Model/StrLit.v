(* The meaning of ONE atom text: what Python's repr writes for a str / bytes / int / True / False / None, and what
   ast.literal_eval (the compiler's string_parser.c / the unicode_escape and bytes escape decoders / the integer
   literal grammar) makes of one literal text.  CPython 3.12.1.

   A Python str is a [list N] of code points (0 .. 0x10FFFF, lone surrogates included: Python strings may hold
   them), a bytes object a [list N] of 0 .. 255.  The text repr writes -- and the text of a literal -- is a [list N]
   of code points as well (repr keeps printable non-ASCII characters).

   [printable] stands for str.isprintable of the one-character string (CPython's Unicode database).  It is a
   parameter of [py_repr_str], never an axiom.

   Modelled from:
     py_repr_str          Objects/unicodeobject.c  unicode_repr
     py_repr_bytes        Objects/bytesobject.c    _Py_bytes_repr / PyBytes_Repr
     decode_*_literal     Parser/tokenizer.c (extent of a string token; translate_newlines of a source STRING:
                          CR LF and CR become LF before anything else), Parser/string_parser.c
                          (_PyPegen_parse_string: prefix, quotes, raw), Objects/unicodeobject.c
                          _PyUnicode_DecodeUnicodeEscapeInternal, Objects/bytesobject.c _PyBytes_DecodeEscape,
                          Parser/pegen.c parsenumber + Objects/longobject.c (the 4300 digit limit of decimal text)
   A literal text is ONE token: nothing in front of the prefix, nothing behind the closing quote.
   [None] = CPython raises (or, for the escape \N{...} only: outside the model -- the Unicode name table).
   Definitions only; every function is structurally recursive and evaluates under vm_compute. *)
From Coq Require Import List NArith ZArith Bool.
Import ListNotations.
Open Scope N_scope.

(* ---- characters ---- *)
Definition BS : N := 92.     (* backslash *)
Definition SQ : N := 39.     (* ' *)
Definition DQ : N := 34.     (* double quote *)
Definition LF : N := 10.
Definition CR : N := 13.
Definition is_quote_n (c : N) : bool := (c =? SQ) || (c =? DQ).
Definition is_surrogate (c : N) : bool := (0xD800 <=? c) && (c <=? 0xDFFF).
Definition either_n (a b c : N) : bool := (c =? a) || (c =? b).

(* ---- digits ---- *)
Definition hex_char (d : N) : N := if d <? 10 then 48 + d else 87 + d.       (* lower case, as repr writes *)
Definition hex_val (c : N) : option N :=
  if (48 <=? c) && (c <=? 57) then Some (c - 48)
  else if (97 <=? c) && (c <=? 102) then Some (c - 87)
  else if (65 <=? c) && (c <=? 70) then Some (c - 55)
  else None.
Definition oct_val (c : N) : option N := if (48 <=? c) && (c <=? 55) then Some (c - 48) else None.
Definition dec_val (c : N) : option N := if (48 <=? c) && (c <=? 57) then Some (c - 48) else None.
Definition bin_val (c : N) : option N := if (48 <=? c) && (c <=? 49) then Some (c - 48) else None.
Definition zero_val (c : N) : option N := if c =? 48 then Some 0 else None.

Definition hex2 (v : N) : list N := [hex_char (v / 16); hex_char (v mod 16)].
Definition hex4 (v : N) : list N := hex2 (v / 256) ++ hex2 (v mod 256).
Definition hex8 (v : N) : list N := hex4 (v / 65536) ++ hex4 (v mod 65536).

(* the value of a run of hex digits; None if one of them is no hex digit *)
Fixpoint hex_value (acc : N) (l : list N) : option N :=
  match l with
  | [] => Some acc
  | c :: r => match hex_val c with Some d => hex_value (16 * acc + d) r | None => None end
  end.

(* ================================================================== *)
(* repr *)

(* unicode_repr: the single quote, unless the string contains a single and no double quote *)
Definition pick_quote (s : list N) : N :=
  if existsb (N.eqb SQ) s && negb (existsb (N.eqb DQ) s) then DQ else SQ.

Definition repr_str_char (printable : N -> bool) (q c : N) : list N :=
  if (c =? q) || (c =? BS) then [BS; c]
  else if c =? 9 then [BS; 116]
  else if c =? 10 then [BS; 110]
  else if c =? 13 then [BS; 114]
  else if (c <? 32) || (c =? 127) then BS :: 120 :: hex2 c
  else if c <? 127 then [c]
  else if printable c then [c]
  else if c <=? 0xFF then BS :: 120 :: hex2 c
  else if c <=? 0xFFFF then BS :: 117 :: hex4 c
  else BS :: 85 :: hex8 c.

Definition py_repr_str (printable : N -> bool) (s : list N) : list N :=
  let q := pick_quote s in q :: flat_map (repr_str_char printable q) s ++ [q].

(* bytes_repr *)
Definition repr_bytes_char (q c : N) : list N :=
  if (c =? q) || (c =? BS) then [BS; c]
  else if c =? 9 then [BS; 116]
  else if c =? 10 then [BS; 110]
  else if c =? 13 then [BS; 114]
  else if (c <? 32) || (127 <=? c) then BS :: 120 :: hex2 c
  else [c].

Definition py_repr_bytes (b : list N) : list N :=
  let q := pick_quote b in 98 :: q :: flat_map (repr_bytes_char q) b ++ [q].

(* int: decimal digits, least significant first; fuel = number of bits *)
Fixpoint dec_rev (fuel : nat) (n : N) : list N :=
  match fuel with
  | O => [48 + n mod 10]
  | S f => if n <? 10 then [48 + n] else (48 + n mod 10) :: dec_rev f (n / 10)
  end.
Definition py_repr_nat (n : N) : list N := rev (dec_rev (N.to_nat (N.size n)) n).
Definition py_repr_int (z : Z) : list N :=
  match z with
  | Zneg p => 45 :: py_repr_nat (Npos p)
  | _ => py_repr_nat (Z.to_N z)
  end.

(* True / False / None *)
Inductive pyconst := CTrue | CFalse | CNone.
Definition py_repr_bool_none (c : pyconst) : list N :=
  match c with
  | CTrue => [84; 114; 117; 101]
  | CFalse => [70; 97; 108; 115; 101]
  | CNone => [78; 111; 110; 101]
  end.
Definition list_N_eqb (a b : list N) : bool :=
  (length a =? length b)%nat && forallb (fun p => fst p =? snd p) (combine a b).
Definition decode_name_literal (t : list N) : option pyconst :=
  if list_N_eqb t (py_repr_bool_none CTrue) then Some CTrue
  else if list_N_eqb t (py_repr_bool_none CFalse) then Some CFalse
  else if list_N_eqb t (py_repr_bool_none CNone) then Some CNone
  else None.

(* ================================================================== *)
(* string / bytes literals *)

(* a source STRING handed to compile(): no NUL (source code string cannot contain null bytes), and it must be
   encodable as UTF-8 (a lone surrogate: UnicodeEncodeError) *)
Definition src_char_ok (c : N) : bool := negb (c =? 0) && negb (is_surrogate c) && (c <=? 0x10FFFF).

(* translate_newlines: CR LF and CR are LF for the tokenizer *)
Fixpoint translate_newlines (l : list N) : list N :=
  match l with
  | [] => []
  | c :: r =>
      if c =? CR then
        LF :: match r with
              | d :: r' => if d =? LF then translate_newlines r' else translate_newlines r
              | [] => []
              end
      else c :: translate_newlines r
  end.

(* the prefix: none, u, r, b, br, rb in any case (f-strings are no literals) *)
Inductive lit_kind := KStr | KRawStr | KBytes | KRawBytes.
Definition split_prefix (t : list N) : option (lit_kind * list N) :=
  match t with
  | a :: r1 =>
      if is_quote_n a then Some (KStr, t)
      else
        match r1 with
        | b :: r2 =>
            if is_quote_n b then
              if either_n 117 85 a then Some (KStr, r1)
              else if either_n 114 82 a then Some (KRawStr, r1)
              else if either_n 98 66 a then Some (KBytes, r1)
              else None
            else
              match r2 with
              | c :: _ =>
                  if is_quote_n c && ((either_n 98 66 a && either_n 114 82 b) || (either_n 114 82 a && either_n 98 66 b))
                  then Some (KRawBytes, r2) else None
              | [] => None
              end
        | [] => None
        end
  | [] => None
  end.

(* the extent of the token, as the tokenizer finds it: Some (body, rest behind the closing quote).
   A backslash protects the next character (whatever the prefix). *)
Definition pre_body (a : list N) (r : option (list N * list N)) : option (list N * list N) :=
  match r with Some (b, rest) => Some (a ++ b, rest) | None => None end.
Fixpoint body1 (q : N) (l : list N) : option (list N * list N) :=
  match l with
  | [] => None
  | c :: r =>
      if c =? LF then None
      else if c =? q then Some ([], r)
      else if c =? BS then match r with d :: r' => pre_body [c; d] (body1 q r') | [] => None end
      else pre_body [c] (body1 q r)
  end.
(* triple quoted: Some (body ++ the three closing quotes, rest) *)
Fixpoint body3 (q : N) (run : nat) (l : list N) : option (list N * list N) :=
  match l with
  | [] => None
  | c :: r =>
      if c =? q then (if Nat.eqb run 2 then Some ([c], r) else pre_body [c] (body3 q (S run) r))
      else if c =? BS then match r with d :: r' => pre_body [c; d] (body3 q 0 r') | [] => None end
      else pre_body [c] (body3 q 0 r)
  end.
(* [l] starts at the opening quote; the literal must end with the text *)
Definition quoted_body (l : list N) : option (list N) :=
  match l with
  | q :: r =>
      if is_quote_n q then
        let single := match body1 q r with Some (b, []) => Some b | _ => None end in
        match r with
        | q1 :: q2 :: r' =>
            if (q1 =? q) && (q2 =? q) then
              match body3 q 0 r' with
              | Some (lx, []) => Some (firstn (length lx - 3) lx)
              | _ => None
              end
            else single
        | _ => single
        end
      else None
  | [] => None
  end.

(* escape sequences of a non-raw body.  [bytes] = a bytes literal: no \u \U \N, octal values modulo 256 *)
Definition oct_out (bytes : bool) (v : N) : N := if bytes then v mod 256 else v.
Fixpoint unescape (bytes : bool) (l : list N) : option (list N) :=
  match l with
  | [] => Some []
  | c :: r =>
      if negb (c =? BS) then option_map (cons c) (unescape bytes r) else
      match r with
      | [] => None
      | d :: r1 =>
          if d =? LF then unescape bytes r1
          else if d =? BS then option_map (cons BS) (unescape bytes r1)
          else if d =? SQ then option_map (cons SQ) (unescape bytes r1)
          else if d =? DQ then option_map (cons DQ) (unescape bytes r1)
          else if d =? 97 then option_map (cons 7) (unescape bytes r1)       (* \a *)
          else if d =? 98 then option_map (cons 8) (unescape bytes r1)       (* \b *)
          else if d =? 102 then option_map (cons 12) (unescape bytes r1)     (* \f *)
          else if d =? 110 then option_map (cons 10) (unescape bytes r1)     (* \n *)
          else if d =? 114 then option_map (cons 13) (unescape bytes r1)     (* \r *)
          else if d =? 116 then option_map (cons 9) (unescape bytes r1)      (* \t *)
          else if d =? 118 then option_map (cons 11) (unescape bytes r1)     (* \v *)
          else
            match oct_val d with
            | Some o1 =>
                match r1 with
                | d2 :: r2 =>
                    match oct_val d2 with
                    | Some o2 =>
                        match r2 with
                        | d3 :: r3 =>
                            match oct_val d3 with
                            | Some o3 => option_map (cons (oct_out bytes (64 * o1 + 8 * o2 + o3))) (unescape bytes r3)
                            | None => option_map (cons (oct_out bytes (8 * o1 + o2))) (unescape bytes r2)
                            end
                        | [] => Some [oct_out bytes (8 * o1 + o2)]
                        end
                    | None => option_map (cons (oct_out bytes o1)) (unescape bytes r1)
                    end
                | [] => Some [oct_out bytes o1]
                end
            | None =>
                if d =? 120 then                                             (* \xhh *)
                  match r1 with
                  | h1 :: h2 :: r3 =>
                      match hex_value 0 [h1; h2] with
                      | Some v => option_map (cons v) (unescape bytes r3)
                      | None => None
                      end
                  | _ => None
                  end
                else if negb bytes && (d =? 117) then                        (* \uXXXX *)
                  match r1 with
                  | h1 :: h2 :: h3 :: h4 :: r5 =>
                      match hex_value 0 [h1; h2; h3; h4] with
                      | Some v => option_map (cons v) (unescape bytes r5)
                      | None => None
                      end
                  | _ => None
                  end
                else if negb bytes && (d =? 85) then                         (* \UXXXXXXXX *)
                  match r1 with
                  | h1 :: h2 :: h3 :: h4 :: h5 :: h6 :: h7 :: h8 :: r9 =>
                      match hex_value 0 [h1; h2; h3; h4; h5; h6; h7; h8] with
                      | Some v => if v <=? 0x10FFFF then option_map (cons v) (unescape bytes r9) else None
                      | None => None
                      end
                  | _ => None
                  end
                else if negb bytes && (d =? 78) then None                    (* \N{...}: outside the model *)
                else option_map (fun x => BS :: d :: x) (unescape bytes r1)  (* unknown escape: kept *)
            end
      end
  end.

Definition option_bind {A B : Type} (o : option A) (f : A -> option B) : option B :=
  match o with Some a => f a | None => None end.

Definition decode_str_literal (t : list N) : option (list N) :=
  if forallb src_char_ok t then
    match split_prefix (translate_newlines t) with
    | Some (KStr, l) => option_bind (quoted_body l) (unescape false)
    | Some (KRawStr, l) => quoted_body l
    | _ => None
    end
  else None.

Definition decode_bytes_literal (t : list N) : option (list N) :=
  if forallb src_char_ok t then
    match split_prefix (translate_newlines t) with
    | Some (KBytes, l) =>
        option_bind (quoted_body l) (fun b => if forallb (fun c => c <? 128) b then unescape true b else None)
    | Some (KRawBytes, l) =>
        option_bind (quoted_body l) (fun b => if forallb (fun c => c <? 128) b then Some b else None)
    | _ => None
    end
  else None.

(* adjacent literals: 'ab' 'cd' is 'abcd' (at least one piece; str pieces only) *)
Fixpoint decode_str_pieces (ts : list (list N)) : option (list N) :=
  match ts with
  | [] => Some []
  | t :: r =>
      match decode_str_literal t, decode_str_pieces r with
      | Some a, Some b => Some (a ++ b)
      | _, _ => None
      end
  end.
Definition decode_str_literals (ts : list (list N)) : option (list N) :=
  match ts with [] => None | _ => decode_str_pieces ts end.

(* ================================================================== *)
(* integer literals (non-negative: the sign is a token of its own) *)

(* digits with single underscores, each underscore followed by a digit; an underscore may lead (radix literals:
   0x_1; for decimal literals the caller has consumed the first digit) *)
Fixpoint digits_val (base : N) (dv : N -> option N) (acc : N) (l : list N) : option N :=
  match l with
  | [] => Some acc
  | c :: r =>
      if c =? 95 then
        match r with
        | d :: r' => match dv d with Some v => digits_val base dv (base * acc + v) r' | None => None end
        | [] => None
        end
      else match dv c with Some v => digits_val base dv (base * acc + v) r | None => None end
  end.
Definition radix_val (base : N) (dv : N -> option N) (l : list N) : option N :=
  match l with [] => None | _ => digits_val base dv 0 l end.

(* sys.int_max_str_digits, default value: decimal text of more digits is refused in both directions
   (repr raises ValueError, the literal SyntaxError); binary bases are not limited *)
Definition int_max_str_digits : N := 4300.
Definition count_digits (l : list N) : N := N.of_nat (length (filter (fun c => negb (c =? 95)) l)).

Definition decode_nat_literal (t : list N) : option N :=
  match t with
  | c :: r =>
      if c =? 48 then
        match r with
        | [] => Some 0
        | x :: r' =>
            if either_n 120 88 x then radix_val 16 hex_val r'
            else if either_n 111 79 x then radix_val 8 oct_val r'
            else if either_n 98 66 x then radix_val 2 bin_val r'
            else match digits_val 10 zero_val 0 r with Some _ => Some 0 | None => None end
        end
      else
        match dec_val c with
        | Some v => if count_digits t <=? int_max_str_digits then digits_val 10 dec_val v r else None
        | None => None
        end
  | [] => None
  end.
Definition decode_int_literal (t : list N) : option Z := option_map Z.of_N (decode_nat_literal t).
(* without the digit limit (sys.set_int_max_str_digits(0)) *)
Definition decode_nat_literal_nolimit (t : list N) : option N :=
  match t with
  | c :: r =>
      if c =? 48 then decode_nat_literal t
      else match dec_val c with Some v => digits_val 10 dec_val v r | None => None end
  | [] => None
  end.
Definition decode_int_literal_nolimit (t : list N) : option Z := option_map Z.of_N (decode_nat_literal_nolimit t).

(* ================================================================== *)
(* predicates used by the statements of Proofs/StrLitProofs.v *)

(* no occurrence of the quote [q] that is not protected by a backslash; no dangling backslash at the end *)
Fixpoint no_unescaped (q : N) (l : list N) : bool :=
  match l with
  | [] => true
  | c :: r =>
      if c =? BS then match r with _ :: r' => no_unescaped q r' | [] => false end
      else negb (c =? q) && no_unescaped q r
  end.
Definition printable_ascii (c : N) : bool := (32 <=? c) && (c <=? 126).
Definition no_line_break (c : N) : bool := negb (c =? LF) && negb (c =? CR).
