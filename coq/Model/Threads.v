(* C18: interleaving semantics for the two shared records of gin/config.py:
   the operative config, updated (1560-1562) and serialised (2247-2250) under
   _OPERATIVE_CONFIG_LOCK, and the singleton cache of singleton_value
   (2757-2766).  A thread is a list of actions; each action unfolds into atomic
   steps (source-line granularity); a schedule is any list of thread ids; a
   scheduled thread that is finished or waiting for a lock simply does not move.
   [locked_ops] / [locked_singletons] select the code under study:
     operative:  true  = the code as it is (lock taken)     false = a variant without the lock
     singletons: true  = the repaired code (lock)           false = the original check-then-act
   Definitions only. *)
From Coq Require Import List String ZArith Bool Arith.
From GinV Require Import Lib.Out Lib.PyStr Model.Values.
Import ListNotations.
Open Scope string_scope.
Open Scope list_scope.

Definition tid := nat.
Definition okey := (string * string)%type.           (* (scope_str, selector) *)
Definition okey_eqb (a b : okey) : bool := String.eqb (fst a) (fst b) && String.eqb (snd a) (snd b).
Definition oper := list (okey * list (string * Z)).   (* parameter values abstracted to integers *)

Inductive action :=
| ACall (k : okey) (vals : list (string * Z))   (* a configurable call: its operative update *)
| ARead                                         (* operative_config_str() *)
| ASingleton (name : string).                   (* singleton_value(name, constructor) *)

(* atomic steps *)
Inductive astep :=
| SAcquire | SRelease                            (* _OPERATIVE_CONFIG_LOCK *)
| SSetDefault (k : okey) | SUpdate (k : okey) (vals : list (string * Z))
| SIterBegin | SIterNext | SIterEnd
| SAcquireS | SReleaseS                          (* the singleton lock of the repaired code *)
| SCheck (name : string) | SConstruct (name : string) | SStore (name : string) | SReadS (name : string).

Record tstate : Type := {
  th_steps : list astep;        (* remaining atomic steps of the current action *)
  th_actions : list action;     (* remaining actions *)
  th_iter : option (nat * nat); (* reading: (size at IterBegin, items yielded so far) *)
  th_found : bool;              (* singleton: result of the last Check *)
  th_built : option nat;        (* singleton: object constructed, not yet stored *)
  th_results : list out }.      (* what this thread observed, most recent first *)

Record gstate : Type := {
  g_oper : oper;
  g_lock : option tid;
  g_slock : option tid;
  g_single : list (string * nat);   (* name -> object id *)
  g_next_obj : nat;                 (* construct counter = next object id *)
  g_constructed : list (string * nat);  (* every construction that happened: (name, object id) *)
  g_failed : bool;                  (* some step failed because of another thread *)
  g_threads : list tstate }.

Definition unfold_action (locked_ops locked_singletons : bool) (a : action) : list astep :=
  match a with
  | ACall k vals => (if locked_ops then [SAcquire] else []) ++ [SSetDefault k; SUpdate k vals] ++ (if locked_ops then [SRelease] else [])
  | ARead => (if locked_ops then [SAcquire] else []) ++ [SIterBegin; SIterNext] ++ (if locked_ops then [SRelease] else [])
  | ASingleton n => (if locked_singletons then [SAcquireS] else []) ++ [SCheck n; SConstruct n; SStore n; SReadS n]
                    ++ (if locked_singletons then [SReleaseS] else [])
  end.

Definition oget (k : okey) (o : oper) := @aget okey (list (string * Z)) okey_eqb k o.
Definition oset (k : okey) v (o : oper) := @aset okey (list (string * Z)) okey_eqb k v o.
Definition zupdate (d e : list (string * Z)) : list (string * Z) := @aupdate string Z String.eqb d e.

Definition upd_thread (t : tid) (ts : tstate) (l : list tstate) : list tstate :=
  firstn t l ++ match skipn t l with [] => [] | _ :: r => ts :: r end.
Definition set_thread (g : gstate) (t : tid) (ts : tstate) : gstate :=
  {| g_oper := g_oper g; g_lock := g_lock g; g_slock := g_slock g; g_single := g_single g; g_next_obj := g_next_obj g;
     g_constructed := g_constructed g; g_failed := g_failed g; g_threads := upd_thread t ts (g_threads g) |}.

Definition with_steps (ts : tstate) (steps : list astep) : tstate :=
  {| th_steps := steps; th_actions := th_actions ts; th_iter := th_iter ts; th_found := th_found ts;
     th_built := th_built ts; th_results := th_results ts |}.
Definition add_result (ts : tstate) (o : out) : tstate :=
  {| th_steps := th_steps ts; th_actions := th_actions ts; th_iter := th_iter ts; th_found := th_found ts;
     th_built := th_built ts; th_results := o :: th_results ts |}.

Definition oper_out (o : oper) : out :=
  OL (map (fun e => OL [OS (fst (fst e)); OS (snd (fst e)); OL (map (fun kv => OL [OS (fst kv); OZ (snd kv)]) (snd e))]) o).

(* one atomic step of thread t, if it is enabled *)
Definition step (lo ls : bool) (g : gstate) (t : tid) : option gstate :=
  match nth_error (g_threads g) t with
  | None => None
  | Some ts =>
      (* fetch the next atomic step, unfolding the next action if needed *)
      let '(ts, st) :=
        match th_steps ts with
        | s :: r => (with_steps ts r, Some s)
        | [] => match th_actions ts with
                | [] => (ts, None)
                | a :: ar =>
                    match unfold_action lo ls a with
                    | s :: r => ({| th_steps := r; th_actions := ar; th_iter := th_iter ts; th_found := th_found ts;
                                    th_built := th_built ts; th_results := th_results ts |}, Some s)
                    | [] => (ts, None)
                    end
                end
        end in
      match st with
      | None => None
      | Some s =>
          let put g' ts' := Some (set_thread g' t ts') in
          let g_with o l sl si no co f :=
            {| g_oper := o; g_lock := l; g_slock := sl; g_single := si; g_next_obj := no; g_constructed := co;
               g_failed := f; g_threads := g_threads g |} in
          match s with
          | SAcquire => match g_lock g with
                        | None => put (g_with (g_oper g) (Some t) (g_slock g) (g_single g) (g_next_obj g) (g_constructed g) (g_failed g)) ts
                        | Some _ => None           (* blocked: the step is retried later *)
                        end
          | SRelease => put (g_with (g_oper g) None (g_slock g) (g_single g) (g_next_obj g) (g_constructed g) (g_failed g)) ts
          | SSetDefault k =>
              let o := match oget k (g_oper g) with Some _ => g_oper g | None => oset k [] (g_oper g) end in
              put (g_with o (g_lock g) (g_slock g) (g_single g) (g_next_obj g) (g_constructed g) (g_failed g)) ts
          | SUpdate k vals =>
              let d := match oget k (g_oper g) with Some d => d | None => [] end in
              put (g_with (oset k (zupdate d vals) (g_oper g)) (g_lock g) (g_slock g) (g_single g) (g_next_obj g)
                          (g_constructed g) (g_failed g)) ts
          | SIterBegin =>
              put g {| th_steps := th_steps ts; th_actions := th_actions ts; th_iter := Some (List.length (g_oper g), 0);
                       th_found := th_found ts; th_built := th_built ts; th_results := th_results ts |}
          | SIterNext =>
              (* dict iteration: RuntimeError "dictionary changed size during iteration" if the size differs;
                 otherwise yield one item; repeat until all items are yielded *)
              match th_iter ts with
              | None => None
              | Some (size0, i) =>
                  if negb (Nat.eqb (List.length (g_oper g)) size0) then
                    put (g_with (g_oper g) (g_lock g) (g_slock g) (g_single g) (g_next_obj g) (g_constructed g) true)
                        (add_result {| th_steps := []; th_actions := th_actions ts; th_iter := None; th_found := th_found ts;
                                       th_built := th_built ts; th_results := th_results ts |} (OErr "RuntimeError"))
                  else if Nat.ltb i size0 then
                    put g {| th_steps := SIterNext :: th_steps ts; th_actions := th_actions ts; th_iter := Some (size0, S i);
                             th_found := th_found ts; th_built := th_built ts; th_results := th_results ts |}
                  else
                    put g (add_result {| th_steps := th_steps ts; th_actions := th_actions ts; th_iter := None;
                                         th_found := th_found ts; th_built := th_built ts; th_results := th_results ts |}
                                      (oper_out (g_oper g)))
              end
          | SIterEnd => put g ts
          | SAcquireS => match g_slock g with
                         | None => put (g_with (g_oper g) (g_lock g) (Some t) (g_single g) (g_next_obj g) (g_constructed g) (g_failed g)) ts
                         | Some u => if Nat.eqb u t then put g ts else None
                         end
          | SReleaseS => put (g_with (g_oper g) (g_lock g) None (g_single g) (g_next_obj g) (g_constructed g) (g_failed g)) ts
          | SCheck n =>
              put g {| th_steps := th_steps ts; th_actions := th_actions ts; th_iter := th_iter ts;
                       th_found := match sget n (g_single g) with Some _ => true | None => false end;
                       th_built := None; th_results := th_results ts |}
          | SConstruct n =>
              if th_found ts then put g ts else
              put (g_with (g_oper g) (g_lock g) (g_slock g) (g_single g) (S (g_next_obj g))
                          ((n, g_next_obj g) :: g_constructed g) (g_failed g))
                  {| th_steps := th_steps ts; th_actions := th_actions ts; th_iter := th_iter ts; th_found := false;
                     th_built := Some (g_next_obj g); th_results := th_results ts |}
          | SStore n =>
              match th_built ts with
              | None => put g ts
              | Some obj => put (g_with (g_oper g) (g_lock g) (g_slock g) (sset n obj (g_single g)) (g_next_obj g)
                                        (g_constructed g) (g_failed g)) ts
              end
          | SReadS n =>
              put g (add_result ts (match sget n (g_single g) with Some obj => OZ (Z.of_nat obj) | None => OErr "KeyError" end))
          end
      end
  end.

Fixpoint run_schedule (lo ls : bool) (g : gstate) (pi : list tid) : gstate :=
  match pi with
  | [] => g
  | t :: r => run_schedule lo ls (match step lo ls g t with Some g' => g' | None => g end) r
  end.

Definition init_thread (acts : list action) : tstate :=
  {| th_steps := []; th_actions := acts; th_iter := None; th_found := false; th_built := None; th_results := [] |}.
Definition init_g (progs : list (list action)) : gstate :=
  {| g_oper := []; g_lock := None; g_slock := None; g_single := []; g_next_obj := 0; g_constructed := [];
     g_failed := false; g_threads := map init_thread progs |}.

Definition finished (g : gstate) : bool :=
  forallb (fun ts => match th_steps ts, th_actions ts with [], [] => true | _, _ => false end) (g_threads g).

(* round-robin completion after the explicit schedule (fuel-bounded) *)
Fixpoint complete (lo ls : bool) (fuel : nat) (g : gstate) : gstate :=
  match fuel with
  | O => g
  | S f => if finished g then g
           else complete lo ls f (run_schedule lo ls g (seq 0 (List.length (g_threads g))))
  end.

(* sequential reference: each thread's actions run to completion one thread after the other *)
Definition sequential (lo ls : bool) (progs : list (list action)) : gstate :=
  fold_left (fun g t => complete lo ls 1000 (run_schedule lo ls g (repeat t 1000)))
            (seq 0 (List.length progs)) (init_g progs).

(* engine entry *)
Definition run (p : (bool * bool) * list (list action) * list tid) : out :=
  let '((lo, ls), progs, pi) := p in
  let g := complete lo ls 200 (run_schedule lo ls (init_g progs) pi) in
  OL [OB (g_failed g); oper_out (g_oper g);
      OL (map (fun ts => OL (rev (th_results ts))) (g_threads g));
      OL (map (fun c => OL [OS (fst c); OZ (Z.of_nat (snd c))]) (rev (g_constructed g)))].
