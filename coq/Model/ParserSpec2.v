(* Specification side for C03: abstract statements, their rendering to token lists in
   an arbitrary layout, and what the parser must recover. *)
From Coq Require Import List String ZArith Bool Arith.
From GinV Require Import Lib.Out Lib.PyStr Model.Parser Model.ParserSpec.
Import ListNotations.
Open Scope string_scope.
Open Scope list_scope.

(* a scoped name as its written pieces: identifiers separated by "/" (scopes) and "." (selector), e.g.
   ["a"; "/"; "b"; "."; "c"] ; rendered as ADJACENT tokens on one line starting at (row, col) *)
Fixpoint name_tokens (row col : nat) (parts : list string) (is_name : bool) : list token :=
  match parts with
  | [] => []
  | p :: r =>
      let len := String.length p in
      {| ty := if is_name then NAME else OP; text := p; srow := row; scol := col; erow := row; ecol := col + len |}
        :: name_tokens row (col + len) r (negb is_name)
  end.
Definition name_text (parts : list string) : string := concat_strs parts.

(* well-formed written name: alternating identifiers and separators, ending with an identifier, "/" never after "." *)
Definition wf_name (parts : list string) : Prop :=
  parts <> [] /\ selector_format_ok true false (name_text parts) = true /\
  (fix alt (l : list string) (is_name : bool) : Prop :=
     match l with
     | [] => is_name = false
     | p :: r => (if is_name then is_identifier p = true else (p = "/" \/ p = ".")) /\ alt r (negb is_name)
     end) parts true.

Definition tok (t : ttype) (s : string) (row : nat) : token := {| ty := t; text := s; srow := row; scol := 0; erow := row; ecol := 0 |}.

(* leading trivia before a statement at top level: blank lines (NL), comment lines (COMMENT NL), stray INDENT/DEDENT *)
Definition lead_tok (t : token) : Prop := ty t = NL \/ ty t = COMMENT \/ ty t = INDENT \/ ty t = DEDENT.

(* a flat binding or macro statement  `name = value`  rendered on row `row`:
   name tokens, optional blanks are invisible (token positions only), "=", the value tokens (any layout), then trivia, NEWLINE *)
Definition binding_tokens (row : nat) (parts : list string) (value_toks trailing : list token) : list token :=
  name_tokens row 0 parts true ++ [tok OP "=" row] ++ value_toks ++ trailing ++ [tok NEWLINE "" row].

(* imports: the four forms *)
Definition import_tokens (row : nat) (module_parts : list string) (alias : option string) : list token :=
  [tok NAME "import" row] ++ name_tokens row 7 module_parts true ++
  (match alias with Some a => [tok NAME "as" row; tok NAME a row] | None => [] end) ++ [tok NEWLINE "" row].
Definition from_tokens (row : nat) (module_parts : list string) (leaf : string) (alias : option string) : list token :=
  [tok NAME "from" row] ++ name_tokens row 5 module_parts true ++ [tok NAME "import" row; tok NAME leaf row] ++
  (match alias with Some a => [tok NAME "as" row; tok NAME a row] | None => [] end) ++ [tok NEWLINE "" row].
Definition include_tokens (row : nat) (strs : list token) : list token :=
  [tok NAME "include" row] ++ strs ++ [tok NEWLINE "" row].
