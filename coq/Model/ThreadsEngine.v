(* Engine view of the thread model: schedule-independent observations only
   (failure flag, look-ups in the final operative record, constructions per
   singleton name, whether all users of a name got one object). *)
From Coq Require Import List String ZArith Bool Arith.
From GinV Require Import Lib.Out Lib.PyStr Model.Values Model.Threads.
Import ListNotations.
Open Scope string_scope.
Open Scope list_scope.

Definition lookup (g : gstate) (q : okey * string) : out :=
  match oget (fst q) (g_oper g) with
  | None => OT "NoSection" []
  | Some d => match aget String.eqb (snd q) d with Some z => OZ z | None => OT "NoParam" [] end
  end.
Definition count_constructed (g : gstate) (n : string) : out :=
  OZ (Z.of_nat (List.length (filter (fun c => String.eqb (fst c) n) (g_constructed g)))).

Definition run_final (p : (bool * bool) * list (list action) * list tid * list (okey * string) * list string) : out :=
  let '((lo, ls), progs, pi, queries, names) := p in
  let g := complete lo ls 300 (run_schedule lo ls (init_g progs) pi) in
  OL [OB (g_failed g); OB (finished g); OL (map (lookup g) queries); OL (map (count_constructed g) names)].
