(* Model of dynamic registration: gin/config.py:ParseContext (152-334), the import
   binding rules, registration under a module path derived from the import, the
   inverse registry, and the import header / selectors of config_str under dynamic
   registration (ImportManager.require_configurable / minimal_selector, 2024-2099).
   The Python universe (modules, classes, functions) is given as a tree; __import__
   and getattr are its look-ups.  Definitions only. *)
From Coq Require Import List String ZArith Bool Arith.
From GinV Require Import Lib.Out Lib.PyStr Model.SelectorMap Model.Serial.
Import ListNotations.
Open Scope string_scope.
Open Scope list_scope.

Inductive pyobj :=
| PMod (attrs : list (string * pyobj))
| PClass (id : nat) (attrs : list (string * pyobj))
| PFunc (id : nat)
| POther.

Fixpoint pget (n : string) (l : list (string * pyobj)) : option pyobj :=
  match l with [] => None | (k, v) :: r => if String.eqb n k then Some v else pget n r end.
Definition attrs_of (o : pyobj) : list (string * pyobj) :=
  match o with PMod a => a | PClass _ a => a | _ => [] end.
Definition obj_id (o : pyobj) : option nat := match o with PClass i _ => Some i | PFunc i => Some i | _ => None end.
Definition is_module (o : pyobj) : bool := match o with PMod _ => true | _ => false end.
Definition is_class (o : pyobj) : bool := match o with PClass _ _ => true | _ => false end.
Definition is_func (o : pyobj) : bool := match o with PFunc _ => true | _ => false end.

(* __import__(dotted): every component must be a module *)
Fixpoint import_path (univ : list (string * pyobj)) (parts : list string) : option pyobj :=
  match parts with
  | [] => None
  | [p] => match pget p univ with Some (PMod a) => Some (PMod a) | _ => None end
  | p :: r => match pget p univ with Some (PMod a) => import_path a r | _ => None end
  end.

Record dimport : Type := { d_module : string; d_from : bool; d_alias : option string }.
Definition to_simport (d : dimport) : simport := {| i_module := d_module d; i_from := d_from d; i_alias := d_alias d |}.
Definition d_bound_name (d : dimport) : string := bound_name (to_simport d).
(* ImportStatement.partial_path (109-117) *)
Definition partial_path (d : dimport) : string :=
  match d_alias d with
  | Some a => join_dot (removelast (split_dot (d_module d)) ++ [a])
  | None => if d_from d then d_module d else hd "" (split_dot (d_module d))
  end.

Record centry : Type := {           (* a registered configurable *)
  ce_sel : string; ce_obj : nat; ce_method : bool;
  ce_src : option (dimport * string);     (* import_source: (statement, attribute path) *)
  ce_home : string * string }.            (* the object's own (__module__, __qualname__): used when it has no import source *)

Record dstate : Type := {
  ds_reg : list centry;                          (* registration order *)
  ds_store : list ((string * string) * list (string * Z));
  ds_imports : list dimport;                     (* _IMPORTS (recorded as soon as an import statement took effect) *)
  ds_dynamic_seen : bool }.

Record dctx : Type := {              (* one ParseContext *)
  c_dynamic : bool;
  c_imports : list dimport;
  c_table : list (string * (pyobj * dimport)) }.

Inductive dres (A : Type) := DOk (a : A) | DErr (cls : string).
Arguments DOk {A}. Arguments DErr {A}.

Definition gin_feature_prefix := "__gin__.".

(* process_import (189-219) *)
Definition process_import (univ : list (string * pyobj)) (c : dctx) (d : dimport) : dres dctx :=
  if d_from d && String.prefix gin_feature_prefix (d_module d) then
    match d_alias d with
    | Some _ => DErr "SyntaxError"
    | None =>
        if String.eqb (d_module d) "__gin__.dynamic_registration" then
          match c_imports c with
          | _ :: _ => DErr "SyntaxError"
          | [] => DOk {| c_dynamic := true; c_imports := c_imports c ++ [d]; c_table := c_table c |}
          end
        else DErr "SyntaxError"
    end
  else
    match import_path univ (split_dot (d_module d)) with
    | None => DErr "ModuleNotFoundError"
    | Some leaf =>
        (* __import__ returns the top package unless fromlist is given (from / alias) *)
        let bound := if d_from d || match d_alias d with Some _ => true | None => false end then leaf
                     else match pget (hd "" (split_dot (d_module d))) univ with Some m => m | None => POther end in
        if c_dynamic c then
          if String.eqb (d_bound_name d) "gin" then DErr "ValueError"
          else DOk {| c_dynamic := true; c_imports := c_imports c ++ [d];
                      c_table := (d_bound_name d, (bound, d)) :: filter (fun e => negb (String.eqb (fst e) (d_bound_name d))) (c_table c) |}
        else DOk {| c_dynamic := false; c_imports := c_imports c ++ [d]; c_table := c_table c |}
    end.

(* _resolve_selector (221-259): first component in the symbol table, then attributes *)
Fixpoint follow (o : pyobj) (names : list string) (acc : list pyobj) : option (list pyobj) :=
  match names with
  | [] => Some (acc ++ [o])
  | n :: r => match pget n (attrs_of o) with Some o' => follow o' r (acc ++ [o]) | None => None end
  end.

(* _INVERSE_REGISTRY[obj]: the most recent registration of the object *)
Fixpoint find_obj_first (i : nat) (l : list centry) : option centry :=
  match l with [] => None | e :: r => if Nat.eqb (ce_obj e) i then Some e else find_obj_first i r end.
Definition find_obj (i : nat) (l : list centry) : option centry := find_obj_first i (rev l).
Fixpoint find_sel (s : string) (l : list centry) : option centry :=
  match l with [] => None | e :: r => if String.eqb (ce_sel e) s then Some e else find_sel s r end.

(* _import_source (261-280) *)
Definition import_source (d : dimport) (attr_names : list string) : dimport * string :=
  if negb (d_from d) && match d_alias d with None => true | Some _ => false end then
    let mparts := split_dot (d_module d) in
    let n := (fix cnt (a b : list string) : nat :=
                match a, b with
                | x :: r, y :: q => if String.eqb x y then S (cnt r q) else 0
                | _, _ => 0
                end) mparts (removelast attr_names) in
    ({| d_module := join_dot (firstn n mparts); d_from := false; d_alias := None |}, join_dot (skipn n attr_names))
  else (d, join_dot (tl attr_names)).

(* _register (282-321): registers the leaf; for a method (function whose parent is a class) also the class.
   Returns the new registry and the selector of the leaf *)
Fixpoint replace_entry (sel : string) (e : centry) (l : list centry) : list centry :=
  match l with [] => [] | x :: r => if String.eqb (ce_sel x) sel then e :: r else x :: replace_entry sel e r end.

(* Returns the new registry, the selector of the leaf, and the re-pointings (previous latest selector of a
   re-registered object -> its new selector).
   Repaired code (F22): an object that is already registered -- in _register this is a CLASS re-registered for one of its
   methods -- keeps the selector (name, module) and the import source it has, whichever import spelling reached it this
   time; only an unregistered object is registered under the module path derived from the import. *)
Definition do_one (d : dimport) (reg : list centry) (names : list string) (o : pyobj) (is_method : bool)
  : dres (list centry * string * list (string * string)) :=
    match obj_id o with
    | None => DErr "TypeError"
    | Some i =>
        let inner := removelast (tl names) in
        let module := join_dot (partial_path d :: inner) in
        let sel := match find_obj i reg with
                   | Some e0 => ce_sel e0
                   | None => (module ++ "." ++ last names "")%string
                   end in
        let entry := {| ce_sel := sel; ce_obj := i; ce_method := is_method;
                        ce_src := match find_obj i reg with Some e0 => ce_src e0 | None => Some (import_source d names) end;
                        ce_home := match find_obj i reg with Some e0 => ce_home e0 | None => ("", "") end |} in
        let prev := match find_obj i reg with Some e => [(ce_sel e, sel)] | None => [] end in
        match find_sel sel reg with
        (* re-registration under the same selector: _INVERSE_REGISTRY[obj] now denotes THIS registration, i.e. it
           becomes the most recent one (find_obj reads the list from the right) *)
        | Some e => if Nat.eqb (ce_obj e) i
                    then DOk (filter (fun x => negb (String.eqb (ce_sel x) sel)) reg ++ [entry], sel, prev)
                    else DErr "ValueError"
        | None => DOk (reg ++ [entry], sel, prev)
        end
    end.
(* a method (function whose parent is a class): the class is (re-)registered -- keeping its selector when it has one --
   and the method is homed under the CLASS'S selector (repaired code: module = parent.selector), with the import source
   of the spelling that reached it *)
Definition register_chain (reg : list centry) (d : dimport) (attr_names : list string) (chain : list pyobj)
  : dres (list centry * string * list (string * string)) :=
  let do_one := do_one d in
  match rev chain, rev (removelast chain) with
  | leaf :: _, parent :: _ =>
      if is_func leaf && is_class parent then
        match do_one reg (removelast attr_names) parent false with
        | DErr e => DErr e
        | DOk (reg1, csel, rp) =>
            match obj_id leaf with
            | None => DErr "TypeError"
            | Some i =>
                let sel := (csel ++ "." ++ last attr_names "")%string in
                match find_obj i reg1 with
                | Some _ => DOk (reg1, sel, rp)
                | None =>
                    (* _make_configurable (1713-1720): another object already registered under this selector *)
                    match find_sel sel reg1 with
                    | Some _ => DErr "ValueError"
                    | None => DOk (reg1 ++ [{| ce_sel := sel; ce_obj := i; ce_method := true; ce_src := Some (import_source d attr_names); ce_home := ("", "") |}], sel, rp)
                    end
                end
            end
        end
      else do_one reg attr_names leaf false
  | _, _ => DErr "ModelError"
  end.

(* ---- the code before the repair (F22): every registration, also the re-registration of a class for one of its
   methods, went under the module path derived from the CURRENT import: a class reached through a second import spelling
   got a second configurable; and _find_registered_methods rejected the new class registration (ValueError, 'registered
   with a custom module') when another method of the class was registered under the class's first selector ---- *)
Definition sel_module (sel : string) : string := join_dot (removelast (split_dot sel)).
Definition method_ids (o : pyobj) : list nat :=
  flat_map (fun kv => match snd kv with PFunc j => [j] | _ => [] end) (attrs_of o).
Definition do_one_orig (d : dimport) (reg : list centry) (names : list string) (o : pyobj) (is_method : bool)
  : dres (list centry * string * list (string * string)) :=
    match obj_id o with
    | None => DErr "TypeError"
    | Some i =>
        let inner := removelast (tl names) in
        let module := join_dot (partial_path d :: inner) in
        let sel := (module ++ "." ++ last names "")%string in
        let entry := {| ce_sel := sel; ce_obj := i; ce_method := is_method; ce_src := Some (import_source d names); ce_home := ("", "") |} in
        let prev := match find_obj i reg with Some e => [(ce_sel e, sel)] | None => [] end in
        (* _find_registered_methods: a registered method of the class whose module is not the class's (new) selector *)
        if existsb (fun e => ce_method e && existsb (Nat.eqb (ce_obj e)) (method_ids o) && negb (String.eqb (sel_module (ce_sel e)) sel)) reg
        then DErr "ValueError" else
        match find_sel sel reg with
        | Some e => if Nat.eqb (ce_obj e) i
                    then DOk (filter (fun x => negb (String.eqb (ce_sel x) sel)) reg ++ [entry], sel, prev)
                    else DErr "ValueError"
        | None => DOk (reg ++ [entry], sel, prev)
        end
    end.
Definition register_chain_orig (reg : list centry) (d : dimport) (attr_names : list string) (chain : list pyobj)
  : dres (list centry * string * list (string * string)) :=
  let do_one := do_one_orig d in
  match rev chain, rev (removelast chain) with
  | leaf :: _, parent :: _ =>
      if is_func leaf && is_class parent then
        match do_one reg (removelast attr_names) parent false with
        | DErr e => DErr e
        | DOk (reg1, csel, rp) =>
            match obj_id leaf with
            | None => DErr "TypeError"
            | Some i =>
                let sel := (csel ++ "." ++ last attr_names "")%string in
                match find_obj i reg1 with
                | Some _ => DOk (reg1, sel, rp)
                | None =>
                    match find_sel sel reg1 with
                    | Some _ => DErr "ValueError"
                    | None => DOk (reg1 ++ [{| ce_sel := sel; ce_obj := i; ce_method := true; ce_src := Some (import_source d attr_names); ce_home := ("", "") |}], sel, rp)
                    end
                end
            end
        end
      else do_one reg attr_names leaf false
  | _, _ => DErr "ModelError"
  end.

Fixpoint tget (n : string) (l : list (string * (pyobj * dimport))) : option (pyobj * dimport) :=
  match l with [] => None | (k, v) :: r => if String.eqb n k then Some v else tget n r end.

(* ParseContext.get_configurable under dynamic registration (323-332) *)
Definition get_configurable (reg : list centry) (c : dctx) (selector : string) : dres (list centry * string * list (string * string)) :=
  if negb (c_dynamic c) then
    (* no dynamic registration in this file: _REGISTRY.get_match(selector), i.e. unique dotted suffix *)
    let regmap := fold_left (fun m sel => sm_set (to_key sel) tt m)
                            (["gin.macro"; "gin.constant"; "gin.singleton"] ++ map ce_sel reg) sm_empty in
    match sm_get_match (to_key selector) regmap with
    | MOne k _ => DOk (reg, of_key k, [])
    | MAmbiguous => DErr "KeyError"
    | MNone => DErr "ValueError"
    end
  else
  let names := split_dot selector in
  match tget (hd "" names) (c_table c) with
  | None => DErr "NameError"
  | Some (root, d) =>
      match follow root (tl names) [] with
      | None => DErr "AttributeError"
      | Some chain =>
          match obj_id (last chain POther) with
          | None => DErr "TypeError"
          | Some i =>
              match find_obj i reg with
              | Some e => DOk (reg, ce_sel e, [])
              | None => register_chain reg d names chain
              end
          end
      end
  end.

(* the same over the registration of the code before the repair (F22) *)
Definition get_configurable_orig (reg : list centry) (c : dctx) (selector : string) : dres (list centry * string * list (string * string)) :=
  if negb (c_dynamic c) then
    (* no dynamic registration in this file: _REGISTRY.get_match(selector), i.e. unique dotted suffix *)
    let regmap := fold_left (fun m sel => sm_set (to_key sel) tt m)
                            (["gin.macro"; "gin.constant"; "gin.singleton"] ++ map ce_sel reg) sm_empty in
    match sm_get_match (to_key selector) regmap with
    | MOne k _ => DOk (reg, of_key k, [])
    | MAmbiguous => DErr "KeyError"
    | MNone => DErr "ValueError"
    end
  else
  let names := split_dot selector in
  match tget (hd "" names) (c_table c) with
  | None => DErr "NameError"
  | Some (root, d) =>
      match follow root (tl names) [] with
      | None => DErr "AttributeError"
      | Some chain =>
          match obj_id (last chain POther) with
          | None => DErr "TypeError"
          | Some i =>
              match find_obj i reg with
              | Some e => DOk (reg, ce_sel e, [])
              | None => register_chain_orig reg d names chain
              end
          end
      end
  end.

(* What a FAILED resolution leaves behind: _register (282-321) registers the method itself (as a plain
   function, under <class selector>.<name>) before its class; when the class's selector is then found taken
   by another object the statement fails with the method still registered. *)
Definition failed_reg (reg : list centry) (c : dctx) (selector : string) : list centry :=
  if negb (c_dynamic c) then reg else
  let names := split_dot selector in
  match tget (hd "" names) (c_table c) with
  | None => reg
  | Some (root, d) =>
      match follow root (tl names) [] with
      | None => reg
      | Some chain =>
          match rev chain, rev (removelast chain) with
          | leaf :: _, parent :: _ =>
              match obj_id leaf with
              | Some i =>
                  if is_func leaf && is_class parent && match find_obj i reg with None => true | Some _ => false end then
                    match do_one d reg names leaf false, do_one d reg (removelast names) parent false with
                    | DOk (reg1, _, _), DErr _ => reg1
                    | _, _ => reg
                    end
                  else reg
              | None => reg
              end
          | _, _ => reg
          end
      end
  end.
Definition with_reg (s : dstate) (reg : list centry) : dstate :=
  {| ds_reg := reg; ds_store := ds_store s; ds_imports := ds_imports s; ds_dynamic_seen := ds_dynamic_seen s |}.

(* ---- statements of one config text ---- *)
Inductive dvalue := DVal (z : Z) | DRef (scopes : list string) (sel : string).
Inductive dstmt :=
| DImport (d : dimport)
| DBind (scope sel param : string) (v : dvalue)
| DBlock (scope sel : string).

Definition skey_eqb (a b : string * string) : bool := String.eqb (fst a) (fst b) && String.eqb (snd a) (snd b).
Fixpoint st_get (k : string * string) (l : list ((string * string) * list (string * Z))) :=
  match l with [] => None | (j, v) :: r => if skey_eqb k j then Some v else st_get k r end.
Fixpoint st_set (k : string * string) (v : list (string * Z)) (l : list ((string * string) * list (string * Z))) :=
  match l with [] => [(k, v)] | (j, w) :: r => if skey_eqb k j then (j, v) :: r else (j, w) :: st_set k v r end.
Fixpoint pz_set (p : string) (z : Z) (l : list (string * Z)) : list (string * Z) :=
  match l with [] => [(p, z)] | (q, w) :: r => if String.eqb p q then (q, z) :: r else (q, w) :: pz_set p z r end.

(* a reference value is recorded as the (negative) index-free marker 0 and the referenced selector is kept aside *)
Record dfull : Type := { f_state : dstate; f_refs : list ((string * string) * string * string) }.  (* (key, param, referenced selector) *)

(* repaired _register: existing references to the previous registration of a re-registered object are
   pointed at the new one *)
Definition retarget (rp : list (string * string)) (refs : list ((string * string) * string * string)) :=
  map (fun r => (fst r, match (fix go (l : list (string * string)) := match l with [] => None | (o, n) :: t => if String.eqb o (snd r) then Some n else go t end) rp with
                        | Some n => n | None => snd r end)) refs.

Fixpoint run_stmts (univ : list (string * pyobj)) (stmts : list dstmt) (s : dstate) (refs : list ((string * string) * string * string))
         (c : dctx) : dstate * list ((string * string) * string * string) * dctx * option string :=
  match stmts with
  | [] => (s, refs, c, None)
  | st :: rest =>
      match st with
      | DImport d =>
          match process_import univ c d with
          | DErr e => (s, refs, c, Some e)
          | DOk c' => run_stmts univ rest s refs c'
          end
      | DBlock scope sel =>
          match get_configurable (ds_reg s) c sel with
          | DErr e => (with_reg s (failed_reg (ds_reg s) c sel), refs, c, Some e)
          | DOk (reg, _, rp) =>
              run_stmts univ rest {| ds_reg := reg; ds_store := ds_store s; ds_imports := ds_imports s; ds_dynamic_seen := ds_dynamic_seen s |} (retarget rp refs) c
          end
      | DBind scope sel param v =>
          (* the value is parsed first: a reference registers its target *)
          let rv := match v with
                    | DVal z => inr (ds_reg s, None, z, [])
                    | DRef _ rsel => match get_configurable (ds_reg s) c rsel with
                                     | DErr e => inl (e, failed_reg (ds_reg s) c rsel)
                                     | DOk (reg, full, rp) => inr (reg, Some full, 0%Z, rp)
                                     end
                    end in
          match rv with
          | inl (e, freg) => (with_reg s freg, refs, c, Some e)
          | inr (reg1, rfull, z, rp1) =>
              let s1 := {| ds_reg := reg1; ds_store := ds_store s; ds_imports := ds_imports s; ds_dynamic_seen := ds_dynamic_seen s |} in
              match get_configurable reg1 c sel with
              | DErr e => (with_reg s1 (failed_reg reg1 c sel), retarget rp1 refs, c, Some e)   (* re-pointing happened when the value was parsed *)
              | DOk (reg2, full, rp2) =>
                  let k := (scope, full) in
                  let d := match st_get k (ds_store s1) with Some d => d | None => [] end in
                  let s2 := {| ds_reg := reg2; ds_store := st_set k (pz_set param z d) (ds_store s1);
                               ds_imports := ds_imports s1; ds_dynamic_seen := ds_dynamic_seen s1 |} in
                  let refs := retarget rp2 (retarget rp1 refs) in
                  let refs' := match rfull with
                               | Some r => filter (fun x => negb (skey_eqb (fst (fst x)) k && String.eqb (snd (fst x)) param)) refs ++ [(k, param, r)]
                               | None => filter (fun x => negb (skey_eqb (fst (fst x)) k && String.eqb (snd (fst x)) param)) refs
                               end in
                  run_stmts univ rest s2 refs' c
              end
          end
      end
  end.

Definition empty_ctx : dctx := {| c_dynamic := false; c_imports := []; c_table := [] |}.

(* _IMPORTS.update(parse_context.imports): _IMPORTS is a set of import statements (module, from, alias); kept as a list
   to which the statements not yet recorded are appended *)
Definition record_imports (s : dstate) (imps : list dimport) : dstate :=
  {| ds_reg := ds_reg s; ds_store := ds_store s;
     ds_imports := ds_imports s ++ filter (fun d => negb (existsb (fun x => String.eqb (d_module x) (d_module d) && Bool.eqb (d_from x) (d_from d)
                                                              && match d_alias x, d_alias d with Some a, Some b => String.eqb a b | None, None => true | _, _ => false end)
                                                              (ds_imports s))) imps;
     ds_dynamic_seen := ds_dynamic_seen s |}.

(* parse_config: one fresh context per call.  Repaired code: `_IMPORTS.update(parse_context.imports)` runs right after every
   import statement, so an import that took effect is recorded also when a LATER statement of the text fails.  The
   context's list of imports only grows (process_import appends) and nothing but import statements changes it, so the
   update made after the last import statement that was processed subsumes the earlier ones: it is the update with the
   imports of the context the run ends in -- which run_stmts returns for a failed run too (the context AT the failing
   statement; a failing import statement itself is not in it).  That the imports of every successfully processed prefix
   are recorded whatever happens afterwards is Proofs/DynRegProofs2.v C19_effective_imports_recorded. *)
Definition parse_call (univ : list (string * pyobj)) (stmts : list dstmt) (sr : dstate * list ((string * string) * string * string))
  : (dstate * list ((string * string) * string * string)) * out :=
  let '(s, refs) := sr in
  let '(s', refs', c, e) := run_stmts univ stmts s refs empty_ctx in
  match e with
  | Some cls => ((record_imports s' (c_imports c), refs'), OErr cls)
  | None => ((record_imports s' (c_imports c), refs'), ONone)
  end.
(* the code before the repair recorded the imports once, after the last statement: never when a statement failed *)
Definition parse_call_orig (univ : list (string * pyobj)) (stmts : list dstmt) (sr : dstate * list ((string * string) * string * string))
  : (dstate * list ((string * string) * string * string)) * out :=
  let '(s, refs) := sr in
  let '(s', refs', c, e) := run_stmts univ stmts s refs empty_ctx in
  match e with
  | Some cls => ((s', refs'), OErr cls)
  | None => ((record_imports s' (c_imports c), refs'), ONone)
  end.

(* ---- skip_unknown under dynamic registration (config.py _should_skip 846-853, parse_config 2405-2440) ---- *)
Inductive dskip := DSkFalse | DSkTrue | DSkList (l : list string).
Definition dsk_truthy (sk : dskip) : bool := match sk with DSkFalse => false | DSkTrue => true | DSkList [] => false | DSkList _ => true end.
Definition dsk_covers (sk : dskip) (sel : string) : bool :=
  match sk with DSkFalse => false | DSkTrue => true | DSkList l => existsb (String.eqb sel) l end.
(* _REGISTRY.matching_selectors(selector) is non-empty *)
Definition reg_matches (reg : list centry) (sel : string) : bool :=
  let regmap := fold_left (fun m x => sm_set (to_key x) tt m)
                          (["gin.macro"; "gin.constant"; "gin.singleton"] ++ map ce_sel reg) sm_empty in
  match sm_matching (to_key sel) regmap with [] => false | _ :: _ => true end.
(* repaired code: ParseContext.provides — the name resolves through the file's own imports (it would be registered on first use) *)
Definition provides (c : dctx) (sel : string) : bool :=
  c_dynamic c &&
  match tget (hd "" (split_dot sel)) (c_table c) with
  | Some (root, _) => match follow root (tl (split_dot sel)) [] with Some _ => true | None => false end
  | None => false
  end.
(* repaired code (second repair): "known" is decided by the parse context ALONE when it has dynamic registration enabled
   (the name resolves through the file's own imports), and by the registry alone otherwise: what other files or decorators
   registered does not make a name known in a file with dynamic registration, it would still be a NameError when applied *)
Definition known_dyn (reg : list centry) (c : dctx) (sel : string) : bool :=
  if c_dynamic c then provides c sel else reg_matches reg sel.
Definition should_skip_dyn (sk : dskip) (reg : list centry) (c : dctx) (sel : string) : bool :=
  if known_dyn reg c sel then false else dsk_covers sk sel.
(* the code before the first repair (F12) consulted the registry only: under dynamic registration a name that is merely not
   registered YET was dropped *)
Definition should_skip_dyn_orig (sk : dskip) (reg : list centry) (c : dctx) (sel : string) : bool :=
  if reg_matches reg sel then false else dsk_covers sk sel.
(* the code between the two repairs: registry match OR provided.  Under dynamic registration a name the file's imports do
   not provide counted as known when something else had registered that spelling: not skipped, then a NameError *)
Definition should_skip_dyn_orig2 (sk : dskip) (reg : list centry) (c : dctx) (sel : string) : bool :=
  if reg_matches reg sel || provides c sel then false else dsk_covers sk sel.

(* one parse with skip_unknown; [skipf] is the skip decision (should_skip_dyn, or the original one).
   Each statement that is not skipped is executed by run_stmts on the singleton list.  A reference value is parsed —
   and its target registered — BEFORE the skip decision on the statement's own target.
   Placeholders are opaque here; what they do when used is C15 / Model/Stmt.v. *)
Fixpoint run_stmts_sk (skipf : dskip -> list centry -> dctx -> string -> bool) (univ : list (string * pyobj)) (sk : dskip)
         (stmts : list dstmt) (s : dstate) (refs : list ((string * string) * string * string)) (c : dctx)
  : dstate * list ((string * string) * string * string) * dctx * option string :=
  match stmts with
  | [] => (s, refs, c, None)
  | st :: rest =>
      match st with
      | DImport d =>
          match process_import univ c d with
          | DErr e => if dsk_truthy sk && String.eqb e "ModuleNotFoundError" then run_stmts_sk skipf univ sk rest s refs c
                      else (s, refs, c, Some e)
          | DOk c' => run_stmts_sk skipf univ sk rest s refs c'
          end
      | DBlock scope sel =>
          if skipf sk (ds_reg s) c sel then run_stmts_sk skipf univ sk rest s refs c
          else let '(s', refs', c', e) := run_stmts univ [st] s refs c in
               match e with Some _ => (s', refs', c', e) | None => run_stmts_sk skipf univ sk rest s' refs' c' end
      | DBind scope sel param v =>
          (* a reference to a name that is itself skipped becomes a placeholder (_UnknownConfigurableReference): nothing is
             resolved or registered for it, and the binding — if its own target is not skipped — stores an opaque value
             (rendered 0, no reference recorded) *)
          let placeholder := match v with DRef _ rsel => skipf sk (ds_reg s) c rsel | DVal _ => false end in
          let st' := if placeholder then DBind scope sel param (DVal 0) else st in
          let '(s1, refs1, c1, e1) := match v with
                                      | DVal _ => (s, refs, c, None)
                                      | DRef _ rsel => if placeholder then (s, refs, c, None) else run_stmts univ [DBlock "" rsel] s refs c
                                      end in
          match e1 with
          | Some _ => (s1, refs1, c1, e1)
          | None =>
              if skipf sk (ds_reg s1) c1 sel then run_stmts_sk skipf univ sk rest s1 refs1 c1
              else let '(s', refs', c', e) := run_stmts univ [st'] s1 refs1 c1 in
                   match e with Some _ => (s', refs', c', e) | None => run_stmts_sk skipf univ sk rest s' refs' c' end
          end
      end
  end.

Definition parse_call_sk (univ : list (string * pyobj)) (sk : dskip) (stmts : list dstmt)
           (sr : dstate * list ((string * string) * string * string))
  : (dstate * list ((string * string) * string * string)) * out :=
  let '(s, refs) := sr in
  let '(s', refs', c, e) := run_stmts_sk should_skip_dyn univ sk stmts s refs empty_ctx in
  match e with
  | Some cls => ((record_imports s' (c_imports c), refs'), OErr cls)
  | None => ((record_imports s' (c_imports c), refs'), ONone)
  end.
(* before the repair: nothing recorded when a statement failed *)
Definition parse_call_sk_orig (univ : list (string * pyobj)) (sk : dskip) (stmts : list dstmt)
           (sr : dstate * list ((string * string) * string * string))
  : (dstate * list ((string * string) * string * string)) * out :=
  let '(s, refs) := sr in
  let '(s', refs', c, e) := run_stmts_sk should_skip_dyn univ sk stmts s refs empty_ctx in
  match e with
  | Some cls => ((s', refs'), OErr cls)
  | None => ((record_imports s' (c_imports c), refs'), ONone)
  end.

(* ---- config_str header and selectors under dynamic registration ---- *)
Fixpoint insert_sorted (s : string) (l : list string) : list string :=
  match l with [] => [s] | x :: r => if String.leb s x then s :: l else x :: insert_sorted s r end.
Definition sort_strings (l : list string) : list string := fold_right insert_sorted [] l.

(* add_import on (imports, module_selectors, names) *)
Definition im_state := (list simport * list (string * string) * list string)%type.
Definition add_import (st : im_state) (i : simport) : im_state :=
  let '(imps, msel, names) := st in
  if existsb (fun kv => String.eqb (fst kv) (i_module i)) msel then st else
  let u := uniquify_name (bound_name i) names in
  let i' := if String.eqb u (bound_name i) then i else {| i_module := i_module i; i_from := i_from i; i_alias := Some u |} in
  let selector := if i_from i' || match i_alias i' with Some _ => true | None => false end then bound_name i' else i_module i' in
  (imps ++ [i'], msel ++ [(i_module i', selector)], names ++ [bound_name i']).

Definition config_header (s : dstate) (refs : list ((string * string) * string * string)) : out :=
  let recorded := sort_stable (fun x => x) import_key_ltb (map to_simport (ds_imports s)) in
  let dynamic := existsb (fun d => String.eqb (d_module d) "__gin__.dynamic_registration") (ds_imports s) in
  (* repaired code: under dynamic registration the reserved symbol gin counts as a name already taken *)
  let st0 := fold_left add_import recorded ([], [], if dynamic then ["gin"] else []) in
  let needed :=
    map (fun e => snd (fst e)) (ds_store s) ++ map (fun r => snd r) refs in
  let st1 := if negb dynamic then st0 else fold_left (fun st sel =>
                match find_sel sel (ds_reg s) with
                | Some e => match ce_src e with
                            | Some (d, _) => add_import st (to_simport d)
                            | None => let m := fst (ce_home e) in
                                      add_import st {| i_module := m; i_from := contains_char dot m; i_alias := None |}
                            end
                | None => st
                end) needed st0 in
  let '(imps, msel, _) := st1 in
  let regmap := fold_left (fun m sel => sm_set (to_key sel) tt m)
                          (["gin.macro"; "gin.constant"; "gin.singleton"] ++ map ce_sel (ds_reg s)) sm_empty in
  let lines := map import_format (sorted_imports imps) in
  let emitted := map (fun e =>
                   let sel := snd (fst e) in
                   let scope := fst (fst e) in
                   let body := if negb dynamic then
                                 (* static registration: the registry's minimal selector (methods keep Class.method) *)
                                 let m := match sm_minimal (to_key sel) regmap with Some k => of_key k | None => sel end in
                                 match find_sel sel (ds_reg s) with
                                 | Some c => if ce_method c && negb (contains_char dot m)
                                             then join_dot (last_n 2 (split_dot sel)) else m
                                 | None => m
                                 end
                               else match find_sel sel (ds_reg s) with
                               | Some c => match ce_src c with
                                           | Some (d, name) =>
                                               match (fix go (l : list (string * string)) := match l with [] => None | (k, v) :: r => if String.eqb k (d_module d) then Some v else go r end) msel with
                                               | Some m => (m ++ "." ++ name)%string
                                               | None => "?"
                                               end
                                           | None =>
                                               match (fix go (l : list (string * string)) := match l with [] => None | (k, v) :: r => if String.eqb k (fst (ce_home c)) then Some v else go r end) msel with
                                               | Some m => (m ++ "." ++ snd (ce_home c))%string
                                               | None => "?"
                                               end
                                           end
                               | None => "?"
                               end in
                   ((if String.eqb scope "" then "" else scope ++ "/") ++ body)%string) (ds_store s) in
  OL [OL (map OS lines); OL (map OS (sort_strings emitted))].

(* observation only: entries in (scope, selector) order -- the position of an entry in the store dict is not part of
   any property (the real code re-inserts the entries of a re-registered class's methods) *)
Definition skey_ltb (a b : string * string) : bool :=
  if String.eqb (fst a) (fst b) then String.ltb (snd a) (snd b) else String.ltb (fst a) (fst b).
Definition store_canon (s : dstate) := sort_stable (fun e : (string * string) * list (string * Z) => fst e) skey_ltb (ds_store s).
Definition store_out (s : dstate) : out :=
  OL (map (fun e => OL [OS (fst (fst e)); OS (snd (fst e)); OL (map (fun kv => OL [OS (fst kv); OZ (snd kv)]) (snd e))]) (store_canon s)).

(* observation of _IMPORTS (a set of statements): the recorded statements as sorted texts, each once *)
Fixpoint dedup_adjacent (l : list string) : list string :=
  match l with
  | [] => []
  | x :: r => match r with
              | y :: _ => if String.eqb x y then dedup_adjacent r else x :: dedup_adjacent r
              | [] => [x]
              end
  end.
Definition imports_out (s : dstate) : out :=
  OL (map OS (dedup_adjacent (sort_strings (map (fun d => import_format (to_simport d)) (ds_imports s))))).

Definition run (p : list (string * pyobj) * list centry * list (dskip * list dstmt)) : out :=
  let '(univ, pre, calls) := p in
  let init := ({| ds_reg := pre; ds_store := []; ds_imports := []; ds_dynamic_seen := false |}, []) in
  (* [snaps]: what _IMPORTS holds after EVERY parse call, failed or not *)
  let '(sr, outs, snaps) := fold_left (fun acc call => let '(sr, outs, snaps) := acc in
                                               let '(sr', o) := parse_call_sk univ (fst call) (snd call) sr in
                                               (sr', outs ++ [o], snaps ++ [imports_out (fst sr')]))
                               calls (init, [], []) in
  OL (outs ++ [store_out (fst sr); OL (map OS (sort_strings (map ce_sel (ds_reg (fst sr)))));
               (* references in store order *)
               OL (flat_map (fun e => flat_map (fun kv =>
                     map (fun r => OL [OS (fst (fst e)); OS (snd (fst e)); OS (fst kv); OS (snd r)])
                         (filter (fun r => skey_eqb (fst (fst r)) (fst e) && String.eqb (snd (fst r)) (fst kv)) (snd sr)))
                     (snd e)) (store_canon (fst sr)));
               (* the header is compared after successful parses only (what _IMPORTS holds is compared after every call,
                  failed or not: [snaps]) *)
               if existsb (fun o => match o with OT "Err" _ => true | _ => false end) outs then OL []
               else config_header (fst sr) (snd sr);
               OL snaps]).
