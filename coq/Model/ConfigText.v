(* The TEXT gin.config_str() / operative_config_str() returns (gin/config.py:_config_str, as of commit 3330229), for
   stores whose values are literal value trees (Model/Repr.v) or opaque objects, with NO recorded imports and static
   registration -- character by character:
     formatted_statements = []                                   (no imports: no header, no blank line)
     macros = the (scope, selector) entries with a non-empty scope, selector gin.macro, a parameter 'value'
              that is literally representable
     if macros:  '# Macros:', '# ' + '=' * (max_line_length - 2)
     for each macro, sorted by sort_key:  format_binding(scope, value)
     if macros:  ''
     for each entry, sorted by sort_key, except gin.constant entries and the macros WITH a scope
         (a root-scope gin.macro entry is an ordinary section: commit a1436b4):
       '# Parameters for <scoped selector>:', '# ' + '=' * (max_line_length - 2)
       for each literally representable parameter, sorted by name:  format_binding('<scoped selector>.<name>', value)
       '# None.'  if there is none
       ''
     return '\n'.join(formatted_statements)
   Every element of formatted_statements is a [citem]; format_binding is Model/PPrint.v's (pprint.pformat of the value
   tree; one line or the  key = \  continuation form).  sort_key, the minimal selector and the parameter order are
   those of Model/Serial.v (sort_key, full_key_ltb, sm_minimal, sort_stable).

   This file does NOT go through Model/Serial.v:config_lines: that model predates commit a1436b4 (it sends every
   gin.macro entry, also a root-scope one, to the '# Macros:' section) and takes the value texts as an oracle; the
   variant here follows the current code and computes the value texts.  Definitions only. *)
From Coq Require Import List String ZArith Bool Arith Ascii.
From GinV Require Import Lib.Out Lib.PyStr Model.SelectorMap Model.Parser Model.ParserSpec Model.Repr Model.Lexer Model.ReprText.
From GinV Require Import Model.Serial Model.PPrint.
Import ListNotations.
Open Scope string_scope.
Open Scope list_scope.

(* a bound value: a literal tree that gin finds literally representable, or anything else (omitted from the text) *)
Inductive cvalue := CLit (v : pv) | COpaque.
Record centry : Type := {
  c_scope : string;
  c_sel : string;                   (* complete selector *)
  c_method : bool;
  c_params : list (string * cvalue) (* dict order *) }.

Definition c_is_macro (e : centry) : bool := String.eqb (c_sel e) "gin.macro".
Definition c_is_constant (e : centry) : bool := String.eqb (c_sel e) "gin.constant".
Definition c_key (e : centry) : list string * (string * string) :=
  full_key {| e_scope := c_scope e; e_sel := c_sel e; e_method := c_method e; e_params := [] |}.
Fixpoint cget_value (l : list (string * cvalue)) : option cvalue :=
  match l with [] => None | (k, v) :: r => if String.eqb k "value" then Some v else cget_value r end.
(* the macros of the '# Macros:' section *)
Definition c_macro_value (e : centry) : option pv :=
  if c_is_macro e && negb (String.eqb (c_scope e) "")
  then match cget_value (c_params e) with Some (CLit v) => Some v | _ => None end
  else None.
Definition c_lit_params (e : centry) : list (string * pv) :=
  flat_map (fun kv => match snd kv with CLit v => [(fst kv, v)] | COpaque => [] end) (c_params e).

(* one element of formatted_statements *)
Inductive citem :=
| CComment (s : string)             (* a line that begins with "#" *)
| CBlank                            (* '' *)
| CBind (key : string) (v : pv).    (* format_binding(key, value) *)

Definition c_rule (maxlen : nat) : string := "# " ++ repeat_char "="%char (maxlen - 2).
(* ImportManager.minimal_selector (static registration): the shortest unambiguous suffix; Class.method for methods *)
Definition c_minimal (reg : SelectorMap.smap unit) (e : centry) : string :=
  let minimal := match sm_minimal (to_key (c_sel e)) reg with Some k => of_key k | None => c_sel e end in
  if c_method e && negb (contains_char dot minimal)
  then join_dot (last_n 2 (split_dot (c_sel e))) else minimal.
Definition c_scoped_selector (reg : SelectorMap.smap unit) (e : centry) : string :=
  (if String.eqb (c_scope e) "" then "" else c_scope e ++ "/") ++ c_minimal reg e.

Definition config_items (registry : list string) (entries : list centry) (maxlen : nat) : list citem :=
  let reg := fold_left (fun m s => sm_set (to_key s) tt m) registry sm_empty in
  let macros := sort_stable c_key full_key_ltb
                  (filter (fun e => match c_macro_value e with Some _ => true | None => false end) entries) in
  let others := filter (fun e => negb (c_is_constant e) && negb (c_is_macro e && negb (String.eqb (c_scope e) "")))
                       (sort_stable c_key full_key_ltb entries) in
  (match macros with [] => [] | _ => [CComment "# Macros:"; CComment (c_rule maxlen)] end)
  ++ flat_map (fun e => match c_macro_value e with Some v => [CBind (c_scope e) v] | None => [] end) macros
  ++ (match macros with [] => [] | _ => [CBlank] end)
  ++ flat_map (fun e =>
       let scoped := c_scoped_selector reg e in
       let params := sort_stable (fun kv => fst kv) String.ltb (c_lit_params e) in
       [CComment ("# Parameters for " ++ scoped ++ ":"); CComment (c_rule maxlen)]
       ++ map (fun kv => CBind (scoped ++ "." ++ fst kv) (snd kv)) params
       ++ (match params with [] => [CComment "# None."] | _ => [] end)
       ++ [CBlank]) others.

Definition item_text (maxlen indent : nat) (it : citem) : string :=
  match it with
  | CComment s => s
  | CBlank => ""
  | CBind key v => PPrint.format_binding maxlen indent key v
  end.
(* '\n'.join(...) *)
Definition items_text (maxlen indent : nat) (items : list citem) : string :=
  join_strs nls (map (item_text maxlen indent) items).
Definition config_text (registry : list string) (entries : list centry) (maxlen indent : nat) : string :=
  items_text maxlen indent (config_items registry entries maxlen).

(* ---- what a reader must obtain ---- *)
(* the written form of a binding key, as the tokens the tokenizer cuts it into: identifiers and the separators "/" "." *)
Fixpoint key_parts (s : string) : list string :=
  match s with
  | EmptyString => [EmptyString]
  | String c r =>
      if Ascii.eqb c slash || Ascii.eqb c dot then EmptyString :: String c EmptyString :: key_parts r
      else match key_parts r with p :: q => String c p :: q | [] => [String c EmptyString] end
  end.
(* the number of text lines an item occupies *)
Fixpoint count_nl (s : string) : nat :=
  match s with EmptyString => 0 | String c r => (if Ascii.eqb c nl then 1 else 0) + count_nl r end.
Definition item_lines (maxlen indent : nat) (it : citem) : nat := S (count_nl (item_text maxlen indent it)).
(* the statements ConfigParser yields: one binding per CBind, with the line its key stands on; the key is split as
   config_parser.parse_binding_key splits it; the value is what the tree denotes (atoms through the oracle) *)
Definition item_stmts (o : oracle) (it : citem) (line : nat) : list stmt :=
  match it with
  | CBind key v =>
      match denote o v with
      | Some x => let '(scope, sel, arg) := split_binding_key key in [SBind scope sel arg x line]
      | None => []
      end
  | _ => []
  end.
Fixpoint items_stmts (o : oracle) (maxlen indent : nat) (items : list citem) (line : nat) : list stmt :=
  match items with
  | [] => []
  | it :: r => item_stmts o it line ++ items_stmts o maxlen indent r (line + item_lines maxlen indent it)
  end.
Definition expected_stmts (o : oracle) (registry : list string) (entries : list centry) (maxlen indent : nat) : list stmt :=
  items_stmts o maxlen indent (config_items registry entries maxlen) 1.

(* the same, from the entries: (scope, selector as written, parameter, value) -- macros first (a macro named
   a/b is the binding of the selector b in scope a, parameter ''), then the sections in sort_key order, their
   representable parameters in name order *)
Definition expected_bindings (o : oracle) (registry : list string) (entries : list centry)
  : list (string * string * string * option out) :=
  let reg := fold_left (fun m s => sm_set (to_key s) tt m) registry sm_empty in
  let macros := sort_stable c_key full_key_ltb
                  (filter (fun e => match c_macro_value e with Some _ => true | None => false end) entries) in
  let others := filter (fun e => negb (c_is_constant e) && negb (c_is_macro e && negb (String.eqb (c_scope e) "")))
                       (sort_stable c_key full_key_ltb entries) in
  flat_map (fun e => match c_macro_value e with
                     | Some v => let '(sc, se) := split_scoped (c_scope e) in [(sc, se, "", denote o v)]
                     | None => [] end) macros
  ++ flat_map (fun e =>
       map (fun kv => (c_scope e, c_minimal reg e, fst kv, denote o (snd kv)))
           (sort_stable (fun kv => fst kv) String.ltb (c_lit_params e))) others.

(* engine entry point for the correspondence harness *)
Definition run (p : (list string * list centry) * (nat * nat)) : string :=
  let '((registry, entries), (maxlen, indent)) := p in config_text registry entries maxlen indent.
