(* Model of gin/utils.py:augment_exception_message_and_reraise (21-44) and of the
   `except Exception` filters (utils.py:59, config.py:1608): what the caller reads on
   the object it catches.  An attribute of the original is either backed by a
   type-level data descriptor (C slot / __slots__: found on the proxy object itself,
   BEFORE __getattr__ is consulted) or lives in the instance dict (not found on the
   freshly constructed proxy, hence forwarded by __getattr__ to the original).
   The per-class slot table and what a freshly constructed proxy holds in each slot
   are measured by the harness.  Definitions only. *)
From Coq Require Import List String ZArith Bool.
From GinV Require Import Lib.Out.
Import ListNotations.
Open Scope string_scope.
Open Scope list_scope.

(* (attribute name, is slot-backed, the proxy's own slot already equals the original's value) *)
Definition attr := (string * bool * bool)%type.

(* repaired code: slot-backed attributes are copied from the original onto the proxy *)
Definition reads_same (repaired : bool) (a : attr) : bool :=
  let '(_, slot, fresh_equal) := a in
  if slot then (repaired || fresh_equal) else true.

Definition run_gen (repaired : bool) (p : bool * bool * list attr) : out :=
  let '(is_exception, constructible, attrs) := p in
  if negb is_exception then OT "PassThrough" []
  else if negb constructible && negb repaired then OT "ClassLost" [OS "TypeError"]
  else OT "Proxy" [OL (map (fun a => OL [OS (fst (fst a)); OB (reads_same repaired a)]) attrs)].

Definition run := run_gen true.
Definition run_orig := run_gen false.
