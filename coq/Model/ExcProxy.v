(* Model of gin/utils.py:augment_exception_message_and_reraise and of the `except Exception`
   filters (utils.py try_with_location, config.py gin_wrapper): what the caller reads on the object
   it catches.  Python's attribute lookup on the proxy object, in order:
     1. a data descriptor on the type (C slot / __slots__): the PROXY'S OWN slot is read;
     2. the proxy's instance dict;
     3. any other class-level attribute (plain class variable, non-data descriptor);
     4. __getattr__, which forwards to the original.
   So an attribute of the original is read the same on the proxy when
     - slot-backed: the slot was copied (repair 1) or the freshly constructed proxy happens to hold the same value;
     - held in the instance dict with NO class-level attribute of that name: step 4 forwards it;
     - held in the instance dict and SHADOWING a class-level attribute: only if the instance dict was copied onto
       the proxy (repair 2), otherwise step 3 answers with the class-level default;
     - class-level only: step 3, same class, same value.
   The proxy object is built by the class's own constructor from the original's args, else without arguments, else
   (repair 3) by the __new__ of the first base that does not define one in Python; if nothing works (repair 4) the
   original exception is re-raised as it is.
   The per-class attribute table and which constructions succeed are measured by the harness.  Definitions only. *)
From Coq Require Import List String ZArith Bool.
From GinV Require Import Lib.Out.
Import ListNotations.
Open Scope string_scope.
Open Scope list_scope.

Inductive akind :=
| ASlot (fresh_equal : bool)     (* type-level data descriptor; does the fresh proxy's slot already equal the original's? *)
| ADict                          (* instance dict only *)
| ADictShadow                    (* instance dict entry shadowing a class-level attribute with another value *)
| AClass.                        (* class-level only *)
Definition attr := (string * akind)%type.

Record repairs : Type := { r_slots : bool; r_dict : bool; r_new : bool; r_fallback : bool }.
Definition current : repairs := {| r_slots := true; r_dict := true; r_new := true; r_fallback := true |}.

Definition reads_same (r : repairs) (a : attr) : bool :=
  match snd a with
  | ASlot fresh_equal => r_slots r || fresh_equal
  | ADict => true
  | ADictShadow => r_dict r
  | AClass => true
  end.

(* can the proxy object be built at all: the proxy CLASS must be creatable (the original's __init_subclass__ / metaclass
   may refuse), and then some construction must succeed.  The attempts are made in order and only a TypeError leads to
   the next one: from the args, from nothing, then (repair 3) the first non-Python __new__ of the MRO called without
   arguments (from_base: exception groups' __new__ refuses that). *)
Inductive attempt := AOk | ATypeError | AOtherError.
Definition constructed (r : repairs) (subclassable : bool) (from_args from_nothing : attempt) (from_base : bool) : bool :=
  subclassable &&
  match from_args with
  | AOk => true
  | AOtherError => false
  | ATypeError => match from_nothing with
                  | AOk => true
                  | AOtherError => false
                  | ATypeError => r_new r && from_base
                  end
  end.

(* repair 4: when no stand-in can be built the ORIGINAL is re-raised unchanged (its message is then not extended):
   better than replacing it by the TypeError / ValueError of the failed construction *)
Definition run_gen (r : repairs) (p : bool * (bool * attempt * attempt * bool) * list attr) : out :=
  let '(is_exception, (subclassable, from_args, from_nothing, from_base), attrs) := p in
  if negb is_exception then OT "PassThrough" []
  else if negb (constructed r subclassable from_args from_nothing from_base) then
         if r_fallback r then OT "Original" [] else OT "ClassLost" []
  else OT "Proxy" [OL (map (fun a => OL [OS (fst a); OB (reads_same r a)]) attrs)].

Definition run := run_gen current.
