(* Conversion of the stores of Model/ConfigText.v (values = literal trees) into the stores of the line-level
   serialiser model Model/Serial.v (values = an oracle: representable?, the lines of pprint.pformat), so that the
   theorems about Serial.config_lines (Props/C06.v) speak about the characters of ConfigText.config_text.
   Definitions only. *)
From Coq Require Import List String ZArith Bool Arith Ascii.
From GinV Require Import Lib.Out Lib.PyStr Model.SelectorMap Model.Parser Model.ParserSpec Model.Repr Model.Lexer Model.ReprText.
From GinV Require Import Model.Serial Model.PPrint Model.ConfigText.
Import ListNotations.
Open Scope string_scope.
Open Scope list_scope.

(* str.split('\n') *)
Fixpoint lines_of (s : string) : list string :=
  match s with
  | EmptyString => [EmptyString]
  | String c r =>
      if Ascii.eqb c nl then EmptyString :: lines_of r
      else match lines_of r with l :: ls => String c l :: ls | [] => [String c EmptyString] end
  end.
(* '\n'.join(lines) *)
Definition join_lines (ls : list string) : string := join_strs nls ls.

(* the oracle value of Model/Serial.v for a value of Model/ConfigText.v, at width [w] = max_line_length - continuation_indent *)
Definition sval_of (w : nat) (cv : cvalue) : sval :=
  match cv with
  | CLit v => {| v_repr_ok := true; v_lines := lines_of (pformat w v) |}
  | COpaque => {| v_repr_ok := false; v_lines := [] |}
  end.
Definition sentry_of (w : nat) (e : centry) : sentry :=
  {| e_scope := c_scope e; e_sel := c_sel e; e_method := c_method e;
     e_params := map (fun kv => (fst kv, sval_of w (snd kv))) (c_params e) |}.

(* every byte is 7-bit: len() of the str is the number of bytes *)
Definition ascii_only (s : string) : bool := forallb (fun c => Nat.ltb (nat_of_ascii c) 128) (list_ascii_of_string s).
(* the keys and value texts of the emitted bindings *)
Definition item_ascii (w : nat) (it : citem) : bool :=
  match it with CBind key v => ascii_only key && ascii_only (pformat w v) | _ => true end.

(* ---- the store a reader of the text ends up with (the analogue of SerialProofs2.restored): the emitted macros, then
   the sections that have at least one binding line, each with its representable parameters in name order ---- *)
Definition c_section_ok (e : centry) : bool :=
  negb (c_is_constant e) && negb (c_is_macro e && negb (String.eqb (c_scope e) "")).
Definition c_restore_entry (e : centry) : centry :=
  {| c_scope := c_scope e; c_sel := c_sel e; c_method := c_method e;
     c_params := map (fun kv => (fst kv, CLit (snd kv))) (sort_stable (fun kv => fst kv) String.ltb (c_lit_params e)) |}.
Definition c_has_params (e : centry) : bool := match c_lit_params e with [] => false | _ => true end.
Definition c_restored (entries : list centry) : list centry :=
  map c_restore_entry (sort_stable c_key full_key_ltb
                         (filter (fun e => match c_macro_value e with Some _ => true | None => false end) entries))
  ++ map c_restore_entry (filter c_has_params (filter c_section_ok (sort_stable c_key full_key_ltb entries))).

(* the bindings a store holds, as a reader of its text meets them: a macro entry (scope = the macro's name) gives the
   binding of the selector behind the last "/" of the name, parameter '' ; any other entry gives its literal
   parameters under (scope, minimal selector) *)
Definition entry_bindings (o : oracle) (reg : SelectorMap.smap unit) (e : centry) : list (string * string * string * option out) :=
  match c_macro_value e with
  | Some v => let '(sc, se) := split_scoped (c_scope e) in [(sc, se, "", denote o v)]
  | None => map (fun kv => (c_scope e, c_minimal reg e, fst kv, denote o (snd kv))) (c_lit_params e)
  end.
Definition store_bindings (o : oracle) (reg : SelectorMap.smap unit) (es : list centry) : list (string * string * string * option out) :=
  flat_map (entry_bindings o reg) es.
