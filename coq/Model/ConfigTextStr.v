(* config_text (Model/ConfigText.v) for stores whose values carry the content of their strs (Model/PPrintStr.v: sv trees),
   so that the value texts are pprint's WITH the splitting of long strings: format_binding_s instead of format_binding.
   Same assembly as Model/ConfigText.v (no imports, static registration).  Definitions only. *)
From Coq Require Import List String ZArith NArith Bool Arith Ascii.
From GinV Require Import Lib.Out Lib.PyStr Model.SelectorMap Model.Parser Model.ParserSpec Model.Repr Model.Lexer Model.ReprText.
From GinV Require Import Model.Serial Model.PPrint Model.ConfigText Model.StrLit Model.PPrintStr.
Import ListNotations.
Open Scope string_scope.
Open Scope list_scope.

Inductive csvalue := CSLit (v : sv) | CSOpaque.
Record csentry : Type := { cs_scope : string; cs_sel : string; cs_method : bool; cs_params : list (string * csvalue) }.
(* the entry of Model/ConfigText.v with the string contents forgotten: it decides sections, order and selectors *)
Definition cs_erase (e : csentry) : centry :=
  {| c_scope := cs_scope e; c_sel := cs_sel e; c_method := cs_method e;
     c_params := map (fun kv => (fst kv, match snd kv with CSLit v => CLit (erase v) | CSOpaque => COpaque end)) (cs_params e) |}.
Fixpoint csget_value (l : list (string * csvalue)) : option csvalue :=
  match l with [] => None | (k, v) :: r => if String.eqb k "value" then Some v else csget_value r end.
Definition cs_macro_value (e : csentry) : option sv :=
  if c_is_macro (cs_erase e) && negb (String.eqb (cs_scope e) "")
  then match csget_value (cs_params e) with Some (CSLit v) => Some v | _ => None end
  else None.
Definition cs_lit_params (e : csentry) : list (string * sv) :=
  flat_map (fun kv => match snd kv with CSLit v => [(fst kv, v)] | CSOpaque => [] end) (cs_params e).
Inductive sitem := SComment (s : string) | SBlank | SBindS (key : string) (v : sv).
Definition config_sitems (registry : list string) (entries : list csentry) (maxlen : nat) : list sitem :=
  let reg := fold_left (fun m s => sm_set (to_key s) tt m) registry sm_empty in
  let key := fun e => c_key (cs_erase e) in
  let macros := sort_stable key full_key_ltb
                  (filter (fun e => match cs_macro_value e with Some _ => true | None => false end) entries) in
  let others := filter (fun e => negb (c_is_constant (cs_erase e)) && negb (c_is_macro (cs_erase e) && negb (String.eqb (cs_scope e) "")))
                       (sort_stable key full_key_ltb entries) in
  (match macros with [] => [] | _ => [SComment "# Macros:"; SComment (c_rule maxlen)] end)
  ++ flat_map (fun e => match cs_macro_value e with Some v => [SBindS (cs_scope e) v] | None => [] end) macros
  ++ (match macros with [] => [] | _ => [SBlank] end)
  ++ flat_map (fun e =>
       let scoped := c_scoped_selector reg (cs_erase e) in
       let params := sort_stable (fun kv => fst kv) String.ltb (cs_lit_params e) in
       [SComment ("# Parameters for " ++ scoped ++ ":"); SComment (c_rule maxlen)]
       ++ map (fun kv => SBindS (scoped ++ "." ++ fst kv) (snd kv)) params
       ++ (match params with [] => [SComment "# None."] | _ => [] end)
       ++ [SBlank]) others.
Definition sitem_text (maxlen indent : nat) (it : sitem) : string :=
  match it with
  | SComment s => s
  | SBlank => ""
  | SBindS key v => format_binding_s maxlen indent key v
  end.
Definition config_text_s (registry : list string) (entries : list csentry) (maxlen indent : nat) : string :=
  join_strs nls (map (sitem_text maxlen indent) (config_sitems registry entries maxlen)).

(* what a reader must obtain (as Model/ConfigText.v: expected_stmts): one binding per SBindS, the value = what repr of the
   erased tree denotes *)
Definition sitem_lines (maxlen indent : nat) (it : sitem) : nat := S (count_nl (sitem_text maxlen indent it)).
Definition sitem_stmts (o : oracle) (it : sitem) (line : nat) : list stmt :=
  match it with
  | SBindS key v =>
      match denote o (erase v) with
      | Some x => let '(scope, sel, arg) := split_binding_key key in [SBind scope sel arg x line]
      | None => []
      end
  | _ => []
  end.
Fixpoint sitems_stmts (o : oracle) (maxlen indent : nat) (items : list sitem) (line : nat) : list stmt :=
  match items with
  | [] => []
  | it :: r => sitem_stmts o it line ++ sitems_stmts o maxlen indent r (line + sitem_lines maxlen indent it)
  end.
Definition expected_stmts_s (o : oracle) (registry : list string) (entries : list csentry) (maxlen indent : nat) : list stmt :=
  sitems_stmts o maxlen indent (config_sitems registry entries maxlen) 1.
Definition sitems_text (maxlen indent : nat) (items : list sitem) : string := join_strs nls (map (sitem_text maxlen indent) items).
