(* Model of the VALUE side of the config string (gin/config.py:_format_value, 1000-1021, and the value texts that
   _config_str / operative_config_str emit through pprint.pformat): Python's repr of a literal value, as the token
   stream the tokenizer yields for that text, and its re-layouts.

   A value is a tree over ATOMS.  An atom is given by the token(s) its repr consists of (True, None, 12, 1.5, 1e+20,
   'abc', b'ab'; a negative number is the two tokens "-" "12"); what an atom text MEANS is left to the oracle, exactly
   as in Model/Parser.v.  Lists, tuples and dicts are modelled structurally: repr writes "[a, b]", "(a,)", "(a, b)",
   "{k: v, k2: v2}" -- never a trailing comma except in the one-tuple, never parentheses around an element.
   pprint.pformat writes the same tree in another layout (line breaks after commas / opening brackets); a long string
   atom may be split into several adjacent STRING tokens, possibly wrapped in parentheses (covered by the literal
   grammar of ParserSpec: LStrs / LParen).  Definitions only. *)
From Coq Require Import List String ZArith Bool Arith.
From GinV Require Import Lib.Out Lib.PyStr Model.Parser Model.ParserSpec.
Import ListNotations.
Open Scope string_scope.
Open Scope list_scope.

Inductive pv :=
| PAtom (t : token)                    (* one NAME / NUMBER token *)
| PNeg (t : token)                     (* a negative number: "-" followed by one NUMBER token *)
| PStr (t : token)                     (* one STRING token *)
| PList (l : list pv)
| PTuple (l : list pv)
| PDict (l : list (pv * pv)).

(* the syntax tree of repr(v) in the literal grammar *)
Fixpoint lit_of (v : pv) : lit :=
  match v with
  | PAtom t => LBasic false t
  | PNeg t => LBasic true t
  | PStr t => LStrs [t]
  | PList l => LList (map lit_of l) false
  | PTuple l => LTuple (map lit_of l) (match l with [_] => true | _ => false end)
  | PDict l => LDict (map (fun kv => (lit_of (fst kv), lit_of (snd kv))) l) false
  end.

(* the tokens of repr(v) *)
Fixpoint join_toks (sep : list token) (l : list (list token)) : list token :=
  match l with
  | [] => []
  | [x] => x
  | x :: r => x ++ sep ++ join_toks sep r
  end.
Fixpoint repr_toks (v : pv) : list token :=
  match v with
  | PAtom t => [t]
  | PNeg t => [op_tok "-"; t]
  | PStr t => [t]
  | PList l => [op_tok "["] ++ join_toks [op_tok ","] (map repr_toks l) ++ [op_tok "]"]
  | PTuple l => [op_tok "("] ++ join_toks [op_tok ","] (map repr_toks l) ++
                (match l with [_] => [op_tok ","] | _ => [] end) ++ [op_tok ")"]
  | PDict l => [op_tok "{"] ++
               join_toks [op_tok ","] (map (fun kv => repr_toks (fst kv) ++ [op_tok ":"] ++ repr_toks (snd kv)) l) ++
               [op_tok "}"]
  end.

(* what the value is: Python's meaning of its repr tree (atoms through the oracle) *)
Definition denote (o : oracle) (v : pv) : option out := py_eval o (lit_of v).

(* atoms are of the right token kind and mean something; this is all that gin's run-time representability test
   (parse_value(repr(v)) == v) can fail on, apart from Python-equal dict keys.  The keys of a dict VALUE can be hashed
   (it is a Python dict): what a key denotes is no list / dict / set and no tuple holding one. *)
Fixpoint atoms_ok (o : oracle) (v : pv) : Prop :=
  match v with
  | PAtom t => (ty t = NAME \/ ty t = NUMBER) /\ text t <> "-" /\ exists x, olookup o (text t) = Some (Some x)
  | PNeg t => (ty t = NAME \/ ty t = NUMBER) /\ text t <> "-" /\ exists x, olookup o ("-" ++ text t)%string = Some (Some x)
  | PStr t => ty t = STRING /\ exists x, olookup o (text t) = Some (Some x)
  | PList l => (fix go (l : list pv) : Prop := match l with [] => True | x :: r => atoms_ok o x /\ go r end) l
  | PTuple l => (fix go (l : list pv) : Prop := match l with [] => True | x :: r => atoms_ok o x /\ go r end) l
  | PDict l => (fix go (l : list (pv * pv)) : Prop :=
                  match l with [] => True | (k, x) :: r => atoms_ok o k /\ atoms_ok o x /\ go r end) l /\
               (fix hk (l : list (pv * pv)) : Prop :=
                  match l with
                  | [] => True
                  | (k, _) :: r => (forall a, py_eval o (lit_of k) = Some a -> out_hashable a = true) /\ hk r
                  end) l
  end.

(* ---- correspondence entry point ----
   input: the oracle, the value tree (built by the harness from the Python value: atoms = tokens of repr(atom)),
   the real tokens of repr(value) and of pprint.pformat(value, width) (each followed by NEWLINE ENDMARKER).
   output: does the model's repr spell the same token texts as the real repr; what the parser model reads from
   either text; what the tree denotes. *)
Fixpoint texts_eqb (a b : list token) : bool :=
  match a, b with
  | [], [] => true
  | x :: r, y :: q => String.eqb (text x) (text y) && ttype_eqb (ty x) (ty y) && texts_eqb r q
  | _, _ => false
  end.
Definition is_end (t : token) : bool := in_types (ty t) [NEWLINE; NL; ENDMARKER].
Fixpoint strip_end (ts : list token) : list token :=      (* the value's own tokens: up to the final NEWLINE ENDMARKER *)
  match ts with
  | [] => []
  | t :: r => if is_end t && forallb is_end r then [] else t :: strip_end r
  end.
Definition read (o : oracle) (ts : list token) : out :=
  match settle ts with
  | PErr e => perr_out e
  | POk ts' => match parse_single_value o ts' with PErr e => perr_out e | POk v => OT "Value" [v] end
  end.
Definition run (p : oracle * pv * list token * list token) : out :=
  let '(o, v, real_repr, real_pformat) := p in
  OL [OB (texts_eqb (repr_toks v) (strip_end real_repr));
      read o real_repr; read o real_pformat;
      match denote o v with Some x => OT "Value" [x] | None => OT "NoValue" [] end].
