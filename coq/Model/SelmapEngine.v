(* Executable driver for the SelectorMap model: a history of operations over a
   list of maps (copy() appends a new map), one observation per operation.
   String-level: splitting and regex validation happen here as in the Python. *)
From Coq Require Import List String ZArith Bool Arith.
From GinV Require Import Lib.Out Lib.PyStr Model.SelectorMap.
Import ListNotations.
Open Scope string_scope.
Open Scope list_scope.

Inductive sop :=
| SSet (r : nat) (name val : string)
| SPop (r : nat) (name : string)
| SClear (r : nat)
| SCopy (r : nat)
| QMatching (r : nat) (q : string)
| QGetMatch (r : nat) (q : string)
| QMinimal (r : nat) (name : string)
| QMinimalOrig (r : nat) (name : string)
| QContains (r : nat) (name : string)
| QLen (r : nat)
| QItems (r : nat).

Fixpoint insert_sorted (s : string) (l : list string) : list string :=
  match l with
  | [] => [s]
  | x :: r => if String.leb s x then s :: l else x :: insert_sorted s r
  end.
Definition sort_strings (l : list string) : list string := fold_right insert_sorted [] l.

Definition upd {A} (n : nat) (x : A) (l : list A) : list A :=
  firstn n l ++ match skipn n l with [] => [] | _ :: r => x :: r end.

Definition sm := smap string.

Definition step1 (regs : list sm) (o : sop) : list sm * out :=
  let getr r := nth r regs sm_empty in
  match o with
  | SSet r name v =>
      if valid_selector name then (upd r (sm_set (to_key name) v (getr r)) regs, ONone)
      else (regs, OErr "ValueError")
  | SPop r name =>
      match sm_pop (to_key name) (getr r) with
      | Some (v, s') => (upd r s' regs, OS v)
      | None => (regs, OErr "KeyError")
      end
  | SClear r => (upd r (sm_clear (getr r)) regs, ONone)
  | SCopy r => (regs ++ [sm_copy (getr r)], ONone)
  | QMatching r q =>
      (regs, OL (map OS (sort_strings (map of_key (sm_matching (to_key q) (getr r))))))
  | QGetMatch r q =>
      (regs, match sm_get_match (to_key q) (getr r) with
             | MNone => ONone
             | MAmbiguous => OErr "KeyError"
             | MOne _ (Some v) => OS v
             | MOne _ None => OErr "ModelInvariantBroken"
             end)
  | QMinimal r name =>
      (regs, match sm_minimal (to_key name) (getr r) with
             | Some k => OS (of_key k) | None => OErr "KeyError" end)
  | QMinimalOrig r name =>
      (regs, match sm_minimal_orig (to_key name) (getr r) with
             | Some k => OS (of_key k) | None => OErr "KeyError" end)
  | QContains r name => (regs, OB (fmem (to_key name) (sm_flat (getr r))))
  | QLen r => (regs, OZ (Z.of_nat (List.length (sm_flat (getr r)))))
  | QItems r => (regs, OL (map (fun kv => OL [OS (of_key (fst kv)); OS (snd kv)]) (sm_flat (getr r))))
  end.

Fixpoint run_ops (regs : list sm) (ops : list sop) : list out :=
  match ops with
  | [] => []
  | o :: r => let '(regs', ob) := step1 regs o in ob :: run_ops regs' r
  end.

Definition run (ops : list sop) : out := OL (run_ops [sm_empty] ops).
