(* Model of the serialiser gin/config.py:_config_str (2102-2223), ImportManager
   (1980-2063, static registration) and markdown (2886-2922), at the level of
   lines.  The text of a value (pprint.pformat) and its representability
   (repr parses back to an equal value) are NOT modelled: the harness supplies
   them per value as an oracle (v_repr_ok, v_lines).  Definitions only. *)
From Coq Require Import List String ZArith Bool Arith Ascii.
From GinV Require Import Lib.Out Lib.PyStr Model.SelectorMap.
Import ListNotations.
Open Scope string_scope.
Open Scope list_scope.
Infix "^^" := String.append (at level 60, right associativity).

Record sval : Type := { v_repr_ok : bool; v_lines : list string }.
Record sentry : Type := {
  e_scope : string;
  e_sel : string;                 (* complete selector *)
  e_method : bool;
  e_params : list (string * sval) (* dict order *) }.
Record simport : Type := { i_module : string; i_from : bool; i_alias : option string }.

(* ---- strings ---- *)
Definition lower_ascii (c : ascii) : ascii :=
  let n := nat_of_ascii c in if ((65 <=? n) && (n <=? 90))%nat then ascii_of_nat (n + 32) else c.
Fixpoint lower (s : string) : string :=
  match s with EmptyString => EmptyString | String c r => String (lower_ascii c) (lower r) end.
Fixpoint repeat_char (c : ascii) (n : nat) : string :=
  match n with O => EmptyString | S k => String c (repeat_char c k) end.
(* Python's list-of-strings comparison *)
Fixpoint key_ltb (a b : list string) : bool :=
  match a, b with
  | [], [] => false
  | [], _ :: _ => true
  | _ :: _, [] => false
  | x :: r, y :: q => if String.eqb x y then key_ltb r q else String.ltb x y
  end.
(* stable insertion sort by a strict order on keys *)
Section Sort.
  Context {A K : Type} (key : A -> K) (ltb : K -> K -> bool).
  (* x goes in front of the first element that is not strictly smaller: in front of its equals *)
  Fixpoint insert_stable (x : A) (l : list A) : list A :=
    match l with
    | [] => [x]
    | y :: r => if ltb (key y) (key x) then y :: insert_stable x r else x :: l
    end.
  (* inserting from the right, each element in front of its equals, keeps equal keys in input
     order (like Python's sorted) *)
  Definition sort_stable (l : list A) : list A := fold_right insert_stable [] l.
End Sort.

(* ---- ImportStatement helpers (config_parser.py:86-117) ---- *)
Fixpoint rsplit_dot (s : string) : option (string * string) :=
  match s with
  | EmptyString => None
  | String c r =>
      match rsplit_dot r with
      | Some (a, b) => Some (String c a, b)
      | None => if Ascii.eqb c dot then Some (EmptyString, r) else None
      end
  end.
Definition import_format (i : simport) : string :=
  let base := if i_from i then
                match rsplit_dot (i_module i) with
                | Some (a, b) => "from " ^^ a ^^ " import " ^^ b
                | None => "from  import " ^^ i_module i
                end
              else "import " ^^ i_module i in
  match i_alias i with Some a => base ^^ " as " ^^ a | None => base end.
Definition bound_name (i : simport) : string :=
  match i_alias i with
  | Some a => a
  | None => let parts := split_dot (i_module i) in if i_from i then last parts "" else hd "" parts
  end.

(* _uniquify_name *)
Fixpoint nat_digits (fuel n : nat) : string :=
  match fuel with
  | O => ""
  | S f => (if (n <? 10)%nat then "" else nat_digits f (n / 10)) ^^ String (ascii_of_nat (48 + n mod 10)) ""
  end.
Definition nat_str (n : nat) : string := nat_digits 20 n.
Definition str_in (s : string) (l : list string) : bool := existsb (String.eqb s) l.
Fixpoint uniquify (fuel i : nat) (cand : string) (names : list string) : string :=
  match fuel with
  | O => cand
  | S f => let u := cand ^^ nat_str i in if str_in u names then uniquify f (S i) cand names else u
  end.
Definition uniquify_name (cand : string) (names : list string) : string :=
  if str_in cand names then uniquify (S (List.length names)) 2 cand names else cand.

(* ImportManager.__init__ / add_import: sort by (module, not is_from), dedupe by module, unique bound names *)
(* repaired code: __gin__ feature statements are added first (so they are never re-aliased), then by (module, not is_from) *)
Definition is_feature_module (m : string) : bool := String.prefix "__gin__." m.
Definition import_key_ltb_orig (a b : simport) : bool :=
  if String.eqb (i_module a) (i_module b) then i_from a && negb (i_from b) else String.ltb (i_module a) (i_module b).
Definition import_key_ltb_noalias (a b : simport) : bool :=
  if Bool.eqb (is_feature_module (i_module a)) (is_feature_module (i_module b)) then import_key_ltb_orig a b
  else is_feature_module (i_module a).
(* repaired code (F37): remaining ties are broken by the alias ("s.alias or ''"), so that the result does not depend
   on the order in which the set _IMPORTS yields its elements *)
Definition alias_str (i : simport) : string := match i_alias i with Some a => a | None => "" end.
Definition import_key_ltb (a b : simport) : bool :=
  if import_key_ltb_noalias a b then true
  else if import_key_ltb_noalias b a then false
  else String.ltb (alias_str a) (alias_str b).
(* repaired code: under dynamic registration the symbol gin is reserved, hence taken from the start *)
Definition is_dynamic (imports : list simport) : bool :=
  existsb (fun i => String.eqb (i_module i) "__gin__.dynamic_registration") imports.
Definition names0 (imports : list simport) : list string := if is_dynamic imports then ["gin"] else [].
Definition import_manager (imports : list simport) : list simport :=
  let sorted := sort_stable (fun x => x) import_key_ltb imports in
  let '(out, _, _) :=
    fold_left (fun acc st =>
                 let '(out, mods, names) := acc in
                 if str_in (i_module st) mods then acc else
                 let u := uniquify_name (bound_name st) names in
                 let st' := if String.eqb u (bound_name st) then st
                            else {| i_module := i_module st; i_from := i_from st; i_alias := Some u |} in
                 (out ++ [st'], mods ++ [i_module st], names ++ [bound_name st']))
              sorted ([], [], names0 imports) in
  out.
(* the code before the F37 repair: no tie-break on the alias *)
Definition import_manager_noalias (imports : list simport) : list simport :=
  let sorted := sort_stable (fun x => x) import_key_ltb_noalias imports in
  let '(out, _, _) :=
    fold_left (fun acc st =>
                 let '(out, mods, names) := acc in
                 if str_in (i_module st) mods then acc else
                 let u := uniquify_name (bound_name st) names in
                 let st' := if String.eqb u (bound_name st) then st
                            else {| i_module := i_module st; i_from := i_from st; i_alias := Some u |} in
                 (out ++ [st'], mods ++ [i_module st], names ++ [bound_name st']))
              sorted ([], [], names0 imports) in
  out.
(* repaired code: __gin__ feature statements sort first, whatever the other module names are *)
Definition sorted_key (i : simport) : bool * string := (negb (is_feature_module (i_module i)), i_module i).
Definition sorted_key_ltb (a b : bool * string) : bool :=
  if Bool.eqb (fst a) (fst b) then String.ltb (snd a) (snd b) else negb (fst a).     (* false < true *)
Definition sorted_imports (l : list simport) : list simport :=
  sort_stable sorted_key sorted_key_ltb l.
(* the code before the repair *)
Definition sorted_imports_orig (l : list simport) : list simport :=
  sort_stable (fun x => i_module x) String.ltb l.

(* ---- _config_str ---- *)
(* a macro is a binding of gin.macro under the scope that is its NAME; a root-scope binding "macro.value = v" has no
   "name = value" form and is emitted with the ordinary sections (repaired code, F58; before, it was printed " = v") *)
Definition is_macro_orig (e : sentry) : bool := String.eqb (e_sel e) "gin.macro".
Definition is_macro (e : sentry) : bool := String.eqb (e_sel e) "gin.macro" && negb (String.eqb (e_scope e) "").
Definition is_constant (e : sentry) : bool := String.eqb (e_sel e) "gin.constant".

(* sort_key (2142-2149) *)
Definition sort_key (e : sentry) : list string :=
  let parts := rev (split_dot (lower (e_sel e))) ++ rev (split_slash (lower (e_scope e))) in
  if e_method e then
    match parts with
    | m :: c :: r => (c ^^ "." ^^ m) :: r
    | _ => parts
    end
  else parts.

(* repaired code: ties of the lower-cased key are broken by the original (scope, selector) *)
Definition full_key (e : sentry) : list string * (string * string) := (sort_key e, (e_scope e, e_sel e)).
Definition full_key_ltb (a b : list string * (string * string)) : bool :=
  if key_ltb (fst a) (fst b) then true
  else if key_ltb (fst b) (fst a) then false
  else if String.eqb (fst (snd a)) (fst (snd b)) then String.ltb (snd (snd a)) (snd (snd b))
       else String.ltb (fst (snd a)) (fst (snd b)).

(* Python's len() counts code points; the model's strings are UTF-8 bytes: count the non-continuation bytes *)
Fixpoint cp_length (s : string) : nat :=
  match s with
  | EmptyString => 0
  | String c r => let n := nat_of_ascii c in (if ((128 <=? n) && (n <? 192))%nat then 0 else 1) + cp_length r
  end.

(* format_binding (2121-2140) without provenance *)
Definition indent_line (n : nat) (s : string) : string := repeat_char " "%char n ^^ s.
Definition format_binding (maxlen indent : nat) (key : string) (v : sval) : list string :=
  match v_lines v with
  | [one] => if (cp_length (key ^^ one) <=? maxlen)%nat then [key ^^ " = " ^^ one]
             else [key ^^ " = \"; indent_line indent one]
  | ls => (key ^^ " = \") :: map (indent_line indent) ls
  end.

Definition rule (maxlen : nat) : string := "# " ^^ repeat_char "="%char (maxlen - 2).

Fixpoint sget_value_in (l : list (string * sval)) : option sval :=
  match l with [] => None | (k, v) :: r => if String.eqb k "value" then Some v else sget_value_in r end.
Definition sget_value (e : sentry) : option sval := sget_value_in (e_params e).

Definition config_lines (registry : list string) (imports : list simport) (entries : list sentry)
           (maxlen indent : nat) : list string :=
  let reg := fold_left (fun m s => sm_set (to_key s) tt m) registry sm_empty in
  let imps := map import_format (sorted_imports (import_manager imports)) in
  (* repaired code: macros whose value is not literally representable are left out *)
  let macros := sort_stable full_key full_key_ltb
                  (filter (fun e => is_macro e && match sget_value e with Some v => v_repr_ok v | None => false end) entries) in
  let others := filter (fun e => negb (is_macro e) && negb (is_constant e)) (sort_stable full_key full_key_ltb entries) in
  imps ++ (match imps with [] => [] | _ => [""] end)
  ++ (match macros with [] => [] | _ => ["# Macros:"; rule maxlen] end)
  ++ flat_map (fun e => match sget_value e with
                        | Some v => format_binding maxlen indent (e_scope e) v
                        | None => ["<KeyError>"]
                        end) macros
  ++ (match macros with [] => [] | _ => [""] end)
  ++ flat_map (fun e =>
       let minimal := match sm_minimal (to_key (e_sel e)) reg with Some k => of_key k | None => e_sel e end in
       let minimal := if e_method e && negb (contains_char dot minimal)
                      then join_dot (last_n 2 (split_dot (e_sel e))) else minimal in
       let scoped := (if String.eqb (e_scope e) "" then "" else e_scope e ^^ "/") ^^ minimal in
       let params := sort_stable (fun kv => fst kv) String.ltb (filter (fun kv => v_repr_ok (snd kv)) (e_params e)) in
       ["# Parameters for " ^^ scoped ^^ ":"; rule maxlen]
       ++ flat_map (fun kv => format_binding maxlen indent (scoped ^^ "." ^^ fst kv) (snd kv)) params
       ++ (match params with [] => ["# None."] | _ => [] end)
       ++ [""]) others.

(* ---- markdown (2886-2922) ---- *)
Definition starts_with (p s : string) : bool := String.prefix p s.
Fixpoint ends_with_colon (s : string) : bool :=
  match s with
  | EmptyString => false
  | String c EmptyString => Ascii.eqb c ":"%char
  | String _ r => ends_with_colon r
  end.
Definition drop2 (s : string) : string := match s with String _ (String _ r) => r | _ => EmptyString end.
Definition md_line (line : string) : string :=
  if negb (starts_with "#" line) then "    " ^^ line else
  let l := drop2 line in
  if starts_with "====" l then ""
  else if starts_with "None" l then "    # None."
  else if ends_with_colon l then "#### " ^^ l
  else l.
Definition markdown (lines : list string) : list string := map md_line lines.

(* engine *)
Definition run (p : (list string * list simport * list sentry) * (nat * nat)) : out :=
  let '((registry, imports, entries), (maxlen, indent)) := p in
  let ls := config_lines registry imports entries maxlen indent in
  (* str.splitlines() does not yield a final empty piece for a text ending in a newline *)
  let body := match rev ls with EmptyString :: r => rev r | _ => ls end in
  OL [OL (map OS ls); OL (map OS (markdown body))].
