(* The Gin machine: global state of gin/config.py and its API as total
   functions.  Follows the code statement by statement (line numbers refer to
   /repo/gin/config.py).  Definitions only. *)
From Coq Require Import List String ZArith Bool Arith.
From GinV Require Import Lib.Out Lib.PyStr Model.SelectorMap Model.Values.
Import ListNotations.
Open Scope string_scope.
Open Scope list_scope.

(* ---------- exceptions ---------- *)
Inductive res (A : Type) : Type := Ok (a : A) | Raise (cls : string).
Arguments Ok {A}. Arguments Raise {A}.

(* ---------- configurables ---------- *)
Inductive kind := KProbe | KMacro | KConstant | KSingleton.
Record cfgable : Type := {
  c_sel : string;          (* complete selector module.name *)
  c_kind : kind;
  c_sig : sig;
  c_allow : list string;   (* [] = no allowlist (the code tests truthiness) *)
  c_deny : list string;
  c_method : bool }.

Definition macro_cfg : cfgable :=
  {| c_sel := "gin.macro"; c_kind := KMacro;
     c_sig := {| s_args := ["value"]; s_defaults := []; s_varargs := false; s_kwonly := []; s_varkw := false |};
     c_allow := []; c_deny := []; c_method := false |}.
Definition constant_cfg : cfgable :=
  {| c_sel := "gin.constant"; c_kind := KConstant;
     c_sig := {| s_args := []; s_defaults := []; s_varargs := false; s_kwonly := []; s_varkw := false |};
     c_allow := []; c_deny := []; c_method := false |}.
Definition singleton_cfg : cfgable :=
  {| c_sel := "gin.singleton"; c_kind := KSingleton;
     c_sig := {| s_args := ["constructor"]; s_defaults := []; s_varargs := false; s_kwonly := []; s_varkw := false |};
     c_allow := []; c_deny := []; c_method := false |}.

(* ---------- state ---------- *)
Definition ckey := (string * string)%type.       (* (scope_str, complete selector) *)
Definition ckey_eqb (a b : ckey) : bool := String.eqb (fst a) (fst b) && String.eqb (snd a) (snd b).
Definition pdict := list (string * value).
Definition cdict := list (ckey * pdict).
Definition cget := @aget ckey pdict ckey_eqb.
Definition cset := @aset ckey pdict ckey_eqb.

(* a user finalize hook: returns key/value pairs (string keys) or raises *)
Inductive hook := HReturn (l : list (string * value)) | HRaise (cls : string).

Record callrec : Type := { cr_sel : string; cr_scope : list string; cr_env : list (string * value); cr_n : Z }.

Record state : Type := {
  reg : smap cfgable;
  config : cdict;
  operative : cdict;
  locked : bool;
  interactive : bool;
  scopes : list (list string);      (* _SCOPE_MANAGER stack of this thread, innermost first; never empty *)
  constants : smap value;
  singletons : list (string * value);
  hooks : list hook;                (* user hooks, after the three built-in ones *)
  counter : Z;
  calllog : list callrec;           (* most recent first *)
  obs : list out                    (* observations, most recent first *) }.

Definition set_config c (s : state) := {| reg := reg s; config := c; operative := operative s; locked := locked s;
  interactive := interactive s; scopes := scopes s; constants := constants s; singletons := singletons s;
  hooks := hooks s; counter := counter s; calllog := calllog s; obs := obs s |}.
Definition set_operative c (s : state) := {| reg := reg s; config := config s; operative := c; locked := locked s;
  interactive := interactive s; scopes := scopes s; constants := constants s; singletons := singletons s;
  hooks := hooks s; counter := counter s; calllog := calllog s; obs := obs s |}.
Definition set_locked b (s : state) := {| reg := reg s; config := config s; operative := operative s; locked := b;
  interactive := interactive s; scopes := scopes s; constants := constants s; singletons := singletons s;
  hooks := hooks s; counter := counter s; calllog := calllog s; obs := obs s |}.
Definition set_interactive b (s : state) := {| reg := reg s; config := config s; operative := operative s; locked := locked s;
  interactive := b; scopes := scopes s; constants := constants s; singletons := singletons s;
  hooks := hooks s; counter := counter s; calllog := calllog s; obs := obs s |}.
Definition set_scopes x (s : state) := {| reg := reg s; config := config s; operative := operative s; locked := locked s;
  interactive := interactive s; scopes := x; constants := constants s; singletons := singletons s;
  hooks := hooks s; counter := counter s; calllog := calllog s; obs := obs s |}.
Definition set_constants x (s : state) := {| reg := reg s; config := config s; operative := operative s; locked := locked s;
  interactive := interactive s; scopes := scopes s; constants := x; singletons := singletons s;
  hooks := hooks s; counter := counter s; calllog := calllog s; obs := obs s |}.
Definition set_singletons x (s : state) := {| reg := reg s; config := config s; operative := operative s; locked := locked s;
  interactive := interactive s; scopes := scopes s; constants := constants s; singletons := x;
  hooks := hooks s; counter := counter s; calllog := calllog s; obs := obs s |}.
Definition set_hooks x (s : state) := {| reg := reg s; config := config s; operative := operative s; locked := locked s;
  interactive := interactive s; scopes := scopes s; constants := constants s; singletons := singletons s;
  hooks := x; counter := counter s; calllog := calllog s; obs := obs s |}.
Definition set_reg x (s : state) := {| reg := x; config := config s; operative := operative s; locked := locked s;
  interactive := interactive s; scopes := scopes s; constants := constants s; singletons := singletons s;
  hooks := hooks s; counter := counter s; calllog := calllog s; obs := obs s |}.
Definition log_call (c : callrec) (s : state) := {| reg := reg s; config := config s; operative := operative s; locked := locked s;
  interactive := interactive s; scopes := scopes s; constants := constants s; singletons := singletons s;
  hooks := hooks s; counter := (counter s + 1)%Z; calllog := c :: calllog s; obs := obs s |}.
Definition emit (o : out) (s : state) := {| reg := reg s; config := config s; operative := operative s; locked := locked s;
  interactive := interactive s; scopes := scopes s; constants := constants s; singletons := singletons s;
  hooks := hooks s; counter := counter s; calllog := calllog s; obs := o :: obs s |}.

Definition req_constants : smap value := sm_set ["gin"; "REQUIRED"] VReq sm_empty.
Definition builtin_reg : smap cfgable :=
  sm_set ["gin"; "singleton"] singleton_cfg
    (sm_set ["gin"; "constant"] constant_cfg (sm_set ["gin"; "macro"] macro_cfg sm_empty)).
Definition init_state : state := {|
  reg := builtin_reg; config := []; operative := []; locked := false; interactive := false;
  scopes := [[]]; constants := req_constants; singletons := []; hooks := []; counter := 0%Z;
  calllog := []; obs := [] |}.

Definition current_scope (s : state) : list string := match scopes s with x :: _ => x | [] => [] end.
Definition scope_str (sc : list string) : string := join_slash sc.

(* ---------- registry lookup: _REGISTRY.get_match(selector) ---------- *)
Inductive lookup := LNone | LAmbiguous | LFound (c : cfgable).
Definition reg_lookup (s : state) (sel : string) : lookup :=
  match sm_get_match (to_key sel) (reg s) with
  | MNone => LNone
  | MAmbiguous => LAmbiguous
  | MOne _ (Some c) => LFound c
  | MOne _ None => LNone
  end.

(* ---------- config_parser.parse_binding_key (577-596) ---------- *)
(* rsplit(sep, 1): (everything before the last sep, after) ; no sep: ("", s) with a flag *)
Fixpoint rsplit1_aux (sep : Ascii.ascii) (s : string) : option (string * string) :=
  match s with
  | EmptyString => None
  | String c r =>
      match rsplit1_aux sep r with
      | Some (a, b) => Some (String c a, b)
      | None => if Ascii.eqb c sep then Some (EmptyString, r) else None
      end
  end.
Definition parse_scoped_selector (s : string) : string * string :=
  match rsplit1_aux slash s with Some (a, b) => (a, b) | None => ("", s) end.
Definition parse_binding_key (s : string) : string * string * string :=
  let '(scope, sel) := parse_scoped_selector s in
  match rsplit1_aux dot sel with
  | Some (a, b) => (scope, a, b)
  | None => (scope, sel, "")
  end.

(* ---------- ParsedBindingKey.parse (889-948), after key-shape handling ---------- *)
Definition pbk_validate (s : state) (scope sel arg : string) : res (ckey * string) :=
  match reg_lookup s sel with
  | LAmbiguous => Raise "KeyError"
  | LNone => Raise "ValueError"
  | LFound c =>
      if c_method c && negb (contains_char dot sel) then Raise "ValueError"
      else if negb (might_have_parameter (c_sig c) arg) then Raise "ValueError"
      else if negb (match c_allow c with [] => true | _ => false end) && negb (str_in arg (c_allow c))
        then Raise "ValueError"
      else if str_in arg (c_deny c) then Raise "ValueError"
      else Ok ((scope, c_sel c), arg)
  end.

(* bind_parameter (1067-1078), key already split *)
Definition bind_split (s : state) (scope sel arg : string) (v : value) : state * res unit :=
  if locked s then (s, Raise "RuntimeError") else
  match pbk_validate s scope sel arg with
  | Raise e => (s, Raise e)
  | Ok (ck, a) =>
      let d := match cget ck (config s) with Some d => d | None => [] end in
      (set_config (cset ck (sset a v d) (config s)) s, Ok tt)
  end.

(* ---------- _get_bindings (1381-1398) ---------- *)
Fixpoint prefixes {A} (l : list A) : list (list A) :=
  match l with [] => [[]] | x :: r => [] :: map (cons x) (prefixes r) end.
Definition get_bindings_for (cfg : cdict) (scope : list string) (sel : string) (inherit : bool) : pdict :=
  let partial := if inherit then prefixes scope else [scope] in
  fold_left (fun acc p => supdate acc (match cget (scope_str p, sel) cfg with Some d => d | None => [] end))
            partial [].

(* ---------- wrapper pieces (1504-1604) ---------- *)
Definition supplied_positional_names (sg : sig) (args : list value) : list string :=
  firstn (List.length args) (s_args sg).
Fixpoint required_positions (names : list string) (args : list value) : list string :=
  match names, args with
  | n :: ns, a :: r => (if is_req a then [n] else []) ++ required_positions ns r
  | _, _ => []
  end.
Definition drop_names (names keep : list string) (d : pdict) : pdict :=
  fold_left (fun acc n => if str_in n keep then acc else sdel n acc) names d.

(* default configurable parameter values (1213-1238) need representability of
   the default; for the model's values: *)
Fixpoint representable (v : value) : bool :=
  match v with
  | VNone | VBool _ | VInt _ | VStr _ => true
  | VList l | VTuple l => forallb representable l
  | VDict l => forallb (fun kv => representable (fst kv) && representable (snd kv)) l
  | VRef _ _ _ => true
  | _ => false
  end.
Definition configurable_defaults (c : cfgable) : pdict :=
  filter (fun kv =>
            let k := fst kv in
            negb (negb (match c_allow c with [] => true | _ => false end) && negb (str_in k (c_allow c)))
            && negb (str_in k (c_deny c)) && representable (snd kv))
         (kwarg_defaults (c_sig c)).
Definition signature_required (c : cfgable) : list string :=
  map fst (filter (fun kv => is_req (snd kv)) (kwarg_defaults (c_sig c))).

(* substitute REQUIRED positionals from the evaluated bindings (1572-1579) *)
Fixpoint fill_required (names : list string) (args : list value) (nk : pdict)
  : list value * pdict * list string :=
  match names, args with
  | n :: ns, a :: r =>
      if is_req a then
        match sget n nk with
        | Some v => let '(args', nk', miss) := fill_required ns r (sdel n nk) in (v :: args', nk', miss)
        | None => let '(args', nk', miss) := fill_required ns r nk in (a :: args', nk', n :: miss)
        end
      else let '(args', nk', miss) := fill_required ns r nk in (a :: args', nk', miss)
  | _, _ => (args, nk, [])
  end.

(* ---------- config_scope (1320-1342) ---------- *)
Inductive scope_arg := SStr (s : string) | SList (l : list string) | SNone | SBad.
Definition enter_scope_value (cur : list string) (a : scope_arg) : list string * bool :=
  match a with
  | SList l => (l, true)
  | SStr s => if String.eqb s "" then ([], true) else (cur ++ split_slash s, true)
  | SNone => ([], true)
  | SBad => ([], false)
  end.
Definition scope_valid (sc : list string) : bool := forallb is_selector sc.

(* ---------- the non-recursive parts of gin_wrapper ---------- *)
(* 1507-1539: applicable bindings minus the names the caller supplies positionally
   (REQUIRED positions keep their binding) *)
Definition prep_bindings (cfg : cdict) (scope : list string) (c : cfgable) (args : list value) (kwargs : pdict) : pdict :=
  let arg_names := supplied_positional_names (c_sig c) args in
  let caller_req_kw := map fst (filter (fun kv => is_req (snd kv)) kwargs) in
  (* repaired code: names the caller supplies by keyword are dropped too, so that their bindings
     are never evaluated *)
  drop_names (map fst kwargs) caller_req_kw
    (drop_names arg_names (required_positions arg_names args)
                (get_bindings_for cfg scope (c_sel c) true)).
(* the code before the repair: only positionally supplied names were dropped *)
Definition prep_bindings_orig (cfg : cdict) (scope : list string) (c : cfgable) (args : list value) : pdict :=
  let arg_names := supplied_positional_names (c_sig c) args in
  drop_names arg_names (required_positions arg_names args)
             (get_bindings_for cfg scope (c_sel c) true).
(* 1541-1554: what goes into the operative record *)
Definition prep_operative (c : cfgable) (args : list value) (kwargs : pdict) (new_kwargs : pdict) : pdict :=
  let arg_names := supplied_positional_names (c_sig c) args in
  let req_names := required_positions arg_names args in
  let caller_req_kw := map fst (filter (fun kv => is_req (snd kv)) kwargs) in
  drop_names (map fst kwargs) caller_req_kw
    (drop_names arg_names req_names (supdate (configurable_defaults c) new_kwargs)).
(* 1572-1604: REQUIRED substitution, missing list, caller kwargs last.
   nk = the deep-copied (evaluated) bindings *)
Definition merge_call (c : cfgable) (args : list value) (kwargs nk : pdict) : res (list value * pdict) :=
  let sg := c_sig c in
  let arg_names := supplied_positional_names sg args in
  let caller_req_kw := map fst (filter (fun kv => is_req (snd kv)) kwargs) in
  let '(new_args, nk, miss1) := fill_required arg_names args nk in
  let miss2 := filter (fun r => negb (str_in r arg_names) && negb (smem r kwargs) && negb (smem r nk))
                      (signature_required c) in
  let miss3 := filter (fun r => negb (smem r nk)) caller_req_kw in
  let kwargs' := filter (fun kv => negb (str_in (fst kv) caller_req_kw && smem (fst kv) nk)) kwargs in
  let missing := miss1 ++ miss2 ++ miss3 in
  match missing with
  | _ :: _ => Raise ("RuntimeError:" ++ join "," (order_by_signature sg missing))
  | [] => Ok (new_args, supdate nk kwargs')
  end.

(* ---------- evaluation of references (copy.deepcopy) and calls ---------- *)
Definition lookup_sel (s : state) (full : string) : option cfgable := fget (to_key full) (sm_flat (reg s)).

Definition oper_update (s : state) (k : ckey) (vals : pdict) : state :=
  let d := match cget k (operative s) with Some d => d | None => [] end in
  set_operative (cset k (supdate d vals) (operative s)) s.

Definition truthy (v : value) : bool :=
  match v with
  | VNone => false | VBool b => b | VInt z => negb (Z.eqb z 0) | VStr s => negb (String.eqb s "")
  | VList [] | VTuple [] | VDict [] => false
  | _ => true
  end.

Fixpoint eval (fuel : nat) (s : state) (v : value) {struct fuel} : state * res value :=
  match fuel with
  | O => (s, Raise "RecursionError")
  | S f =>
      match v with
      | VList l =>
          let '(s', r) := (fix go (s : state) (l : list value) : state * res (list value) :=
             match l with
             | [] => (s, Ok [])
             | x :: t => let '(s1, rx) := eval f s x in
                         match rx with
                         | Raise e => (s1, Raise e)
                         | Ok x' => let '(s2, rt) := go s1 t in
                                    match rt with Raise e => (s2, Raise e) | Ok t' => (s2, Ok (x' :: t')) end
                         end
             end) s l in
          (s', match r with Ok l' => Ok (VList l') | Raise e => Raise e end)
      | VTuple l =>
          let '(s', r) := (fix go (s : state) (l : list value) : state * res (list value) :=
             match l with
             | [] => (s, Ok [])
             | x :: t => let '(s1, rx) := eval f s x in
                         match rx with
                         | Raise e => (s1, Raise e)
                         | Ok x' => let '(s2, rt) := go s1 t in
                                    match rt with Raise e => (s2, Raise e) | Ok t' => (s2, Ok (x' :: t')) end
                         end
             end) s l in
          (s', match r with Ok l' => Ok (VTuple l') | Raise e => Raise e end)
      | VDict l =>
          (* copy._deepcopy_dict: y = {}; for key, value in x.items(): y[deepcopy(key, memo)] = deepcopy(value, memo).
             Python evaluates the right-hand side of the assignment first: the VALUE of an item is copied (its
             references run) before its KEY; the store y[k'] = x' hashes k' (TypeError for a list / dict) and, when an
             equal key is already in y, replaces that entry's value in place *)
          let '(s', r) := (fix go (s : state) (l : list (value * value)) (y : list (value * value))
                             : state * res (list (value * value)) :=
             match l with
             | [] => (s, Ok y)
             | (k, x) :: t =>
                 let '(s0, rx) := eval f s x in
                 match rx with
                 | Raise e => (s0, Raise e)
                 | Ok x' =>
                     let '(s1, rk) := eval f s0 k in
                     match rk with
                     | Raise e => (s1, Raise e)
                     | Ok k' => if py_hashable k' then go s1 t (vdict_set k' x' y) else (s1, Raise "TypeError")
                     end
                 end
             end) s l [] in
          (s', match r with Ok l' => Ok (VDict l') | Raise e => Raise e end)
      | VRef sc sel true => call_handle f s sc sel [] []
      | VRef sc sel false => (s, Ok (VHandle sc sel))
      | VUnk _ _ => (s, Raise "ValueError")
      | VMacro _ => (s, Raise "ModelError")
      | _ => (s, Ok v)
      end
  end

(* scoping_wrapper (680-687): with config_scope(list) around the wrapper when scopes <> [] *)
with call_handle (fuel : nat) (s : state) (sc : list string) (sel : string)
                 (args : list value) (kwargs : pdict) {struct fuel} : state * res value :=
  match fuel with
  | O => (s, Raise "RecursionError")
  | S f =>
      match sc with
      | [] => call f s sel args kwargs
      | _ =>
          let s1 := set_scopes (sc :: scopes s) s in
          if negb (scope_valid sc) then (set_scopes (scopes s) s1, Raise "ValueError") else
          let '(s2, r) := call f s1 sel args kwargs in
          (set_scopes (tl (scopes s2)) s2, r)
      end
  end

(* gin_wrapper (1504-1630) for the configurable with complete selector sel *)
with call (fuel : nat) (s : state) (sel : string) (args : list value) (kwargs : pdict)
          {struct fuel} : state * res value :=
  match fuel with
  | O => (s, Raise "RecursionError")
  | S f =>
      match lookup_sel s sel with
      | None => (s, Raise "ModelError")
      | Some c =>
          let sg := c_sig c in
          let sstr := scope_str (current_scope s) in
          let arg_names := supplied_positional_names sg args in
          if existsb is_req (skipn (List.length arg_names) args) then (s, Raise "ValueError") else
          let new_kwargs := prep_bindings (config s) (current_scope s) c args kwargs in
          let s := oper_update s (sstr, sel) (prep_operative c args kwargs new_kwargs) in
          (* copy.deepcopy(new_kwargs) *)
          let '(s, rk) := (fix go (s : state) (l : pdict) : state * res pdict :=
             match l with
             | [] => (s, Ok [])
             | (k, x) :: t => let '(s1, rx) := eval f s x in
                              match rx with
                              | Raise e => (s1, Raise e)
                              | Ok x' => let '(s2, rt) := go s1 t in
                                         match rt with Raise e => (s2, Raise e) | Ok t' => (s2, Ok ((k, x') :: t')) end
                              end
             end) s new_kwargs in
          match rk with
          | Raise e => (s, Raise e)
          | Ok nk =>
              match merge_call c args kwargs nk with
              | Raise e => (s, Raise e)
              | Ok (new_args, final_kwargs) =>
                  match py_bind sg new_args final_kwargs with
                  | None => (s, Raise "TypeError")
                  | Some env =>
                      match c_kind c with
                      | KProbe =>
                          let n := counter s in
                          (log_call {| cr_sel := sel; cr_scope := current_scope s; cr_env := env; cr_n := n |} s,
                           Ok (VRet sel n))
                      | KMacro => (s, match sget "value" env with Some x => Ok x | None => Raise "ModelError" end)
                      | KConstant =>
                          match fget (to_key sstr) (sm_flat (constants s)) with
                          | Some x => (s, Ok x)
                          | None => (s, Raise "KeyError")
                          end
                      | KSingleton =>
                          match sget sstr (singletons s) with
                          | Some x => (s, Ok x)
                          | None =>
                              match sget "constructor" env with
                              | Some (VHandle hsc hsel) =>
                                  let '(s', r) := call_handle f s hsc hsel [] [] in
                                  match r with
                                  | Ok x => (set_singletons (sset sstr x (singletons s')) s', Ok x)
                                  | Raise e => (s', Raise e)
                                  end
                              | Some x => (s, Raise "ValueError")
                              | None => (s, Raise "ModelError")
                              end
                          end
                      end
                  end
              end
          end
      end
  end.
