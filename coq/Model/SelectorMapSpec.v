(* Abstract specification of SelectorMap (what C08 says), and the
   representation invariant tying the suffix tree to the flat map.
   Definitions only. *)
From Coq Require Import List String Bool Arith.
From GinV Require Import Lib.PyStr Model.SelectorMap.
Import ListNotations.
Open Scope list_scope.

(* p is a suffix of k, component-wise *)
Definition is_suffix (p k : key) : Prop := exists pre, k = pre ++ p.
Definition proper_suffix (p k : key) : Prop := exists pre, pre <> [] /\ k = pre ++ p.

(* The spec of matching_selectors over the set of stored names [d]:
   an exact match wins, otherwise every stored name that ends with p. *)
Definition spec_matches (d : list key) (p k : key) : Prop :=
  if existsb (key_eqb p) d then k = p else (In k d /\ is_suffix p k).

Section Inv.
  Context {V : Type}.
  Definition dom (s : smap V) : list key := map fst (sm_flat s).

  (* node reached from the root along [path] (innermost component first) *)
  Definition node_at (path : list string) (t n : tree) : Prop := tree_walk path t = Some n.

  Record Inv (s : smap V) : Prop := {
    inv_nodup : NoDup (dom s);
    inv_nonempty : forall k, In k (dom s) -> k <> [];
    (* terminals are exactly the stored names, each at its own reversed path *)
    inv_term : forall path n k, node_at path (sm_tree s) n ->
                 t_term n = Some k -> In k (dom s) /\ path = rev k;
    inv_stored : forall k, In k (dom s) ->
                 exists n, node_at (rev k) (sm_tree s) n /\ t_term n = Some k;
    (* dict keys are unique in every node *)
    inv_kids : forall path n, node_at path (sm_tree s) n -> NoDup (map fst (t_kids n));
    (* pruning: no node other than the root is without a terminal below it *)
    inv_pruned : forall path n, path <> [] -> node_at path (sm_tree s) n -> collect n <> []
  }.
End Inv.
