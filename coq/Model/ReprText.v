(* The STRING Python's repr prints for a literal value (Model/Repr.v: value trees over atom tokens), character by
   character: atoms print their token text (a negative number "-" and the text), lists "[a, b]", tuples "()" "(a,)"
   "(a, b)", dicts "{}" "{k: v, k2: v2}" -- separators ", " and ": " exactly as CPython writes them.
   [repr_toks] of Model/Repr.v is the token stream of this text (Proofs/ReprTextProofs.v: the lexer of Model/Lexer.v
   yields exactly those tokens, up to positions).  Definitions only. *)
From Coq Require Import List String ZArith Bool Arith.
From GinV Require Import Lib.Out Lib.PyStr Model.Parser Model.ParserSpec Model.Repr Model.Lexer.
Import ListNotations.
Open Scope string_scope.
Open Scope list_scope.

Fixpoint join_strs (sep : string) (l : list string) : string :=
  match l with
  | [] => ""
  | [x] => x
  | x :: r => (x ++ sep ++ join_strs sep r)%string
  end.

Fixpoint repr_string (v : pv) : string :=
  match v with
  | PAtom t => text t
  | PNeg t => ("-" ++ text t)%string
  | PStr t => text t
  | PList l => ("[" ++ join_strs ", " (map repr_string l) ++ "]")%string
  | PTuple l => ("(" ++ join_strs ", " (map repr_string l) ++ (match l with [_] => "," | _ => "" end) ++ ")")%string
  | PDict l => ("{" ++ join_strs ", " (map (fun kv => repr_string (fst kv) ++ ": " ++ repr_string (snd kv)) l) ++ "}")%string
  end.

(* nesting depth of brackets (the tokenizer gives up beyond 200 open brackets) *)
Fixpoint pv_depth (v : pv) : nat :=
  match v with
  | PAtom _ | PNeg _ | PStr _ => 0
  | PList l => S (list_max (map pv_depth l))
  | PTuple l => S (list_max (map pv_depth l))
  | PDict l => S (list_max (map (fun kv => Nat.max (pv_depth (fst kv)) (pv_depth (snd kv))) l))
  end.

(* an atom token whose text, alone, is lexed (Model/Lexer.v) into one token of its type and text -- then the NEWLINE
   the tokenizer adds and the end marker; [atom_lexable_b] decides it *)
Definition atom_lexable (t : token) : Prop :=
  (ty t = NAME \/ ty t = NUMBER \/ ty t = STRING) /\
  exists t' n e, lex (text t) = Some [t'; n; e] /\ ty t' = ty t /\ text t' = text t.
Definition atom_lexable_b (t : token) : bool :=
  in_types (ty t) [NAME; NUMBER; STRING] &&
  match lex (text t) with
  | Some [t'; _; _] => ttype_eqb (ty t') (ty t) && String.eqb (text t') (text t)
  | _ => false
  end.
