(* pprint.pformat WITH the splitting of long strings (CPython 3.12.1 Lib/pprint.py, PrettyPrinter._pprint_str), on
   value trees whose string atoms carry their CONTENT (a list of code points, Model/StrLit.v; ASCII content: every
   element < 128, so that len() of a repr is its number of characters and str.isprintable is 32 <= c < 127).
   _pprint_str(object, stream, indent, allowance, context, level)  -- reached from _format when len(repr) does not fit:
     if not len(object): write(repr(object)); return
     lines = object.splitlines(True)
     if level == 1: indent += 1; allowance += 1                    (the string IS the whole value)
     max_width1 = max_width = self._width - indent
     for i, line in enumerate(lines):
         rep = repr(line)
         if i == len(lines) - 1: max_width1 -= allowance
         if len(rep) <= max_width1: chunks.append(rep)
         else:
             parts = re.findall(r'\S*\s*', line); parts.pop()       (maximal runs: non-blanks then blanks)
             max_width2 = max_width; current = ''
             for j, part in enumerate(parts):
                 candidate = current + part
                 if j == len(parts) - 1 and i == len(lines) - 1: max_width2 -= allowance
                 if len(repr(candidate)) > max_width2:
                     if current: chunks.append(repr(current))
                     current = part
                 else: current = candidate
             if current: chunks.append(repr(current))
     if len(chunks) == 1: write(rep); return
     if level == 1: write('(')
     chunks joined by '\n' + ' ' * indent
     if level == 1: write(')')
   Widths are Python ints and may be negative: Z.  Everything else as Model/PPrint.v (of which this is an extension:
   [erase] maps the trees to those of Model/Repr.v).  bytes atoms (_pprint_bytes) are still written unsplit ([SRaw]).
   Definitions only. *)
From Coq Require Import List String ZArith NArith Bool Arith Ascii.
From GinV Require Import Lib.Out Lib.PyStr Model.Parser Model.ParserSpec Model.Repr Model.Lexer Model.ReprText Model.PPrint Model.StrLit.
Import ListNotations.
Open Scope string_scope.
Open Scope list_scope.

Inductive sv :=
| SAtom (t : token) | SNeg (t : token)
| SStr (s : list N)                 (* a str, by content *)
| SRaw (t : token)                  (* a STRING token written as it is (bytes) *)
| SList (l : list sv) | STuple (l : list sv) | SDict (l : list (sv * sv)).

Definition ascii_printable (c : N) : bool := (N.leb 32 c) && (N.ltb c 127).
Definition str_of (l : list N) : string := string_of_list_ascii (map ascii_of_N l).
Definition repr_str (s : list N) : string := str_of (py_repr_str ascii_printable s).
Definition str_tok (s : list N) : token := {| ty := STRING; text := repr_str s; srow := 0; scol := 0; erow := 0; ecol := 0 |}.
Fixpoint erase (v : sv) : pv :=
  match v with
  | SAtom t => PAtom t | SNeg t => PNeg t | SStr s => PStr (str_tok s) | SRaw t => PStr t
  | SList l => PList (map erase l) | STuple l => PTuple (map erase l)
  | SDict l => PDict (map (fun kv => (erase (fst kv), erase (snd kv))) l)
  end.

(* ---- str.splitlines(True), ASCII line boundaries: \n \r \r\n \v \f \x1c \x1d \x1e ---- *)
Definition is_linebreak (c : N) : bool :=
  N.eqb c 10 || N.eqb c 11 || N.eqb c 12 || N.eqb c 28 || N.eqb c 29 || N.eqb c 30.
Fixpoint split_lines (s : list N) (cur : list N) : list (list N) :=
  match s with
  | [] => match cur with [] => [] | _ => [rev cur] end
  | c :: r =>
      if N.eqb c 13 then
        match r with
        | d :: r' => if N.eqb d 10 then rev (d :: c :: cur) :: split_lines r' [] else rev (c :: cur) :: split_lines r []
        | [] => [rev (c :: cur)]
        end
      else if is_linebreak c then rev (c :: cur) :: split_lines r []
      else split_lines r (c :: cur)
  end.
(* ---- re.findall(r'\S*\s*', line) without the final empty match; \s on ASCII: \t\n\v\f\r, \x1c-\x1f, blank ---- *)
Definition is_ws (c : N) : bool := (N.leb 9 c && N.leb c 13) || (N.leb 28 c && N.leb c 32).
Fixpoint parts_of (l : list N) (cur : list N) (seen_space : bool) : list (list N) :=
  match l with
  | [] => match cur with [] => [] | _ => [rev cur] end
  | c :: r =>
      if is_ws c then parts_of r (c :: cur) true
      else if seen_space then rev cur :: parts_of r [c] false
      else parts_of r (c :: cur) false
  end.
Definition repr_len (s : list N) : Z := Z.of_nat (List.length (py_repr_str ascii_printable s)).
Definition nonempty (l : list N) : bool := match l with [] => false | _ => true end.
Fixpoint chunk_parts (ps : list (list N)) (cur : list N) (mw2 allow : Z) (lastline : bool) : list (list N) :=
  match ps with
  | [] => if nonempty cur then [cur] else []
  | p :: r =>
      let cand := cur ++ p in
      let mw2' := if lastline && match r with [] => true | _ => false end then (mw2 - allow)%Z else mw2 in
      if Z.gtb (repr_len cand) mw2' then (if nonempty cur then [cur] else []) ++ chunk_parts r p mw2' allow lastline
      else chunk_parts r cand mw2' allow lastline
  end.
Fixpoint chunk_lines (lines : list (list N)) (mw mw1 allow : Z) : list (list N) :=
  match lines with
  | [] => []
  | line :: r =>
      let last := match r with [] => true | _ => false end in
      let mw1' := if last then (mw1 - allow)%Z else mw1 in
      (if Z.leb (repr_len line) mw1' then [line] else chunk_parts (parts_of line [] false) [] mw allow last)
      ++ chunk_lines r mw mw1' allow
  end.
Definition pprint_str (w : nat) (s : list N) (indent allowance : nat) (top : bool) : string :=
  match s with
  | [] => repr_str s
  | _ =>
      let indent' := if top then S indent else indent in
      let allow := Z.of_nat (if top then S allowance else allowance) in
      let mw := (Z.of_nat w - Z.of_nat indent')%Z in
      let chunks := chunk_lines (split_lines s []) mw mw allow in
      match chunks with
      | [_] => repr_str s
      | _ => ((if top then "(" else "") ++ join_strs (nls ++ blanks indent') (map repr_str chunks) ++ (if top then ")" else ""))%string
      end
  end.

Definition repr_string_s (v : sv) : string := repr_string (erase v).

(* PrettyPrinter._format with the str dispatch entry; [top]: level = 0 *)
Fixpoint pformat_s_at (w : nat) (v : sv) {struct v} : nat -> nat -> bool -> string :=
  fun indent allowance top =>
  let rep := repr_string_s v in
  if too_wide w rep indent allowance then
    match v with
    | SAtom _ | SNeg _ | SRaw _ => rep
    | SStr s => pprint_str w s indent allowance top
    | SList l =>
        ("[" ++
         (fix items (l : list sv) : string :=
            match l with
            | [] => ""
            | x :: r =>
                match r with
                | [] => pformat_s_at w x (S indent) (S allowance) false
                | _ :: _ => pformat_s_at w x (S indent) 1%nat false ++ delimnl (S indent) ++ items r
                end
            end) l ++ "]")%string
    | STuple l =>
        let endlen := match l with [_] => 2%nat | _ => 1%nat end in
        ("(" ++
         (fix items (l : list sv) : string :=
            match l with
            | [] => ""
            | x :: r =>
                match r with
                | [] => pformat_s_at w x (S indent) (allowance + endlen)%nat false
                | _ :: _ => pformat_s_at w x (S indent) 1%nat false ++ delimnl (S indent) ++ items r
                end
            end) l ++ (match l with [_] => "," | _ => "" end) ++ ")")%string
    | SDict l =>
        ("{" ++
         (fix items (l : list (sv * sv)) : string :=
            match l with
            | [] => ""
            | (k, x) :: r =>
                let krep := repr_string_s k in
                let col := (S indent + String.length krep + 2)%nat in
                match r with
                | [] => krep ++ ": " ++ pformat_s_at w x col (S allowance) false
                | _ :: _ => krep ++ ": " ++ pformat_s_at w x col 1%nat false ++ delimnl (S indent) ++ items r
                end
            end) l ++ "}")%string
    end
  else rep.
Definition pformat_s (w : nat) (v : sv) : string := pformat_s_at w v 0 0 true.

(* gin's format_binding on top of pformat_s *)
Definition format_binding_s (maxlen indent : nat) (key : string) (v : sv) : string :=
  let text := pformat_s (maxlen - indent)%nat v in
  if negb (has_nl text) && Nat.leb (String.length key + String.length text)%nat maxlen
  then (key ++ " = " ++ text)%string
  else (key ++ " = \" ++ nls ++ indent_lines indent text)%string.
