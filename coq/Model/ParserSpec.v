(* Specification side for C02: the literal grammar as syntax trees, their
   rendering to token lists in an arbitrary layout, and Python's meaning. *)
From Coq Require Import List String ZArith Bool Arith.
From GinV Require Import Lib.Out Lib.PyStr Model.Parser.
Import ListNotations.
Open Scope string_scope.
Open Scope list_scope.

Inductive lit :=
| LBasic (neg : bool) (t : token)              (* NAME or NUMBER token, optional leading minus *)
| LStrs (ts : list token)                      (* one or more adjacent STRING tokens *)
| LList (items : list lit) (trailing : bool)
| LTuple (items : list lit) (trailing : bool)  (* |items| = 1 requires trailing = true *)
| LParen (x : lit)                             (* ( x ) without a comma: just x *)
| LDict (items : list (lit * lit)) (trailing : bool).

(* a layout supplies, for every token boundary inside brackets, a list of trivia tokens (NL / COMMENT) *)
Definition trivia_tok (t : token) : Prop := ty t = NL \/ ty t = COMMENT.
Definition layout := nat -> list token.       (* consulted with a running counter *)
Definition lay_ok (lay : layout) : Prop := forall n, Forall trivia_tok (lay n).

Definition op_tok (s : string) : token := {| ty := OP; text := s; srow := 1; scol := 0; erow := 1; ecol := 0 |}.

(* render returns the tokens and the next layout counter; [inside] = within some bracket, where
   trivia may follow every token *)
Fixpoint render (l : lit) (lay : layout) (n : nat) (inside : bool) {struct l} : list token * nat :=
  let tr := fun n => if inside then lay n else [] in
  match l with
  | LBasic neg t => ((if neg then [op_tok "-"] ++ tr n else []) ++ [t] ++ tr (S n), S (S n))
  | LStrs ts =>
      (fix go (ts : list token) (n : nat) : list token * nat :=
         match ts with [] => ([], n) | t :: r => let '(rest, n') := go r (S n) in (t :: tr n ++ rest, n') end) ts n
  | LParen x =>
      let '(tx, n1) := render x lay (S n) true in
      ([op_tok "("] ++ lay n ++ tx ++ [op_tok ")"] ++ tr n1, S n1)
  | LList items trailing =>
      let '(body, n1) :=
        (fix go (items : list lit) (n : nat) : list token * nat :=
           match items with
           | [] => ([], n)
           | [x] => let '(tx, n1) := render x lay n true in
                    (tx ++ (if trailing then [op_tok ","] ++ lay n1 else []), S n1)
           | x :: r => let '(tx, n1) := render x lay n true in
                       let '(rest, n2) := go r (S n1) in
                       (tx ++ [op_tok ","] ++ lay n1 ++ rest, n2)
           end) items (S n) in
      ([op_tok "["] ++ lay n ++ body ++ [op_tok "]"] ++ tr n1, S n1)
  | LTuple items trailing =>
      let '(body, n1) :=
        (fix go (items : list lit) (n : nat) : list token * nat :=
           match items with
           | [] => ([], n)
           | [x] => let '(tx, n1) := render x lay n true in
                    (tx ++ (if trailing then [op_tok ","] ++ lay n1 else []), S n1)
           | x :: r => let '(tx, n1) := render x lay n true in
                       let '(rest, n2) := go r (S n1) in
                       (tx ++ [op_tok ","] ++ lay n1 ++ rest, n2)
           end) items (S n) in
      ([op_tok "("] ++ lay n ++ body ++ [op_tok ")"] ++ tr n1, S n1)
  | LDict items trailing =>
      let '(body, n1) :=
        (fix go (items : list (lit * lit)) (n : nat) : list token * nat :=
           match items with
           | [] => ([], n)
           | (k, v) :: r =>
               let '(tk, n1) := render k lay n true in
               let '(tv, n2) := render v lay (S n1) true in
               let item := tk ++ [op_tok ":"] ++ lay n1 ++ tv in
               match r with
               | [] => (item ++ (if trailing then [op_tok ","] ++ lay n2 else []), S n2)
               | _ => let '(rest, n3) := go r (S n2) in (item ++ [op_tok ","] ++ lay n2 ++ rest, n3)
               end
           end) items (S n) in
      ([op_tok "{"] ++ lay n ++ body ++ [op_tok "}"] ++ tr n1, S n1)
  end.

(* the text gin hands to ast.literal_eval for a run of string tokens (repaired code: blank-separated) *)
Fixpoint strs_text (ts : list token) : string :=
  match ts with
  | [] => ""
  | [t] => text t
  | t :: r => (text t ++ " " ++ strs_text r)%string
  end.

(* Python's meaning of a literal tree, atoms through the oracle *)
Fixpoint py_eval (o : oracle) (l : lit) {struct l} : option out :=
  match l with
  | LBasic neg t => match olookup o ((if neg then "-" else "") ++ text t)%string with Some (Some v) => Some v | _ => None end
  | LStrs ts => match olookup o (strs_text ts) with Some (Some v) => Some v | _ => None end
  | LParen x => py_eval o x
  | LList items _ =>
      match (fix go (items : list lit) : option (list out) :=
               match items with [] => Some [] | x :: r =>
                 match py_eval o x, go r with Some v, Some vs => Some (v :: vs) | _, _ => None end end) items with
      | Some vs => Some (OT "L" vs) | None => None end
  | LTuple items _ =>
      match (fix go (items : list lit) : option (list out) :=
               match items with [] => Some [] | x :: r =>
                 match py_eval o x, go r with Some v, Some vs => Some (v :: vs) | _, _ => None end end) items with
      | Some vs => Some (OT "T" vs) | None => None end
  | LDict items _ =>
      match (fix go (items : list (lit * lit)) : option (list (out * out)) :=
               match items with [] => Some [] | (k, v) :: r =>
                 match py_eval o k, py_eval o v, go r with
                 | Some a, Some b, Some rest => Some ((a, b) :: rest) | _, _, _ => None end end) items with
      (* dict(items): TypeError (no value) when a key cannot be hashed; keys that are equal in Python are one entry *)
      | Some kvs => if keys_hashable kvs then Some (build_dict kvs) else None | None => None end
  end.

(* well-formedness of trees: token kinds, non-empty string runs, every prefix of a string run
   evaluates (gin evaluates the cumulative text after each piece), one-tuples carry their comma *)
Fixpoint prefixes_ne {A} (l : list A) : list (list A) :=
  match l with [] => [] | x :: r => [x] :: map (cons x) (prefixes_ne r) end.
Fixpoint lit_wf (o : oracle) (l : lit) {struct l} : Prop :=
  match l with
  | LBasic _ t => (ty t = NAME \/ ty t = NUMBER) /\ text t <> "-"
  | LStrs ts => ts <> [] /\ Forall (fun t => ty t = STRING) ts /\
                Forall (fun p => exists v, olookup o (strs_text p) = Some (Some v)) (prefixes_ne ts)
  | LParen x => lit_wf o x
  | LList items _ => (fix go (items : list lit) : Prop := match items with [] => True | x :: r => lit_wf o x /\ go r end) items
  | LTuple items trailing =>
      (List.length items = 1 -> trailing = true) /\ (items = [] -> trailing = false) /\
      (fix go (items : list lit) : Prop := match items with [] => True | x :: r => lit_wf o x /\ go r end) items
  | LDict items _ =>
      (fix go (items : list (lit * lit)) : Prop :=
         match items with [] => True | (k, v) :: r => lit_wf o k /\ lit_wf o v /\ go r end) items
  end.

(* what may follow a value: something the parser neither skips nor continues with *)
Definition stop_tok (t : token) : Prop := ty t = NEWLINE \/ ty t = ENDMARKER \/ ty t = DEDENT.
