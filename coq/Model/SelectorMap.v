(* Model of gin/selector_map.py (SelectorMap).  Definitions only.

   A selector is handled as its list of components, outermost first
   (key = 'a.b.c'.split('.')); the string-level entry points at the end of the
   file do the split / regex check exactly where the Python does.

   tree = the dict-of-dicts `_selector_tree`, keyed innermost component first;
   `Node term kids`: term = the value under '$' (the complete selector), kids =
   the other entries in insertion order.  flat = `_selector_map`. *)
From Coq Require Import List String Bool Arith.
From GinV Require Import Lib.PyStr.
Import ListNotations.
Open Scope list_scope.

Definition key := list string.

Inductive tree : Type := Node : option key -> list (string * tree) -> tree.
Definition t_term (t : tree) := match t with Node tm _ => tm end.
Definition t_kids (t : tree) := match t with Node _ ks => ks end.
Definition empty_tree : tree := Node None [].
Definition is_empty (t : tree) : bool :=
  match t with Node None [] => true | _ => false end.
(* len(node): the '$' entry counts *)
Definition t_len (t : tree) : nat :=
  (match t_term t with Some _ => 1 | None => 0 end) + List.length (t_kids t).

Section Assoc.
  Context {V : Type}.
  Fixpoint kget (c : string) (l : list (string * V)) : option V :=
    match l with
    | [] => None
    | (d, v) :: r => if String.eqb c d then Some v else kget c r
    end.
  (* d[c] = v : replace in place, else append *)
  Fixpoint kset (c : string) (v : V) (l : list (string * V)) : list (string * V) :=
    match l with
    | [] => [(c, v)]
    | (d, w) :: r => if String.eqb c d then (d, v) :: r else (d, w) :: kset c v r
    end.
  Fixpoint kdel (c : string) (l : list (string * V)) : list (string * V) :=
    match l with
    | [] => []
    | (d, w) :: r => if String.eqb c d then r else (d, w) :: kdel c r
    end.
End Assoc.

(* __setitem__'s walk: path = reversed components *)
Fixpoint tree_set (path : list string) (full : key) (t : tree) : tree :=
  match path with
  | [] => Node (Some full) (t_kids t)
  | c :: p =>
      let child := match kget c (t_kids t) with Some ch => ch | None => empty_tree end in
      Node (t_term t) (kset c (tree_set p full child) (t_kids t))
  end.

(* pop's walk + bottom-up pruning.  None = KeyError inside the walk *)
Fixpoint tree_pop (path : list string) (t : tree) : option tree :=
  match path with
  | [] => Some (Node None (t_kids t))
  | c :: p =>
      match kget c (t_kids t) with
      | None => None
      | Some ch =>
          match tree_pop p ch with
          | None => None
          | Some ch' =>
              if is_empty ch' then Some (Node (t_term t) (kdel c (t_kids t)))
              else Some (Node (t_term t) (kset c ch' (t_kids t)))
          end
      end
  end.

Fixpoint tree_walk (path : list string) (t : tree) : option tree :=
  match path with
  | [] => Some t
  | c :: p => match kget c (t_kids t) with None => None | Some ch => tree_walk p ch end
  end.

(* every terminal below t (order: own terminal, then children in order; the
   Python DFS order differs, observations are compared as sets) *)
Fixpoint collect (t : tree) : list key :=
  match t with
  | Node tm ks =>
      (match tm with Some k => [k] | None => [] end) ++
      (fix go (l : list (string * tree)) : list key :=
         match l with [] => [] | (_, ch) :: r => collect ch ++ go r end) ks
  end.

Section Map.
  Context {V : Type}.
  Definition flat := list (key * V).

  Fixpoint fget (k : key) (m : flat) : option V :=
    match m with [] => None | (j, v) :: r => if key_eqb k j then Some v else fget k r end.
  Fixpoint fset (k : key) (v : V) (m : flat) : flat :=
    match m with
    | [] => [(k, v)]
    | (j, w) :: r => if key_eqb k j then (j, v) :: r else (j, w) :: fset k v r
    end.
  Fixpoint fdel (k : key) (m : flat) : flat :=
    match m with [] => [] | (j, w) :: r => if key_eqb k j then r else (j, w) :: fdel k r end.
  Definition fmem (k : key) (m : flat) : bool :=
    match fget k m with Some _ => true | None => false end.

  Record smap := { sm_tree : tree; sm_flat : flat }.
  Definition sm_empty : smap := {| sm_tree := empty_tree; sm_flat := [] |}.

  Definition sm_set (k : key) (v : V) (s : smap) : smap :=
    {| sm_tree := tree_set (rev k) k (sm_tree s); sm_flat := fset k v (sm_flat s) |}.

  (* None = KeyError (key absent) *)
  Definition sm_pop (k : key) (s : smap) : option (V * smap) :=
    match fget k (sm_flat s) with
    | None => None
    | Some v =>
        match tree_pop (rev k) (sm_tree s) with
        | None => None
        | Some t' => Some (v, {| sm_tree := t'; sm_flat := fdel k (sm_flat s) |})
        end
    end.

  Definition sm_clear (s : smap) : smap := sm_empty.
  (* copy(): the repaired code deep-copies the tree; values are shared (immutable here) *)
  Definition sm_copy (s : smap) : smap := s.

  Definition sm_matching (p : key) (s : smap) : list key :=
    if fmem p (sm_flat s) then [p]
    else match tree_walk (rev p) (sm_tree s) with
         | None => []
         | Some t => collect t
         end.

  Inductive match_result := MNone | MAmbiguous | MOne (k : key) (v : option V).
  Definition sm_get_match (p : key) (s : smap) : match_result :=
    match sm_matching p s with
    | [] => MNone
    | [k] => MOne k (fget k (sm_flat s))
    | _ => MAmbiguous
    end.

  (* minimal_selector.  The loop state is (start, node); start = Some i stands
     for the Python value -i.  [fix0] selects the repaired assignment
     `start = -max(i, 1)`; with fix0 = false it is the original `start = -i`,
     for which Some 0 slices the whole list (Python: l[-0:] == l[0:]). *)
  Fixpoint min_loop (fix0 : bool) (i : nat) (path : list string) (start : option nat) (t : tree)
    : option (option nat * tree) :=
    match path with
    | [] => Some (start, t)
    | c :: p =>
        let start' :=
          if Nat.eqb (t_len t) 1
          then match start with None => Some (if fix0 then Nat.max i 1 else i) | Some j => Some j end
          else None in
        match kget c (t_kids t) with
        | None => None
        | Some ch => min_loop fix0 (S i) p start' ch
        end
    end.

  Definition last_n {A} (n : nat) (l : list A) : list A := skipn (List.length l - n) l.

  Definition sm_minimal_gen (fix0 : bool) (k : key) (s : smap) : option key :=
    if fmem k (sm_flat s) then
      match min_loop fix0 0 (rev k) None (sm_tree s) with
      | None => None
      | Some (start, t) =>
          if Nat.ltb 1 (t_len t) then Some k
          else match start with
               | None => Some k
               | Some 0 => Some k
               | Some i => Some (last_n i k)
               end
      end
    else None.
  Definition sm_minimal := sm_minimal_gen true.
  Definition sm_minimal_orig := sm_minimal_gen false.
End Map.
Arguments flat : clear implicits.
Arguments smap : clear implicits.
Arguments match_result : clear implicits.

(* String-level entry points: where the Python splits / validates. *)
Definition valid_selector (s : string) : bool := is_selector s.
Definition to_key (s : string) : key := split_dot s.
Definition of_key (k : key) : string := join_dot k.
