(* C09, thread half: the scope stack lives in threading.local storage
   (config.py:107-141), i.e. one stack per thread.  A schedule is any list of
   (thread id, step); steps are the API-level actions of one thread. *)
From Coq Require Import List String ZArith Bool Arith.
From GinV Require Import Lib.Out Lib.PyStr Model.SelectorMap Model.Values Model.Gin.
Import ListNotations.
Open Scope string_scope.
Open Scope list_scope.

Definition tid := nat.
Definition tstacks := list (tid * list (list string)).
Definition nget {V} := @aget nat V Nat.eqb.
Definition nset {V} := @aset nat V Nat.eqb.
(* _maybe_init: a thread that never touched the manager has the stack [[]] *)
Definition stack_of (st : tstacks) (t : tid) : list (list string) :=
  match nget t st with Some s => s | None => [[]] end.
Definition cur_of (st : tstacks) (t : tid) : list string :=
  match stack_of st t with x :: _ => x | [] => [] end.

Inductive tstep :=
| TEnter (a : scope_arg)           (* cm = config_scope(a); cm.__enter__() *)
| TExit                            (* leaving the innermost open block (normally or by exception) *)
| TObserve                         (* current_scope() *)
| TLookup (sel p : string).        (* the binding a configurable call in this thread would receive for p *)

Definition tstep_run (cfg : cdict) (st : tstacks) (t : tid) (x : tstep) : tstacks * out :=
  let stk := stack_of st t in
  let cur := cur_of st t in
  match x with
  | TEnter a =>
      let '(new_scope, valid) := enter_scope_value cur a in
      if valid && scope_valid new_scope
      then (nset t (new_scope :: stk) st, OL (map OS new_scope))
      else (nset t stk st, OErr "ValueError")          (* pushed, rejected, popped in the finally *)
  | TExit =>
      match stk with
      | _ :: (_ :: _) as rest => (nset t rest st, ONone)
      | _ => (nset t stk st, ONone)
      end
  | TObserve => (nset t stk st, OL (map OS cur))
  | TLookup sel p =>
      (nset t stk st, match sget p (get_bindings_for cfg cur sel true) with
                      | Some v => value_out v | None => OT "Unbound" [] end)
  end.

Fixpoint trun (cfg : cdict) (st : tstacks) (pi : list (tid * tstep)) : tstacks * list (tid * out) :=
  match pi with
  | [] => (st, [])
  | (t, x) :: r =>
      let '(st1, o) := tstep_run cfg st t x in
      let '(st2, os) := trun cfg st1 r in
      (st2, (t, o) :: os)
  end.

Definition obs_of (t : tid) (l : list (tid * out)) : list out :=
  map snd (filter (fun x => Nat.eqb (fst x) t) l).
Definition only (t : tid) (pi : list (tid * tstep)) : list (tid * tstep) :=
  filter (fun x => Nat.eqb (fst x) t) pi.

(* engine entry: (cfg as bindings list, schedule) -> per-step observations *)
Definition trun_out (p : cdict * list (tid * tstep)) : out :=
  OL (map (fun x => OL [OZ (Z.of_nat (fst x)); snd x]) (snd (trun (fst p) [] (snd p)))).
