(* Specification-side definitions for C01 / C10 (what the properties say),
   independent of the implementation-shaped functions in Gin.v. *)
From Coq Require Import List String ZArith Bool Arith.
From GinV Require Import Lib.PyStr Model.SelectorMap Model.Values Model.Gin.
Import ListNotations.
Open Scope string_scope.
Open Scope list_scope.

Definition is_prefix {A} (q l : list A) : Prop := exists r, l = q ++ r.

(* the value bound to parameter p of sel under exactly the scope q *)
Definition bound_at (cfg : cdict) (q : list string) (sel p : string) : option value :=
  match cget (scope_str q, sel) cfg with Some d => sget p d | None => None end.

Fixpoint first_some {A B} (f : A -> option B) (l : list A) : option B :=
  match l with [] => None | x :: r => match f x with Some b => Some b | None => first_some f r end end.

(* longest-prefix rule: try the prefixes of the active scope from the longest down to the root *)
Definition overlay_spec (cfg : cdict) (scope : list string) (sel p : string) : option value :=
  first_some (fun q => bound_at cfg q sel p) (rev (prefixes scope)).

(* scope components as config_scope admits them: non-empty, no '/' *)
Definition comp_ok (c : string) : Prop := c <> "" /\ contains_char slash c = false.
Definition scope_ok (l : list string) : Prop := Forall comp_ok l.

Definition named (sg : sig) (p : string) : Prop := In p (s_args sg ++ kwonly_names sg).
Definition sig_wf (sg : sig) : Prop :=
  NoDup (s_args sg ++ kwonly_names sg) /\ List.length (s_defaults sg) <= List.length (s_args sg).
Definition no_req (l : list value) : Prop := Forall (fun v => is_req v = false) l.
Definition no_req_kw (l : pdict) : Prop := Forall (fun kv => is_req (snd kv) = false) l.
Definition keys_nodup (l : pdict) : Prop := NoDup (map fst l).
