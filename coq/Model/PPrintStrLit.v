(* The literal tree (Model/ParserSpec.v) of the text pformat_s writes (Model/PPrintStr.v): as lit_of (erase v), except
   that a str split by pprint is a run of adjacent string literals [LStrs], in parentheses [LParen] when it is the
   whole value.  [str_chunks] names the chunk list that pprint_str computes.  Definitions only. *)
From Coq Require Import List String ZArith NArith Bool Arith Ascii.
From GinV Require Import Lib.Out Lib.PyStr Model.Parser Model.ParserSpec Model.Repr Model.Lexer Model.ReprText Model.PPrint Model.StrLit Model.PPrintStr.
Import ListNotations.
Open Scope string_scope.
Open Scope list_scope.

Definition str_chunks (w : nat) (s : list N) (indent allowance : nat) (top : bool) : list (list N) :=
  let indent' := if top then S indent else indent in
  let allow := Z.of_nat (if top then S allowance else allowance) in
  let mw := (Z.of_nat w - Z.of_nat indent')%Z in
  chunk_lines (split_lines s []) mw mw allow.
Definition str_lit (w : nat) (s : list N) (indent allowance : nat) (top : bool) : lit :=
  match s with
  | [] => LStrs [str_tok s]
  | _ => match str_chunks w s indent allowance top with
         | [_] => LStrs [str_tok s]
         | cs => if top then LParen (LStrs (map str_tok cs)) else LStrs (map str_tok cs)
         end
  end.
Fixpoint pformat_s_lit_at (w : nat) (v : sv) {struct v} : nat -> nat -> bool -> lit :=
  fun indent allowance top =>
  if too_wide w (repr_string_s v) indent allowance then
    match v with
    | SAtom t => LBasic false t
    | SNeg t => LBasic true t
    | SRaw t => LStrs [t]
    | SStr s => str_lit w s indent allowance top
    | SList l =>
        LList ((fix items (l : list sv) : list lit :=
                  match l with
                  | [] => []
                  | x :: r =>
                      match r with
                      | [] => [pformat_s_lit_at w x (S indent) (S allowance) false]
                      | _ :: _ => pformat_s_lit_at w x (S indent) 1%nat false :: items r
                      end
                  end) l) false
    | STuple l =>
        let endlen := match l with [_] => 2%nat | _ => 1%nat end in
        LTuple ((fix items (l : list sv) : list lit :=
                   match l with
                   | [] => []
                   | x :: r =>
                       match r with
                       | [] => [pformat_s_lit_at w x (S indent) (allowance + endlen)%nat false]
                       | _ :: _ => pformat_s_lit_at w x (S indent) 1%nat false :: items r
                       end
                   end) l) (match l with [_] => true | _ => false end)
    | SDict l =>
        LDict ((fix items (l : list (sv * sv)) : list (lit * lit) :=
                  match l with
                  | [] => []
                  | (k, x) :: r =>
                      let col := (S indent + String.length (repr_string_s k) + 2)%nat in
                      match r with
                      | [] => [(lit_of (erase k), pformat_s_lit_at w x col (S allowance) false)]
                      | _ :: _ => (lit_of (erase k), pformat_s_lit_at w x col 1%nat false) :: items r
                      end
                  end) l) false
    end
  else lit_of (erase v).
Definition pformat_s_lit (w : nat) (v : sv) : lit := pformat_s_lit_at w v 0 0 true.

(* the text the parser hands to ast.literal_eval for a run of string literals given by their texts (code points) *)
Definition run_text (ts : list (list N)) : string :=
  strs_text (map (fun t => {| ty := STRING; text := str_of t; srow := 0; scol := 0; erow := 0; ecol := 0 |}) ts).
(* the oracle agrees with the decoder of Model/StrLit.v: whatever it answers for a run of string literal texts that
   decode (as a str) is the value [strv] of the decoded concatenation.  (About the entries the table HAS: a finite table
   satisfies it, and the correspondence script checks it entry by entry against ast.literal_eval.) *)
Definition oracle_agrees_with_decode (o : oracle) (strv : list N -> out) : Prop :=
  forall ts s x, decode_str_literals ts = Some s -> olookup o (run_text ts) = Some x -> x = Some (strv s).
