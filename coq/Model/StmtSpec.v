(* Specification side for C16 / C14: "parse everything, then apply a prefix" and
   "textual flattening of includes". *)
From Coq Require Import List String ZArith Bool Arith.
From GinV Require Import Lib.Out Lib.PyStr Model.SelectorMap Model.Parser Model.Stmt.
Import ListNotations.
Open Scope string_scope.
Open Scope list_scope.

(* the groups of statements the parser yields, one group per parse step, until EOF or the first parse error *)
Fixpoint parse_groups (fuel : nat) (o : oracle) (pending : bool) (ts : list token) : list (list stmt) * option perr :=
  match fuel with
  | O => ([], Some (EOther "OutOfFuel"))
  | S f =>
      match parse_statement o pending ts with
      | PErr e => ([], Some e)
      | POk None => ([], None)
      | POk (Some (stmts, ts', pending')) =>
          let '(gs, e) := parse_groups f o pending' ts' in (stmts :: gs, e)
      end
  end.

Definition perr_to_serr (fname : string) (e : perr) : serr :=
  match e with ESyntax l => SESyntax fname l | EOther c => SEOther c [] end.

(* apply groups one after the other with a FIXED include handler; stop at the first failure *)
Fixpoint consume (env : fenv) (sk : skip_unknown) (fname : string) (inc : inc_handler)
         (gs : list (list stmt)) (s : tstate) (imports : list string) (incl : list itree)
  : tstate * sres (list string * list itree) :=
  match gs with
  | [] => (s, SOk (imports, incl))
  | g :: rest =>
      match resolve_group s sk fname g with
      | SErr e => (s, SErr e)
      | SOk g' =>
          let '(s1, r) := apply_stmts env sk fname inc g' s imports incl in
          match r with
          | SErr e => (s1, SErr e)
          | SOk (im, ic) => consume env sk fname inc rest s1 im ic
          end
      end
  end.

Definition is_include (st : stmt) : bool := match st with SInclude _ _ => true | _ => false end.
Definition no_includes (gs : list (list stmt)) : Prop := Forall (fun g => forallb (fun st => negb (is_include st)) g = true) gs.

(* a handler that is never consulted *)
Definition no_inc : inc_handler := fun _ s => (s, SErr (SEOther "NoIncludes" [])).

(* one statement applied on its own: the state after, or the error *)
Definition apply_one (env : fenv) (sk : skip_unknown) (fname : string) (inc : inc_handler) (st : stmt) (s : tstate)
  : tstate * sres unit :=
  let '(s', r) := apply_stmts env sk fname inc [st] s [] [] in
  (s', match r with SErr e => SErr e | SOk _ => SOk tt end).
