(* Gin values, association lists with Python-dict update order, signatures and
   Python's own argument binding.  Definitions only. *)
From Coq Require Import List String ZArith Bool Arith.
From GinV Require Import Lib.Out Lib.PyStr.
Import ListNotations.
Open Scope string_scope.
Open Scope list_scope.

Inductive value : Type :=
| VNone
| VBool (b : bool)
| VInt (z : Z)
| VStr (s : string)
| VList (l : list value)
| VTuple (l : list value)
| VDict (l : list (value * value))
(* ConfigurableReference.  As an *input* (unresolved) sel is the selector as
   written; once stored, sel is the complete selector of the configurable the
   reference resolved to when it was created. *)
| VRef (scopes : list string) (sel : string) (ev : bool)
| VMacro (name : string)                 (* input only: %name, resolved at parse time *)
| VUnk (sel : string) (ev : bool)        (* _UnknownConfigurableReference *)
| VReq                                   (* the gin.REQUIRED object *)
| VRet (sel : string) (n : Z)            (* what the n-th probe call returned *)
| VHandle (scopes : list string) (sel : string)  (* a configurable (maybe scope-decorated) *)
| VObj (id : string).                    (* an opaque, non-literal Python object *)

Fixpoint value_out (v : value) : out :=
  match v with
  | VNone => ONone
  | VBool b => OB b
  | VInt z => OZ z
  | VStr s => OS s
  | VList l => OT "L" (map value_out l)
  | VTuple l => OT "T" (map value_out l)
  | VDict l => OT "D" (map (fun kv => OL [value_out (fst kv); value_out (snd kv)]) l)
  | VRef sc s e => OT "Ref" [OL (map OS sc); OS s; OB e]
  | VMacro n => OT "Macro" [OS n]
  | VUnk s e => OT "Unk" [OS s; OB e]
  | VReq => OT "REQUIRED" []
  | VRet s n => OT "Ret" [OS s; OZ n]
  | VHandle sc s => OT "H" [OS s]
  | VObj i => OT "Obj" [OS i]
  end.

Definition is_req (v : value) : bool := match v with VReq => true | _ => false end.

(* ---- Python's dict-key discipline on (evaluated) values ----
   [py_hashable]: hash(v) succeeds (lists and dicts, and tuples holding one, raise TypeError).
   [py_key_eqb a b]: a and b are the same dict key (hash(a) == hash(b) and a == b): None; bool and int compare as
   numbers (True == 1, False == 0); strings; tuples pointwise; the objects (gin.REQUIRED, a probe result, an opaque
   object, a configurable) by identity, which the model reads off the constructor arguments: a probe result is its
   (selector, call number), an opaque object its id, a configurable its selector.  A configurable decorated with a
   scope (@a/b/fn) is a fresh function per reference object in gin; the model has no reference identity and takes
   equal scopes and selector for the same function (exact for scopes = [] and for one reference reached twice
   through macros).  A ConfigurableReference (never the result of an evaluation) compares by config key and flag.
   Not covered: floats (the model has none), objects with their own __eq__ / __hash__. *)
Fixpoint py_hashable (v : value) : bool :=
  match v with
  | VList _ | VDict _ => false
  | VTuple l => forallb py_hashable l
  | _ => true
  end.
Definition bool_z (b : bool) : Z := if b then 1%Z else 0%Z.
Fixpoint py_key_eqb (a b : value) {struct a} : bool :=
  match a, b with
  | VNone, VNone => true
  | VBool x, VBool y => Z.eqb (bool_z x) (bool_z y)
  | VBool x, VInt y => Z.eqb (bool_z x) y
  | VInt x, VBool y => Z.eqb x (bool_z y)
  | VInt x, VInt y => Z.eqb x y
  | VStr x, VStr y => String.eqb x y
  | VTuple xs, VTuple ys =>
      (fix go (l1 l2 : list value) {struct l1} : bool :=
         match l1, l2 with
         | [], [] => true
         | x :: r1, y :: r2 => py_key_eqb x y && go r1 r2
         | _, _ => false
         end) xs ys
  | VReq, VReq => true
  | VRet s n, VRet s' n' => String.eqb s s' && Z.eqb n n'
  | VHandle sc s, VHandle sc' s' => key_eqb sc sc' && String.eqb s s'
  | VObj i, VObj j => String.eqb i j
  | VRef sc s e, VRef sc' s' e' => key_eqb sc sc' && String.eqb s s' && Bool.eqb e e'
  | _, _ => false
  end.
(* y[k] = x on an insertion-ordered dict: an equal key keeps its place (and the key object already there) and takes
   the new value *)
Fixpoint vdict_set (k x : value) (l : list (value * value)) : list (value * value) :=
  match l with
  | [] => [(k, x)]
  | (j, w) :: r => if py_key_eqb k j then (j, x) :: r else (j, w) :: vdict_set k x r
  end.
(* dict(items): y[k] = x per pair, in order; None = TypeError (a key that cannot be hashed) *)
Definition vdict_build (items : list (value * value)) : option (list (value * value)) :=
  if forallb (fun kv => py_hashable (fst kv)) items
  then Some (fold_left (fun y kv => vdict_set (fst kv) (snd kv) y) items [])
  else None.

(* ---- insertion-ordered association lists (Python dict) ---- *)
Section AL.
  Context {K V : Type}.
  Variable eqb : K -> K -> bool.
  Fixpoint aget (k : K) (l : list (K * V)) : option V :=
    match l with [] => None | (j, v) :: r => if eqb k j then Some v else aget k r end.
  Fixpoint aset (k : K) (v : V) (l : list (K * V)) : list (K * V) :=
    match l with
    | [] => [(k, v)]
    | (j, w) :: r => if eqb k j then (j, v) :: r else (j, w) :: aset k v r
    end.
  Fixpoint adel (k : K) (l : list (K * V)) : list (K * V) :=
    match l with [] => [] | (j, w) :: r => if eqb k j then r else (j, w) :: adel k r end.
  Definition amem (k : K) (l : list (K * V)) : bool :=
    match aget k l with Some _ => true | None => false end.
  (* d.update(e) *)
  Definition aupdate (d e : list (K * V)) : list (K * V) :=
    fold_left (fun acc kv => aset (fst kv) (snd kv) acc) e d.
End AL.

Definition sget {V} := @aget string V String.eqb.
Definition sset {V} := @aset string V String.eqb.
Definition sdel {V} := @adel string V String.eqb.
Definition smem {V} := @amem string V String.eqb.
Definition supdate {V} := @aupdate string V String.eqb.
Definition str_in (s : string) (l : list string) : bool := existsb (String.eqb s) l.

(* ---- signatures (inspect.getfullargspec) ---- *)
Record sig : Type := {
  s_args : list string;              (* positional-or-keyword names *)
  s_defaults : list value;           (* defaults of the LAST |s_defaults| names *)
  s_varargs : bool;
  s_kwonly : list (string * option value);
  s_varkw : bool }.

Definition kwonly_names (sg : sig) : list string := map fst (s_kwonly sg).
(* _might_have_parameter *)
Definition might_have_parameter (sg : sig) (a : string) : bool :=
  s_varkw sg || str_in a (s_args sg) || str_in a (kwonly_names sg).
(* _get_kwarg_defaults: dict(zip(args[-n:], defaults)).update(kwonlydefaults) *)
Definition kwarg_defaults (sg : sig) : list (string * value) :=
  let n := List.length (s_defaults sg) in
  let named := skipn (List.length (s_args sg) - n) (s_args sg) in
  supdate (fold_left (fun acc kv => sset (fst kv) (snd kv) acc) (combine named (s_defaults sg)) [])
          (flat_map (fun kd => match snd kd with Some d => [(fst kd, d)] | None => [] end) (s_kwonly sg)).
(* _get_all_positional_parameter_names *)
Definition all_positional_names (sg : sig) : list string :=
  firstn (List.length (s_args sg) - List.length (s_defaults sg)) (s_args sg).
(* _order_by_signature *)
Definition order_by_signature (sg : sig) (names : list string) : list string :=
  let all_args := s_args sg ++ kwonly_names sg in
  let ordered := filter (fun a => str_in a names) all_args in
  ordered ++ filter (fun a => negb (str_in a ordered)) names.

(* ---- Python's call binding of positional and keyword arguments against sg ----
   Some env on success: env lists (name, value) in signature order, then the
   pair named "*" with the surplus tuple if the signature has varargs, then the
   pair named "**" with the surplus keywords if it has varkw.  None = TypeError. *)
Fixpoint bind_pos (names : list string) (args : list value) : list (string * value) * list value :=
  match names, args with
  | n :: ns, a :: r => let '(b, extra) := bind_pos ns r in ((n, a) :: b, extra)
  | _, _ => ([], args)
  end.

Fixpoint bind_kw (sg : sig) (bound : list (string * value)) (extra : list (string * value))
         (kws : list (string * value)) : option (list (string * value) * list (string * value)) :=
  match kws with
  | [] => Some (bound, extra)
  | (k, v) :: r =>
      if str_in k (s_args sg) || str_in k (kwonly_names sg) then
        if smem k bound then None else bind_kw sg (bound ++ [(k, v)]) extra r
      else if s_varkw sg then bind_kw sg bound (extra ++ [(k, v)]) r
      else None
  end.

Fixpoint fill_defaults (names : list string) (dflt : list (string * value))
         (bound : list (string * value)) : option (list (string * value)) :=
  match names with
  | [] => Some []
  | n :: r =>
      match (match sget n bound with Some v => Some v | None => sget n dflt end) with
      | None => None
      | Some v => match fill_defaults r dflt bound with Some t => Some ((n, v) :: t) | None => None end
      end
  end.

Definition py_bind (sg : sig) (args : list value) (kwargs : list (string * value))
  : option (list (string * value)) :=
  let '(bpos, surplus) := bind_pos (s_args sg) args in
  if negb (s_varargs sg) && negb (match surplus with [] => true | _ => false end) then None else
  match bind_kw sg bpos [] kwargs with
  | None => None
  | Some (bound, extra) =>
      match fill_defaults (s_args sg ++ kwonly_names sg) (kwarg_defaults sg) bound with
      | None => None
      | Some env =>
          Some (env ++ (if s_varargs sg then [("*", VTuple surplus)] else [])
                    ++ (if s_varkw sg then [("**", VDict (map (fun kv => (VStr (fst kv), snd kv)) extra))] else []))
      end
  end.
