(* C07, continued: (A) the operative record gets a section for EXACTLY the (scope, configurable) pairs that were
   called; (B) replaying one call from what it recorded hands the function the same arguments.
   Axiom-free, stdlib only.  Builds on MacroOperProofs.v. *)
From Coq Require Import List String ZArith Bool Arith Lia.
From GinV Require Import Lib.Out Lib.PyStr Model.SelectorMap Model.Values Model.Gin Model.GinEngine Model.CallSpec
                         Proofs.CallLemmas Proofs.CallProofs Proofs.MachineFrame Proofs.MachineProofs
                         Proofs.MacroOperProofs.
Import ListNotations.
Open Scope string_scope.
Open Scope list_scope.

(* ================================================================== *)
(* reference-free values evaluate to themselves                        *)
(* ================================================================== *)
(* [ref_free_at n v]: v contains no reference / macro / unknown reference and nests containers less than n deep
   (n = the fuel with which v is evaluated) *)
Fixpoint ref_free_at (n : nat) (v : value) : bool :=
  match n with
  | O => false
  | S m =>
      match v with
      | VList l | VTuple l => forallb (ref_free_at m) l
      | VDict l => forallb (fun kv => ref_free_at m (fst kv) && ref_free_at m (snd kv)) l
      | VRef _ _ _ | VMacro _ | VUnk _ _ => false
      | _ => true
      end
  end.

(* the fuel-free reading: no reference anywhere, and the nesting depth *)
Fixpoint ref_free (v : value) : bool :=
  match v with
  | VList l | VTuple l => forallb ref_free l
  | VDict l => forallb (fun kv => ref_free (fst kv) && ref_free (snd kv)) l
  | VRef _ _ _ | VMacro _ | VUnk _ _ => false
  | _ => true
  end.
Fixpoint vdepth (v : value) : nat :=
  match v with
  | VList l | VTuple l => S (list_max (map vdepth l))
  | VDict l => S (list_max (map (fun kv => Nat.max (vdepth (fst kv)) (vdepth (snd kv))) l))
  | _ => 0
  end.

Lemma forallb_ext_in : forall {A} (f g : A -> bool) l, (forall x, In x l -> f x = g x) -> forallb f l = forallb g l.
Proof.
  intros A f g l. induction l as [|x t IH]; intros H; [reflexivity|].
  cbn [forallb]. rewrite (H x (or_introl eq_refl)), IH; [reflexivity|]. intros y Hy. apply H. right; exact Hy.
Qed.

Lemma forallb_impl_in : forall {A} (f g : A -> bool) l, (forall x, In x l -> f x = true -> g x = true) ->
  forallb f l = true -> forallb g l = true.
Proof.
  intros A f g l H Hf. rewrite forallb_forall in *. intros x Hx. apply H; [exact Hx|apply Hf; exact Hx].
Qed.

Lemma ref_free_at_mono : forall n v, ref_free_at n v = true -> ref_free_at (S n) v = true.
Proof.
  induction n as [|n IH]; intros v H; [discriminate|].
  destruct v; try exact H; try reflexivity.
  - cbn [ref_free_at] in H. change (forallb (ref_free_at (S n)) l = true).
    eapply forallb_impl_in; [|exact H]. intros x _. apply IH.
  - cbn [ref_free_at] in H. change (forallb (ref_free_at (S n)) l = true).
    eapply forallb_impl_in; [|exact H]. intros x _. apply IH.
  - cbn [ref_free_at] in H.
    change (forallb (fun kv => ref_free_at (S n) (fst kv) && ref_free_at (S n) (snd kv)) l = true).
    eapply forallb_impl_in; [|exact H]. intros [k x] _ Hk. cbn [fst snd] in *.
    apply andb_true_iff in Hk. destruct Hk as [H1 H2]. rewrite (IH _ H1), (IH _ H2). reflexivity.
Qed.

Lemma ref_free_at_le : forall n m v, n <= m -> ref_free_at n v = true -> ref_free_at m v = true.
Proof. intros n m v Hle. induction Hle as [|m Hle IH]; intros H; [exact H|]. apply ref_free_at_mono, IH, H. Qed.

Lemma list_max_lt : forall l n, 0 < n -> (list_max l < n <-> Forall (fun k => k < n) l).
Proof.
  intros l n Hn. induction l as [|a l IH].
  - simpl. split; [constructor|intros _; exact Hn].
  - change (list_max (a :: l)) with (Nat.max a (list_max l)). split.
    + intros H. constructor; [lia|]. apply IH. lia.
    + intros H. inversion H as [|x y Ha Hl]; subst. apply IH in Hl. lia.
Qed.

Theorem ref_free_at_of_ref_free : forall v n, ref_free v = true -> vdepth v < n -> ref_free_at n v = true.
Proof.
  intro v. induction v as [l IH|l IH|l IH|v Hv] using value_ind_nested; intros n Hr Hd.
  - destruct n as [|n]; [lia|]. cbn [ref_free_at]. cbn [ref_free] in Hr. cbn [vdepth] in Hd.
    assert (Hd' : list_max (map vdepth l) < n) by lia. assert (Hn : 0 < n) by lia. clear Hd.
    apply (list_max_lt _ _ Hn) in Hd'. rewrite Forall_map in Hd'.
    apply forallb_forall. intros x Hx. rewrite Forall_forall in IH, Hd'. rewrite forallb_forall in Hr.
    apply IH; auto.
  - destruct n as [|n]; [lia|]. cbn [ref_free_at]. cbn [ref_free] in Hr. cbn [vdepth] in Hd.
    assert (Hd' : list_max (map vdepth l) < n) by lia. assert (Hn : 0 < n) by lia. clear Hd.
    apply (list_max_lt _ _ Hn) in Hd'. rewrite Forall_map in Hd'.
    apply forallb_forall. intros x Hx. rewrite Forall_forall in IH, Hd'. rewrite forallb_forall in Hr.
    apply IH; auto.
  - destruct n as [|n]; [lia|]. cbn [ref_free_at]. cbn [ref_free] in Hr. cbn [vdepth] in Hd.
    assert (Hd' : list_max (map (fun kv => Nat.max (vdepth (fst kv)) (vdepth (snd kv))) l) < n) by lia.
    assert (Hn : 0 < n) by lia. clear Hd.
    apply (list_max_lt _ _ Hn) in Hd'. rewrite Forall_map in Hd'.
    apply forallb_forall. intros [k x] Hx. rewrite Forall_forall in IH, Hd'. rewrite forallb_forall in Hr.
    pose proof (IH _ Hx) as [I1 I2]. pose proof (Hd' _ Hx) as D. pose proof (Hr _ Hx) as R.
    cbn [fst snd] in *. apply andb_true_iff in R. destruct R as [R1 R2].
    rewrite (I1 n R1), (I2 n R2) by lia. reflexivity.
  - destruct n as [|n]; [lia|]. destruct v; try contradiction; try discriminate; reflexivity.
Qed.

(* ---- identity loops ---- *)
Lemma go_list_id : forall (ev : evaluator) s l, (forall x, In x l -> ev s x = (s, Ok x)) -> go_list ev s l = (s, Ok l).
Proof.
  intros ev s l. induction l as [|x t IH]; intros H; [reflexivity|].
  rewrite go_list_cons, (H x (or_introl eq_refl)), IH; [reflexivity|]. intros y Hy. apply H. right; exact Hy.
Qed.
(* Python's dict discipline on a value: in every dict the keys are hashable and no key equals an earlier one
   (what every dict OBJECT satisfies; the model's [VDict] is a list of items and does not enforce it) *)
Fixpoint keys_fresh (seen : list (value * value)) (l : list (value * value)) : bool :=
  match l with
  | [] => true
  | (k, x) :: t => py_hashable k && negb (existsb (fun jw => py_key_eqb k (fst jw)) seen) && keys_fresh (seen ++ [(k, x)]) t
  end.
Fixpoint py_dicts_ok (v : value) : bool :=
  match v with
  | VList l | VTuple l => forallb py_dicts_ok l
  | VDict l => forallb (fun kv => py_dicts_ok (fst kv) && py_dicts_ok (snd kv)) l && keys_fresh [] l
  | _ => true
  end.
Lemma vdict_set_fresh : forall k x y, existsb (fun jw => py_key_eqb k (fst jw)) y = false -> vdict_set k x y = y ++ [(k, x)].
Proof.
  intros k x y. induction y as [|[j w] y IH]; intros H; [reflexivity|].
  cbn [existsb fst] in H. apply orb_false_iff in H. destruct H as [H1 H2].
  cbn [vdict_set]. rewrite H1, (IH H2). reflexivity.
Qed.
Lemma go_dict_id : forall (ev : evaluator) s l y,
  (forall k x, In (k, x) l -> ev s k = (s, Ok k) /\ ev s x = (s, Ok x)) -> keys_fresh y l = true ->
  go_dict ev s l y = (s, Ok (y ++ l)).
Proof.
  intros ev s l. induction l as [|[k x] t IH]; intros y H Hf; [rewrite app_nil_r; reflexivity|].
  destruct (H k x (or_introl eq_refl)) as [H1 H2].
  cbn [keys_fresh] in Hf. apply andb_true_iff in Hf. destruct Hf as [Hf Hf3].
  apply andb_true_iff in Hf. destruct Hf as [Hf1 Hf2]. apply negb_true_iff in Hf2.
  rewrite go_dict_cons, H2, H1, Hf1, (vdict_set_fresh _ _ _ Hf2), IH; [|intros k' x' Hy; apply H; right; exact Hy|exact Hf3].
  rewrite <- app_assoc. reflexivity.
Qed.
Lemma go_kw_id : forall (ev : evaluator) s (l : pdict), (forall k x, In (k, x) l -> ev s x = (s, Ok x)) ->
  go_kw ev s l = (s, Ok l).
Proof.
  intros ev s l. induction l as [|[k x] t IH]; intros H; [reflexivity|].
  rewrite go_kw_cons, (H k x (or_introl eq_refl)), IH; [reflexivity|]. intros k' x' Hy. eapply H. right; exact Hy.
Qed.

Theorem eval_ref_free_at : forall n s v, ref_free_at n v = true -> py_dicts_ok v = true -> eval n s v = (s, Ok v).
Proof.
  induction n as [|n IH]; intros s v H Hd; [discriminate|].
  destruct v; try discriminate; try reflexivity.
  - cbn [ref_free_at] in H. rewrite forallb_forall in H. cbn [py_dicts_ok] in Hd. rewrite forallb_forall in Hd.
    rewrite eval_VList, go_list_id; [reflexivity|]. intros x Hx. apply IH; [apply H, Hx|apply Hd, Hx].
  - cbn [ref_free_at] in H. rewrite forallb_forall in H. cbn [py_dicts_ok] in Hd. rewrite forallb_forall in Hd.
    rewrite eval_VTuple, go_list_id; [reflexivity|]. intros x Hx. apply IH; [apply H, Hx|apply Hd, Hx].
  - cbn [ref_free_at] in H. rewrite forallb_forall in H. cbn [py_dicts_ok] in Hd.
    apply andb_true_iff in Hd. destruct Hd as [Hd Hf]. rewrite forallb_forall in Hd.
    rewrite eval_VDict, go_dict_id; [reflexivity| |exact Hf]. intros k x Hx. specialize (H _ Hx). specialize (Hd _ Hx).
    cbn [fst snd] in H, Hd.
    apply andb_true_iff in H. destruct H as [H1 H2]. apply andb_true_iff in Hd. destruct Hd as [D1 D2].
    split; apply IH; assumption.
Qed.

Corollary eval_ref_free : forall n s v, ref_free v = true -> py_dicts_ok v = true -> vdepth v < n -> eval n s v = (s, Ok v).
Proof. intros n s v Hr Hk Hd. apply eval_ref_free_at; [apply ref_free_at_of_ref_free; assumption|exact Hk]. Qed.

(* without the dict discipline: evaluating a reference-free value runs nothing, so the state is the same whatever
   comes out (equal keys merge; an unhashable key raises TypeError) *)
Lemma go_list_state : forall (ev : evaluator) s l, (forall x, In x l -> exists r, ev s x = (s, r)) ->
  exists r, go_list ev s l = (s, r).
Proof.
  intros ev s l. induction l as [|x t IH]; intros H; [eexists; reflexivity|].
  destruct (H x (or_introl eq_refl)) as [rx Ex]. rewrite go_list_cons, Ex.
  destruct rx as [x'|e]; [|eexists; reflexivity].
  destruct IH as [rt Et]; [intros y Hy; apply H; right; exact Hy|]. rewrite Et.
  destruct rt; eexists; reflexivity.
Qed.
Lemma go_dict_state : forall (ev : evaluator) s l y,
  (forall k x, In (k, x) l -> (exists r, ev s k = (s, r)) /\ (exists r, ev s x = (s, r))) ->
  exists r, go_dict ev s l y = (s, r).
Proof.
  intros ev s l. induction l as [|[k x] t IH]; intros y H; [eexists; reflexivity|].
  destruct (H k x (or_introl eq_refl)) as [[rk Ek] [rx Ex]]. rewrite go_dict_cons, Ex.
  destruct rx as [x'|e]; [|eexists; reflexivity]. rewrite Ek.
  destruct rk as [k'|e]; [|eexists; reflexivity].
  destruct (py_hashable k'); [|eexists; reflexivity].
  apply IH. intros k2 x2 Hy. apply H. right; exact Hy.
Qed.
Lemma go_kw_state : forall (ev : evaluator) s (l : pdict), (forall k x, In (k, x) l -> exists r, ev s x = (s, r)) ->
  exists r, go_kw ev s l = (s, r).
Proof.
  intros ev s l. induction l as [|[k x] t IH]; intros H; [eexists; reflexivity|].
  destruct (H k x (or_introl eq_refl)) as [rx Ex]. rewrite go_kw_cons, Ex.
  destruct rx as [x'|e]; [|eexists; reflexivity].
  destruct IH as [rt Et]; [intros k' y Hy; eapply H; right; exact Hy|]. rewrite Et.
  destruct rt; eexists; reflexivity.
Qed.
Theorem eval_ref_free_at_state : forall n s v, ref_free_at n v = true -> exists r, eval n s v = (s, r).
Proof.
  induction n as [|n IH]; intros s v H; [discriminate|].
  destruct v; try discriminate; try (eexists; reflexivity).
  - cbn [ref_free_at] in H. rewrite forallb_forall in H. rewrite eval_VList.
    destruct (go_list_state (eval n) s l) as [r E]; [intros x Hx; apply IH, H, Hx|]. rewrite E. eexists; reflexivity.
  - cbn [ref_free_at] in H. rewrite forallb_forall in H. rewrite eval_VTuple.
    destruct (go_list_state (eval n) s l) as [r E]; [intros x Hx; apply IH, H, Hx|]. rewrite E. eexists; reflexivity.
  - cbn [ref_free_at] in H. rewrite forallb_forall in H. rewrite eval_VDict.
    destruct (go_dict_state (eval n) s l []) as [r E]; [|rewrite E; eexists; reflexivity].
    intros k x Hx. specialize (H _ Hx). cbn [fst snd] in H. apply andb_true_iff in H. destruct H as [H1 H2].
    split; apply IH; assumption.
Qed.

(* ================================================================== *)
(* (A1) a call whose applicable bindings hold no reference writes       *)
(*      exactly one section                                             *)
(* ================================================================== *)
Lemma call_ref_free_unfold : forall f s sel args kwargs c, lookup_sel s sel = Some c ->
  existsb is_req (skipn (List.length (supplied_positional_names (c_sig c) args)) args) = false ->
  (forall k v, In (k, v) (prep_bindings (config s) (current_scope s) c args kwargs) ->
               ref_free_at f v = true /\ py_dicts_ok v = true) ->
  call (S f) s sel args kwargs =
  call_tail f c sel (scope_str (current_scope s)) args kwargs
    (oper_update s (scope_str (current_scope s), sel)
       (prep_operative c args kwargs (prep_bindings (config s) (current_scope s) c args kwargs)))
    (Ok (prep_bindings (config s) (current_scope s) c args kwargs)).
Proof.
  intros f s sel args kwargs c Hl Hreq Hrf. rewrite call_S, Hl, Hreq. cbv zeta.
  rewrite go_kw_id; [reflexivity|]. intros k x Hx. apply eval_ref_free_at; eapply Hrf; exact Hx.
Qed.
(* the same without the dict discipline: the wrapper's tail runs in the state right after the record was written *)
Lemma call_ref_free_state : forall f s sel args kwargs c, lookup_sel s sel = Some c ->
  existsb is_req (skipn (List.length (supplied_positional_names (c_sig c) args)) args) = false ->
  (forall k v, In (k, v) (prep_bindings (config s) (current_scope s) c args kwargs) -> ref_free_at f v = true) ->
  exists rk,
  call (S f) s sel args kwargs =
  call_tail f c sel (scope_str (current_scope s)) args kwargs
    (oper_update s (scope_str (current_scope s), sel)
       (prep_operative c args kwargs (prep_bindings (config s) (current_scope s) c args kwargs))) rk.
Proof.
  intros f s sel args kwargs c Hl Hreq Hrf. rewrite call_S, Hl, Hreq. cbv zeta.
  match goal with |- context [go_kw ?ev ?s0 ?l] => destruct (go_kw_state ev s0 l) as [rk E] end.
  - intros k x Hx. apply eval_ref_free_at_state. eapply Hrf; exact Hx.
  - rewrite E. exists rk. reflexivity.
Qed.

Theorem C07_call_operative_exact : forall f s sel args kwargs s' r c, lookup_sel s sel = Some c ->
  c_kind c <> KSingleton ->
  existsb is_req (skipn (List.length (supplied_positional_names (c_sig c) args)) args) = false ->
  (forall k v, In (k, v) (prep_bindings (config s) (current_scope s) c args kwargs) -> ref_free_at f v = true) ->
  call (S f) s sel args kwargs = (s', r) ->
  operative s' = operative (oper_update s (scope_str (current_scope s), sel)
                   (prep_operative c args kwargs (prep_bindings (config s) (current_scope s) c args kwargs))).
Proof.
  intros f s sel args kwargs s' r c Hl Hk Hreq Hrf H.
  destruct (call_ref_free_state f s sel args kwargs c Hl Hreq Hrf) as [rk E]. rewrite E in H. unfold call_tail in H.
  destruct rk as [nk|e0]; [|inversion H; reflexivity].
  destruct (merge_call c args kwargs _) as [[new_args final_kwargs]|e]; [|inversion H; reflexivity].
  destruct (py_bind (c_sig c) new_args final_kwargs) as [env|]; [|inversion H; reflexivity].
  destruct (c_kind c); try contradiction.
  - inversion H; reflexivity.
  - inversion H; reflexivity.
  - destruct (fget _ _); inversion H; reflexivity.
Qed.

(* the section written, explicitly *)
Corollary C07_call_operative_exact_section : forall f s sel args kwargs s' r c k, lookup_sel s sel = Some c ->
  c_kind c <> KSingleton ->
  existsb is_req (skipn (List.length (supplied_positional_names (c_sig c) args)) args) = false ->
  (forall k v, In (k, v) (prep_bindings (config s) (current_scope s) c args kwargs) -> ref_free_at f v = true) ->
  call (S f) s sel args kwargs = (s', r) ->
  cget k (operative s') =
  if ckey_eqb k (scope_str (current_scope s), sel)
  then Some (supdate (match cget (scope_str (current_scope s), sel) (operative s) with Some d => d | None => [] end)
                     (prep_operative c args kwargs (prep_bindings (config s) (current_scope s) c args kwargs)))
  else cget k (operative s).
Proof.
  intros f s sel args kwargs s' r c k Hl Hk Hreq Hrf H.
  rewrite (C07_call_operative_exact f s sel args kwargs s' r c Hl Hk Hreq Hrf H).
  destruct (ckey_eqb_spec k (scope_str (current_scope s), sel)) as [->|N].
  - apply C07_oper_update_get.
  - apply C07_oper_update_other. destruct (ckey_eqb_spec k (scope_str (current_scope s), sel)); [contradiction|reflexivity].
Qed.

(* ================================================================== *)
(* (A2) sections change only for the calls that were ENTERED            *)
(* ================================================================== *)
(* The chronological list of the (scope, selector) pairs of the wrapper invocations that got past the wrapper's
   entry checks (configurable known, no stray REQUIRED) during an evaluation: computed alongside the original
   functions (the states come from the original eval / go_kw / call_handle, nothing is re-implemented). *)
Definition keyer := state -> value -> list ckey.

Definition keys_list (ev : evaluator) (evk : keyer) :=
  fix go (s : state) (l : list value) : list ckey :=
    match l with
    | [] => []
    | x :: t => evk s x ++ (let '(s1, rx) := ev s x in match rx with Ok _ => go s1 t | Raise _ => [] end)
    end.
(* one dict item: the value is evaluated before the key (y[deepcopy(key)] = deepcopy(value)); the loop stops at a
   key that cannot be hashed *)
Definition keys_dict (ev : evaluator) (evk : keyer) :=
  fix go (s : state) (l : list (value * value)) : list ckey :=
    match l with
    | [] => []
    | (k, x) :: t =>
        evk s x ++ (let '(s0, rx) := ev s x in
                    match rx with
                    | Raise _ => []
                    | Ok _ => evk s0 k ++ (let '(s1, rk) := ev s0 k in
                                           match rk with
                                           | Ok k' => if py_hashable k' then go s1 t else []
                                           | Raise _ => []
                                           end)
                    end)
    end.
Definition keys_kw (ev : evaluator) (evk : keyer) :=
  fix go (s : state) (l : pdict) : list ckey :=
    match l with
    | [] => []
    | (_, x) :: t => evk s x ++ (let '(s1, rx) := ev s x in match rx with Ok _ => go s1 t | Raise _ => [] end)
    end.
Definition keys_tail (chk : state -> list string -> string -> list ckey)
           (c : cfgable) (sstr : string) (args : list value) (kwargs : pdict) (s : state) (rk : res pdict) : list ckey :=
  match rk with
  | Raise _ => []
  | Ok nk =>
      match merge_call c args kwargs nk with
      | Raise _ => []
      | Ok (new_args, final_kwargs) =>
          match py_bind (c_sig c) new_args final_kwargs with
          | None => []
          | Some env =>
              match c_kind c with
              | KSingleton =>
                  match sget sstr (singletons s) with
                  | Some _ => []
                  | None => match sget "constructor" env with
                            | Some (VHandle hsc hsel) => chk s hsc hsel
                            | _ => []
                            end
                  end
              | _ => []
              end
          end
      end
  end.

Fixpoint eval_keys (fuel : nat) (s : state) (v : value) {struct fuel} : list ckey :=
  match fuel with
  | O => []
  | S f =>
      match v with
      | VList l | VTuple l => keys_list (eval f) (eval_keys f) s l
      | VDict l => keys_dict (eval f) (eval_keys f) s l
      | VRef sc sel true => ch_keys f s sc sel [] []
      | _ => []
      end
  end
with ch_keys (fuel : nat) (s : state) (sc : list string) (sel : string) (args : list value) (kwargs : pdict)
             {struct fuel} : list ckey :=
  match fuel with
  | O => []
  | S f =>
      match sc with
      | [] => call_keys f s sel args kwargs
      | _ => if negb (scope_valid sc) then [] else call_keys f (set_scopes (sc :: scopes s) s) sel args kwargs
      end
  end
with call_keys (fuel : nat) (s : state) (sel : string) (args : list value) (kwargs : pdict)
               {struct fuel} : list ckey :=
  match fuel with
  | O => []
  | S f =>
      match lookup_sel s sel with
      | None => []
      | Some c =>
          if existsb is_req (skipn (List.length (supplied_positional_names (c_sig c) args)) args) then [] else
          let nk := prep_bindings (config s) (current_scope s) c args kwargs in
          let s0 := oper_update s (scope_str (current_scope s), sel) (prep_operative c args kwargs nk) in
          (scope_str (current_scope s), sel) ::
            keys_kw (eval f) (eval_keys f) s0 nk ++
            (let '(s1, rk) := go_kw (eval f) s0 nk in
             keys_tail (fun st hsc hsel => ch_keys f st hsc hsel [] []) c (scope_str (current_scope s)) args kwargs s1 rk)
      end
  end.

(* ---- unfolding equations ---- *)
Lemma keys_list_cons : forall ev evk s x t, keys_list ev evk s (x :: t) =
  evk s x ++ (let '(s1, rx) := ev s x in match rx with Ok _ => keys_list ev evk s1 t | Raise _ => [] end).
Proof. reflexivity. Qed.
Lemma keys_dict_cons : forall ev evk s k x t, keys_dict ev evk s ((k, x) :: t) =
  evk s x ++ (let '(s0, rx) := ev s x in
              match rx with
              | Raise _ => []
              | Ok _ => evk s0 k ++ (let '(s1, rk) := ev s0 k in
                                     match rk with
                                     | Ok k' => if py_hashable k' then keys_dict ev evk s1 t else []
                                     | Raise _ => []
                                     end)
              end).
Proof. reflexivity. Qed.
Lemma keys_kw_cons : forall ev evk s k x t, keys_kw ev evk s ((k, x) :: t) =
  evk s x ++ (let '(s1, rx) := ev s x in match rx with Ok _ => keys_kw ev evk s1 t | Raise _ => [] end).
Proof. reflexivity. Qed.
Lemma eval_keys_0 : forall s v, eval_keys 0 s v = [].
Proof. reflexivity. Qed.
Lemma ch_keys_0 : forall s sc sel a k, ch_keys 0 s sc sel a k = [].
Proof. reflexivity. Qed.
Lemma call_keys_0 : forall s sel a k, call_keys 0 s sel a k = [].
Proof. reflexivity. Qed.
Lemma eval_keys_VList : forall f s l, eval_keys (S f) s (VList l) = keys_list (eval f) (eval_keys f) s l.
Proof. reflexivity. Qed.
Lemma eval_keys_VTuple : forall f s l, eval_keys (S f) s (VTuple l) = keys_list (eval f) (eval_keys f) s l.
Proof. reflexivity. Qed.
Lemma eval_keys_VDict : forall f s l, eval_keys (S f) s (VDict l) = keys_dict (eval f) (eval_keys f) s l.
Proof. reflexivity. Qed.
Lemma eval_keys_VRef_true : forall f s sc sel, eval_keys (S f) s (VRef sc sel true) = ch_keys f s sc sel [] [].
Proof. reflexivity. Qed.
Lemma ch_keys_S : forall f s sc sel args kwargs, ch_keys (S f) s sc sel args kwargs =
  match sc with
  | [] => call_keys f s sel args kwargs
  | _ => if negb (scope_valid sc) then [] else call_keys f (set_scopes (sc :: scopes s) s) sel args kwargs
  end.
Proof. reflexivity. Qed.
Lemma call_keys_S : forall f s sel args kwargs, call_keys (S f) s sel args kwargs =
  match lookup_sel s sel with
  | None => []
  | Some c =>
      if existsb is_req (skipn (List.length (supplied_positional_names (c_sig c) args)) args) then [] else
      let nk := prep_bindings (config s) (current_scope s) c args kwargs in
      let s0 := oper_update s (scope_str (current_scope s), sel) (prep_operative c args kwargs nk) in
      (scope_str (current_scope s), sel) ::
        keys_kw (eval f) (eval_keys f) s0 nk ++
        (let '(s1, rk) := go_kw (eval f) s0 nk in
         keys_tail (fun st hsc hsel => ch_keys f st hsc hsel [] []) c (scope_str (current_scope s)) args kwargs s1 rk)
  end.
Proof. reflexivity. Qed.

(* ---- the invariant ---- *)
Definition tracks (s s' : state) (ks : list ckey) : Prop :=
  (forall k, ~ In k ks -> cget k (operative s') = cget k (operative s)) /\
  (forall k, In k ks -> cget k (operative s') <> None) /\
  oper_mono s s'.

Lemma tracks_same : forall s s', operative s' = operative s -> tracks s s' [].
Proof.
  intros s s' H. split; [|split].
  - intros k _. rewrite H. reflexivity.
  - intros k [].
  - intros k Hk. rewrite H. exact Hk.
Qed.
Lemma tracks_refl : forall s, tracks s s [].
Proof. intro s. apply tracks_same. reflexivity. Qed.
Lemma tracks_trans : forall s1 s2 s3 a b, tracks s1 s2 a -> tracks s2 s3 b -> tracks s1 s3 (a ++ b).
Proof.
  intros s1 s2 s3 a b (A1 & A2 & A3) (B1 & B2 & B3). split; [|split].
  - intros k Hk. rewrite B1, A1; [reflexivity| |]; intro Hin; apply Hk; apply in_or_app; [left|right]; exact Hin.
  - intros k Hk. apply in_app_or in Hk. destruct Hk as [Hk|Hk]; [apply B3, A2, Hk|apply B2, Hk].
  - eapply om_trans; eassumption.
Qed.
Lemma tracks_pre : forall s s1 s2 ks, operative s1 = operative s -> tracks s1 s2 ks -> tracks s s2 ks.
Proof. intros s s1 s2 ks H T. apply (tracks_trans s s1 s2 [] ks); [apply tracks_same; exact H|exact T]. Qed.
Lemma tracks_post : forall s s2 s3 ks, tracks s s2 ks -> operative s3 = operative s2 -> tracks s s3 ks.
Proof.
  intros s s2 s3 ks T H. rewrite <- (app_nil_r ks). apply (tracks_trans s s2 s3 ks []); [exact T|apply tracks_same; exact H].
Qed.
Lemma tracks_oper_update : forall s k v, tracks s (oper_update s k v) [k].
Proof.
  intros s k v. split; [|split].
  - intros k' Hk. apply C07_oper_update_other. destruct (ckey_eqb_spec k' k) as [->|N]; [|reflexivity].
    exfalso. apply Hk. left; reflexivity.
  - intros k' [<-|[]]. rewrite C07_oper_update_get. discriminate.
  - apply om_oper_update.
Qed.

Definition ev_tracks (ev : evaluator) (evk : keyer) : Prop :=
  forall s v s' r, ev s v = (s', r) -> tracks s s' (evk s v).

Lemma keys_list_tracks : forall ev evk, ev_tracks ev evk ->
  forall l s s' r, go_list ev s l = (s', r) -> tracks s s' (keys_list ev evk s l).
Proof.
  intros ev evk Hev l. induction l as [|x t IH]; intros s s' r H.
  - simpl in H. inversion H; subst. apply tracks_refl.
  - rewrite go_list_cons in H. rewrite keys_list_cons.
    destruct (ev s x) as [s1 rx] eqn:E1. pose proof (Hev _ _ _ _ E1) as F1.
    destruct rx as [x'|e]; [|inversion H; subst; rewrite app_nil_r; exact F1].
    destruct (go_list ev s1 t) as [s2 rt] eqn:E2.
    pose proof (IH _ _ _ E2) as F2.
    destruct rt; inversion H; subst; eapply tracks_trans; eassumption.
Qed.

Lemma keys_dict_tracks : forall ev evk, ev_tracks ev evk ->
  forall l s y s' r, go_dict ev s l y = (s', r) -> tracks s s' (keys_dict ev evk s l).
Proof.
  intros ev evk Hev l. induction l as [|[k x] t IH]; intros s y s' r H.
  - simpl in H. inversion H; subst. apply tracks_refl.
  - rewrite go_dict_cons in H. rewrite keys_dict_cons.
    destruct (ev s x) as [s0 rx] eqn:E0. pose proof (Hev _ _ _ _ E0) as F0.
    destruct rx as [x'|e]; [|inversion H; subst; rewrite app_nil_r; exact F0].
    destruct (ev s0 k) as [s1 rk] eqn:E1. pose proof (Hev _ _ _ _ E1) as F1.
    destruct rk as [k'|e]; [|inversion H; subst; rewrite app_nil_r; eapply tracks_trans; eassumption].
    destruct (py_hashable k'); [|inversion H; subst; rewrite app_nil_r; eapply tracks_trans; eassumption].
    pose proof (IH _ _ _ _ H) as F2.
    eapply tracks_trans; [exact F0|]. eapply tracks_trans; eassumption.
Qed.

Lemma keys_kw_tracks : forall ev evk, ev_tracks ev evk ->
  forall l s s' r, go_kw ev s l = (s', r) -> tracks s s' (keys_kw ev evk s l).
Proof.
  intros ev evk Hev l. induction l as [|[k x] t IH]; intros s s' r H.
  - simpl in H. inversion H; subst. apply tracks_refl.
  - rewrite go_kw_cons in H. rewrite keys_kw_cons.
    destruct (ev s x) as [s1 rx] eqn:E1. pose proof (Hev _ _ _ _ E1) as F1.
    destruct rx as [x'|e]; [|inversion H; subst; rewrite app_nil_r; exact F1].
    destruct (go_kw ev s1 t) as [s2 rt] eqn:E2.
    pose proof (IH _ _ _ E2) as F2.
    destruct rt; inversion H; subst; eapply tracks_trans; eassumption.
Qed.

Definition ch_tracks (f : nat) : Prop :=
  forall s sc sel args kw s' r, call_handle f s sc sel args kw = (s', r) -> tracks s s' (ch_keys f s sc sel args kw).
Definition call_tracks (f : nat) : Prop :=
  forall s sel args kw s' r, call f s sel args kw = (s', r) -> tracks s s' (call_keys f s sel args kw).

Lemma keys_tail_tracks : forall f c sel sstr args kwargs s rk s' r, ch_tracks f ->
  call_tail f c sel sstr args kwargs s rk = (s', r) ->
  tracks s s' (keys_tail (fun st hsc hsel => ch_keys f st hsc hsel [] []) c sstr args kwargs s rk).
Proof.
  intros f c sel sstr args kwargs s rk s' r Hch H. unfold call_tail in H. unfold keys_tail.
  destruct rk as [nk|e]; [|inversion H; subst; apply tracks_refl].
  destruct (merge_call c args kwargs nk) as [[new_args final_kwargs]|e]; [|inversion H; subst; apply tracks_refl].
  destruct (py_bind (c_sig c) new_args final_kwargs) as [env|]; [|inversion H; subst; apply tracks_refl].
  destruct (c_kind c).
  - inversion H; subst. apply tracks_same. reflexivity.
  - inversion H; subst. apply tracks_refl.
  - destruct (fget (to_key sstr) (sm_flat (constants s))); inversion H; subst; apply tracks_refl.
  - destruct (sget sstr (singletons s)); [inversion H; subst; apply tracks_refl|].
    destruct (sget "constructor" env) as [x|]; [|inversion H; subst; apply tracks_refl].
    destruct x; try (inversion H; subst; apply tracks_refl).
    destruct (call_handle f s scopes sel0 [] []) as [s1 r1] eqn:E.
    pose proof (Hch _ _ _ _ _ _ _ E) as F.
    destruct r1; inversion H; subst; [|exact F].
    eapply tracks_post; [exact F|reflexivity].
Qed.

Lemma tracks_all : forall fuel, ev_tracks (eval fuel) (eval_keys fuel) /\ ch_tracks fuel /\ call_tracks fuel.
Proof.
  induction fuel as [|f [IHe [IHh IHc]]].
  - split; [|split].
    + intros s v s' r H. rewrite eval_0 in H. inversion H; subst. apply tracks_refl.
    + intros s sc sel a k s' r H. rewrite call_handle_0 in H. inversion H; subst. apply tracks_refl.
    + intros s sel a k s' r H. rewrite call_0 in H. inversion H; subst. apply tracks_refl.
  - split; [|split].
    + intros s v s' r H. destruct v; try (simpl in H; inversion H; subst; apply tracks_refl).
      * rewrite eval_VList in H. rewrite eval_keys_VList. destruct (go_list (eval f) s l) as [s1 r1] eqn:E.
        inversion H; subst. eapply keys_list_tracks; eassumption.
      * rewrite eval_VTuple in H. rewrite eval_keys_VTuple. destruct (go_list (eval f) s l) as [s1 r1] eqn:E.
        inversion H; subst. eapply keys_list_tracks; eassumption.
      * rewrite eval_VDict in H. rewrite eval_keys_VDict. destruct (go_dict (eval f) s l []) as [s1 r1] eqn:E.
        inversion H; subst. eapply keys_dict_tracks; eassumption.
      * destruct ev.
        -- rewrite eval_VRef_true in H. rewrite eval_keys_VRef_true. eapply IHh; eassumption.
        -- rewrite eval_VRef_false in H. inversion H; subst. apply tracks_refl.
    + intros s sc sel args kw s' r H. rewrite call_handle_S in H. rewrite ch_keys_S.
      destruct sc as [|x sc]; [eapply IHc; eassumption|].
      cbv zeta in H. destruct (negb (scope_valid (x :: sc))).
      * inversion H; subst. apply tracks_same. reflexivity.
      * destruct (call f (set_scopes ((x :: sc) :: scopes s) s) sel args kw) as [s2 r2] eqn:E.
        apply IHc in E. inversion H; subst. clear H.
        eapply tracks_post; [eapply tracks_pre; [|exact E]; reflexivity|reflexivity].
    + intros s sel args kw s' r H. rewrite call_S in H. rewrite call_keys_S.
      destruct (lookup_sel s sel) as [c|]; [|inversion H; subst; apply tracks_refl].
      destruct (existsb is_req _); [inversion H; subst; apply tracks_refl|].
      cbv zeta in H. cbv zeta.
      match type of H with (let '(_, _) := ?X in _) = _ => destruct X as [s1 rk] eqn:E end.
      apply (keys_kw_tracks _ _ IHe) in E. apply keys_tail_tracks in H; [|exact IHh].
      refine (tracks_trans s _ s' [(scope_str (current_scope s), sel)] _ (tracks_oper_update _ _ _) _).
      eapply tracks_trans; eassumption.
Qed.

Lemma ckey_eq_dec : forall a b : ckey, {a = b} + {a <> b}.
Proof. intros a b. destruct (ckey_eqb_spec a b); [left|right]; assumption. Qed.

(* a section whose content differs after the call belongs to a call that was entered *)
Theorem C07_changed_section_was_entered : forall fuel s sel args kw s' r k, call fuel s sel args kw = (s', r) ->
  cget k (operative s') <> cget k (operative s) -> In k (call_keys fuel s sel args kw).
Proof.
  intros fuel s sel args kw s' r k H Hne.
  destruct (in_dec ckey_eq_dec k (call_keys fuel s sel args kw)) as [Hin|Hnin]; [exact Hin|].
  exfalso. apply Hne. exact (proj1 (proj2 (proj2 (tracks_all fuel)) _ _ _ _ _ _ H) k Hnin).
Qed.
(* equivalently: the sections of pairs that were not entered are untouched *)
Theorem C07_unentered_section_untouched : forall fuel s sel args kw s' r k, call fuel s sel args kw = (s', r) ->
  ~ In k (call_keys fuel s sel args kw) -> cget k (operative s') = cget k (operative s).
Proof. intros fuel s sel args kw s' r k H. exact (proj1 (proj2 (proj2 (tracks_all fuel)) _ _ _ _ _ _ H) k). Qed.
(* conversely every entered call has a section afterwards *)
Theorem C07_entered_section_exists : forall fuel s sel args kw s' r k, call fuel s sel args kw = (s', r) ->
  In k (call_keys fuel s sel args kw) -> cget k (operative s') <> None.
Proof. intros fuel s sel args kw s' r k H. exact (proj1 (proj2 (proj2 (proj2 (tracks_all fuel)) _ _ _ _ _ _ H)) k). Qed.

(* the same for eval (copy.deepcopy of a value holding references) and for scoped handles *)
Theorem C07_changed_section_was_entered_eval : forall fuel s v s' r k, eval fuel s v = (s', r) ->
  cget k (operative s') <> cget k (operative s) -> In k (eval_keys fuel s v).
Proof.
  intros fuel s v s' r k H Hne.
  destruct (in_dec ckey_eq_dec k (eval_keys fuel s v)) as [Hin|Hnin]; [exact Hin|].
  exfalso. apply Hne. exact (proj1 (proj1 (tracks_all fuel) _ _ _ _ H) k Hnin).
Qed.
Theorem C07_entered_section_exists_eval : forall fuel s v s' r k, eval fuel s v = (s', r) ->
  In k (eval_keys fuel s v) -> cget k (operative s') <> None.
Proof. intros fuel s v s' r k H. exact (proj1 (proj2 (proj1 (tracks_all fuel) _ _ _ _ H)) k). Qed.
Theorem C07_changed_section_was_entered_handle : forall fuel s sc sel args kw s' r k,
  call_handle fuel s sc sel args kw = (s', r) ->
  cget k (operative s') <> cget k (operative s) -> In k (ch_keys fuel s sc sel args kw).
Proof.
  intros fuel s sc sel args kw s' r k H Hne.
  destruct (in_dec ckey_eq_dec k (ch_keys fuel s sc sel args kw)) as [Hin|Hnin]; [exact Hin|].
  exfalso. apply Hne. exact (proj1 (proj1 (proj2 (tracks_all fuel)) _ _ _ _ _ _ _ H) k Hnin).
Qed.
Theorem C07_entered_section_exists_handle : forall fuel s sc sel args kw s' r k,
  call_handle fuel s sc sel args kw = (s', r) ->
  In k (ch_keys fuel s sc sel args kw) -> cget k (operative s') <> None.
Proof. intros fuel s sc sel args kw s' r k H. exact (proj1 (proj2 (proj1 (proj2 (tracks_all fuel)) _ _ _ _ _ _ _ H)) k). Qed.

(* what "entered" means at the outermost level: the call itself is the first entry, exactly when the wrapper
   gets past its entry checks *)
Theorem call_keys_head : forall f s sel args kw c, lookup_sel s sel = Some c ->
  existsb is_req (skipn (List.length (supplied_positional_names (c_sig c) args)) args) = false ->
  exists rest, call_keys (S f) s sel args kw = (scope_str (current_scope s), sel) :: rest.
Proof. intros f s sel args kw c Hl Hr. rewrite call_keys_S, Hl, Hr. eexists. reflexivity. Qed.
Theorem call_keys_rejected : forall f s sel args kw,
  (lookup_sel s sel = None \/
   exists c, lookup_sel s sel = Some c /\
             existsb is_req (skipn (List.length (supplied_positional_names (c_sig c) args)) args) = true) ->
  call_keys (S f) s sel args kw = [].
Proof.
  intros f s sel args kw [H|[c [Hl Hr]]]; rewrite call_keys_S.
  - rewrite H. reflexivity.
  - rewrite Hl, Hr. reflexivity.
Qed.
(* with reference-free bindings and a non-singleton configurable nothing else is entered *)
Lemma keys_list_nil : forall (ev : evaluator) (evk : keyer) s l,
  (forall x, In x l -> (exists r, ev s x = (s, r)) /\ evk s x = []) -> keys_list ev evk s l = [].
Proof.
  intros ev evk s l. induction l as [|x t IH]; intros H; [reflexivity|].
  destruct (H x (or_introl eq_refl)) as [[r1 H1] H2]. rewrite keys_list_cons, H1, H2. simpl.
  destruct r1; [|reflexivity]. apply IH. intros y Hy. apply H. right; exact Hy.
Qed.
Lemma keys_dict_nil : forall (ev : evaluator) (evk : keyer) s l,
  (forall k x, In (k, x) l -> ((exists r, ev s k = (s, r)) /\ evk s k = []) /\ ((exists r, ev s x = (s, r)) /\ evk s x = [])) ->
  keys_dict ev evk s l = [].
Proof.
  intros ev evk s l. induction l as [|[k x] t IH]; intros H; [reflexivity|].
  destruct (H k x (or_introl eq_refl)) as [[[r1 H1] H2] [[r3 H3] H4]]. rewrite keys_dict_cons, H3, H4. simpl.
  destruct r3; [|reflexivity]. rewrite H1, H2. simpl. destruct r1 as [k'|]; [|reflexivity].
  destruct (py_hashable k'); [|reflexivity].
  apply IH. intros k2 y Hy. apply H. right; exact Hy.
Qed.
Lemma keys_kw_nil : forall (ev : evaluator) (evk : keyer) s (l : pdict),
  (forall k x, In (k, x) l -> (exists r, ev s x = (s, r)) /\ evk s x = []) -> keys_kw ev evk s l = [].
Proof.
  intros ev evk s l. induction l as [|[k x] t IH]; intros H; [reflexivity|].
  destruct (H k x (or_introl eq_refl)) as [[r1 H1] H2]. rewrite keys_kw_cons, H1, H2. simpl.
  destruct r1; [|reflexivity]. apply IH. intros k' y Hy. eapply H. right; exact Hy.
Qed.

Lemma eval_keys_ref_free_at : forall n s v, ref_free_at n v = true -> eval_keys n s v = [].
Proof.
  induction n as [|n IH]; intros s v H; [discriminate|].
  destruct v; try discriminate; try reflexivity.
  - cbn [ref_free_at] in H. rewrite forallb_forall in H. rewrite eval_keys_VList. apply keys_list_nil.
    intros x Hx. split; [apply eval_ref_free_at_state|apply IH]; apply H, Hx.
  - cbn [ref_free_at] in H. rewrite forallb_forall in H. rewrite eval_keys_VTuple. apply keys_list_nil.
    intros x Hx. split; [apply eval_ref_free_at_state|apply IH]; apply H, Hx.
  - cbn [ref_free_at] in H. rewrite forallb_forall in H. rewrite eval_keys_VDict. apply keys_dict_nil.
    intros k x Hx. specialize (H _ Hx). cbn [fst snd] in H. apply andb_true_iff in H. destruct H as [H1 H2].
    split; (split; [apply eval_ref_free_at_state|apply IH]; assumption).
Qed.

Theorem call_keys_ref_free : forall f s sel args kwargs c, lookup_sel s sel = Some c -> c_kind c <> KSingleton ->
  existsb is_req (skipn (List.length (supplied_positional_names (c_sig c) args)) args) = false ->
  (forall k v, In (k, v) (prep_bindings (config s) (current_scope s) c args kwargs) -> ref_free_at f v = true) ->
  call_keys (S f) s sel args kwargs = [(scope_str (current_scope s), sel)].
Proof.
  intros f s sel args kwargs c Hl Hk Hreq Hrf. rewrite call_keys_S, Hl, Hreq. cbv zeta.
  rewrite keys_kw_nil by (intros k x Hx; split; [apply eval_ref_free_at_state|apply eval_keys_ref_free_at]; eapply Hrf; exact Hx).
  match goal with |- context [go_kw ?ev ?s0 ?l] => destruct (go_kw_state ev s0 l) as [rk E] end.
  { intros k x Hx. apply eval_ref_free_at_state. eapply Hrf; exact Hx. }
  rewrite E. unfold keys_tail. destruct rk as [nk|e0]; [|reflexivity].
  destruct (merge_call c args kwargs _) as [[na fk]|e]; [|reflexivity].
  destruct (py_bind (c_sig c) na fk); [|reflexivity].
  destruct (c_kind c); try reflexivity. contradiction.
Qed.

(* a concrete trace: f's binding holds two references to g, one of them scoped *)
Example call_keys_example :
  let sgx := {| s_args := ["x"]; s_defaults := []; s_varargs := false; s_kwonly := []; s_varkw := false |} in
  let sg0 := {| s_args := []; s_defaults := []; s_varargs := false; s_kwonly := []; s_varkw := false |} in
  let pf := {| c_sel := "m.f"; c_kind := KProbe; c_sig := sgx; c_allow := []; c_deny := []; c_method := false |} in
  let pg := {| c_sel := "m.g"; c_kind := KProbe; c_sig := sg0; c_allow := []; c_deny := []; c_method := false |} in
  let st := run_top 50 (setup [pf; pg]) [OBind "f.x" (VList [VRef ["a"; "b"] "g" true; VRef [] "g" true])] in
  call_keys 20 st "m.f" [] [] = [("", "m.f"); ("a/b", "m.g"); ("", "m.g")] /\
  map fst (operative (fst (call 20 st "m.f" [] []))) = [("", "m.f"); ("a/b", "m.g"); ("", "m.g")].
Proof. vm_compute. split; reflexivity. Qed.

(* ================================================================== *)
(* (B) replaying one call from what it recorded                        *)
(* ================================================================== *)

(* ---- filters that look at the key only ---- *)
Section KeyFilter.
  Variable P : string -> bool.
  Definition kf (l : pdict) : pdict := filter (fun kv => P (fst kv)) l.

  Lemma kf_cons : forall k v l, kf ((k, v) :: l) = if P k then (k, v) :: kf l else kf l.
  Proof. reflexivity. Qed.

  Lemma sget_kf : forall p l, sget p (kf l) = if P p then sget p l else None.
  Proof.
    intros p l. induction l as [|[k v] l IH]; [destruct (P p); reflexivity|].
    rewrite kf_cons, (sget_cons p k v l). destruct (String.eqb_spec p k) as [E|N].
    - subst k. destruct (P p) eqn:Ep.
      + rewrite sget_cons, String.eqb_refl. reflexivity.
      + rewrite IH. try rewrite Ep. reflexivity.
    - destruct (P k).
      + rewrite sget_cons. destruct (String.eqb_spec p k); [contradiction|]. exact IH.
      + exact IH.
  Qed.

  Lemma kf_keys_nodup : forall l, NoDup (map fst l) -> NoDup (map fst (kf l)).
  Proof. intros l H. apply keys_filter_nodup. exact H. Qed.

  Lemma kf_sset : forall k v d, kf (sset k v d) = if P k then sset k v (kf d) else kf d.
  Proof.
    intros k v d. induction d as [|[j w] d IH].
    - rewrite sset_nil, kf_cons. destruct (P k); reflexivity.
    - rewrite sset_cons. destruct (String.eqb_spec k j) as [E|N].
      + subst j. rewrite !kf_cons. destruct (P k); [|reflexivity].
        rewrite sset_cons, String.eqb_refl. reflexivity.
      + rewrite !kf_cons, IH. destruct (P j); destruct (P k); try reflexivity.
        rewrite sset_cons. destruct (String.eqb_spec k j); [contradiction|]. reflexivity.
  Qed.

  Lemma kf_supdate : forall e d, kf (supdate d e) = supdate (kf d) (kf e).
  Proof.
    induction e as [|[k v] e IH]; intros d; [reflexivity|].
    rewrite supdate_cons, IH, kf_sset, kf_cons. destruct (P k); [rewrite supdate_cons|]; reflexivity.
  Qed.

  Lemma kf_sdel : forall k d, kf (sdel k d) = sdel k (kf d).
  Proof.
    intros k d. induction d as [|[j w] d IH]; [reflexivity|].
    rewrite sdel_cons. destruct (String.eqb_spec k j) as [E|N].
    - subst j. rewrite kf_cons. destruct (P k) eqn:Ep.
      + rewrite sdel_cons, String.eqb_refl. reflexivity.
      + symmetry. apply sdel_none_id. rewrite sget_kf, Ep. reflexivity.
    - rewrite !kf_cons, IH. destruct (P j); [|reflexivity].
      rewrite sdel_cons. destruct (String.eqb_spec k j); [contradiction|]. reflexivity.
  Qed.

  Lemma kf_drop_names : forall names keep d, kf (drop_names names keep d) = drop_names names keep (kf d).
  Proof.
    induction names as [|n ns IH]; intros keep d; [reflexivity|].
    rewrite !drop_names_cons, IH. destruct (str_in n keep); [reflexivity|]. rewrite kf_sdel. reflexivity.
  Qed.

  Lemma kf_fold_sdel : forall names d,
    kf (fold_left (fun acc n => sdel n acc) names d) = fold_left (fun acc n => sdel n acc) names (kf d).
  Proof.
    induction names as [|n ns IH]; intros d; [reflexivity|]. cbn [fold_left]. rewrite IH, kf_sdel. reflexivity.
  Qed.

  Lemma kf_nil_of_keys : forall l, (forall p, In p (map fst l) -> P p = false) -> kf l = [].
  Proof.
    intros l H. apply filter_all_false. intros [k v] Hin. cbn [fst]. apply H. apply (in_map fst) in Hin. exact Hin.
  Qed.
End KeyFilter.

(* ---- small association-list facts ---- *)
Lemma sset_append : forall (d : pdict) k v, sget k d = None -> sset k v d = d ++ [(k, v)].
Proof.
  intros d k v. induction d as [|[j w] d IH]; intros H; [reflexivity|].
  rewrite sget_cons in H. rewrite sset_cons. destruct (String.eqb k j); [discriminate|].
  rewrite IH by exact H. reflexivity.
Qed.

Lemma supdate_append : forall (e d : pdict), NoDup (map fst e) -> (forall p, In p (map fst e) -> sget p d = None) ->
  supdate d e = d ++ e.
Proof.
  induction e as [|[k v] e IH]; intros d Hnd Hd; [rewrite app_nil_r; reflexivity|].
  simpl in Hnd. inversion Hnd as [|a l Hna Hnd']; subst.
  rewrite supdate_cons, sset_append by (apply Hd; left; reflexivity).
  rewrite IH; [rewrite <- app_assoc; reflexivity|exact Hnd'|].
  intros p Hp. rewrite sget_app, (Hd p (or_intror Hp)), sget_cons, sget_nil.
  destruct (String.eqb_spec p k) as [E|N]; [|reflexivity]. subst. contradiction.
Qed.

Lemma supdate_nil_nodup : forall e : pdict, NoDup (map fst e) -> supdate [] e = e.
Proof. intros e H. rewrite supdate_append; [reflexivity|exact H|intros; reflexivity]. Qed.

Lemma sset_same : forall (d : pdict) k v, sget k d = Some v -> sset k v d = d.
Proof.
  intros d k v. induction d as [|[j w] d IH]; intros H; [discriminate|].
  rewrite sget_cons in H. rewrite sset_cons. destruct (String.eqb_spec k j) as [E|N].
  - inversion H; subst. reflexivity.
  - rewrite IH by exact H. reflexivity.
Qed.

Lemma supdate_absorb : forall (e d : pdict), (forall k v, In (k, v) e -> sget k d = Some v) -> supdate d e = d.
Proof.
  induction e as [|[k v] e IH]; intros d H; [reflexivity|].
  rewrite supdate_cons, sset_same by (apply H; left; reflexivity).
  apply IH. intros k' v' Hin. apply H. right; exact Hin.
Qed.

Lemma drop_names_id : forall names keep (l : pdict),
  (forall n, In n names -> str_in n keep = false -> sget n l = None) -> drop_names names keep l = l.
Proof.
  induction names as [|n ns IH]; intros keep l H; [reflexivity|].
  rewrite drop_names_cons. destruct (str_in n keep) eqn:E.
  - apply IH. intros m Hm. apply H. right; exact Hm.
  - rewrite sdel_none_id by (apply H; [left; reflexivity|exact E]).
    apply IH. intros m Hm. apply H. right; exact Hm.
Qed.

Lemma sget_fold_sdel : forall names (d : pdict) p, NoDup (map fst d) ->
  sget p (fold_left (fun acc n => sdel n acc) names d) = if str_in p names then None else sget p d.
Proof.
  induction names as [|n ns IH]; intros d p Hnd; [reflexivity|].
  cbn [fold_left]. rewrite IH by (apply keys_sdel_nodup; exact Hnd). rewrite str_in_cons, sget_sdel by exact Hnd.
  destruct (String.eqb p n); destruct (str_in p ns); reflexivity.
Qed.

Lemma fold_sdel_nodup : forall names (d : pdict), NoDup (map fst d) ->
  NoDup (map fst (fold_left (fun acc n => sdel n acc) names d)).
Proof.
  induction names as [|n ns IH]; intros d H; [exact H|]. cbn [fold_left]. apply IH. apply keys_sdel_nodup. exact H.
Qed.

(* ---- names ---- *)
Definition sig_name (sg : sig) (p : string) : bool := str_in p (s_args sg) || str_in p (kwonly_names sg).

Lemma sig_name_named : forall sg p, sig_name sg p = true <-> named sg p.
Proof.
  intros sg p. unfold sig_name, named. rewrite orb_true_iff, !str_in_iff, in_app_iff. tauto.
Qed.

Lemma combine_keys_in : forall {A B} (a : list A) (b : list B) x, In x (map fst (combine a b)) -> In x a.
Proof.
  intros A B a. induction a as [|y a IH]; intros b x H; [inversion H|].
  destruct b as [|z b]; [inversion H|]. simpl in H. destruct H as [H|H]; [left; exact H|right; eapply IH; exact H].
Qed.

Lemma kwarg_defaults_keys_named : forall sg p, In p (map fst (kwarg_defaults sg)) -> sig_name sg p = true.
Proof.
  intros sg p H. unfold kwarg_defaults in H. apply keys_supdate_in in H. apply sig_name_named. unfold named.
  apply in_or_app. destruct H as [H|H].
  - left.
    match type of H with In p (map fst (fold_left _ ?l [])) =>
      change (In p (map fst (supdate (@nil (string * value)) l))) in H end.
    apply keys_supdate_in in H. destruct H as [[]|H].
    apply combine_keys_in in H.
    rewrite <- (firstn_skipn (List.length (s_args sg) - List.length (s_defaults sg)) (s_args sg)).
    apply in_or_app. right. exact H.
  - right. unfold kwonly_names. apply in_map_iff in H. destruct H as [[k v] [E H]]. cbn [fst] in E. subst k.
    apply in_flat_map in H. destruct H as [[k' o] [H1 H2]]. cbn [fst snd] in H2.
    destruct o as [d|]; [|inversion H2]. destruct H2 as [H2|[]]. inversion H2; subst.
    apply in_map_iff. exists (p, Some v). split; [reflexivity|exact H1].
Qed.

Lemma configurable_default_is_default : forall c p v, sget p (configurable_defaults c) = Some v ->
  sget p (kwarg_defaults (c_sig c)) = Some v /\ sig_name (c_sig c) p = true.
Proof.
  intros c p v H. apply C07_configurable_defaults_spec_strong in H. destruct H as [H _]. split; [exact H|].
  apply kwarg_defaults_keys_named. eapply sget_some_key; exact H.
Qed.

(* ---- "supplied by the caller" ---- *)
Definition supplied_b (c : cfgable) (args : list value) (kwargs : pdict) (p : string) : bool :=
  (str_in p (supplied_positional_names (c_sig c) args)
   && negb (str_in p (required_positions (supplied_positional_names (c_sig c) args) args)))
  || (str_in p (map fst kwargs) && negb (str_in p (caller_req_kw kwargs))).

Lemma prep_bindings_sget_supplied : forall cfg scope c args kwargs p,
  sget p (prep_bindings cfg scope c args kwargs) =
  if supplied_b c args kwargs p then None else sget p (get_bindings_for cfg scope (c_sel c) true).
Proof.
  intros. rewrite prep_bindings_sget_gen. unfold supplied_b.
  destruct (str_in p (map fst kwargs) && negb (str_in p (caller_req_kw kwargs))); [rewrite orb_true_r; reflexivity|].
  rewrite orb_false_r. reflexivity.
Qed.

Lemma prep_operative_sget_supplied : forall c args kwargs nk p, NoDup (map fst nk) ->
  sget p (prep_operative c args kwargs nk) =
  if supplied_b c args kwargs p then None
  else match sget p nk with Some v => Some v | None => sget p (configurable_defaults c) end.
Proof. intros. rewrite C07_prep_operative_spec_strong by assumption. reflexivity. Qed.

(* ---- the relation between the bindings of the original call and those of the replay ---- *)
Definition nsig (c : cfgable) : string -> bool := fun p => negb (sig_name (c_sig c) p).

Definition extends_by_defaults (c : cfgable) (args : list value) (kwargs nk nk' : pdict) : Prop :=
  NoDup (map fst nk) /\ NoDup (map fst nk') /\
  (forall p, sget p nk' = match sget p nk with
                          | Some v => Some v
                          | None => if supplied_b c args kwargs p then None else sget p (configurable_defaults c)
                          end) /\
  kf (nsig c) nk' = kf (nsig c) nk.

Lemma replay_bindings_extend : forall c cfg cfg' scope args kwargs,
  get_bindings_for cfg' scope (c_sel c) true =
    prep_operative c args kwargs (prep_bindings cfg scope c args kwargs) ->
  extends_by_defaults c args kwargs (prep_bindings cfg scope c args kwargs) (prep_bindings cfg' scope c args kwargs).
Proof.
  intros c cfg cfg' scope args kwargs Hd.
  pose proof (prep_bindings_nodup cfg scope c args kwargs) as Hn.
  split; [exact Hn|]. split; [apply prep_bindings_nodup|]. split.
  - intro p. rewrite (prep_bindings_sget_supplied cfg'), Hd, prep_operative_sget_supplied by exact Hn.
    rewrite (prep_bindings_sget_supplied cfg). destruct (supplied_b c args kwargs p); [reflexivity|].
    destruct (sget p (get_bindings_for cfg scope (c_sel c) true)); reflexivity.
  - set (nk := prep_bindings cfg scope c args kwargs) in *.
    assert (Hk : forall names keep, (forall n, In n names -> str_in n keep = false -> sget n nk = None) ->
                 drop_names names keep (kf (nsig c) nk) = kf (nsig c) nk).
    { intros names keep H. apply drop_names_id. intros n Hi Hk. rewrite sget_kf, (H n Hi Hk).
      destruct (nsig c n); reflexivity. }
    assert (H1 : forall n, In n (supplied_positional_names (c_sig c) args) ->
                 str_in n (required_positions (supplied_positional_names (c_sig c) args) args) = false -> sget n nk = None).
    { intros n Hi Hr. unfold nk. rewrite prep_bindings_sget_supplied. unfold supplied_b.
      apply str_in_iff in Hi. rewrite Hi, Hr. reflexivity. }
    assert (H2 : forall n, In n (map fst kwargs) ->
                 str_in n (map fst (filter (fun kv => is_req (snd kv)) kwargs)) = false -> sget n nk = None).
    { intros n Hi Hr. unfold nk. rewrite prep_bindings_sget_supplied. unfold supplied_b, caller_req_kw.
      apply str_in_iff in Hi. rewrite Hi, Hr. rewrite orb_true_r. reflexivity. }
    unfold prep_bindings at 1. rewrite Hd. unfold prep_operative. fold nk.
    rewrite !kf_drop_names, kf_supdate.
    rewrite (kf_nil_of_keys (nsig c) (configurable_defaults c)).
    + rewrite supdate_nil_nodup by (apply kf_keys_nodup; exact Hn).
      rewrite (Hk _ _ H1), (Hk _ _ H2), (Hk _ _ H1), (Hk _ _ H2). reflexivity.
    + intros p Hp. apply in_keys_sget in Hp. destruct Hp as [v Hv].
      apply configurable_default_is_default in Hv. unfold nsig. rewrite (proj2 Hv). reflexivity.
Qed.

(* ---- fill_required when nothing is missing ---- *)
Lemma fill_required_ok_shape : forall names args nk na nka, fill_required names args nk = (na, nka, []) ->
  nka = fold_left (fun acc n => sdel n acc) (required_positions names args) nk.
Proof.
  induction names as [|n ns IH]; intros args nk na nka H.
  - rewrite fill_required_nil_l in H. inversion H; reflexivity.
  - destruct args as [|a r].
    + rewrite fill_required_nil_r in H. inversion H; reflexivity.
    + apply fill_required_inv in H. destruct H as [na0 [miss0 [v0 [nk0 [H [E Hc]]]]]].
      cbn [required_positions].
      destruct Hc as [[Ha [Hg [En Em]]]|[[Ha [Hg [Ev [En Em]]]]|[Ha [Ev [En Em]]]]]; subst nk0.
      * subst miss0. rewrite Ha. cbn [app fold_left]. eapply IH; exact H.
      * discriminate.
      * subst miss0. rewrite Ha. cbn [app]. eapply IH; exact H.
Qed.

Lemma fill_required_mono : forall names args nk nk' na nka, NoDup (map fst nk) -> NoDup (map fst nk') ->
  (forall p v, sget p nk = Some v -> sget p nk' = Some v) ->
  fill_required names args nk = (na, nka, []) -> exists nka', fill_required names args nk' = (na, nka', []).
Proof.
  induction names as [|n ns IH]; intros args nk nk' na nka Hn Hn' Hm H.
  - rewrite fill_required_nil_l in H. inversion H; subst. exists nk'. reflexivity.
  - destruct args as [|a r].
    + rewrite fill_required_nil_r in H. inversion H; subst. exists nk'. reflexivity.
    + apply fill_required_inv in H. destruct H as [na0 [miss0 [v0 [nk0 [H [E Hc]]]]]]. subst na.
      destruct Hc as [[Ha [Hg [En Em]]]|[[Ha [Hg [Ev [En Em]]]]|[Ha [Ev [En Em]]]]]; subst nk0.
      * subst miss0.
        destruct (IH r (sdel n nk) (sdel n nk') na0 nka) as [nka' E'].
        -- apply keys_sdel_nodup; exact Hn.
        -- apply keys_sdel_nodup; exact Hn'.
        -- intros p v. rewrite !sget_sdel by assumption. destruct (String.eqb p n); [discriminate|apply Hm].
        -- exact H.
        -- exists nka'. cbn [fill_required]. rewrite Ha, (Hm n v0 Hg), E'. reflexivity.
      * discriminate.
      * subst miss0 v0. destruct (IH r nk nk' na0 nka Hn Hn' Hm H) as [nka' E'].
        exists nka'. cbn [fill_required]. rewrite Ha, E'. reflexivity.
Qed.

Lemma filter_ext_in' : forall {A} (f g : A -> bool) l, (forall x, In x l -> f x = g x) -> filter f l = filter g l.
Proof.
  intros A f g l. induction l as [|x t IH]; intros H; [reflexivity|].
  cbn [filter]. rewrite (H x (or_introl eq_refl)), IH; [reflexivity|]. intros y Hy. apply H. right; exact Hy.
Qed.

(* ---- merge_call on the replayed bindings ---- *)
Theorem replay_merge_call : forall c args kwargs nk nk' na fk,
  extends_by_defaults c args kwargs nk nk' ->
  merge_call c args kwargs nk = Ok (na, fk) ->
  exists fk', merge_call c args kwargs nk' = Ok (na, fk') /\
    List.length na = List.length args /\
    NoDup (map fst fk) /\ NoDup (map fst fk') /\
    (forall p v, sget p fk = Some v -> sget p fk' = Some v) /\
    (forall p v, sget p fk = None -> sget p fk' = Some v ->
       sget p (configurable_defaults c) = Some v /\
       str_in p (supplied_positional_names (c_sig c) args) = false /\ str_in p (map fst kwargs) = false) /\
    kf (nsig c) fk' = kf (nsig c) fk.
Proof.
  intros c args kwargs nk nk' na fk (Hn & Hn' & Hs & Hf) H.
  destruct (fill_required (supplied_positional_names (c_sig c) args) args nk) as [[na0 nka] miss1] eqn:Ef.
  rewrite (merge_call_eq c args kwargs nk na0 nka miss1 Ef) in H.
  destruct (miss1 ++ miss2_of c args kwargs nka ++ miss3_of kwargs nka) as [|m ms] eqn:Em; [|discriminate].
  inversion H; subst na0 fk. clear H.
  apply app_eq_nil in Em. destruct Em as [Em1 Em]. apply app_eq_nil in Em. destruct Em as [Em2 Em3]. subst miss1.
  assert (Hm : forall p v, sget p nk = Some v -> sget p nk' = Some v).
  { intros p v Hp. rewrite Hs, Hp. reflexivity. }
  destruct (fill_required_mono _ _ _ _ _ _ Hn Hn' Hm Ef) as [nka' Ef'].
  pose proof (fill_required_ok_shape _ _ _ _ _ Ef) as Sh.
  pose proof (fill_required_ok_shape _ _ _ _ _ Ef') as Sh'.
  set (rq := required_positions (supplied_positional_names (c_sig c) args) args) in *.
  assert (G : forall p, sget p nka = if str_in p rq then None else sget p nk).
  { intro p. rewrite Sh. apply sget_fold_sdel. exact Hn. }
  assert (G' : forall p, sget p nka' = if str_in p rq then None else sget p nk').
  { intro p. rewrite Sh'. apply sget_fold_sdel. exact Hn'. }
  assert (Na : NoDup (map fst nka)) by (rewrite Sh; apply fold_sdel_nodup; exact Hn).
  assert (Na' : NoDup (map fst nka')) by (rewrite Sh'; apply fold_sdel_nodup; exact Hn').
  assert (M1 : forall p v, sget p nka = Some v -> sget p nka' = Some v).
  { intros p v. rewrite G, G'. destruct (str_in p rq); [discriminate|apply Hm]. }
  assert (M1s : forall p, smem p nka = true -> smem p nka' = true).
  { intros p. rewrite !smem_sget. destruct (sget p nka) as [v|] eqn:E; [|discriminate].
    rewrite (M1 p v E). reflexivity. }
  assert (Em2' : miss2_of c args kwargs nka' = []).
  { unfold miss2_of in *. apply filter_all_false. intros r Hr.
    pose proof (filter_nil_forall _ _ Em2 r Hr) as Hc. cbv beta in Hc.
    destruct (smem r nka) eqn:Es; [rewrite (M1s r Es); simpl; apply andb_false_r|].
    simpl in Hc. rewrite andb_true_r in Hc. rewrite Hc. reflexivity. }
  assert (Em3' : miss3_of kwargs nka' = []).
  { unfold miss3_of in *. apply filter_all_false. intros r Hr.
    pose proof (filter_nil_forall _ _ Em3 r Hr) as Hc. cbv beta in Hc.
    apply negb_false_iff in Hc. rewrite (M1s r Hc). reflexivity. }
  assert (Crk : forall p, str_in p (caller_req_kw kwargs) = true -> smem p nka = true).
  { intros p Hp. apply str_in_iff in Hp. unfold miss3_of in Em3.
    pose proof (filter_nil_forall _ _ Em3 p Hp) as Hc. cbv beta in Hc. apply negb_false_iff in Hc. exact Hc. }
  assert (Ek : kwargs_kept kwargs nka' = kwargs_kept kwargs nka).
  { unfold kwargs_kept. apply filter_ext_in'. intros [k v] _. cbn [fst].
    destruct (str_in k (caller_req_kw kwargs)) eqn:Ec; [|reflexivity].
    rewrite (Crk k Ec), (M1s k (Crk k Ec)). reflexivity. }
  exists (supdate nka' (kwargs_kept kwargs nka)).
  split; [|split; [|split; [|split; [|split; [|split]]]]].
  - rewrite (merge_call_eq c args kwargs nk' na nka' [] Ef'), Em2', Em3', Ek. reflexivity.
  - eapply fill_required_length; exact Ef.
  - apply keys_supdate_nodup. exact Na.
  - apply keys_supdate_nodup. exact Na'.
  - intros p v. rewrite !sget_supdate. destruct (sget_last p (kwargs_kept kwargs nka)); [auto|apply M1].
  - intros p v. rewrite !sget_supdate. destruct (sget_last p (kwargs_kept kwargs nka)); [discriminate|].
    intros Hp Hp'. rewrite G in Hp. rewrite G' in Hp'.
    destruct (str_in p rq) eqn:Er; [discriminate|].
    rewrite Hs, Hp in Hp'. destruct (supplied_b c args kwargs p) eqn:Esup; [discriminate|].
    split; [exact Hp'|]. unfold supplied_b in Esup. fold rq in Esup. rewrite Er in Esup.
    apply orb_false_iff in Esup. destruct Esup as [E1 E2]. simpl in E1. rewrite andb_true_r in E1.
    split; [exact E1|].
    destruct (str_in p (caller_req_kw kwargs)) eqn:Ec.
    + exfalso. pose proof (Crk p Ec) as Hc. rewrite smem_sget, G, Er, Hp in Hc. discriminate.
    + simpl in E2. rewrite andb_true_r in E2. exact E2.
  - rewrite !kf_supdate. f_equal. rewrite Sh, Sh', !kf_fold_sdel, Hf. reflexivity.
Qed.

(* ---- Python's binding does not see the difference ---- *)
Definition kwQ (sg : sig) (bound : list (string * value)) (kv : string * value) : bool :=
  if sig_name sg (fst kv) then negb (smem (fst kv) bound) else s_varkw sg.

Lemma smem_app_other : forall (bound : list (string * value)) k v k', k' <> k ->
  smem k' (bound ++ [(k, v)]) = smem k' bound.
Proof.
  intros bound k v k' N. rewrite !smem_sget, sget_app, sget_cons, sget_nil.
  destruct (String.eqb_spec k' k); [contradiction|]. destruct (sget k' bound); reflexivity.
Qed.

Lemma bind_kw_char : forall sg kws bound extra, NoDup (map fst kws) ->
  bind_kw sg bound extra kws =
  if forallb (kwQ sg bound) kws
  then Some (bound ++ kf (sig_name sg) kws, extra ++ kf (fun p => negb (sig_name sg p)) kws)
  else None.
Proof.
  intros sg kws. induction kws as [|[k v] r IH]; intros bound extra Hnd.
  - simpl. rewrite !app_nil_r. reflexivity.
  - simpl in Hnd. inversion Hnd as [|a l Hna Hnd']; subst.
    rewrite bind_kw_cons. cbn [forallb]. unfold kwQ at 1. cbn [fst]. rewrite !kf_cons. fold (sig_name sg k).
    destruct (sig_name sg k) eqn:Es.
    + destruct (smem k bound); [reflexivity|]. cbn [negb andb].
      rewrite IH by exact Hnd'.
      rewrite (forallb_ext_in (kwQ sg (bound ++ [(k, v)])) (kwQ sg bound)).
      * cbn [negb]. rewrite <- app_assoc. reflexivity.
      * intros [k' v'] Hin. unfold kwQ. cbn [fst]. destruct (sig_name sg k'); [|reflexivity].
        rewrite smem_app_other; [reflexivity|]. intros ->. apply Hna. apply (in_map fst) in Hin. exact Hin.
    + destruct (s_varkw sg); [|reflexivity]. cbn [andb negb]. rewrite IH by exact Hnd'.
      rewrite <- app_assoc. reflexivity.
Qed.

Lemma fill_defaults_ext : forall names dflt b b',
  (forall n, In n names -> (match sget n b' with Some v => Some v | None => sget n dflt end) =
                           (match sget n b with Some v => Some v | None => sget n dflt end)) ->
  fill_defaults names dflt b' = fill_defaults names dflt b.
Proof.
  induction names as [|n r IH]; intros dflt b b' H; [reflexivity|].
  rewrite !fill_defaults_cons, (H n (or_introl eq_refl)), (IH dflt b b'); [reflexivity|].
  intros m Hm. apply H. right; exact Hm.
Qed.

Theorem py_bind_ext : forall sg na fk fk', NoDup (map fst fk) -> NoDup (map fst fk') ->
  (forall p v, sget p fk = Some v -> sget p fk' = Some v) ->
  (forall p v, sget p fk = None -> sget p fk' = Some v ->
     sig_name sg p = true /\ str_in p (firstn (List.length na) (s_args sg)) = false /\
     sget p (kwarg_defaults sg) = Some v) ->
  kf (fun p => negb (sig_name sg p)) fk' = kf (fun p => negb (sig_name sg p)) fk ->
  py_bind sg na fk' = py_bind sg na fk.
Proof.
  intros sg na fk fk' Hn Hn' F1 F2 F3. unfold py_bind.
  pose proof (bind_pos_keys (s_args sg) na) as Hk.
  destruct (bind_pos (s_args sg) na) as [bpos surplus]. cbn [fst] in Hk.
  destruct (negb (s_varargs sg) && negb (match surplus with [] => true | _ => false end)); [reflexivity|].
  rewrite !bind_kw_char by assumption.
  assert (Hq : forallb (kwQ sg bpos) fk' = forallb (kwQ sg bpos) fk).
  { destruct (forallb (kwQ sg bpos) fk) eqn:E1; destruct (forallb (kwQ sg bpos) fk') eqn:E2; try reflexivity; exfalso.
    - assert (E : forallb (kwQ sg bpos) fk' = true); [|congruence].
      rewrite forallb_forall in E1. apply forallb_forall. intros [k v] Hin.
      destruct (sget k fk) as [w|] eqn:Eg.
      + apply sget_some_in in Eg. exact (E1 _ Eg).
      + pose proof (in_sget_nodup k fk' v Hn' Hin) as Eg'.
        destruct (F2 k v Eg Eg') as [S1 [S2 _]]. unfold kwQ. cbn [fst]. rewrite S1, smem_str_in, Hk, S2. reflexivity.
    - assert (E : forallb (kwQ sg bpos) fk = true); [|congruence].
      rewrite forallb_forall in E2. apply forallb_forall. intros [k v] Hin.
      pose proof (in_sget_nodup k fk v Hn Hin) as Eg. apply F1 in Eg. apply sget_some_in in Eg. exact (E2 _ Eg). }
  rewrite Hq. destruct (forallb (kwQ sg bpos) fk); [|reflexivity].
  rewrite F3.
  rewrite (fill_defaults_ext _ _ (bpos ++ kf (sig_name sg) fk) (bpos ++ kf (sig_name sg) fk')); [reflexivity|].
  intros n Hin. rewrite !sget_app. destruct (sget n bpos); [reflexivity|].
  assert (Sn : sig_name sg n = true) by (apply sig_name_named; exact Hin).
  rewrite !sget_kf, Sn.
  destruct (sget n fk) as [w|] eqn:Eg; [rewrite (F1 n w Eg); reflexivity|].
  destruct (sget n fk') as [v|] eqn:Eg'; [|reflexivity].
  destruct (F2 n v Eg Eg') as [_ [_ Hd]]. rewrite Hd. reflexivity.
Qed.

(* ---- the replay theorem ---- *)
Theorem C07_replay_one_call : forall c cfg cfg' scope args kwargs na fk,
  get_bindings_for cfg' scope (c_sel c) true =
    prep_operative c args kwargs (prep_bindings cfg scope c args kwargs) ->
  merge_call c args kwargs (prep_bindings cfg scope c args kwargs) = Ok (na, fk) ->
  exists fk',
    merge_call c args kwargs (prep_bindings cfg' scope c args kwargs) = Ok (na, fk') /\
    py_bind (c_sig c) na fk' = py_bind (c_sig c) na fk /\
    (forall p v, sget p fk = Some v -> sget p fk' = Some v) /\
    (forall p v, sget p fk = None -> sget p fk' = Some v ->
       sget p (configurable_defaults c) = Some v /\ sget p (kwarg_defaults (c_sig c)) = Some v /\
       str_in p (supplied_positional_names (c_sig c) args) = false /\ str_in p (map fst kwargs) = false).
Proof.
  intros c cfg cfg' scope args kwargs na fk Hd Hm.
  destruct (replay_merge_call c args kwargs _ _ na fk (replay_bindings_extend c cfg cfg' scope args kwargs Hd) Hm)
    as [fk' [Hm' [Hl [Hn [Hn' [F1 [F2 F3]]]]]]].
  exists fk'. split; [exact Hm'|]. split; [|split; [exact F1|]].
  - apply py_bind_ext; try assumption.
    intros p v Hp Hp'. destruct (F2 p v Hp Hp') as [D1 [D2 _]].
    destruct (configurable_default_is_default c p v D1) as [D3 D4].
    split; [exact D4|]. split; [|exact D3]. rewrite Hl. exact D2.
  - intros p v Hp Hp'. destruct (F2 p v Hp Hp') as [D1 [D2 D3]].
    destruct (configurable_default_is_default c p v D1) as [D4 _]. auto.
Qed.

(* the whole remainder of the wrapper (binding, the call itself, singletons, ...) is the same *)
Corollary C07_replay_call_tail : forall f c sel sstr cfg cfg' scope args kwargs na fk s,
  get_bindings_for cfg' scope (c_sel c) true =
    prep_operative c args kwargs (prep_bindings cfg scope c args kwargs) ->
  merge_call c args kwargs (prep_bindings cfg scope c args kwargs) = Ok (na, fk) ->
  call_tail f c sel sstr args kwargs s (Ok (prep_bindings cfg' scope c args kwargs)) =
  call_tail f c sel sstr args kwargs s (Ok (prep_bindings cfg scope c args kwargs)).
Proof.
  intros f c sel sstr cfg cfg' scope args kwargs na fk s Hd Hm.
  destruct (C07_replay_one_call c cfg cfg' scope args kwargs na fk Hd Hm) as [fk' [Hm' [Hb _]]].
  unfold call_tail. rewrite Hm, Hm', Hb. reflexivity.
Qed.

(* the record reproduces itself: the replayed call records the same section *)
Theorem C07_record_reproduces : forall c cfg cfg' scope args kwargs,
  get_bindings_for cfg' scope (c_sel c) true =
    prep_operative c args kwargs (prep_bindings cfg scope c args kwargs) ->
  forall p, sget p (prep_operative c args kwargs (prep_bindings cfg' scope c args kwargs)) =
            sget p (prep_operative c args kwargs (prep_bindings cfg scope c args kwargs)).
Proof.
  intros c cfg cfg' scope args kwargs Hd p.
  destruct (replay_bindings_extend c cfg cfg' scope args kwargs Hd) as (Hn & Hn' & Hs & _).
  rewrite !prep_operative_sget_supplied by assumption. rewrite Hs.
  destruct (supplied_b c args kwargs p); [reflexivity|].
  destruct (sget p (prep_bindings cfg scope c args kwargs)); [reflexivity|].
  destruct (sget p (configurable_defaults c)); reflexivity.
Qed.

Corollary C07_record_reproduces_keys : forall c cfg cfg' scope args kwargs,
  get_bindings_for cfg' scope (c_sel c) true =
    prep_operative c args kwargs (prep_bindings cfg scope c args kwargs) ->
  NoDup (map fst (prep_operative c args kwargs (prep_bindings cfg' scope c args kwargs))) /\
  NoDup (map fst (prep_operative c args kwargs (prep_bindings cfg scope c args kwargs))) /\
  forall p, In p (map fst (prep_operative c args kwargs (prep_bindings cfg' scope c args kwargs))) <->
            In p (map fst (prep_operative c args kwargs (prep_bindings cfg scope c args kwargs))).
Proof.
  intros c cfg cfg' scope args kwargs Hd.
  assert (Nd : forall nk, NoDup (map fst (prep_operative c args kwargs nk))).
  { intro nk. unfold prep_operative. apply drop_names_nodup, drop_names_nodup, keys_supdate_nodup.
    apply configurable_defaults_nodup. }
  split; [apply Nd|]. split; [apply Nd|]. intro p.
  pose proof (C07_record_reproduces c cfg cfg' scope args kwargs Hd p) as E.
  split; intro H; apply in_keys_sget in H; destruct H as [v Hv].
  - rewrite E in Hv. eapply sget_some_key; exact Hv.
  - rewrite <- E in Hv. eapply sget_some_key; exact Hv.
Qed.

(* ---- a store that replays exists: the cleared store with exactly the recorded section bound ---- *)
Lemma prefixes_last : forall {A} (l : list A), exists pre, prefixes l = pre ++ [l].
Proof.
  intros A l. induction l as [|x r [pre IH]].
  - exists []. reflexivity.
  - exists ([] :: map (cons x) pre). cbn [prefixes]. rewrite IH, map_app. reflexivity.
Qed.

Theorem C07_replay_store_exists : forall scope sel (d : pdict), NoDup (map fst d) ->
  get_bindings_for [((scope_str scope, sel), d)] scope sel true = d.
Proof.
  intros scope sel d Hnd. rewrite gbf_inherit_eq.
  set (D := dict_at [((scope_str scope, sel), d)] sel).
  assert (HD : forall q, D q = [] \/ D q = d).
  { intro q. unfold D, dict_at.
    change (cget (scope_str q, sel) [((scope_str scope, sel), d)])
      with (if ckey_eqb (scope_str q, sel) (scope_str scope, sel) then Some d else None).
    destruct (ckey_eqb _ _); [right|left]; reflexivity. }
  assert (HDs : D scope = d).
  { unfold D, dict_at.
    change (cget (scope_str scope, sel) [((scope_str scope, sel), d)])
      with (if ckey_eqb (scope_str scope, sel) (scope_str scope, sel) then Some d else None).
    destruct (ckey_eqb_spec (scope_str scope, sel) (scope_str scope, sel)); [reflexivity|congruence]. }
  assert (Hdd : supdate d d = d).
  { apply supdate_absorb. intros k v Hin. apply in_sget_nodup; assumption. }
  assert (Hfold : forall l acc, (acc = [] \/ acc = d) ->
            fold_left (fun acc q => supdate acc (D q)) l acc = [] \/ fold_left (fun acc q => supdate acc (D q)) l acc = d).
  { induction l as [|q l IH]; intros acc Ha; [exact Ha|]. cbn [fold_left]. apply IH.
    destruct Ha as [-> | ->]; destruct (HD q) as [-> | ->].
    - left; reflexivity.
    - right. apply supdate_nil_nodup. exact Hnd.
    - right; reflexivity.
    - right. exact Hdd. }
  destruct (prefixes_last scope) as [pre ->]. rewrite fold_left_app. cbn [fold_left]. rewrite HDs.
  destruct (Hfold pre [] (or_introl eq_refl)) as [-> | ->]; [apply supdate_nil_nodup; exact Hnd|exact Hdd].
Qed.

Lemma prep_operative_nodup : forall c args kwargs nk, NoDup (map fst (prep_operative c args kwargs nk)).
Proof.
  intros. unfold prep_operative. apply drop_names_nodup, drop_names_nodup, keys_supdate_nodup.
  apply configurable_defaults_nodup.
Qed.

(* ... so the replay theorem is not vacuous: replay against the cleared store holding just what was recorded *)
Corollary C07_replay_from_cleared_store : forall c cfg scope args kwargs na fk,
  let d := prep_operative c args kwargs (prep_bindings cfg scope c args kwargs) in
  let cfg' := [((scope_str scope, c_sel c), d)] in
  merge_call c args kwargs (prep_bindings cfg scope c args kwargs) = Ok (na, fk) ->
  exists fk', merge_call c args kwargs (prep_bindings cfg' scope c args kwargs) = Ok (na, fk') /\
              py_bind (c_sig c) na fk' = py_bind (c_sig c) na fk.
Proof.
  intros c cfg scope args kwargs na fk d cfg' Hm.
  destruct (C07_replay_one_call c cfg cfg' scope args kwargs na fk) as [fk' [H1 [H2 _]]].
  - unfold cfg'. apply C07_replay_store_exists. apply prep_operative_nodup.
  - exact Hm.
  - exists fk'. split; assumption.
Qed.

(* ---- machine level, for a probe: the replayed call logs the same environment ---- *)
Lemma call_tail_probe : forall f c sel sstr args kwargs s nk na fk env, c_kind c = KProbe ->
  merge_call c args kwargs nk = Ok (na, fk) -> py_bind (c_sig c) na fk = Some env ->
  call_tail f c sel sstr args kwargs s (Ok nk) =
  (log_call {| cr_sel := sel; cr_scope := current_scope s; cr_env := env; cr_n := counter s |} s, Ok (VRet sel (counter s))).
Proof. intros f c sel sstr args kwargs s nk na fk env Hk Hm Hb. unfold call_tail. rewrite Hm, Hb, Hk. reflexivity. Qed.

Theorem C07_replay_probe_call : forall f s1 s2 sel args kwargs c s1' v1,
  lookup_sel s1 sel = Some c -> lookup_sel s2 sel = Some c -> c_kind c = KProbe ->
  current_scope s2 = current_scope s1 ->
  existsb is_req (skipn (List.length (supplied_positional_names (c_sig c) args)) args) = false ->
  (forall k v, In (k, v) (prep_bindings (config s1) (current_scope s1) c args kwargs) ->
               ref_free_at f v = true /\ py_dicts_ok v = true) ->
  (forall k v, In (k, v) (prep_bindings (config s2) (current_scope s1) c args kwargs) ->
               ref_free_at f v = true /\ py_dicts_ok v = true) ->
  get_bindings_for (config s2) (current_scope s1) (c_sel c) true =
    prep_operative c args kwargs (prep_bindings (config s1) (current_scope s1) c args kwargs) ->
  call (S f) s1 sel args kwargs = (s1', Ok v1) ->
  exists env s2',
    v1 = VRet sel (counter s1) /\
    calllog s1' = {| cr_sel := sel; cr_scope := current_scope s1; cr_env := env; cr_n := counter s1 |} :: calllog s1 /\
    call (S f) s2 sel args kwargs = (s2', Ok (VRet sel (counter s2))) /\
    calllog s2' = {| cr_sel := sel; cr_scope := current_scope s1; cr_env := env; cr_n := counter s2 |} :: calllog s2.
Proof.
  intros f s1 s2 sel args kwargs c s1' v1 L1 L2 Hk Hsc Hreq R1 R2 Hd H.
  rewrite (call_ref_free_unfold f s1 sel args kwargs c L1 Hreq R1) in H.
  destruct (merge_call c args kwargs (prep_bindings (config s1) (current_scope s1) c args kwargs)) as [[na fk]|e] eqn:Hm.
  2:{ unfold call_tail in H. rewrite Hm in H. discriminate. }
  destruct (py_bind (c_sig c) na fk) as [env|] eqn:Hb.
  2:{ unfold call_tail in H. rewrite Hm, Hb in H. discriminate. }
  rewrite (call_tail_probe _ _ _ _ _ _ _ _ _ _ _ Hk Hm Hb) in H. inversion H; subst s1' v1. clear H.
  exists env. eexists. split; [reflexivity|]. split; [reflexivity|].
  destruct (C07_replay_one_call c (config s1) (config s2) (current_scope s1) args kwargs na fk Hd Hm)
    as [fk' [Hm' [Hb' _]]].
  rewrite call_ref_free_unfold with (c := c); try assumption.
  - rewrite Hsc. rewrite (call_tail_probe _ _ _ _ _ _ _ _ _ _ _ Hk Hm' (eq_trans Hb' Hb)).
    split; [reflexivity|]. simpl. unfold current_scope. simpl. fold (current_scope s2). rewrite Hsc. reflexivity.
  - rewrite Hsc. exact R2.
Qed.

(* ---- what is NOT true ---- *)
(* (1) a call that FAILED for a missing REQUIRED binding still records the signature default of that parameter,
       so replaying its record succeeds: the replay theorem needs the original merge_call to have succeeded *)
Example replay_of_failed_call_can_succeed :
  let sg := {| s_args := ["a"]; s_defaults := [VInt 1]; s_varargs := false; s_kwonly := []; s_varkw := false |} in
  let c := {| c_sel := "m.f"; c_kind := KProbe; c_sig := sg; c_allow := []; c_deny := []; c_method := false |} in
  let d := prep_operative c [VReq] [] (prep_bindings [] [] c [VReq] []) in
  let cfg' := [(("", "m.f"), d)] in
  merge_call c [VReq] [] (prep_bindings [] [] c [VReq] []) = Raise "RuntimeError:a" /\
  d = [("a", VInt 1)] /\
  get_bindings_for cfg' [] "m.f" true = d /\
  merge_call c [VReq] [] (prep_bindings cfg' [] c [VReq] []) = Ok ([VInt 1], []).
Proof. vm_compute. repeat split; reflexivity. Qed.

(* (2) no representability hypothesis on the BOUND values is needed in this model: prep_operative records the
       applicable bindings unfiltered (only signature DEFAULTS are filtered by representability); an
       unrepresentable bound object is in the record and is replayed *)
Example unrepresentable_binding_is_recorded :
  let sg := {| s_args := ["a"]; s_defaults := []; s_varargs := false; s_kwonly := []; s_varkw := false |} in
  let c := {| c_sel := "m.f"; c_kind := KProbe; c_sig := sg; c_allow := []; c_deny := []; c_method := false |} in
  let cfg := [(("", "m.f"), [("a", VObj "o")])] in
  representable (VObj "o") = false /\
  prep_operative c [] [] (prep_bindings cfg [] c [] []) = [("a", VObj "o")].
Proof. vm_compute. split; reflexivity. Qed.

(* (3) the replayed keyword dict is in general LARGER than the original one (the recorded defaults are passed
       explicitly), so final_kwargs are not equal; only the environment built by Python's binding is *)
Example replay_final_kwargs_differ :
  let sg := {| s_args := ["a"; "b"]; s_defaults := [VInt 7]; s_varargs := false; s_kwonly := []; s_varkw := false |} in
  let c := {| c_sel := "m.f"; c_kind := KProbe; c_sig := sg; c_allow := []; c_deny := []; c_method := false |} in
  let cfg := [(("", "m.f"), [("a", VInt 1)])] in
  let d := prep_operative c [] [] (prep_bindings cfg [] c [] []) in
  let cfg' := [(("", "m.f"), d)] in
  merge_call c [] [] (prep_bindings cfg [] c [] []) = Ok ([], [("a", VInt 1)]) /\
  merge_call c [] [] (prep_bindings cfg' [] c [] []) = Ok ([], [("b", VInt 7); ("a", VInt 1)]) /\
  py_bind sg [] [("a", VInt 1)] = Some [("a", VInt 1); ("b", VInt 7)] /\
  py_bind sg [] [("b", VInt 7); ("a", VInt 1)] = Some [("a", VInt 1); ("b", VInt 7)].
Proof. vm_compute. repeat split; reflexivity. Qed.

Print Assumptions eval_ref_free_at.
Print Assumptions eval_ref_free.
Print Assumptions eval_ref_free_at_state.
Print Assumptions C07_call_operative_exact.
Print Assumptions C07_call_operative_exact_section.
Print Assumptions C07_changed_section_was_entered.
Print Assumptions C07_unentered_section_untouched.
Print Assumptions C07_entered_section_exists.
Print Assumptions C07_changed_section_was_entered_eval.
Print Assumptions C07_entered_section_exists_eval.
Print Assumptions C07_changed_section_was_entered_handle.
Print Assumptions C07_entered_section_exists_handle.
Print Assumptions call_keys_ref_free.
Print Assumptions call_keys_example.
Print Assumptions C07_replay_one_call.
Print Assumptions C07_replay_call_tail.
Print Assumptions C07_record_reproduces.
Print Assumptions C07_record_reproduces_keys.
Print Assumptions C07_replay_store_exists.
Print Assumptions C07_replay_from_cleared_store.
Print Assumptions C07_replay_probe_call.
Print Assumptions replay_of_failed_call_can_succeed.
Print Assumptions unrepresentable_binding_is_recorded.
Print Assumptions replay_final_kwargs_differ.
