(* C07, continued: (A) the operative record gets a section for EXACTLY the (scope, configurable) pairs that were
   called; (B) replaying one call from what it recorded hands the function the same arguments.
   Axiom-free, stdlib only.  Builds on MacroOperProofs.v. *)
From Coq Require Import List String ZArith Bool Arith Lia.
From GinV Require Import Lib.Out Lib.PyStr Model.SelectorMap Model.Values Model.Gin Model.GinEngine Model.CallSpec
                         Proofs.CallLemmas Proofs.CallProofs Proofs.MachineFrame Proofs.MachineProofs
                         Proofs.MacroOperProofs.
Import ListNotations.
Open Scope string_scope.
Open Scope list_scope.

(* ================================================================== *)
(* reference-free values evaluate to themselves                        *)
(* ================================================================== *)
(* [ref_free_at n v]: v contains no reference / macro / unknown reference and nests containers less than n deep
   (n = the fuel with which v is evaluated) *)
Fixpoint ref_free_at (n : nat) (v : value) : bool :=
  match n with
  | O => false
  | S m =>
      match v with
      | VList l | VTuple l => forallb (ref_free_at m) l
      | VDict l => forallb (fun kv => ref_free_at m (fst kv) && ref_free_at m (snd kv)) l
      | VRef _ _ _ | VMacro _ | VUnk _ _ => false
      | _ => true
      end
  end.

(* the fuel-free reading: no reference anywhere, and the nesting depth *)
Fixpoint ref_free (v : value) : bool :=
  match v with
  | VList l | VTuple l => forallb ref_free l
  | VDict l => forallb (fun kv => ref_free (fst kv) && ref_free (snd kv)) l
  | VRef _ _ _ | VMacro _ | VUnk _ _ => false
  | _ => true
  end.
Fixpoint vdepth (v : value) : nat :=
  match v with
  | VList l | VTuple l => S (list_max (map vdepth l))
  | VDict l => S (list_max (map (fun kv => Nat.max (vdepth (fst kv)) (vdepth (snd kv))) l))
  | _ => 0
  end.

Lemma forallb_ext_in : forall {A} (f g : A -> bool) l, (forall x, In x l -> f x = g x) -> forallb f l = forallb g l.
Proof.
  intros A f g l. induction l as [|x t IH]; intros H; [reflexivity|].
  cbn [forallb]. rewrite (H x (or_introl eq_refl)), IH; [reflexivity|]. intros y Hy. apply H. right; exact Hy.
Qed.

Lemma forallb_impl_in : forall {A} (f g : A -> bool) l, (forall x, In x l -> f x = true -> g x = true) ->
  forallb f l = true -> forallb g l = true.
Proof.
  intros A f g l H Hf. rewrite forallb_forall in *. intros x Hx. apply H; [exact Hx|apply Hf; exact Hx].
Qed.

Lemma ref_free_at_mono : forall n v, ref_free_at n v = true -> ref_free_at (S n) v = true.
Proof.
  induction n as [|n IH]; intros v H; [discriminate|].
  destruct v; try exact H; try reflexivity.
  - cbn [ref_free_at] in H. change (forallb (ref_free_at (S n)) l = true).
    eapply forallb_impl_in; [|exact H]. intros x _. apply IH.
  - cbn [ref_free_at] in H. change (forallb (ref_free_at (S n)) l = true).
    eapply forallb_impl_in; [|exact H]. intros x _. apply IH.
  - cbn [ref_free_at] in H.
    change (forallb (fun kv => ref_free_at (S n) (fst kv) && ref_free_at (S n) (snd kv)) l = true).
    eapply forallb_impl_in; [|exact H]. intros [k x] _ Hk. cbn [fst snd] in *.
    apply andb_true_iff in Hk. destruct Hk as [H1 H2]. rewrite (IH _ H1), (IH _ H2). reflexivity.
Qed.

Lemma ref_free_at_le : forall n m v, n <= m -> ref_free_at n v = true -> ref_free_at m v = true.
Proof. intros n m v Hle. induction Hle as [|m Hle IH]; intros H; [exact H|]. apply ref_free_at_mono, IH, H. Qed.

Lemma list_max_lt : forall l n, 0 < n -> (list_max l < n <-> Forall (fun k => k < n) l).
Proof.
  intros l n Hn. induction l as [|a l IH]; simpl.
  - split; [constructor|intros _; exact Hn].
  - split.
    + intros H. constructor; [lia|]. apply IH. lia.
    + intros H. inversion H as [|x y Ha Hl]; subst. apply IH in Hl. lia.
Qed.

Theorem ref_free_at_of_ref_free : forall v n, ref_free v = true -> vdepth v < n -> ref_free_at n v = true.
Proof.
  intro v. induction v as [l IH|l IH|l IH|v Hv] using value_ind_nested; intros n Hr Hd.
  - destruct n as [|n]; [lia|]. cbn [ref_free_at]. cbn [ref_free] in Hr. cbn [vdepth] in Hd.
    assert (Hd' : list_max (map vdepth l) < S n) by lia. clear Hd.
    destruct n as [|n].
    { destruct l as [|x t]; [reflexivity|]. exfalso. simpl in Hd'. lia. }
    assert (Hd : list_max (map vdepth l) < S n) by lia. clear Hd'.
    apply list_max_lt in Hd; [|lia]. rewrite Forall_map in Hd.
    apply forallb_forall. intros x Hx. rewrite Forall_forall in IH, Hd. rewrite forallb_forall in Hr.
    apply IH; auto.
  - destruct n as [|n]; [lia|]. cbn [ref_free_at]. cbn [ref_free] in Hr. cbn [vdepth] in Hd.
    destruct n as [|n].
    { destruct l as [|x t]; [reflexivity|]. exfalso. simpl in Hd. lia. }
    assert (Hd' : list_max (map vdepth l) < S n) by lia. clear Hd.
    apply list_max_lt in Hd'; [|lia]. rewrite Forall_map in Hd'.
    apply forallb_forall. intros x Hx. rewrite Forall_forall in IH, Hd'. rewrite forallb_forall in Hr.
    apply IH; auto.
  - destruct n as [|n]; [lia|]. cbn [ref_free_at]. cbn [ref_free] in Hr. cbn [vdepth] in Hd.
    destruct n as [|n].
    { destruct l as [|x t]; [reflexivity|]. exfalso. simpl in Hd. lia. }
    assert (Hd' : list_max (map (fun kv => Nat.max (vdepth (fst kv)) (vdepth (snd kv))) l) < S n) by lia. clear Hd.
    apply list_max_lt in Hd'; [|lia]. rewrite Forall_map in Hd'.
    apply forallb_forall. intros [k x] Hx. rewrite Forall_forall in IH, Hd'. rewrite forallb_forall in Hr.
    pose proof (IH _ Hx) as [I1 I2]. pose proof (Hd' _ Hx) as D. pose proof (Hr _ Hx) as R.
    cbn [fst snd] in *. apply andb_true_iff in R. destruct R as [R1 R2].
    rewrite (I1 (S n) R1), (I2 (S n) R2) by lia. reflexivity.
  - destruct n as [|n]; [lia|]. destruct v; try contradiction; try discriminate; reflexivity.
Qed.

(* ---- identity loops ---- *)
Lemma go_list_id : forall (ev : evaluator) s l, (forall x, In x l -> ev s x = (s, Ok x)) -> go_list ev s l = (s, Ok l).
Proof.
  intros ev s l. induction l as [|x t IH]; intros H; [reflexivity|].
  rewrite go_list_cons, (H x (or_introl eq_refl)), IH; [reflexivity|]. intros y Hy. apply H. right; exact Hy.
Qed.
Lemma go_dict_id : forall (ev : evaluator) s l,
  (forall k x, In (k, x) l -> ev s k = (s, Ok k) /\ ev s x = (s, Ok x)) -> go_dict ev s l = (s, Ok l).
Proof.
  intros ev s l. induction l as [|[k x] t IH]; intros H; [reflexivity|].
  destruct (H k x (or_introl eq_refl)) as [H1 H2].
  rewrite go_dict_cons, H1, H2, IH; [reflexivity|]. intros k' x' Hy. apply H. right; exact Hy.
Qed.
Lemma go_kw_id : forall (ev : evaluator) s (l : pdict), (forall k x, In (k, x) l -> ev s x = (s, Ok x)) ->
  go_kw ev s l = (s, Ok l).
Proof.
  intros ev s l. induction l as [|[k x] t IH]; intros H; [reflexivity|].
  rewrite go_kw_cons, (H k x (or_introl eq_refl)), IH; [reflexivity|]. intros k' x' Hy. eapply H. right; exact Hy.
Qed.

Theorem eval_ref_free_at : forall n s v, ref_free_at n v = true -> eval n s v = (s, Ok v).
Proof.
  induction n as [|n IH]; intros s v H; [discriminate|].
  destruct v; try discriminate; try reflexivity.
  - cbn [ref_free_at] in H. rewrite forallb_forall in H.
    rewrite eval_VList, go_list_id; [reflexivity|]. intros x Hx. apply IH, H, Hx.
  - cbn [ref_free_at] in H. rewrite forallb_forall in H.
    rewrite eval_VTuple, go_list_id; [reflexivity|]. intros x Hx. apply IH, H, Hx.
  - cbn [ref_free_at] in H. rewrite forallb_forall in H.
    rewrite eval_VDict, go_dict_id; [reflexivity|]. intros k x Hx. specialize (H _ Hx). cbn [fst snd] in H.
    apply andb_true_iff in H. destruct H as [H1 H2]. split; apply IH; assumption.
Qed.

Corollary eval_ref_free : forall n s v, ref_free v = true -> vdepth v < n -> eval n s v = (s, Ok v).
Proof. intros n s v Hr Hd. apply eval_ref_free_at. apply ref_free_at_of_ref_free; assumption. Qed.

(* ================================================================== *)
(* (A1) a call whose applicable bindings hold no reference writes       *)
(*      exactly one section                                             *)
(* ================================================================== *)
Lemma call_ref_free_unfold : forall f s sel args kwargs c, lookup_sel s sel = Some c ->
  existsb is_req (skipn (List.length (supplied_positional_names (c_sig c) args)) args) = false ->
  (forall k v, In (k, v) (prep_bindings (config s) (current_scope s) c args kwargs) -> ref_free_at f v = true) ->
  call (S f) s sel args kwargs =
  call_tail f c sel (scope_str (current_scope s)) args kwargs
    (oper_update s (scope_str (current_scope s), sel)
       (prep_operative c args kwargs (prep_bindings (config s) (current_scope s) c args kwargs)))
    (Ok (prep_bindings (config s) (current_scope s) c args kwargs)).
Proof.
  intros f s sel args kwargs c Hl Hreq Hrf. rewrite call_S, Hl, Hreq. cbv zeta.
  rewrite go_kw_id; [reflexivity|]. intros k x Hx. apply eval_ref_free_at. eapply Hrf; exact Hx.
Qed.

Theorem C07_call_operative_exact : forall f s sel args kwargs s' r c, lookup_sel s sel = Some c ->
  c_kind c <> KSingleton ->
  existsb is_req (skipn (List.length (supplied_positional_names (c_sig c) args)) args) = false ->
  (forall k v, In (k, v) (prep_bindings (config s) (current_scope s) c args kwargs) -> ref_free_at f v = true) ->
  call (S f) s sel args kwargs = (s', r) ->
  operative s' = operative (oper_update s (scope_str (current_scope s), sel)
                   (prep_operative c args kwargs (prep_bindings (config s) (current_scope s) c args kwargs))).
Proof.
  intros f s sel args kwargs s' r c Hl Hk Hreq Hrf H.
  rewrite (call_ref_free_unfold f s sel args kwargs c Hl Hreq Hrf) in H. unfold call_tail in H.
  destruct (merge_call c args kwargs _) as [[new_args final_kwargs]|e]; [|inversion H; reflexivity].
  destruct (py_bind (c_sig c) new_args final_kwargs) as [env|]; [|inversion H; reflexivity].
  destruct (c_kind c); try contradiction.
  - inversion H; reflexivity.
  - inversion H; reflexivity.
  - destruct (fget _ _); inversion H; reflexivity.
Qed.

(* the section written, explicitly *)
Corollary C07_call_operative_exact_section : forall f s sel args kwargs s' r c k, lookup_sel s sel = Some c ->
  c_kind c <> KSingleton ->
  existsb is_req (skipn (List.length (supplied_positional_names (c_sig c) args)) args) = false ->
  (forall k v, In (k, v) (prep_bindings (config s) (current_scope s) c args kwargs) -> ref_free_at f v = true) ->
  call (S f) s sel args kwargs = (s', r) ->
  cget k (operative s') =
  if ckey_eqb k (scope_str (current_scope s), sel)
  then Some (supdate (match cget (scope_str (current_scope s), sel) (operative s) with Some d => d | None => [] end)
                     (prep_operative c args kwargs (prep_bindings (config s) (current_scope s) c args kwargs)))
  else cget k (operative s).
Proof.
  intros f s sel args kwargs s' r c k Hl Hk Hreq Hrf H.
  rewrite (C07_call_operative_exact f s sel args kwargs s' r c Hl Hk Hreq Hrf H).
  destruct (ckey_eqb_spec k (scope_str (current_scope s), sel)) as [->|N].
  - apply C07_oper_update_get.
  - apply C07_oper_update_other. destruct (ckey_eqb_spec k (scope_str (current_scope s), sel)); [contradiction|reflexivity].
Qed.
