(* C02 completeness: every literal tree of the grammar, rendered in every layout,
   parses to exactly Python's value, consuming exactly its own tokens. *)
From Coq Require Import List String ZArith Bool Arith Lia Ascii.
From GinV Require Import Lib.Out Lib.PyStr Model.Parser Model.ParserSpec.
From GinV Require Import Proofs.ParserLemmas Proofs.ParserSmall.
Import ListNotations. Open Scope string_scope. Open Scope list_scope.

(* ------------------------------------------------------------------ *)
(* nested induction principle for lit *)
Section LitInd.
  Variable P : lit -> Prop.
  Hypothesis HBasic : forall neg t, P (LBasic neg t).
  Hypothesis HStrs : forall ts, P (LStrs ts).
  Hypothesis HList : forall items trailing, Forall P items -> P (LList items trailing).
  Hypothesis HTuple : forall items trailing, Forall P items -> P (LTuple items trailing).
  Hypothesis HParen : forall x, P x -> P (LParen x).
  Hypothesis HDict : forall items trailing,
    Forall (fun kv => P (fst kv) /\ P (snd kv)) items -> P (LDict items trailing).

  Fixpoint lit_ind' (l : lit) : P l :=
    match l with
    | LBasic neg t => HBasic neg t
    | LStrs ts => HStrs ts
    | LList items trailing =>
        HList items trailing
          ((fix go (items : list lit) : Forall P items :=
              match items with
              | [] => Forall_nil P
              | x :: r => Forall_cons x (lit_ind' x) (go r)
              end) items)
    | LTuple items trailing =>
        HTuple items trailing
          ((fix go (items : list lit) : Forall P items :=
              match items with
              | [] => Forall_nil P
              | x :: r => Forall_cons x (lit_ind' x) (go r)
              end) items)
    | LParen x => HParen x (lit_ind' x)
    | LDict items trailing =>
        HDict items trailing
          ((fix go (items : list (lit * lit)) : Forall (fun kv => P (fst kv) /\ P (snd kv)) items :=
              match items with
              | [] => Forall_nil _
              | (k, v) :: r => Forall_cons (k, v) (conj (lit_ind' k) (lit_ind' v)) (go r)
              end) items)
    end.
End LitInd.

(* ------------------------------------------------------------------ *)
(* the inner fixes of render / py_eval / lit_wf as top-level functions *)
Fixpoint render_items (lay : layout) (trailing : bool) (items : list lit) (n : nat) : list token * nat :=
  match items with
  | [] => ([], n)
  | [x] => let '(tx, n1) := render x lay n true in
           (tx ++ (if trailing then [op_tok ","] ++ lay n1 else []), S n1)
  | x :: r => let '(tx, n1) := render x lay n true in
              let '(rest, n2) := render_items lay trailing r (S n1) in
              (tx ++ [op_tok ","] ++ lay n1 ++ rest, n2)
  end.

Fixpoint render_ditems (lay : layout) (trailing : bool) (items : list (lit * lit)) (n : nat) : list token * nat :=
  match items with
  | [] => ([], n)
  | (k, v) :: r =>
      let '(tk, n1) := render k lay n true in
      let '(tv, n2) := render v lay (S n1) true in
      let item := tk ++ [op_tok ":"] ++ lay n1 ++ tv in
      match r with
      | [] => (item ++ (if trailing then [op_tok ","] ++ lay n2 else []), S n2)
      | _ => let '(rest, n3) := render_ditems lay trailing r (S n2) in (item ++ [op_tok ","] ++ lay n2 ++ rest, n3)
      end
  end.

Fixpoint eval_items (o : oracle) (items : list lit) : option (list out) :=
  match items with
  | [] => Some []
  | x :: r => match py_eval o x, eval_items o r with Some v, Some vs => Some (v :: vs) | _, _ => None end
  end.
Fixpoint eval_ditems (o : oracle) (items : list (lit * lit)) : option (list (out * out)) :=
  match items with
  | [] => Some []
  | (k, v) :: r =>
      match py_eval o k, py_eval o v, eval_ditems o r with
      | Some a, Some b, Some rest => Some ((a, b) :: rest) | _, _, _ => None end
  end.

Lemma render_LList : forall items trailing lay n inside,
  render (LList items trailing) lay n inside =
  let '(body, n1) := render_items lay trailing items (S n) in
  ([op_tok "["] ++ lay n ++ body ++ [op_tok "]"] ++ (if inside then lay n1 else []), S n1).
Proof.
  intros items trailing lay n inside. cbn [render].
  match goal with |- context [?F items (S n)] =>
    assert (E : forall m, F items m = render_items lay trailing items m) end.
  { induction items as [|x r IH]; intro m; [reflexivity|].
    cbn [render_items]. destruct (render x lay m true) as [tx n1].
    destruct r as [|y r']; [reflexivity|]. rewrite IH. reflexivity. }
  rewrite E. reflexivity.
Qed.

Lemma render_LTuple : forall items trailing lay n inside,
  render (LTuple items trailing) lay n inside =
  let '(body, n1) := render_items lay trailing items (S n) in
  ([op_tok "("] ++ lay n ++ body ++ [op_tok ")"] ++ (if inside then lay n1 else []), S n1).
Proof.
  intros items trailing lay n inside. cbn [render].
  match goal with |- context [?F items (S n)] =>
    assert (E : forall m, F items m = render_items lay trailing items m) end.
  { induction items as [|x r IH]; intro m; [reflexivity|].
    cbn [render_items]. destruct (render x lay m true) as [tx n1].
    destruct r as [|y r']; [reflexivity|]. rewrite IH. reflexivity. }
  rewrite E. reflexivity.
Qed.

Lemma render_LDict : forall items trailing lay n inside,
  render (LDict items trailing) lay n inside =
  let '(body, n1) := render_ditems lay trailing items (S n) in
  ([op_tok "{"] ++ lay n ++ body ++ [op_tok "}"] ++ (if inside then lay n1 else []), S n1).
Proof.
  intros items trailing lay n inside. cbn [render].
  match goal with |- context [?F items (S n)] =>
    assert (E : forall m, F items m = render_ditems lay trailing items m) end.
  { induction items as [|[k v] r IH]; intro m; [reflexivity|].
    cbn [render_ditems]. destruct (render k lay m true) as [tk n1].
    destruct (render v lay (S n1) true) as [tv n2].
    destruct r as [|y r']; [reflexivity|]. rewrite IH. reflexivity. }
  rewrite E. reflexivity.
Qed.

Lemma render_LParen : forall x lay n inside,
  render (LParen x) lay n inside =
  let '(tx, n1) := render x lay (S n) true in
  ([op_tok "("] ++ lay n ++ tx ++ [op_tok ")"] ++ (if inside then lay n1 else []), S n1).
Proof. reflexivity. Qed.

Lemma py_eval_LList : forall o items trailing,
  py_eval o (LList items trailing) =
  match eval_items o items with Some vs => Some (OT "L" vs) | None => None end.
Proof.
  intros o items trailing. cbn [py_eval].
  match goal with |- context [?F items] =>
    assert (E : F items = eval_items o items) end.
  { induction items as [|x r IH]; [reflexivity|]. cbn [eval_items]. rewrite <- IH. reflexivity. }
  rewrite E. reflexivity.
Qed.
Lemma py_eval_LTuple : forall o items trailing,
  py_eval o (LTuple items trailing) =
  match eval_items o items with Some vs => Some (OT "T" vs) | None => None end.
Proof.
  intros o items trailing. cbn [py_eval].
  match goal with |- context [?F items] =>
    assert (E : F items = eval_items o items) end.
  { induction items as [|x r IH]; [reflexivity|]. cbn [eval_items]. rewrite <- IH. reflexivity. }
  rewrite E. reflexivity.
Qed.
Lemma py_eval_LDict : forall o items trailing,
  py_eval o (LDict items trailing) =
  match eval_ditems o items with
  | Some kvs => if keys_hashable kvs then Some (build_dict kvs) else None
  | None => None
  end.
Proof.
  intros o items trailing. cbn [py_eval].
  match goal with |- context [?F items] =>
    assert (E : F items = eval_ditems o items) end.
  { induction items as [|[k v] r IH]; [reflexivity|]. cbn [eval_ditems]. rewrite <- IH. reflexivity. }
  rewrite E. reflexivity.
Qed.

Lemma lit_wf_LList : forall o items trailing,
  lit_wf o (LList items trailing) -> Forall (lit_wf o) items.
Proof.
  intros o items trailing. cbn [lit_wf].
  induction items as [|x r IH]; intro H; [constructor|].
  destruct H as [Hx Hr]. constructor; [exact Hx | exact (IH Hr)].
Qed.
Lemma lit_wf_LTuple : forall o items trailing,
  lit_wf o (LTuple items trailing) ->
  (List.length items = 1 -> trailing = true) /\ Forall (lit_wf o) items.
Proof.
  intros o items trailing. cbn [lit_wf]. intros [H1 [_ H]]. split; [exact H1|]. clear H1.
  induction items as [|x r IH]; [constructor|].
  destruct H as [Hx Hr]. constructor; [exact Hx | exact (IH Hr)].
Qed.
Lemma lit_wf_LDict : forall o items trailing,
  lit_wf o (LDict items trailing) ->
  Forall (fun kv => lit_wf o (fst kv) /\ lit_wf o (snd kv)) items.
Proof.
  intros o items trailing. cbn [lit_wf].
  induction items as [|[k v] r IH]; intro H; [constructor|].
  destruct H as [Hk [Hv Hr]]. constructor; [split; assumption | exact (IH Hr)].
Qed.

(* ------------------------------------------------------------------ *)
(* side condition on atom tokens; first tokens of renderings *)

(* NAME / NUMBER / STRING tokens never spell a bracket, "-" or nothing *)
Definition tok_ok (t : token) : Prop :=
  (ty t = NAME \/ ty t = NUMBER \/ ty t = STRING) -> text_ok (text t).

Definition is_close (s : string) : Prop := s = "]" \/ s = ")" \/ s = "}".
Definition start_tok (t : token) : Prop :=
  (ty t = NAME \/ ty t = NUMBER \/ ty t = STRING \/ ty t = OP) /\ ~ is_close (text t).

Lemma start_solid : forall t, start_tok t -> solid t.
Proof. intros t [H _]. unfold solid. tauto. Qed.

Lemma cur_is_op : forall s R s', cur_is (op_tok s :: R) s' = String.eqb s s'.
Proof. reflexivity. Qed.
Lemma cur_is_cons : forall t R s, cur_is (t :: R) s = String.eqb (text t) s.
Proof. reflexivity. Qed.

Lemma start_not_close : forall t R close, start_tok t -> is_close close -> cur_is (t :: R) close = false.
Proof.
  intros t R close [_ H] Hc. rewrite cur_is_cons. destruct (String.eqb_spec (text t) close) as [E|E]; [|reflexivity].
  exfalso. apply H. rewrite E. exact Hc.
Qed.

Lemma op_solid : forall s, solid (op_tok s).
Proof. intro s. unfold solid. cbn. tauto. Qed.
Lemma op_follow : forall s R, follows (op_tok s :: R).
Proof. intros s R. exists (op_tok s), R. split; [reflexivity|]. left. reflexivity. Qed.

Lemma op_start : forall s, ~ is_close s -> start_tok (op_tok s).
Proof. intros s H. split; [cbn; tauto | exact H]. Qed.

Lemma not_close_open : forall s, s = "[" \/ s = "(" \/ s = "{" \/ s = "-" -> ~ is_close s.
Proof. intros s H C. unfold is_close in C. decompose [or] H; subst s; decompose [or] C; discriminate. Qed.

Lemma text_ok_start : forall t, (ty t = NAME \/ ty t = NUMBER \/ ty t = STRING) -> tok_ok t -> start_tok t.
Proof.
  intros t Hty Hok. destruct (Hok Hty) as [_ [_ [_ [H1 [H2 H3]]]]]. split; [tauto|].
  intros [C|[C|C]]; congruence.
Qed.

Lemma trin_trivia : forall lay (inside : bool) k, lay_ok lay -> Forall trivia_tok (if inside then lay k else []).
Proof. intros lay inside k H. destruct inside; [apply H | constructor]. Qed.

Lemma render_first : forall o l lay n inside toks n',
  lit_wf o l -> render l lay n inside = (toks, n') -> Forall tok_ok toks ->
  exists t0 toks', toks = t0 :: toks' /\ start_tok t0.
Proof.
  intros o l lay n inside toks n' Hwf Hr Hok.
  destruct l as [neg t|ts|items trailing|items trailing|x|items trailing].
  - cbn [render] in Hr. injection Hr as <- <-. cbn [lit_wf] in Hwf. destruct Hwf as [Hty _].
    destruct neg; cbn [app] in *.
    + eexists _, _. split; [reflexivity|]. apply op_start. apply not_close_open. tauto.
    + eexists _, _. split; [reflexivity|]. apply text_ok_start; [tauto|]. exact (Forall_inv Hok).
  - rewrite render_LStrs in Hr. cbn [lit_wf] in Hwf. destruct Hwf as [Hne [Hstr _]].
    destruct ts as [|t more]; [congruence|].
    apply render_strs_cons in Hr. destruct Hr as [toks1 [_ ->]].
    eexists _, _. split; [reflexivity|]. apply text_ok_start; [|exact (Forall_inv Hok)].
    right; right. exact (Forall_inv Hstr).
  - rewrite render_LList in Hr. destruct (render_items lay trailing items (S n)) as [body n1].
    injection Hr as <- <-. cbn [app]. eexists _, _. split; [reflexivity|].
    apply op_start. apply not_close_open. tauto.
  - rewrite render_LTuple in Hr. destruct (render_items lay trailing items (S n)) as [body n1].
    injection Hr as <- <-. cbn [app]. eexists _, _. split; [reflexivity|].
    apply op_start. apply not_close_open. tauto.
  - rewrite render_LParen in Hr. destruct (render x lay (S n) true) as [tx n1].
    injection Hr as <- <-. cbn [app]. eexists _, _. split; [reflexivity|].
    apply op_start. apply not_close_open. tauto.
  - rewrite render_LDict in Hr. destruct (render_ditems lay trailing items (S n)) as [body n1].
    injection Hr as <- <-. cbn [app]. eexists _, _. split; [reflexivity|].
    apply op_start. apply not_close_open. tauto.
Qed.

(* inversion of the item renderers *)
Lemma render_items_cons : forall lay trailing x r n body n1,
  render_items lay trailing (x :: r) n = (body, n1) ->
  exists tx nx, render x lay n true = (tx, nx) /\
    ((r = [] /\ body = tx ++ (if trailing then op_tok "," :: lay nx else []) /\ n1 = S nx) \/
     (r <> [] /\ exists rb, render_items lay trailing r (S nx) = (rb, n1) /\
                            body = tx ++ op_tok "," :: lay nx ++ rb)).
Proof.
  intros lay trailing x r n body n1 H. cbn [render_items] in H.
  destruct (render x lay n true) as [tx nx]. exists tx, nx. split; [reflexivity|].
  destruct r as [|y r'].
  - left. injection H as <- <-. repeat split.
  - right. split; [discriminate|].
    destruct (render_items lay trailing (y :: r') (S nx)) as [rb n2].
    injection H as <- <-. exists rb. split; reflexivity.
Qed.

Lemma render_ditems_cons : forall lay trailing k v r n body n3,
  render_ditems lay trailing ((k, v) :: r) n = (body, n3) ->
  exists tk n1 tv n2, render k lay n true = (tk, n1) /\ render v lay (S n1) true = (tv, n2) /\
    ((r = [] /\ body = (tk ++ op_tok ":" :: lay n1 ++ tv) ++ (if trailing then op_tok "," :: lay n2 else []) /\ n3 = S n2) \/
     (r <> [] /\ exists rb, render_ditems lay trailing r (S n2) = (rb, n3) /\
                            body = (tk ++ op_tok ":" :: lay n1 ++ tv) ++ op_tok "," :: lay n2 ++ rb)).
Proof.
  intros lay trailing k v r n body n3 H. cbn [render_ditems] in H.
  destruct (render k lay n true) as [tk n1]. destruct (render v lay (S n1) true) as [tv n2] eqn:Ev.
  exists tk, n1, tv, n2. split; [reflexivity|]. split; [exact Ev|].
  destruct r as [|y r'].
  - left. injection H as <- <-. repeat split.
  - right. split; [discriminate|].
    destruct (render_ditems lay trailing (y :: r') (S n2)) as [rb n4].
    injection H as <- <-. exists rb. split; reflexivity.
Qed.

(* shape of an item-list body: empty, or starting with a start token *)
Definition body_shape (body : list token) : Prop :=
  body = [] \/ exists t0 b', body = t0 :: b' /\ start_tok t0.

Lemma render_items_shape : forall o lay trailing items n body n1,
  Forall (lit_wf o) items -> render_items lay trailing items n = (body, n1) -> Forall tok_ok body ->
  (items = [] /\ body = []) \/ (items <> [] /\ exists t0 b', body = t0 :: b' /\ start_tok t0).
Proof.
  intros o lay trailing items n body n1 Hwf Hr Hok. destruct items as [|x r].
  - left. cbn [render_items] in Hr. injection Hr as <- <-. split; reflexivity.
  - right. split; [discriminate|].
    destruct (render_items_cons _ _ _ _ _ _ _ Hr) as [tx [nx [Hrx Hc]]].
    assert (Hb : exists tl, body = tx ++ tl).
    { destruct Hc as [[_ [-> _]]|[_ [rb [_ ->]]]]; eexists; reflexivity. }
    destruct Hb as [tl ->]. apply Forall_app in Hok. destruct Hok as [Hok _].
    destruct (render_first _ _ _ _ _ _ _ (Forall_inv Hwf) Hrx Hok) as [t0 [tx' [-> Hs]]].
    exists t0, (tx' ++ tl). split; [reflexivity | exact Hs].
Qed.

Lemma render_ditems_shape : forall o lay trailing items n body n1,
  Forall (fun kv => lit_wf o (fst kv) /\ lit_wf o (snd kv)) items ->
  render_ditems lay trailing items n = (body, n1) -> Forall tok_ok body ->
  (items = [] /\ body = []) \/ (items <> [] /\ exists t0 b', body = t0 :: b' /\ start_tok t0).
Proof.
  intros o lay trailing items n body n1 Hwf Hr Hok. destruct items as [|[k v] r].
  - left. cbn [render_ditems] in Hr. injection Hr as <- <-. split; reflexivity.
  - right. split; [discriminate|].
    destruct (render_ditems_cons _ _ _ _ _ _ _ _ Hr) as [tk [n2 [tv [n3 [Hrk [Hrv Hc]]]]]].
    assert (Hb : exists tl, body = tk ++ tl).
    { destruct Hc as [[_ [-> _]]|[_ [rb [_ ->]]]]; rewrite <- app_assoc; eexists; reflexivity. }
    destruct Hb as [tl ->]. apply Forall_app in Hok. destruct Hok as [Hok _].
    destruct (Forall_inv Hwf) as [Hwk _]. cbn [fst] in Hwk.
    destruct (render_first _ _ _ _ _ _ _ Hwk Hrk Hok) as [t0 [tk' [-> Hs]]].
    exists t0, (tk' ++ tl). split; [reflexivity | exact Hs].
Qed.

Lemma render_items_length : forall o lay trailing items n body n1,
  Forall (lit_wf o) items -> render_items lay trailing items n = (body, n1) -> Forall tok_ok body ->
  List.length items <= List.length body.
Proof.
  intros o lay trailing items. induction items as [|x r IH]; intros n body n1 Hwf Hr Hok.
  - cbn; lia.
  - destruct (render_items_cons _ _ _ _ _ _ _ Hr) as [tx [nx [Hrx Hc]]].
    pose proof (Forall_inv Hwf) as Hwx. pose proof (Forall_inv_tail Hwf) as Hwr.
    destruct Hc as [[-> [-> _]]|[_ [rb [Hrb ->]]]].
    + apply Forall_app in Hok. destruct Hok as [Hok _].
      destruct (render_first _ _ _ _ _ _ _ Hwx Hrx Hok) as [t0 [tx' [-> _]]].
      rewrite app_length. cbn [List.length]. lia.
    + apply Forall_app in Hok. destruct Hok as [Hok1 Hok2].
      apply Forall_inv_tail in Hok2. apply Forall_app in Hok2. destruct Hok2 as [_ Hok2].
      destruct (render_first _ _ _ _ _ _ _ Hwx Hrx Hok1) as [t0 [tx' [-> _]]].
      pose proof (IH _ _ _ Hwr Hrb Hok2) as Hl.
      rewrite app_length. cbn [List.length]. rewrite app_length. lia.
Qed.

Lemma render_ditems_length : forall o lay trailing items n body n1,
  Forall (fun kv => lit_wf o (fst kv) /\ lit_wf o (snd kv)) items ->
  render_ditems lay trailing items n = (body, n1) -> Forall tok_ok body ->
  List.length items <= List.length body.
Proof.
  intros o lay trailing items. induction items as [|[k v] r IH]; intros n body n1 Hwf Hr Hok.
  - cbn; lia.
  - destruct (render_ditems_cons _ _ _ _ _ _ _ _ Hr) as [tk [n2 [tv [n3 [Hrk [Hrv Hc]]]]]].
    pose proof (Forall_inv_tail Hwf) as Hwr.
    destruct Hc as [[-> [-> _]]|[_ [rb [Hrb ->]]]].
    + rewrite !app_length. cbn [List.length]. lia.
    + apply Forall_app in Hok. destruct Hok as [_ Hok2].
      apply Forall_inv_tail in Hok2. apply Forall_app in Hok2. destruct Hok2 as [_ Hok2].
      pose proof (IH _ _ _ Hwr Hrb Hok2) as Hl.
      rewrite !app_length. cbn [List.length]. rewrite !app_length. lia.
Qed.

(* ------------------------------------------------------------------ *)
(* the statement proved by induction on the tree *)
Definition P (o : oracle) (l : lit) : Prop :=
  forall wb lay n inside toks n' v tr rest fuel,
    lay_ok lay -> lit_wf o l -> py_eval o l = Some v ->
    render l lay n inside = (toks, n') -> Forall tok_ok toks ->
    Forall trivia_tok tr -> follows rest -> List.length toks <= fuel ->
    parse_value fuel o wb (toks ++ tr ++ rest) = POk (v, rest).

Lemma P_use : forall o x wb lay n toks n' v rest f,
  P o x -> lay_ok lay -> lit_wf o x -> py_eval o x = Some v ->
  render x lay n true = (toks, n') -> Forall tok_ok toks -> follows rest -> List.length toks <= f ->
  parse_value f o wb (toks ++ rest) = POk (v, rest).
Proof.
  intros o x wb lay n toks n' v rest f HP Hlay Hwf Hev Hr Hok Hrest Hlen.
  exact (HP wb lay n true toks n' v [] rest f Hlay Hwf Hev Hr Hok (Forall_nil _) Hrest Hlen).
Qed.

Definition has_comma {A} (items : list A) (trailing : bool) : bool :=
  match items with [] => false | [_] => trailing | _ => true end.

Lemma close_not_comma : forall c, is_close c -> String.eqb c "," = false.
Proof. intros c [ -> | [ -> | -> ] ]; reflexivity. Qed.

Lemma pv_loop_done : forall f o wb close is_dict k R vals pairs sc,
  pv_loop f o wb close is_dict (S k) (op_tok close :: R) vals pairs sc
  = POk (vals, pairs, sc, op_tok close :: R).
Proof. intros. rewrite pv_loop_S. rewrite cur_is_op. rewrite String.eqb_refl. reflexivity. Qed.

Ltac norm := repeat first [ rewrite <- app_assoc | progress cbn [app] ].

Lemma loop_items : forall o f wb close lay trailing,
  lay_ok lay -> is_close close ->
  forall items, Forall (P o) items -> Forall (lit_wf o) items ->
  forall n body n1 vs R vals pairs sc fuel,
  eval_items o items = Some vs ->
  render_items lay trailing items n = (body, n1) ->
  Forall tok_ok body -> List.length body <= f -> List.length items < fuel ->
  pv_loop f o wb close false fuel (body ++ op_tok close :: R) vals pairs sc
  = POk (vals ++ vs, pairs, sc || has_comma items trailing, op_tok close :: R).
Proof.
  intros o f wb close lay trailing Hlay Hclose items HP.
  induction HP as [|x r HPx HPr IH]; intros Hwf n body n1 vs R vals pairs sc fuel Hev Hr Hok Hlen Hfuel.
  - cbn [render_items] in Hr. injection Hr as <- <-. cbn [eval_items] in Hev. injection Hev as <-.
    destruct fuel as [|k]; [cbn in Hfuel; lia|]. cbn [app]. rewrite pv_loop_done.
    rewrite app_nil_r. cbn [has_comma]. rewrite orb_false_r. reflexivity.
  - pose proof (Forall_inv Hwf) as Hwx. pose proof (Forall_inv_tail Hwf) as Hwr.
    cbn [eval_items] in Hev. destruct (py_eval o x) as [v0|] eqn:Ev0; [|discriminate].
    destruct (eval_items o r) as [vs'|] eqn:Evr; [|discriminate]. injection Hev as <-.
    destruct (render_items_cons _ _ _ _ _ _ _ Hr) as [tx [nx [Hrx Hc]]].
    destruct fuel as [|k]; [cbn in Hfuel; lia|]. cbn [List.length] in Hfuel.
    assert (Hb : exists tl, body = tx ++ tl)
      by (destruct Hc as [[_ [-> _]]|[_ [rb [_ ->]]]]; eexists; reflexivity).
    destruct Hb as [tl Eb].
    assert (Hoktx : Forall tok_ok tx) by (rewrite Eb in Hok; apply Forall_app in Hok; tauto).
    assert (Hlentx : List.length tx <= f) by (rewrite Eb in Hlen; rewrite app_length in Hlen; lia).
    destruct (render_first _ _ _ _ _ _ _ Hwx Hrx Hoktx) as [t0 [tx' [Etx Hs0]]].
    rewrite pv_loop_S.
    assert (Hnc : cur_is (body ++ op_tok close :: R) close = false).
    { rewrite Eb, Etx. cbn [app]. apply start_not_close; assumption. }
    rewrite Hnc. clear Hnc Eb tl.
    destruct Hc as [[-> [-> _]]|[Hrne [rb [Hrb ->]]]].
    + (* last item *)
      assert (Hk : exists k', k = S k') by (destruct k; [cbn in Hfuel; lia | eexists; reflexivity]).
      destruct Hk as [k' ->].
      cbn [eval_items] in Evr. injection Evr as <-.
      destruct trailing.
      * norm.
        rewrite (P_use o x wb lay n tx nx v0 (op_tok "," :: lay nx ++ op_tok close :: R) f
                   HPx Hlay Hwx Ev0 Hrx Hoktx (op_follow _ _) Hlentx).
        cbv beta match zeta. rewrite cur_is_op. rewrite String.eqb_refl.
        rewrite advance_solid; [| apply Hlay | apply op_solid].
        rewrite pv_loop_done. cbn [has_comma]. rewrite orb_true_r. reflexivity.
      * norm.
        rewrite (P_use o x wb lay n tx nx v0 (op_tok close :: R) f
                   HPx Hlay Hwx Ev0 Hrx Hoktx (op_follow _ _) Hlentx).
        cbv beta match zeta. rewrite !cur_is_op. rewrite (close_not_comma _ Hclose).
        rewrite String.eqb_refl. cbn [negb].
        rewrite pv_loop_done. cbn [has_comma]. rewrite orb_false_r. reflexivity.
    + (* more items follow *)
      apply Forall_app in Hok. destruct Hok as [_ Hok2].
      apply Forall_inv_tail in Hok2. apply Forall_app in Hok2. destruct Hok2 as [_ Hokrb].
      assert (Hlenrb : List.length rb <= f).
      { rewrite app_length in Hlen. cbn [List.length] in Hlen. rewrite app_length in Hlen. lia. }
      destruct (render_items_shape _ _ _ _ _ _ _ Hwr Hrb Hokrb) as [[E _]|[_ [t1 [b' [Erb Hs1]]]]];
        [congruence|].
      assert (Hadv : advance wb (op_tok "," :: lay nx ++ rb ++ op_tok close :: R)
                     = POk (rb ++ op_tok close :: R)).
      { rewrite Erb. cbn [app]. apply advance_solid; [apply Hlay | apply start_solid; exact Hs1]. }
      norm.
      rewrite (P_use o x wb lay n tx nx v0 (op_tok "," :: lay nx ++ rb ++ op_tok close :: R) f
                 HPx Hlay Hwx Ev0 Hrx Hoktx (op_follow _ _) Hlentx).
      cbv beta match zeta. rewrite cur_is_op. rewrite String.eqb_refl.
      rewrite Hadv.
      rewrite (IH Hwr (S nx) rb n1 vs' R (vals ++ [v0]) pairs true k eq_refl Hrb Hokrb Hlenrb ltac:(lia)).
      destruct r as [|y r']; [congruence|]. cbn [has_comma]. rewrite orb_true_r.
      rewrite <- app_assoc. reflexivity.
Qed.

Lemma close_brace : is_close "}".
Proof. right; right; reflexivity. Qed.

Lemma loop_ditems : forall o f wb lay trailing,
  lay_ok lay ->
  forall items, Forall (fun kv => P o (fst kv) /\ P o (snd kv)) items ->
  Forall (fun kv => lit_wf o (fst kv) /\ lit_wf o (snd kv)) items ->
  forall n body n1 kvs R vals pairs sc fuel,
  eval_ditems o items = Some kvs ->
  render_ditems lay trailing items n = (body, n1) ->
  Forall tok_ok body -> List.length body <= f -> List.length items < fuel ->
  pv_loop f o wb "}" true fuel (body ++ op_tok "}" :: R) vals pairs sc
  = POk (vals ++ map snd kvs, pairs ++ kvs, sc || has_comma items trailing, op_tok "}" :: R).
Proof.
  intros o f wb lay trailing Hlay items HP.
  induction HP as [|[k v] r HPx HPr IH]; intros Hwf n body n1 kvs R vals pairs sc fuel Hev Hr Hok Hlen Hfuel.
  - cbn [render_ditems] in Hr. injection Hr as <- <-. cbn [eval_ditems] in Hev. injection Hev as <-.
    destruct fuel as [|k]; [cbn in Hfuel; lia|]. cbn [app]. rewrite pv_loop_done.
    cbn [map]. rewrite !app_nil_r. cbn [has_comma]. rewrite orb_false_r. reflexivity.
  - destruct HPx as [HPk HPv]. cbn [fst snd] in HPk, HPv.
    destruct (Forall_inv Hwf) as [Hwk Hwv]. cbn [fst snd] in Hwk, Hwv.
    pose proof (Forall_inv_tail Hwf) as Hwr.
    cbn [eval_ditems] in Hev. destruct (py_eval o k) as [vk|] eqn:Evk; [|discriminate].
    destruct (py_eval o v) as [vv|] eqn:Evv; [|discriminate].
    destruct (eval_ditems o r) as [kvs'|] eqn:Evr; [|discriminate]. injection Hev as <-.
    destruct (render_ditems_cons _ _ _ _ _ _ _ _ Hr) as [tk [n2 [tv [n3 [Hrk [Hrv Hc]]]]]].
    destruct fuel as [|fu]; [cbn in Hfuel; lia|]. cbn [List.length] in Hfuel.
    assert (Hb : exists tl, body = (tk ++ op_tok ":" :: lay n2 ++ tv) ++ tl)
      by (destruct Hc as [[_ [-> _]]|[_ [rb [_ ->]]]]; eexists; reflexivity).
    destruct Hb as [tl Eb].
    assert (Hoktk : Forall tok_ok tk).
    { rewrite Eb in Hok. apply Forall_app in Hok. destruct Hok as [Hok _].
      apply Forall_app in Hok. tauto. }
    assert (Hoktv : Forall tok_ok tv).
    { rewrite Eb in Hok. apply Forall_app in Hok. destruct Hok as [Hok _].
      apply Forall_app in Hok. destruct Hok as [_ Hok]. apply Forall_inv_tail in Hok.
      apply Forall_app in Hok. tauto. }
    assert (Hlentk : List.length tk <= f /\ List.length tv <= f).
    { rewrite Eb in Hlen. rewrite !app_length in Hlen. cbn [List.length] in Hlen.
      rewrite app_length in Hlen. lia. }
    destruct Hlentk as [Hlentk Hlentv].
    destruct (render_first _ _ _ _ _ _ _ Hwk Hrk Hoktk) as [t0 [tk' [Etk Hs0]]].
    destruct (render_first _ _ _ _ _ _ _ Hwv Hrv Hoktv) as [t1 [tv' [Etv Hs1]]].
    rewrite pv_loop_S.
    assert (Hnc : cur_is (body ++ op_tok "}" :: R) "}" = false).
    { rewrite Eb, Etk. cbn [app]. apply start_not_close; [assumption | apply close_brace]. }
    rewrite Hnc. clear Hnc Eb tl.
    assert (Hadvv : forall Z, advance wb (op_tok ":" :: lay n2 ++ tv ++ Z) = POk (tv ++ Z)).
    { intro Z. rewrite Etv. cbn [app]. apply advance_solid; [apply Hlay | apply start_solid; exact Hs1]. }
    destruct Hc as [[-> [-> _]]|[Hrne [rb [Hrb ->]]]].
    + (* last item *)
      assert (Hk : exists k', fu = S k') by (destruct fu; [cbn in Hfuel; lia | eexists; reflexivity]).
      destruct Hk as [k' ->].
      cbn [eval_ditems] in Evr. injection Evr as <-.
      destruct trailing.
      * norm.
        rewrite (P_use o k wb lay n tk n2 vk
                   (op_tok ":" :: lay n2 ++ tv ++ op_tok "," :: lay n3 ++ op_tok "}" :: R) f
                   HPk Hlay Hwk Evk Hrk Hoktk (op_follow _ _) Hlentk).
        cbv beta match zeta. rewrite cur_is_op. rewrite String.eqb_refl. cbn [negb].
        rewrite Hadvv.
        rewrite (P_use o v wb lay (S n2) tv n3 vv (op_tok "," :: lay n3 ++ op_tok "}" :: R) f
                   HPv Hlay Hwv Evv Hrv Hoktv (op_follow _ _) Hlentv).
        cbv beta match zeta. rewrite cur_is_op. rewrite String.eqb_refl.
        rewrite advance_solid; [| apply Hlay | apply op_solid].
        rewrite pv_loop_done. cbn [has_comma map]. rewrite orb_true_r. reflexivity.
      * norm.
        rewrite (P_use o k wb lay n tk n2 vk
                   (op_tok ":" :: lay n2 ++ tv ++ op_tok "}" :: R) f
                   HPk Hlay Hwk Evk Hrk Hoktk (op_follow _ _) Hlentk).
        cbv beta match zeta. rewrite cur_is_op. rewrite String.eqb_refl. cbn [negb].
        rewrite Hadvv.
        rewrite (P_use o v wb lay (S n2) tv n3 vv (op_tok "}" :: R) f
                   HPv Hlay Hwv Evv Hrv Hoktv (op_follow _ _) Hlentv).
        cbv beta match zeta. rewrite !cur_is_op. rewrite (close_not_comma _ close_brace).
        rewrite String.eqb_refl. cbn [negb].
        rewrite pv_loop_done. cbn [has_comma map]. rewrite orb_false_r. reflexivity.
    + (* more items follow *)
      apply Forall_app in Hok. destruct Hok as [_ Hok2].
      apply Forall_inv_tail in Hok2. apply Forall_app in Hok2. destruct Hok2 as [_ Hokrb].
      assert (Hlenrb : List.length rb <= f).
      { rewrite !app_length in Hlen. cbn [List.length] in Hlen. rewrite !app_length in Hlen. lia. }
      destruct (render_ditems_shape _ _ _ _ _ _ _ Hwr Hrb Hokrb) as [[E _]|[_ [t2 [b' [Erb Hs2]]]]];
        [congruence|].
      assert (Hadv : advance wb (op_tok "," :: lay n3 ++ rb ++ op_tok "}" :: R)
                     = POk (rb ++ op_tok "}" :: R)).
      { rewrite Erb. cbn [app]. apply advance_solid; [apply Hlay | apply start_solid; exact Hs2]. }
      norm.
      rewrite (P_use o k wb lay n tk n2 vk
                 (op_tok ":" :: lay n2 ++ tv ++ op_tok "," :: lay n3 ++ rb ++ op_tok "}" :: R) f
                 HPk Hlay Hwk Evk Hrk Hoktk (op_follow _ _) Hlentk).
      cbv beta match zeta. rewrite cur_is_op. rewrite String.eqb_refl. cbn [negb].
      rewrite Hadvv.
      rewrite (P_use o v wb lay (S n2) tv n3 vv (op_tok "," :: lay n3 ++ rb ++ op_tok "}" :: R) f
                 HPv Hlay Hwv Evv Hrv Hoktv (op_follow _ _) Hlentv).
      cbv beta match zeta. rewrite cur_is_op. rewrite String.eqb_refl.
      rewrite Hadv.
      rewrite (IH Hwr (S n3) rb n1 kvs' R (vals ++ [vv]) (pairs ++ [(vk, vv)]) true fu eq_refl Hrb Hokrb Hlenrb ltac:(lia)).
      destruct r as [|y r']; [congruence|]. cbn [has_comma map snd]. rewrite orb_true_r.
      rewrite <- !app_assoc. reflexivity.
Qed.

(* ------------------------------------------------------------------ *)
(* a whole bracketed construct *)
Lemma text_cur_op : forall s R, text (cur (op_tok s :: R)) = s.
Proof. reflexivity. Qed.

Lemma container_parse : forall o wb open_ close lay n body trin tr rest f vals pairs sc v,
  closer open_ = Some close ->
  lay_ok lay -> Forall trivia_tok trin -> Forall trivia_tok tr -> follows rest ->
  (body = [] \/ exists t0 b', body = t0 :: b' /\ start_tok t0) ->
  (forall fuel R, List.length body < fuel ->
     pv_loop f o wb close (String.eqb open_ "{") fuel (body ++ op_tok close :: R) [] [] false
     = POk (vals, pairs, sc, op_tok close :: R)) ->
  container_value open_ vals pairs sc = v ->
  String.eqb open_ "{" && negb (keys_hashable pairs) = false ->
  parse_value (S f) o wb (([op_tok open_] ++ lay n ++ body ++ [op_tok close] ++ trin) ++ tr ++ rest)
  = POk (v, rest).
Proof.
  intros o wb open_ close lay n body trin tr rest f vals pairs sc v
         Hcl Hlay Htrin Htr Hrest Hshape Hloop Hv Hh.
  norm.
  rewrite (parse_value_container f o wb _ close); [|exact Hcl].
  assert (Hadv : forall Z, advance wb (op_tok open_ :: lay n ++ body ++ op_tok close :: Z)
                           = POk (body ++ op_tok close :: Z)).
  { intro Z. destruct Hshape as [-> | [t0 [b' [-> Hs]]]]; cbn [app].
    - apply advance_solid; [apply Hlay | apply op_solid].
    - apply advance_solid; [apply Hlay | apply start_solid; exact Hs]. }
  rewrite Hadv. rewrite !text_cur_op.
  rewrite Hloop; [| rewrite app_length; cbn [List.length]; lia].
  cbv beta match.
  destruct Hrest as [t0 [r0 [-> Hf0]]].
  rewrite app_assoc.
  rewrite advance_solid; [| apply Forall_app; split; assumption | apply follow_solid; exact Hf0].
  rewrite Hh, Hv. reflexivity.
Qed.

Lemma eval_items_length : forall o items vs, eval_items o items = Some vs -> List.length vs = List.length items.
Proof.
  intros o items. induction items as [|x r IH]; intros vs H; cbn [eval_items] in H.
  - injection H as <-. reflexivity.
  - destruct (py_eval o x); [|discriminate]. destruct (eval_items o r) as [vs'|]; [|discriminate].
    injection H as <-. cbn [List.length]. rewrite (IH vs' eq_refl). reflexivity.
Qed.

Lemma basic_loop_atom : forall o wb f t acc v tr rest,
  (ty t = NAME \/ ty t = NUMBER) -> olookup o (acc_next acc (text t)) = Some (Some v) ->
  Forall trivia_tok tr -> follows rest ->
  basic_loop (S f) o wb (t :: tr ++ rest) acc = POk (v, rest).
Proof.
  intros o wb f t acc v tr rest Hty Hv Htr Hrest.
  rewrite basic_loop_S. cbn [cur hd]. cbv zeta. rewrite Hv.
  destruct Hrest as [t0 [r0 [-> Hf0]]].
  rewrite advance_solid; [| exact Htr | apply follow_solid; exact Hf0].
  unfold cur_ty at 1. cbn [cur hd]. destruct Hty as [E|E]; rewrite E; reflexivity.
Qed.

Lemma render_strs_length : forall trf ts n toks n',
  render_strs trf ts n = (toks, n') -> List.length ts <= List.length toks.
Proof.
  intros trf ts. induction ts as [|t r IH]; intros n toks n' H.
  - cbn; lia.
  - apply render_strs_cons in H. destruct H as [toks1 [H1 ->]].
    pose proof (IH _ _ _ H1). cbn [List.length]. rewrite app_length. lia.
Qed.

Lemma prefixes_ne_head : forall (t : token) more p, In p (prefixes_ne (t :: more)) -> exists p', p = t :: p'.
Proof.
  intros t more p H. cbn [prefixes_ne] in H. destruct H as [H|H].
  - exists []. symmetry. exact H.
  - apply in_map_iff in H. destruct H as [p' [E _]]. exists p'. symmetry. exact E.
Qed.

(* ------------------------------------------------------------------ *)
Lemma body_ok : forall (a : token) l body b tl,
  Forall tok_ok (a :: l ++ body ++ b :: tl) -> Forall tok_ok body.
Proof.
  intros a l body b tl H. apply Forall_inv_tail in H. apply Forall_app in H. destruct H as [_ H].
  apply Forall_app in H. tauto.
Qed.
Lemma body_len : forall (a : token) l body b tl f,
  List.length (a :: l ++ body ++ b :: tl) <= S f -> List.length body <= f.
Proof.
  intros a l body b tl f H. cbn [List.length] in H. rewrite !app_length in H. cbn [List.length] in H. lia.
Qed.

Theorem C02_all : forall o l, P o l.
Proof.
  intros o l. induction l using lit_ind'.
  - (* LBasic *)
    unfold P. intros wb lay n inside toks n' v tr rest fuel Hlay Hwf Hev Hr Hok Htr Hrest Hfuel.
    cbn [render] in Hr. injection Hr as <- <-. cbn [lit_wf] in Hwf. destruct Hwf as [Hty Hminus].
    cbn [py_eval] in Hev.
    pose proof (trin_trivia lay inside n Hlay) as Htn.
    pose proof (trin_trivia lay inside (S n) Hlay) as Htn1.
    destruct fuel as [|f].
    { exfalso. rewrite !app_length in Hfuel. cbn [List.length] in Hfuel. lia. }
    destruct neg.
    + norm.
      destruct (olookup o ("-" ++ text t)) as [[v'|]|] eqn:El; try discriminate. injection Hev as ->.
      apply parse_value_basic; [reflexivity|].
      rewrite (maybe_basic_neg o wb _ (t :: (if inside then lay (S n) else []) ++ tr ++ rest)).
      * rewrite app_assoc. rewrite basic_loop_atom with (v := v); try assumption.
        -- reflexivity.
        -- apply Forall_app; split; assumption.
      * reflexivity.
      * apply advance_solid; [exact Htn | unfold solid; tauto].
      * cbn [cur hd]. destruct Hty as [E|E]; rewrite E; reflexivity.
    + norm.
      assert (Htok : text_ok (text t)) by (apply (Forall_inv Hok); tauto).
      destruct Htok as [_ [_ [Hcl _]]].
      change (("" ++ text t)%string) with (text t) in Hev.
      destruct (olookup o (text t)) as [[v'|]|] eqn:El; try discriminate. injection Hev as ->.
      apply parse_value_basic; [exact Hcl|].
      rewrite maybe_basic_plain.
      * rewrite app_assoc. rewrite basic_loop_atom with (v := v); try assumption.
        -- reflexivity.
        -- apply Forall_app; split; assumption.
      * rewrite cur_is_cons. destruct (String.eqb_spec (text t) "-"); [contradiction | reflexivity].
      * cbn [cur hd]. destruct Hty as [E|E]; rewrite E; reflexivity.
  - (* LStrs *)
    unfold P. intros wb lay n inside toks n' v tr rest fuel Hlay Hwf Hev Hr Hok Htr Hrest Hfuel.
    rewrite render_LStrs in Hr. cbn [lit_wf] in Hwf. destruct Hwf as [Hne [Hstr Hpre]].
    destruct ts as [|t more]; [congruence|].
    cbn [py_eval] in Hev.
    destruct (olookup o (strs_text (t :: more))) as [[v'|]|] eqn:El; try discriminate. injection Hev as ->.
    pose proof (render_strs_length _ _ _ _ _ Hr) as Hl. cbn [List.length] in Hl.
    destruct (render_strs_cons _ _ _ _ _ _ Hr) as [toks1 [_ Etoks]].
    assert (Htok : text_ok (text t)).
    { rewrite Etoks in Hok. apply (Forall_inv Hok). right; right. exact (Forall_inv Hstr). }
    destruct Htok as [Hne1 [Hne2 [Hcl _]]].
    destruct fuel as [|f]; [lia|].
    apply parse_value_basic.
    { rewrite Etoks. cbn [app cur hd]. exact Hcl. }
    rewrite maybe_basic_plain.
    + rewrite (basic_loop_strs o wb (fun k => if inside then lay k else []) more t n toks n'
                 _ "" v tr rest); try assumption.
      * reflexivity.
      * intro k. apply trin_trivia. exact Hlay.
      * apply Forall_forall. intros p Hp.
        destruct (prefixes_ne_head _ _ _ Hp) as [p' ->].
        rewrite (fold_acc_strs_text t p' Hne1 Hne2).
        rewrite Forall_forall in Hpre. exact (Hpre _ Hp).
      * rewrite (fold_acc_strs_text t more Hne1 Hne2). exact El.
      * rewrite !app_length. lia.
    + rewrite Etoks. cbn [app]. rewrite cur_is_cons.
      destruct (String.eqb_spec (text t) "-"); [contradiction | reflexivity].
    + rewrite Etoks. cbn [app cur hd]. rewrite (Forall_inv Hstr). reflexivity.
  - (* LList *)
    unfold P. intros wb lay n inside toks n' v tr rest fuel Hlay Hwf Hev Hr Hok Htr Hrest Hfuel.
    rewrite render_LList in Hr. destruct (render_items lay trailing items (S n)) as [body n1] eqn:Hb.
    injection Hr as <- <-. rewrite py_eval_LList in Hev.
    destruct (eval_items o items) as [vs|] eqn:Evs; [|discriminate]. injection Hev as <-.
    apply lit_wf_LList in Hwf.
    assert (Hokb : Forall tok_ok body).
    { exact (body_ok _ _ _ _ _ Hok). }
    destruct fuel as [|f]; [cbn in Hfuel; lia|].
    assert (Hlenb : List.length body <= f).
    { exact (body_len _ _ _ _ _ _ Hfuel). }
    apply container_parse with (close := "]") (vals := [] ++ vs) (pairs := []) (sc := false || has_comma items trailing);
      try assumption; try reflexivity.
    + apply trin_trivia; exact Hlay.
    + destruct (render_items_shape _ _ _ _ _ _ _ Hwf Hb Hokb) as [[_ E]|[_ E]]; [left|right]; exact E.
    + intros fuel R Hf. apply (loop_items o f wb "]" lay trailing Hlay) with (n := S n) (n1 := n1); try assumption.
      * left; reflexivity.
      * pose proof (render_items_length _ _ _ _ _ _ _ Hwf Hb Hokb). lia.
  - (* LTuple *)
    unfold P. intros wb lay n inside toks n' v tr rest fuel Hlay Hwf Hev Hr Hok Htr Hrest Hfuel.
    rewrite render_LTuple in Hr. destruct (render_items lay trailing items (S n)) as [body n1] eqn:Hb.
    injection Hr as <- <-. rewrite py_eval_LTuple in Hev.
    destruct (eval_items o items) as [vs|] eqn:Evs; [|discriminate]. injection Hev as <-.
    apply lit_wf_LTuple in Hwf. destruct Hwf as [Hone Hwf].
    assert (Hokb : Forall tok_ok body).
    { exact (body_ok _ _ _ _ _ Hok). }
    destruct fuel as [|f]; [cbn in Hfuel; lia|].
    assert (Hlenb : List.length body <= f).
    { exact (body_len _ _ _ _ _ _ Hfuel). }
    apply container_parse with (close := ")") (vals := [] ++ vs) (pairs := []) (sc := false || has_comma items trailing);
      try assumption; try reflexivity.
    + apply trin_trivia; exact Hlay.
    + destruct (render_items_shape _ _ _ _ _ _ _ Hwf Hb Hokb) as [[_ E]|[_ E]]; [left|right]; exact E.
    + intros fuel R Hf. apply (loop_items o f wb ")" lay trailing Hlay) with (n := S n) (n1 := n1); try assumption.
      * right; left; reflexivity.
      * pose proof (render_items_length _ _ _ _ _ _ _ Hwf Hb Hokb). lia.
    + (* the value: a one-tuple carries its comma *)
      pose proof (eval_items_length _ _ _ Evs) as Hl.
      destruct items as [|x [|y r]].
      * destruct vs; [reflexivity | discriminate].
      * rewrite (Hone eq_refl). destruct vs as [|a [|b vs]]; try discriminate. reflexivity.
      * destruct vs as [|a [|b vs]]; try discriminate. reflexivity.
  - (* LParen *)
    unfold P. intros wb lay n inside toks n' v tr rest fuel Hlay Hwf Hev Hr Hok Htr Hrest Hfuel.
    rewrite render_LParen in Hr. destruct (render l lay (S n) true) as [tx n1] eqn:Hrx.
    injection Hr as <- <-. cbn [py_eval lit_wf] in Hev, Hwf.
    assert (Hoktx : Forall tok_ok tx).
    { exact (body_ok _ _ _ _ _ Hok). }
    destruct fuel as [|f]; [cbn in Hfuel; lia|].
    assert (Hlenb : List.length tx <= f).
    { exact (body_len _ _ _ _ _ _ Hfuel). }
    destruct (render_first _ _ _ _ _ _ _ Hwf Hrx Hoktx) as [t0 [tx' [Etx Hs0]]].
    apply container_parse with (close := ")") (vals := [] ++ [v]) (pairs := []) (sc := false || has_comma [l] false);
      try assumption; try reflexivity.
    + apply trin_trivia; exact Hlay.
    + right. exists t0, tx'. split; assumption.
    + intros fuel R Hf.
      pose proof (loop_items o f wb ")" lay false Hlay (or_intror (or_introl eq_refl)) [l]
                    (Forall_cons _ IHl (Forall_nil _)) (Forall_cons _ Hwf (Forall_nil _))
                    (S n) (tx ++ []) (S n1) [v] R [] [] false fuel) as HL.
      rewrite app_nil_r in HL. apply HL; try assumption.
      * cbn [eval_items]. rewrite Hev. reflexivity.
      * cbn [render_items]. rewrite Hrx. rewrite app_nil_r. reflexivity.
      * rewrite Etx in Hf. cbn [List.length] in *. lia.
  - (* LDict *)
    unfold P. intros wb lay n inside toks n' v tr rest fuel Hlay Hwf Hev Hr Hok Htr Hrest Hfuel.
    rewrite render_LDict in Hr. destruct (render_ditems lay trailing items (S n)) as [body n1] eqn:Hb.
    injection Hr as <- <-. rewrite py_eval_LDict in Hev.
    destruct (eval_ditems o items) as [kvs|] eqn:Evs; [|discriminate].
    destruct (keys_hashable kvs) eqn:Hhash; [|discriminate]. injection Hev as <-.
    apply lit_wf_LDict in Hwf.
    assert (Hokb : Forall tok_ok body).
    { exact (body_ok _ _ _ _ _ Hok). }
    destruct fuel as [|f]; [cbn in Hfuel; lia|].
    assert (Hlenb : List.length body <= f).
    { exact (body_len _ _ _ _ _ _ Hfuel). }
    apply container_parse with (close := "}") (vals := [] ++ map snd kvs) (pairs := [] ++ kvs)
                               (sc := false || has_comma items trailing);
      try assumption; try reflexivity.
    + apply trin_trivia; exact Hlay.
    + destruct (render_ditems_shape _ _ _ _ _ _ _ Hwf Hb Hokb) as [[_ E]|[_ E]]; [left|right]; exact E.
    + intros fuel R Hf. apply (loop_ditems o f wb lay trailing Hlay) with (n := S n) (n1 := n1); try assumption.
      pose proof (render_ditems_length _ _ _ _ _ _ _ Hwf Hb Hokb). lia.
    + cbn [app]. rewrite Hhash. reflexivity.
Qed.

(* ------------------------------------------------------------------ *)
(* C02 completeness, explicit fuel, both values of within_block *)
Theorem C02_complete_strong : forall o l wb lay n inside v toks n' tr rest fuel,
  lay_ok lay -> lit_wf o l -> py_eval o l = Some v ->
  render l lay n inside = (toks, n') ->
  Forall tok_ok toks ->
  Forall trivia_tok tr ->
  rest <> [] -> (forall t r', rest = t :: r' -> follow_ok t) ->
  List.length toks <= fuel ->
  parse_value fuel o wb (toks ++ tr ++ rest) = POk (v, rest).
Proof.
  intros o l wb lay n inside v toks n' tr rest fuel Hlay Hwf Hev Hr Hok Htr Hne Hfol Hfuel.
  apply (C02_all o l wb lay n inside toks n' v tr rest fuel); try assumption.
  destruct rest as [|t r']; [congruence|]. exists t, r'. split; [reflexivity|]. exact (Hfol t r' eq_refl).
Qed.

Theorem C02_complete : forall o l lay n inside v toks n' tr rest,
  lay_ok lay -> lit_wf o l -> py_eval o l = Some v ->
  render l lay n inside = (toks, n') ->
  Forall tok_ok toks ->
  Forall trivia_tok tr -> (inside = false -> True) ->
  rest <> [] -> (forall t r', rest = t :: r' -> follow_ok t) ->
  exists fuel0, forall fuel, fuel0 <= fuel ->
    parse_value fuel o false (toks ++ tr ++ rest) = POk (v, rest).
Proof.
  intros o l lay n inside v toks n' tr rest Hlay Hwf Hev Hr Hok Htr _ Hne Hfol.
  exists (List.length toks). intros fuel Hfuel.
  apply (C02_complete_strong o l false lay n inside v toks n' tr rest fuel); assumption.
Qed.

(* the fuel the parser model actually uses is enough *)
Corollary C02_value_fuel : forall o l wb lay n inside v toks n' tr rest,
  lay_ok lay -> lit_wf o l -> py_eval o l = Some v ->
  render l lay n inside = (toks, n') ->
  Forall tok_ok toks -> Forall trivia_tok tr ->
  rest <> [] -> (forall t r', rest = t :: r' -> follow_ok t) ->
  parse_value (value_fuel (toks ++ tr ++ rest)) o wb (toks ++ tr ++ rest) = POk (v, rest).
Proof.
  intros o l wb lay n inside v toks n' tr rest Hlay Hwf Hev Hr Hok Htr Hne Hfol.
  apply (C02_complete_strong o l wb lay n inside v toks n' tr rest); try assumption.
  unfold value_fuel. rewrite app_length. lia.
Qed.

(* ... and so the engine entry point returns Python's value *)
Corollary C02_run_value : forall o l lay n inside v toks n' tr rest,
  lay_ok lay -> lit_wf o l -> py_eval o l = Some v ->
  render l lay n inside = (toks, n') ->
  Forall tok_ok toks -> Forall trivia_tok tr ->
  rest <> [] -> (forall t r', rest = t :: r' -> follow_ok t) ->
  run_value (o, toks ++ tr ++ rest) = OT "Value" [v].
Proof.
  intros o l lay n inside v toks n' tr rest Hlay Hwf Hev Hr Hok Htr Hne Hfol.
  unfold run_value. cbn [fst snd].
  destruct (render_first _ _ _ _ _ _ _ Hwf Hr Hok) as [t0 [toks' [E Hs]]].
  assert (Hset : settle (toks ++ tr ++ rest) = POk (toks ++ tr ++ rest)).
  { rewrite E. cbn [app]. destruct (solid_noerr _ (start_solid _ Hs)).
    apply settle_non_trivia; assumption. }
  rewrite Hset.
  rewrite (C02_value_fuel o l false lay n inside v toks n' tr rest); try assumption.
  reflexivity.
Qed.

Print Assumptions C02_complete.
Print Assumptions C02_complete_strong.
Print Assumptions C02_value_fuel.
Print Assumptions C02_run_value.
Print Assumptions settle_non_trivia.
Print Assumptions skip_ws_trivia.
Print Assumptions one_tuple_rule.
Print Assumptions one_tuple_rule_comma.
Print Assumptions split_binding_key_spec.
Print Assumptions split_binding_key_spec_strong.
Print Assumptions split_scoped_spec.
Print Assumptions selector_strict.
Print Assumptions selector_rejects_gap.

(* non-vacuity: the hypotheses are satisfiable on a concrete list with comments, NLs,
   a negative number, a two-piece string run and a trailing comma *)
Module C02_Example.
Definition tk ty s := {| ty := ty; text := s; srow := 1; scol := 0; erow := 1; ecol := 0 |}.
Definition nl := tk NL "\n". Definition cm := tk COMMENT "# c".
Definition lay : layout := fun n => match n with 0 => [nl] | 3 => [cm; nl] | 5 => [nl;nl] | 7 => [cm] | _ => [] end.
Definition o : oracle := [("1", Some (OZ 1)); ("'a'", Some (OS "a")); ("'a' 'b'", Some (OS "ab")); ("-1", Some (OZ (-1)))].
Definition l1 := LList [LBasic true (tk NUMBER "1"); LStrs [tk STRING "'a'"; tk STRING "'b'"]] true.
Example ex1 : run_value (o, fst (render l1 lay 0 false) ++ [cm] ++ [tk NEWLINE ""; tk ENDMARKER ""]) = OT "Value" [OT "L" [OZ (-1); OS "ab"]].
Proof.
  eapply C02_run_value with (l := l1) (lay := lay) (n := 0) (inside := false).
  - intro n. unfold lay. do 8 (destruct n as [|n]; [repeat constructor; (left; reflexivity) || (right; reflexivity)|]). constructor.
  - cbn. repeat split; try (intro; discriminate); try tauto.
    + repeat constructor.
    + repeat constructor; eexists; reflexivity.
  - reflexivity.
  - reflexivity.
  - cbn. repeat (apply Forall_cons || apply Forall_nil); intros [H|[H|H]]; try discriminate H; repeat split; try (intro; discriminate); reflexivity.
  - constructor; [right; reflexivity | constructor].
  - discriminate.
  - intros t r' E. injection E as <- _. right; left; reflexivity.
Qed.
End C02_Example.
