(* C02 completeness: every literal tree of the grammar, rendered in every layout,
   parses to exactly Python's value, consuming exactly its own tokens. *)
From Coq Require Import List String ZArith Bool Arith Lia Ascii.
From GinV Require Import Lib.Out Lib.PyStr Model.Parser Model.ParserSpec.
From GinV Require Import Proofs.ParserLemmas Proofs.ParserSmall.
Import ListNotations. Open Scope string_scope. Open Scope list_scope.

(* ------------------------------------------------------------------ *)
(* nested induction principle for lit *)
Section LitInd.
  Variable P : lit -> Prop.
  Hypothesis HBasic : forall neg t, P (LBasic neg t).
  Hypothesis HStrs : forall ts, P (LStrs ts).
  Hypothesis HList : forall items trailing, Forall P items -> P (LList items trailing).
  Hypothesis HTuple : forall items trailing, Forall P items -> P (LTuple items trailing).
  Hypothesis HParen : forall x, P x -> P (LParen x).
  Hypothesis HDict : forall items trailing,
    Forall (fun kv => P (fst kv) /\ P (snd kv)) items -> P (LDict items trailing).

  Fixpoint lit_ind' (l : lit) : P l :=
    match l with
    | LBasic neg t => HBasic neg t
    | LStrs ts => HStrs ts
    | LList items trailing =>
        HList items trailing
          ((fix go (items : list lit) : Forall P items :=
              match items with
              | [] => Forall_nil P
              | x :: r => Forall_cons x (lit_ind' x) (go r)
              end) items)
    | LTuple items trailing =>
        HTuple items trailing
          ((fix go (items : list lit) : Forall P items :=
              match items with
              | [] => Forall_nil P
              | x :: r => Forall_cons x (lit_ind' x) (go r)
              end) items)
    | LParen x => HParen x (lit_ind' x)
    | LDict items trailing =>
        HDict items trailing
          ((fix go (items : list (lit * lit)) : Forall (fun kv => P (fst kv) /\ P (snd kv)) items :=
              match items with
              | [] => Forall_nil _
              | (k, v) :: r => Forall_cons (k, v) (conj (lit_ind' k) (lit_ind' v)) (go r)
              end) items)
    end.
End LitInd.

(* ------------------------------------------------------------------ *)
(* the inner fixes of render / py_eval / lit_wf as top-level functions *)
Fixpoint render_items (lay : layout) (trailing : bool) (items : list lit) (n : nat) : list token * nat :=
  match items with
  | [] => ([], n)
  | [x] => let '(tx, n1) := render x lay n true in
           (tx ++ (if trailing then [op_tok ","] ++ lay n1 else []), S n1)
  | x :: r => let '(tx, n1) := render x lay n true in
              let '(rest, n2) := render_items lay trailing r (S n1) in
              (tx ++ [op_tok ","] ++ lay n1 ++ rest, n2)
  end.

Fixpoint render_ditems (lay : layout) (trailing : bool) (items : list (lit * lit)) (n : nat) : list token * nat :=
  match items with
  | [] => ([], n)
  | (k, v) :: r =>
      let '(tk, n1) := render k lay n true in
      let '(tv, n2) := render v lay (S n1) true in
      let item := tk ++ [op_tok ":"] ++ lay n1 ++ tv in
      match r with
      | [] => (item ++ (if trailing then [op_tok ","] ++ lay n2 else []), S n2)
      | _ => let '(rest, n3) := render_ditems lay trailing r (S n2) in (item ++ [op_tok ","] ++ lay n2 ++ rest, n3)
      end
  end.

Fixpoint eval_items (o : oracle) (items : list lit) : option (list out) :=
  match items with
  | [] => Some []
  | x :: r => match py_eval o x, eval_items o r with Some v, Some vs => Some (v :: vs) | _, _ => None end
  end.
Fixpoint eval_ditems (o : oracle) (items : list (lit * lit)) : option (list (out * out)) :=
  match items with
  | [] => Some []
  | (k, v) :: r =>
      match py_eval o k, py_eval o v, eval_ditems o r with
      | Some a, Some b, Some rest => Some ((a, b) :: rest) | _, _, _ => None end
  end.

Lemma render_LList : forall items trailing lay n inside,
  render (LList items trailing) lay n inside =
  let '(body, n1) := render_items lay trailing items (S n) in
  ([op_tok "["] ++ lay n ++ body ++ [op_tok "]"] ++ (if inside then lay n1 else []), S n1).
Proof.
  intros items trailing lay n inside. cbn [render].
  match goal with |- context [?F items (S n)] =>
    assert (E : forall m, F items m = render_items lay trailing items m) end.
  { induction items as [|x r IH]; intro m; [reflexivity|].
    cbn [render_items]. destruct (render x lay m true) as [tx n1].
    destruct r as [|y r']; [reflexivity|]. rewrite IH. reflexivity. }
  rewrite E. reflexivity.
Qed.

Lemma render_LTuple : forall items trailing lay n inside,
  render (LTuple items trailing) lay n inside =
  let '(body, n1) := render_items lay trailing items (S n) in
  ([op_tok "("] ++ lay n ++ body ++ [op_tok ")"] ++ (if inside then lay n1 else []), S n1).
Proof.
  intros items trailing lay n inside. cbn [render].
  match goal with |- context [?F items (S n)] =>
    assert (E : forall m, F items m = render_items lay trailing items m) end.
  { induction items as [|x r IH]; intro m; [reflexivity|].
    cbn [render_items]. destruct (render x lay m true) as [tx n1].
    destruct r as [|y r']; [reflexivity|]. rewrite IH. reflexivity. }
  rewrite E. reflexivity.
Qed.

Lemma render_LDict : forall items trailing lay n inside,
  render (LDict items trailing) lay n inside =
  let '(body, n1) := render_ditems lay trailing items (S n) in
  ([op_tok "{"] ++ lay n ++ body ++ [op_tok "}"] ++ (if inside then lay n1 else []), S n1).
Proof.
  intros items trailing lay n inside. cbn [render].
  match goal with |- context [?F items (S n)] =>
    assert (E : forall m, F items m = render_ditems lay trailing items m) end.
  { induction items as [|[k v] r IH]; intro m; [reflexivity|].
    cbn [render_ditems]. destruct (render k lay m true) as [tk n1].
    destruct (render v lay (S n1) true) as [tv n2].
    destruct r as [|y r']; [reflexivity|]. rewrite IH. reflexivity. }
  rewrite E. reflexivity.
Qed.

Lemma render_LParen : forall x lay n inside,
  render (LParen x) lay n inside =
  let '(tx, n1) := render x lay (S n) true in
  ([op_tok "("] ++ lay n ++ tx ++ [op_tok ")"] ++ (if inside then lay n1 else []), S n1).
Proof. reflexivity. Qed.

Lemma py_eval_LList : forall o items trailing,
  py_eval o (LList items trailing) =
  match eval_items o items with Some vs => Some (OT "L" vs) | None => None end.
Proof.
  intros o items trailing. cbn [py_eval].
  match goal with |- context [?F items] =>
    assert (E : F items = eval_items o items) end.
  { induction items as [|x r IH]; [reflexivity|]. cbn [eval_items]. rewrite <- IH. reflexivity. }
  rewrite E. reflexivity.
Qed.
Lemma py_eval_LTuple : forall o items trailing,
  py_eval o (LTuple items trailing) =
  match eval_items o items with Some vs => Some (OT "T" vs) | None => None end.
Proof.
  intros o items trailing. cbn [py_eval].
  match goal with |- context [?F items] =>
    assert (E : F items = eval_items o items) end.
  { induction items as [|x r IH]; [reflexivity|]. cbn [eval_items]. rewrite <- IH. reflexivity. }
  rewrite E. reflexivity.
Qed.
Lemma py_eval_LDict : forall o items trailing,
  py_eval o (LDict items trailing) =
  match eval_ditems o items with Some kvs => Some (build_dict kvs) | None => None end.
Proof.
  intros o items trailing. cbn [py_eval].
  match goal with |- context [?F items] =>
    assert (E : F items = eval_ditems o items) end.
  { induction items as [|[k v] r IH]; [reflexivity|]. cbn [eval_ditems]. rewrite <- IH. reflexivity. }
  rewrite E. reflexivity.
Qed.

Lemma lit_wf_LList : forall o items trailing,
  lit_wf o (LList items trailing) -> Forall (lit_wf o) items.
Proof.
  intros o items trailing. cbn [lit_wf].
  induction items as [|x r IH]; intro H; [constructor|].
  destruct H as [Hx Hr]. constructor; [exact Hx | exact (IH Hr)].
Qed.
Lemma lit_wf_LTuple : forall o items trailing,
  lit_wf o (LTuple items trailing) ->
  (List.length items = 1 -> trailing = true) /\ Forall (lit_wf o) items.
Proof.
  intros o items trailing. cbn [lit_wf]. intros [H1 [_ H]]. split; [exact H1|]. clear H1.
  induction items as [|x r IH]; [constructor|].
  destruct H as [Hx Hr]. constructor; [exact Hx | exact (IH Hr)].
Qed.
Lemma lit_wf_LDict : forall o items trailing,
  lit_wf o (LDict items trailing) ->
  Forall (fun kv => lit_wf o (fst kv) /\ lit_wf o (snd kv)) items.
Proof.
  intros o items trailing. cbn [lit_wf].
  induction items as [|[k v] r IH]; intro H; [constructor|].
  destruct H as [Hk [Hv Hr]]. constructor; [split; assumption | exact (IH Hr)].
Qed.

(* ------------------------------------------------------------------ *)
(* side condition on atom tokens; first tokens of renderings *)

(* NAME / NUMBER / STRING tokens never spell a bracket, "-" or nothing *)
Definition tok_ok (t : token) : Prop :=
  (ty t = NAME \/ ty t = NUMBER \/ ty t = STRING) -> text_ok (text t).

Definition is_close (s : string) : Prop := s = "]" \/ s = ")" \/ s = "}".
Definition start_tok (t : token) : Prop :=
  (ty t = NAME \/ ty t = NUMBER \/ ty t = STRING \/ ty t = OP) /\ ~ is_close (text t).

Lemma start_solid : forall t, start_tok t -> solid t.
Proof. intros t [H _]. unfold solid. tauto. Qed.

Lemma cur_is_op : forall s R s', cur_is (op_tok s :: R) s' = String.eqb s s'.
Proof. reflexivity. Qed.
Lemma cur_is_cons : forall t R s, cur_is (t :: R) s = String.eqb (text t) s.
Proof. reflexivity. Qed.

Lemma start_not_close : forall t R close, start_tok t -> is_close close -> cur_is (t :: R) close = false.
Proof.
  intros t R close [_ H] Hc. rewrite cur_is_cons. destruct (String.eqb_spec (text t) close) as [E|E]; [|reflexivity].
  exfalso. apply H. rewrite E. exact Hc.
Qed.

Lemma op_solid : forall s, solid (op_tok s).
Proof. intro s. unfold solid. cbn. tauto. Qed.
Lemma op_follow : forall s R, follows (op_tok s :: R).
Proof. intros s R. exists (op_tok s), R. split; [reflexivity|]. left. reflexivity. Qed.

Lemma op_start : forall s, ~ is_close s -> start_tok (op_tok s).
Proof. intros s H. split; [cbn; tauto | exact H]. Qed.

Lemma not_close_open : forall s, s = "[" \/ s = "(" \/ s = "{" \/ s = "-" -> ~ is_close s.
Proof. intros s H C. unfold is_close in C. decompose [or] H; subst s; decompose [or] C; discriminate. Qed.

Lemma text_ok_start : forall t, (ty t = NAME \/ ty t = NUMBER \/ ty t = STRING) -> tok_ok t -> start_tok t.
Proof.
  intros t Hty Hok. destruct (Hok Hty) as [_ [_ [_ [H1 [H2 H3]]]]]. split; [tauto|].
  intros [C|[C|C]]; congruence.
Qed.

Lemma trin_trivia : forall lay (inside : bool) k, lay_ok lay -> Forall trivia_tok (if inside then lay k else []).
Proof. intros lay inside k H. destruct inside; [apply H | constructor]. Qed.

Lemma render_first : forall o l lay n inside toks n',
  lit_wf o l -> render l lay n inside = (toks, n') -> Forall tok_ok toks ->
  exists t0 toks', toks = t0 :: toks' /\ start_tok t0.
Proof.
  intros o l lay n inside toks n' Hwf Hr Hok.
  destruct l as [neg t|ts|items trailing|items trailing|x|items trailing].
  - cbn [render] in Hr. injection Hr as <- <-. cbn [lit_wf] in Hwf. destruct Hwf as [Hty _].
    destruct neg; cbn [app] in *.
    + eexists _, _. split; [reflexivity|]. apply op_start. apply not_close_open. tauto.
    + eexists _, _. split; [reflexivity|]. apply text_ok_start; [tauto|]. exact (Forall_inv Hok).
  - rewrite render_LStrs in Hr. cbn [lit_wf] in Hwf. destruct Hwf as [Hne [Hstr _]].
    destruct ts as [|t more]; [congruence|].
    apply render_strs_cons in Hr. destruct Hr as [toks1 [_ ->]].
    eexists _, _. split; [reflexivity|]. apply text_ok_start; [|exact (Forall_inv Hok)].
    right; right. exact (Forall_inv Hstr).
  - rewrite render_LList in Hr. destruct (render_items lay trailing items (S n)) as [body n1].
    injection Hr as <- <-. cbn [app]. eexists _, _. split; [reflexivity|].
    apply op_start. apply not_close_open. tauto.
  - rewrite render_LTuple in Hr. destruct (render_items lay trailing items (S n)) as [body n1].
    injection Hr as <- <-. cbn [app]. eexists _, _. split; [reflexivity|].
    apply op_start. apply not_close_open. tauto.
  - rewrite render_LParen in Hr. destruct (render x lay (S n) true) as [tx n1].
    injection Hr as <- <-. cbn [app]. eexists _, _. split; [reflexivity|].
    apply op_start. apply not_close_open. tauto.
  - rewrite render_LDict in Hr. destruct (render_ditems lay trailing items (S n)) as [body n1].
    injection Hr as <- <-. cbn [app]. eexists _, _. split; [reflexivity|].
    apply op_start. apply not_close_open. tauto.
Qed.

(* inversion of the item renderers *)
Lemma render_items_cons : forall lay trailing x r n body n1,
  render_items lay trailing (x :: r) n = (body, n1) ->
  exists tx nx, render x lay n true = (tx, nx) /\
    ((r = [] /\ body = tx ++ (if trailing then op_tok "," :: lay nx else []) /\ n1 = S nx) \/
     (r <> [] /\ exists rb, render_items lay trailing r (S nx) = (rb, n1) /\
                            body = tx ++ op_tok "," :: lay nx ++ rb)).
Proof.
  intros lay trailing x r n body n1 H. cbn [render_items] in H.
  destruct (render x lay n true) as [tx nx]. exists tx, nx. split; [reflexivity|].
  destruct r as [|y r'].
  - left. injection H as <- <-. repeat split.
  - right. split; [discriminate|].
    destruct (render_items lay trailing (y :: r') (S nx)) as [rb n2].
    injection H as <- <-. exists rb. split; reflexivity.
Qed.

Lemma render_ditems_cons : forall lay trailing k v r n body n3,
  render_ditems lay trailing ((k, v) :: r) n = (body, n3) ->
  exists tk n1 tv n2, render k lay n true = (tk, n1) /\ render v lay (S n1) true = (tv, n2) /\
    ((r = [] /\ body = (tk ++ op_tok ":" :: lay n1 ++ tv) ++ (if trailing then op_tok "," :: lay n2 else []) /\ n3 = S n2) \/
     (r <> [] /\ exists rb, render_ditems lay trailing r (S n2) = (rb, n3) /\
                            body = (tk ++ op_tok ":" :: lay n1 ++ tv) ++ op_tok "," :: lay n2 ++ rb)).
Proof.
  intros lay trailing k v r n body n3 H. cbn [render_ditems] in H.
  destruct (render k lay n true) as [tk n1]. destruct (render v lay (S n1) true) as [tv n2] eqn:Ev.
  exists tk, n1, tv, n2. split; [reflexivity|]. split; [exact Ev|].
  destruct r as [|y r'].
  - left. injection H as <- <-. repeat split.
  - right. split; [discriminate|].
    destruct (render_ditems lay trailing (y :: r') (S n2)) as [rb n4].
    injection H as <- <-. exists rb. split; reflexivity.
Qed.

(* shape of an item-list body: empty, or starting with a start token *)
Definition body_shape (body : list token) : Prop :=
  body = [] \/ exists t0 b', body = t0 :: b' /\ start_tok t0.

Lemma render_items_shape : forall o lay trailing items n body n1,
  Forall (lit_wf o) items -> render_items lay trailing items n = (body, n1) -> Forall tok_ok body ->
  (items = [] /\ body = []) \/ (items <> [] /\ exists t0 b', body = t0 :: b' /\ start_tok t0).
Proof.
  intros o lay trailing items n body n1 Hwf Hr Hok. destruct items as [|x r].
  - left. cbn [render_items] in Hr. injection Hr as <- <-. split; reflexivity.
  - right. split; [discriminate|].
    destruct (render_items_cons _ _ _ _ _ _ _ Hr) as [tx [nx [Hrx Hc]]].
    assert (Hb : exists tl, body = tx ++ tl).
    { destruct Hc as [[_ [-> _]]|[_ [rb [_ ->]]]]; eexists; reflexivity. }
    destruct Hb as [tl ->]. apply Forall_app in Hok. destruct Hok as [Hok _].
    destruct (render_first _ _ _ _ _ _ _ (Forall_inv Hwf) Hrx Hok) as [t0 [tx' [-> Hs]]].
    exists t0, (tx' ++ tl). split; [reflexivity | exact Hs].
Qed.

Lemma render_ditems_shape : forall o lay trailing items n body n1,
  Forall (fun kv => lit_wf o (fst kv) /\ lit_wf o (snd kv)) items ->
  render_ditems lay trailing items n = (body, n1) -> Forall tok_ok body ->
  (items = [] /\ body = []) \/ (items <> [] /\ exists t0 b', body = t0 :: b' /\ start_tok t0).
Proof.
  intros o lay trailing items n body n1 Hwf Hr Hok. destruct items as [|[k v] r].
  - left. cbn [render_ditems] in Hr. injection Hr as <- <-. split; reflexivity.
  - right. split; [discriminate|].
    destruct (render_ditems_cons _ _ _ _ _ _ _ _ Hr) as [tk [n2 [tv [n3 [Hrk [Hrv Hc]]]]]].
    assert (Hb : exists tl, body = tk ++ tl).
    { destruct Hc as [[_ [-> _]]|[_ [rb [_ ->]]]]; rewrite <- app_assoc; eexists; reflexivity. }
    destruct Hb as [tl ->]. apply Forall_app in Hok. destruct Hok as [Hok _].
    destruct (Forall_inv Hwf) as [Hwk _]. cbn [fst] in Hwk.
    destruct (render_first _ _ _ _ _ _ _ Hwk Hrk Hok) as [t0 [tk' [-> Hs]]].
    exists t0, (tk' ++ tl). split; [reflexivity | exact Hs].
Qed.

Lemma render_items_length : forall o lay trailing items n body n1,
  Forall (lit_wf o) items -> render_items lay trailing items n = (body, n1) -> Forall tok_ok body ->
  List.length items <= List.length body.
Proof.
  intros o lay trailing items. induction items as [|x r IH]; intros n body n1 Hwf Hr Hok.
  - cbn; lia.
  - destruct (render_items_cons _ _ _ _ _ _ _ Hr) as [tx [nx [Hrx Hc]]].
    pose proof (Forall_inv Hwf) as Hwx. pose proof (Forall_inv_tail Hwf) as Hwr.
    destruct Hc as [[-> [-> _]]|[_ [rb [Hrb ->]]]].
    + apply Forall_app in Hok. destruct Hok as [Hok _].
      destruct (render_first _ _ _ _ _ _ _ Hwx Hrx Hok) as [t0 [tx' [-> _]]].
      rewrite app_length. cbn [List.length]. lia.
    + apply Forall_app in Hok. destruct Hok as [Hok1 Hok2].
      apply Forall_inv_tail in Hok2. apply Forall_app in Hok2. destruct Hok2 as [_ Hok2].
      destruct (render_first _ _ _ _ _ _ _ Hwx Hrx Hok1) as [t0 [tx' [-> _]]].
      pose proof (IH _ _ _ Hwr Hrb Hok2) as Hl.
      rewrite app_length. cbn [List.length]. rewrite app_length. lia.
Qed.

Lemma render_ditems_length : forall o lay trailing items n body n1,
  Forall (fun kv => lit_wf o (fst kv) /\ lit_wf o (snd kv)) items ->
  render_ditems lay trailing items n = (body, n1) -> Forall tok_ok body ->
  List.length items <= List.length body.
Proof.
  intros o lay trailing items. induction items as [|[k v] r IH]; intros n body n1 Hwf Hr Hok.
  - cbn; lia.
  - destruct (render_ditems_cons _ _ _ _ _ _ _ _ Hr) as [tk [n2 [tv [n3 [Hrk [Hrv Hc]]]]]].
    pose proof (Forall_inv_tail Hwf) as Hwr.
    destruct Hc as [[-> [-> _]]|[_ [rb [Hrb ->]]]].
    + rewrite !app_length. cbn [List.length]. lia.
    + apply Forall_app in Hok. destruct Hok as [_ Hok2].
      apply Forall_inv_tail in Hok2. apply Forall_app in Hok2. destruct Hok2 as [_ Hok2].
      pose proof (IH _ _ _ Hwr Hrb Hok2) as Hl.
      rewrite !app_length. cbn [List.length]. rewrite !app_length. lia.
Qed.
