(* The lexer (Model/Lexer.v) meets the parser theory (Proofs/ParserSound.v, Proofs/ParserApi.v):
   the per-token side conditions of the parser theorems hold for lexer output; [canon_punct] does NOT. *)
From Coq Require Import List String ZArith Bool Arith Ascii Lia.
From GinV Require Import Lib.Out Lib.PyStr Model.Parser Model.ParserSpec.
From GinV Require Import Proofs.ParserLemmas Proofs.ParserSmall Proofs.ParserProofs Proofs.ParserSound Proofs.ParserApi.
From GinV Require Import Model.Lexer Proofs.LexerProofs.
Import ListNotations.
Open Scope string_scope. Open Scope list_scope. Open Scope nat_scope.

(* ---- tok_ok: NAME / NUMBER / STRING tokens are never spelled like "-" or a bracket ---- *)
Definition plain_first (c : ascii) : Prop :=
  c <> "-"%char /\ c <> "["%char /\ c <> "]"%char /\ c <> "("%char /\ c <> ")"%char /\ c <> "{"%char /\ c <> "}"%char.
Lemma text_ok_first : forall c r, plain_first c -> text_ok (String c r).
Proof.
  intros c r [H1 [H2 [H3 [H4 [H5 [H6 H7]]]]]]. unfold text_ok, closer.
  split; [discriminate|]. split; [intro E; injection E as E _; congruence|].
  split; [|repeat split; intro E; injection E as E _; congruence].
  destruct (String.eqb_spec (String c r) "{") as [E|_]; [injection E as E _; congruence|].
  destruct (String.eqb_spec (String c r) "(") as [E|_]; [injection E as E _; congruence|].
  destruct (String.eqb_spec (String c r) "[") as [E|_]; [injection E as E _; congruence|].
  reflexivity.
Qed.
Lemma plain_first_alpha : forall c, is_alpha_ c = true -> plain_first c.
Proof. intros c H. unfold plain_first. repeat split; intro E; subst c; vm_compute in H; discriminate. Qed.
Lemma plain_first_digit : forall c, is_digit c = true -> plain_first c.
Proof. intros c H. unfold plain_first. repeat split; intro E; subst c; vm_compute in H; discriminate. Qed.
Lemma plain_first_quote : forall c, is_quote c = true -> plain_first c.
Proof. intros c H. unfold plain_first. repeat split; intro E; subst c; vm_compute in H; discriminate. Qed.
Lemma plain_first_dot : plain_first "."%char.
Proof. unfold plain_first. repeat split; discriminate. Qed.

Lemma kind_tok_ok : forall t, kind_ok t -> tok_ok t.
Proof.
  intros t H Hty. unfold kind_ok in H.
  destruct Hty as [E|[E|E]]; rewrite E in H; destruct H as [lx [-> H]]; cbn [lexeme_ok] in H.
  - destruct H as [c [r [-> [Hc _]]]]. apply text_ok_first, plain_first_alpha, Hc.
  - destruct H as [_ [c [r [-> [Hc| ->]]]]]; apply text_ok_first; [apply plain_first_digit, Hc | apply plain_first_dot].
  - destruct H as [pfx [q [body [-> [Hq [Hp _]]]]]]. destruct pfx as [|c pfx]; cbn [app string_of_list_ascii].
    + apply text_ok_first, plain_first_quote, Hq.
    + apply text_ok_first, plain_first_alpha. exact (Forall_inv Hp).
Qed.
Lemma kind_no_errortoken : forall t, kind_ok t -> ty t <> ERRORTOKEN /\ ty t <> OTHER.
Proof. intros t H. unfold kind_ok in H. split; intro E; rewrite E in H; exact H. Qed.

Theorem lex_chars_tok_ok : forall l, Forall tok_ok (lex_chars l).
Proof. intro l. eapply Forall_impl; [|apply lex_chars_kinds]. exact kind_tok_ok. Qed.
Theorem lex_chars_no_errortoken : forall l, Forall (fun t => ty t <> ERRORTOKEN) (lex_chars l).
Proof. intro l. eapply Forall_impl; [|apply lex_chars_kinds]. intros t H. exact (proj1 (kind_no_errortoken t H)). Qed.

(* ---- plain_tok ---- *)
Theorem lex_chars_plain_true : forall l, Forall (plain_tok true) (lex_chars l).
Proof.
  intro l. eapply Forall_impl; [|apply lex_chars_no_errortoken]. intros t H. split; [exact H | discriminate].
Qed.
Lemma count_ty_zero : forall k ts, count_ty k ts = 0 <-> Forall (fun t => ty t <> k) ts.
Proof.
  intros k ts. unfold count_ty. induction ts as [|t ts IH]; cbn [filter]; [split; [constructor | reflexivity]|].
  destruct (ttype_eqb (ty t) k) eqn:E.
  - cbn [List.length]. split; [discriminate|]. intro H. apply Forall_inv in H. apply ttype_eqb_eq in E. contradiction.
  - rewrite IH. split; intro H; [constructor; [|exact H] | exact (Forall_inv_tail H)].
    intro E'. apply ttype_eqb_eq in E'. congruence.
Qed.
(* without INDENT tokens there are no DEDENT tokens, and the output is plain also outside blocks *)
Theorem lex_chars_plain_false : forall l, Forall (fun t => ty t <> INDENT) (lex_chars l) ->
  Forall (plain_tok false) (lex_chars l).
Proof.
  intros l Hi. destruct (lex_chars_balanced_le l) as [_ Hle].
  apply count_ty_zero in Hi. rewrite Hi in Hle. assert (Hd : count_ty DEDENT (lex_chars l) = 0) by lia.
  apply count_ty_zero in Hd. apply count_ty_zero in Hi.
  pose proof (lex_chars_no_errortoken l) as He.
  rewrite Forall_forall in *. intros t Ht. split; [exact (He t Ht) | intros _; split; [exact (Hi t Ht) | exact (Hd t Ht)]].
Qed.

(* ---- canon_punct fails on every real punctuation token: [op_tok] sits at line 1, columns 0..0 ---- *)
Lemma ordered_In : forall ts p t, ordered p ts -> In t ts -> is_terr t = false -> span_ok t.
Proof.
  induction ts as [|a ts IH]; intros p t H Hin Ht; [contradiction|]. cbn [ordered] in H.
  destruct Hin as [->|Hin].
  - rewrite Ht in H. tauto.
  - destruct (is_terr a); [exact (IH _ _ H Hin Ht)|]. destruct H as [_ [_ H]]. exact (IH _ _ H Hin Ht).
Qed.
Lemma punct_not_terr_text : forall s, punct s -> s <> "TokenError" /\ s <> "IndentationError" /\ s <> "".
Proof. intros s H. unfold punct in H. cbn [In] in H. decompose [or] H; try contradiction; subst s; repeat split; discriminate. Qed.
Theorem lex_chars_not_canon : forall l t, In t (lex_chars l) -> punct (text t) -> ~ canon_punct t.
Proof.
  intros l t Hin Hp Hc. specialize (Hc Hp).
  destruct (punct_not_terr_text _ Hp) as [H1 [H2 H3]].
  assert (Ht : is_terr t = false).
  { destruct (lex_chars_shape l) as [front [last [E [Hf Hl]]]]. rewrite E in Hin. apply in_app_or in Hin.
    destruct Hin as [Hin|[<-|[]]].
    - rewrite Forall_forall in Hf. specialize (Hf t Hin). unfold is_terr, body_ty in *. cbn [In] in Hf.
      decompose [or] Hf; try contradiction; match goal with E : _ = ty t |- _ => rewrite <- E; reflexivity end.
    - destruct Hl as [[Hl _]|[->|[n ->]]]; [unfold is_terr; rewrite Hl; reflexivity | |]; cbn [text terr_token terr_indent] in *; congruence. }
  destruct (ordered_In _ _ _ (lex_chars_ordered l) Hin Ht) as [_ Hs]. specialize (Hs H3).
  rewrite Hc in Hs. unfold plt, tstart, tend, op_tok in Hs. cbn [srow scol erow ecol fst snd] in Hs. lia.
Qed.

(* ---- the API: settle leaves lexer output alone ---- *)
Lemma settle_no_errortoken : forall ts ts', Forall (fun t => ty t <> ERRORTOKEN) ts -> settle ts = POk ts' -> ts' = ts.
Proof.
  intros ts ts' H Hs. destruct (settle_inv _ _ Hs) as [bl [E Hb]]. destruct bl as [|b bl]; [symmetry; exact E|].
  exfalso. rewrite E in H. apply Forall_inv in H. apply Forall_inv in Hb. destruct Hb as [Hb _]. contradiction.
Qed.

(* the exact form of API soundness WITHOUT canon_punct: the consumed tokens are a rendering up to the positions
   of punctuation tokens ([tok_sim]) -- this is the form real token streams can satisfy *)
Theorem api_sound_plain : forall o ts v,
  parse_single_value o ts = POk v -> Forall (lit_tok o) ts -> Forall (plain_tok false) ts ->
  exists l lay toks n' used skipped e more,
    lay_ok lay /\ lit_wf o l /\ py_eval o l = Some v /\ render l lay 0 true = (toks, n') /\
    Forall2 tok_sim toks used /\ ts = used ++ skipped ++ e :: more /\
    Forall (fun t => ty t = NEWLINE \/ ty t = NL \/ ty t = COMMENT) skipped /\ ty e = ENDMARKER.
Proof.
  intros o ts v H Hts Hpl.
  destruct (api_accept_shape _ _ _ H) as [rest [sk [e [more [H1 [E [Hsk He]]]]]]].
  assert (HG : Forall (fun t => lit_tok o t /\ plain_tok false t) ts).
  { apply Forall_forall. intros t Ht. rewrite Forall_forall in Hts, Hpl. split; auto. }
  destruct (sound_all o false (fun t => lit_tok o t /\ plain_tok false t) (fun t Ht => proj1 Ht)
              _ ts v rest H1 HG 0 (fun _ => []))
    as [l [lay [n' [toks [used [Hwf [Hev [Ets [Hr [Hs [Hg _]]]]]]]]]]].
  { intro k. constructor. }
  exists l, lay, toks, n', used, sk, e, more. rewrite <- E.
  split.
  { intro k. eapply Forall_impl; [|exact (Hg k)]. intros t [Hsk' [_ Hp]]. exact (skippable_plain _ _ Hsk' Hp). }
  repeat split; try assumption.
  assert (Hp : Forall (plain_tok false) sk).
  { rewrite Ets, E in Hpl. apply Forall_app in Hpl. destruct Hpl as [_ Hpl]. apply Forall_app in Hpl. tauto. }
  clear - Hsk Hp. induction sk as [|a sk IH]; constructor.
  - pose proof (Forall_inv Hsk) as Ha. pose proof (Forall_inv Hp) as [Hne Hid]. cbn beta in Ha.
    destruct (Hid eq_refl) as [Hi Hd].
    destruct Ha as [Ha|[Ha _]]; [|contradiction].
    unfold end_types in Ha. cbn [In] in Ha.
    destruct Ha as [Ha|[Ha|[Ha|[Ha|[Ha|[]]]]]]; try (rewrite <- Ha; tauto); congruence.
  - apply IH; [exact (Forall_inv_tail Hsk) | exact (Forall_inv_tail Hp)].
Qed.

Lemma run_value_api_ok : forall o ts v, run_value_api (o, ts) = OT "Value" [v] ->
  exists ts', settle ts = POk ts' /\ parse_single_value o ts' = POk v.
Proof.
  intros o ts v H. unfold run_value_api in H. cbn [fst snd] in H.
  destruct (settle ts) as [ts'|e] eqn:E1; [|destruct e; discriminate].
  destruct (parse_single_value o ts') as [v'|e] eqn:E2; [|destruct e; discriminate].
  injection H as <-. exists ts'. split; [reflexivity | exact E2].
Qed.

(* end to end, from characters: a text the modelled API accepts as a value IS a literal with that value *)
Theorem lexer_api_sound : forall s ts o v,
  lex s = Some ts ->
  run_value_api (o, ts) = OT "Value" [v] ->
  (forall t, In t ts -> text t <> "@" /\ text t <> "%") ->
  (forall t, In t ts -> ty t <> INDENT) ->
  (forall t, In t ts -> ty t = STRING -> forall w, olookup o ("-" ++ text t) <> Some (Some w)) ->
  exists l lay toks n' used skipped e more,
    lay_ok lay /\ lit_wf o l /\ py_eval o l = Some v /\ render l lay 0 true = (toks, n') /\
    Forall2 tok_sim toks used /\ ts = used ++ skipped ++ e :: more /\
    Forall (fun t => ty t = NEWLINE \/ ty t = NL \/ ty t = COMMENT) skipped /\ ty e = ENDMARKER.
Proof.
  intros s ts o v Hlex Hrun Hsig Hind Horc.
  destruct (lex_some _ _ Hlex) as [_ ->]. unfold lex_raw in *. set (l := list_ascii_of_string s) in *.
  destruct (run_value_api_ok _ _ _ Hrun) as [ts' [Hs Hp]].
  rewrite (settle_no_errortoken _ _ (lex_chars_no_errortoken l) Hs) in Hp.
  apply api_sound_plain; [exact Hp | |].
  - pose proof (lex_chars_tok_ok l) as Hok. rewrite Forall_forall in *. intros t Ht.
    destruct (Hsig t Ht) as [H1 H2].
    split; [exact H1|]. split; [exact H2|]. split; [exact (Hok t Ht) | exact (Horc t Ht)].
  - apply lex_chars_plain_false. apply Forall_forall. exact Hind.
Qed.

(* ---- the same, about [lex] ---- *)
Section UserLevel.
Variables (s : string) (ts : list token).
Hypothesis Hlex : lex s = Some ts.
Lemma lex_tok_ok : Forall tok_ok ts.
Proof. rewrite (lex_is s ts Hlex). apply lex_chars_tok_ok. Qed.
Lemma lex_no_errortoken : Forall (fun t => ty t <> ERRORTOKEN) ts.
Proof. rewrite (lex_is s ts Hlex). apply lex_chars_no_errortoken. Qed.
Lemma lex_plain_true : Forall (plain_tok true) ts.
Proof. rewrite (lex_is s ts Hlex). apply lex_chars_plain_true. Qed.
Lemma lex_plain_false : Forall (fun t => ty t <> INDENT) ts -> Forall (plain_tok false) ts.
Proof. rewrite (lex_is s ts Hlex). apply lex_chars_plain_false. Qed.
Lemma lex_not_canon : forall t, In t ts -> punct (text t) -> ~ canon_punct t.
Proof. rewrite (lex_is s ts Hlex). apply lex_chars_not_canon. Qed.
Lemma lex_canon_iff : Forall canon_punct ts <-> Forall (fun t => ~ punct (text t)) ts.
Proof.
  rewrite !Forall_forall. split; intros H t Ht.
  - intro Hp. exact (lex_not_canon t Ht Hp (H t Ht)).
  - intro Hp. exfalso. exact (H t Ht Hp).
Qed.
Lemma lex_settle : forall ts', settle ts = POk ts' -> ts' = ts.
Proof. intros ts' H. exact (settle_no_errortoken _ _ lex_no_errortoken H). Qed.
End UserLevel.

(* a one-line witness: the text "[1]" *)
Example lex_bracket_example :
  lex "[1]" = Some [ {| ty := OP; text := "["; srow := 1; scol := 0; erow := 1; ecol := 1 |};
                     {| ty := NUMBER; text := "1"; srow := 1; scol := 1; erow := 1; ecol := 2 |};
                     {| ty := OP; text := "]"; srow := 1; scol := 2; erow := 1; ecol := 3 |};
                     {| ty := NEWLINE; text := ""; srow := 1; scol := 3; erow := 1; ecol := 4 |};
                     {| ty := ENDMARKER; text := ""; srow := 2; scol := 0; erow := 2; ecol := 0 |} ].
Proof. vm_compute. reflexivity. Qed.
