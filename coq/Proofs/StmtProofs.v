(* C16: a failed parse applies exactly the preceding statements.  Proofs about Model/Stmt.v, Model/StmtSpec.v. *)
From Coq Require Import List String ZArith Bool Arith Lia.
From GinV Require Import Lib.Out Lib.PyStr Model.SelectorMap Model.Parser Model.Stmt Model.StmtSpec.
Import ListNotations.
Open Scope string_scope.
Open Scope list_scope.

(* ---------- with_loc ---------- *)
Definition with_loc_err (l : loc) (e : serr) : serr :=
  match e with SEOther c ch => SEOther c (ch ++ [l]) | x => x end.

Lemma with_loc_SErr : forall A l e, @with_loc A l (SErr e) = SErr (with_loc_err l e).
Proof. intros A l e. destruct e; reflexivity. Qed.

Lemma with_loc_SOk : forall A l (a : A), with_loc l (SOk a) = SOk a.
Proof. reflexivity. Qed.

(* the error chain: with_loc appends the location outermost-last, and never touches SyntaxErrors *)
Theorem with_loc_chain : forall A l c ch, @with_loc A l (SErr (SEOther c ch)) = SErr (SEOther c (ch ++ [l])).
Proof. reflexivity. Qed.
Theorem with_loc_syntax : forall A l f n, @with_loc A l (SErr (SESyntax f n)) = SErr (SESyntax f n).
Proof. reflexivity. Qed.

(* ---------- association lists ---------- *)
Section ALL.
  Context {K V : Type} (eqb : K -> K -> bool).
  Hypothesis eqb_refl : forall k, eqb k k = true.

  Lemma al_get_set_same : forall k (v : V) l, al_get eqb k (al_set eqb k v l) = Some v.
  Proof.
    intros k v l. induction l as [|[j w] r IH]; cbn [al_get al_set].
    - rewrite eqb_refl. reflexivity.
    - destruct (eqb k j) eqn:E; cbn [al_get]; rewrite E; auto.
  Qed.

  Hypothesis eqb_true : forall a b, eqb a b = true -> a = b.

  Lemma al_get_set_other : forall k k' (v : V) l, k' <> k -> al_get eqb k' (al_set eqb k v l) = al_get eqb k' l.
  Proof.
    intros k k' v l Hne. induction l as [|[j w] r IH]; cbn [al_get al_set].
    - destruct (eqb k' k) eqn:E; [apply eqb_true in E; contradiction|reflexivity].
    - destruct (eqb k j) eqn:E; cbn [al_get].
      + apply eqb_true in E. subst j.
        destruct (eqb k' k) eqn:E'; [apply eqb_true in E'; contradiction|reflexivity].
      + rewrite IH. reflexivity.
  Qed.
End ALL.

Lemma ckey_eqb_refl : forall k, ckey_eqb k k = true.
Proof. intros [a b]. unfold ckey_eqb. cbn [fst snd]. rewrite !String.eqb_refl. reflexivity. Qed.

Lemma ckey_eqb_true : forall a b, ckey_eqb a b = true -> a = b.
Proof.
  intros [a1 a2] [b1 b2] H. unfold ckey_eqb in H. cbn [fst snd] in H.
  apply andb_true_iff in H. destruct H as [H1 H2].
  apply String.eqb_eq in H1. apply String.eqb_eq in H2. subst. reflexivity.
Qed.

Lemma string_eqb_true : forall a b : string, String.eqb a b = true -> a = b.
Proof. intros a b H. apply String.eqb_eq. exact H. Qed.

(* ---------- bind ---------- *)
Definition odefault {A} (d : A) (o : option A) : A := match o with Some x => x | None => d end.

(* full inversion of a successful bind *)
Lemma bind_inv : forall s sc sel arg v l s', bind s sc sel arg v l = SOk s' ->
  exists k c,
    t_locked s = false /\
    sm_get_match (to_key sel) (t_reg s) = MOne k (Some c) /\
    (cs_varkw c || str_in arg (cs_args c)) = true /\
    str_in arg (cs_deny c) = false /\
    s' = set_store
           (al_set ckey_eqb (sc, cs_sel c)
              (al_set String.eqb arg v (odefault [] (al_get ckey_eqb (sc, cs_sel c) (t_store s)))) (t_store s))
           (al_set ckey_eqb (sc, cs_sel c)
              (al_set String.eqb arg l (odefault [] (al_get ckey_eqb (sc, cs_sel c) (t_prov s)))) (t_prov s)) s.
Proof.
  intros s sc sel arg v l s' H. unfold bind in H.
  destruct (t_locked s) eqn:Hl; [discriminate|].
  destruct (sm_get_match (to_key sel) (t_reg s)) as [| |k [c|]] eqn:Hm; try discriminate.
  destruct (cs_varkw c || str_in arg (cs_args c)) eqn:Ha; cbn [negb] in H; [|discriminate].
  destruct (negb (match cs_allow c with [] => true | _ :: _ => false end) && negb (str_in arg (cs_allow c)));
    [discriminate|].
  destruct (str_in arg (cs_deny c)) eqn:Hd; [discriminate|].
  inversion H as [H1]. exists k, c.
  split; [reflexivity|]. split; [reflexivity|]. split; [exact Ha|]. split; [exact Hd|reflexivity].
Qed.

(* a rejected binding returns no new state at all; an accepted one changes only store and provenance *)
Theorem bind_ok_frame : forall s sc sel arg v l s', bind s sc sel arg v l = SOk s' ->
  t_reg s' = t_reg s /\ t_consts s' = t_consts s /\ t_imports s' = t_imports s /\ t_locked s' = t_locked s.
Proof.
  intros s sc sel arg v l s' H.
  destruct (bind_inv _ _ _ _ _ _ _ H) as [k [c [_ [_ [_ [_ Hs]]]]]]. subst s'.
  repeat split; reflexivity.
Qed.

(* binding is impossible while the config is locked *)
Theorem bind_locked : forall s sc sel arg v l, t_locked s = true ->
  bind s sc sel arg v l = SErr (SEOther "RuntimeError" []).
Proof. intros s sc sel arg v l H. unfold bind. rewrite H. reflexivity. Qed.

Definition prov_at (s : tstate) (ck : ckey) (arg : string) : option loc :=
  al_get String.eqb arg (odefault [] (al_get ckey_eqb ck (t_prov s))).
Definition store_at (s : tstate) (ck : ckey) (arg : string) : option out :=
  al_get String.eqb arg (odefault [] (al_get ckey_eqb ck (t_store s))).

(* provenance: after a successful bind the location recorded for that parameter is the statement's own, the
   store holds the value there, and every other (scope, selector, parameter) entry is unchanged *)
Theorem bind_records_location : forall s sc sel arg v l s', bind s sc sel arg v l = SOk s' ->
  exists k c, sm_get_match (to_key sel) (t_reg s) = MOne k (Some c) /\
    prov_at s' (sc, cs_sel c) arg = Some l /\
    store_at s' (sc, cs_sel c) arg = Some v /\
    (forall ck' arg', (ck', arg') <> ((sc, cs_sel c), arg) ->
       prov_at s' ck' arg' = prov_at s ck' arg' /\ store_at s' ck' arg' = store_at s ck' arg').
Proof.
  intros s sc sel arg v l s' H.
  destruct (bind_inv _ _ _ _ _ _ _ H) as [k [c [_ [Hm [_ [_ Hs]]]]]]. subst s'.
  exists k, c. split; [exact Hm|].
  unfold prov_at, store_at, set_store. cbn [t_prov t_store].
  rewrite !(al_get_set_same ckey_eqb ckey_eqb_refl). cbn [odefault].
  rewrite !(al_get_set_same String.eqb String.eqb_refl).
  split; [reflexivity|]. split; [reflexivity|].
  intros ck' arg' Hne.
  destruct (ckey_eqb ck' (sc, cs_sel c)) eqn:E.
  - apply ckey_eqb_true in E. subst ck'.
    rewrite !(al_get_set_same ckey_eqb ckey_eqb_refl). cbn [odefault].
    assert (Ha : arg' <> arg) by (intro; subst; apply Hne; reflexivity).
    rewrite !(al_get_set_other String.eqb string_eqb_true) by exact Ha.
    split; reflexivity.
  - assert (Hk : ck' <> (sc, cs_sel c)) by (intro; subst; rewrite ckey_eqb_refl in E; discriminate).
    rewrite !(al_get_set_other ckey_eqb ckey_eqb_true) by exact Hk.
    split; reflexivity.
Qed.

(* ---------- imports that register configurables ---------- *)
(* no module registers anything: the model of imports without side effects *)
Definition pure_imports (env : fenv) : Prop := forall m cs, In (m, cs) (e_mod_regs env) -> cs = [].

Lemma al_get_str_In : forall (V : Type) m (l : list (string * V)) v, al_get String.eqb m l = Some v -> In (m, v) l.
Proof.
  intros V m l v. induction l as [|[j w] r IH]; cbn [al_get]; intros H; [discriminate|].
  destruct (String.eqb_spec m j) as [E|_].
  - inversion H; subst. left. reflexivity.
  - right. apply IH. exact H.
Qed.

Lemma mod_regs_In : forall env m c, In c (mod_regs env m) -> exists cs, In (m, cs) (e_mod_regs env) /\ In c cs.
Proof.
  intros env m c H. unfold mod_regs in H. destruct (al_get String.eqb m (e_mod_regs env)) as [cs|] eqn:E; [|destruct H].
  exists cs. split; [apply al_get_str_In; exact E|exact H].
Qed.

Lemma pure_mod_regs : forall env, pure_imports env -> forall m, mod_regs env m = [].
Proof.
  intros env Hp m. destruct (mod_regs env m) as [|c l] eqn:E; [reflexivity|].
  destruct (mod_regs_In env m c) as [cs [A B]]; [rewrite E; left; reflexivity|].
  rewrite (Hp m cs A) in B. destruct B.
Qed.

Lemma register_mod_pure : forall env m s, pure_imports env -> register_mod env m s = SOk s.
Proof. intros env m s Hp. unfold register_mod. rewrite (pure_mod_regs env Hp m). reflexivity. Qed.

Lemma reg_add_app : forall a b r, reg_add (a ++ b) r = reg_add b (reg_add a r).
Proof. intros a b r. unfold reg_add. apply fold_left_app. Qed.

(* the registry only GROWS, by registrations some importable module makes *)
Definition reg_extends (env : fenv) (s s' : tstate) : Prop :=
  exists cs, Forall (fun c => exists m, In c (mod_regs env m)) cs /\ t_reg s' = reg_add cs (t_reg s).

Lemma reg_extends_eq : forall env s s', t_reg s' = t_reg s -> reg_extends env s s'.
Proof. intros env s s' H. exists []. split; [constructor|exact H]. Qed.
Lemma reg_extends_refl : forall env s, reg_extends env s s.
Proof. intros env s. apply reg_extends_eq. reflexivity. Qed.
Lemma reg_extends_trans : forall env a b c, reg_extends env a b -> reg_extends env b c -> reg_extends env a c.
Proof.
  intros env a b c [c1 [F1 E1]] [c2 [F2 E2]]. exists (c1 ++ c2). split; [apply Forall_app; split; assumption|].
  rewrite reg_add_app, <- E1. exact E2.
Qed.
Lemma reg_extends_pure : forall env s s', pure_imports env -> reg_extends env s s' -> t_reg s' = t_reg s.
Proof.
  intros env s s' Hp [cs [F E]]. destruct cs as [|c l]; [exact E|].
  inversion F as [|c0 l0 [m Hm] _]; subst. rewrite (pure_mod_regs env Hp m) in Hm. destruct Hm.
Qed.

(* a successful import changes nothing but the registry, which it extends by the module's registrations *)
Lemma register_mod_ok_frame : forall env m s s', register_mod env m s = SOk s' ->
  reg_extends env s s' /\ t_consts s' = t_consts s /\ t_store s' = t_store s /\ t_prov s' = t_prov s /\
  t_imports s' = t_imports s /\ t_locked s' = t_locked s.
Proof.
  intros env m s s' H. unfold register_mod in H.
  destruct (forallb (registered s) (mod_regs env m)).
  - inversion H; subst s'. split; [apply reg_extends_refl|]. repeat split; reflexivity.
  - destruct (t_locked s) eqn:Hl; [discriminate|]. inversion H; subst s'. split.
    + exists (mod_regs env m). split; [|reflexivity]. apply Forall_forall. intros c Hc. exists m. exact Hc.
    + repeat split; try reflexivity. exact Hl.
Qed.

(* a failed import (registering while locked) is the RuntimeError *)
Lemma register_mod_err : forall env m s e, register_mod env m s = SErr e ->
  e = SEOther "RuntimeError" [] /\ t_locked s = true.
Proof.
  intros env m s e H. unfold register_mod in H.
  destruct (forallb (registered s) (mod_regs env m)); [discriminate|].
  destruct (t_locked s); [inversion H; auto|discriminate].
Qed.

(* register_mod reads nothing but the registry and the lock *)
Lemma register_mod_reg_lock : forall env m s s0, t_reg s = t_reg s0 -> t_locked s = t_locked s0 ->
  match register_mod env m s, register_mod env m s0 with
  | SOk a, SOk b => t_reg a = t_reg b /\ t_locked a = t_locked b /\
                    t_consts a = t_consts s /\ t_store a = t_store s /\ t_prov a = t_prov s /\ t_imports a = t_imports s
  | SErr e, SErr e' => e = e'
  | _, _ => False
  end.
Proof.
  intros env m s s0 Hr Hl. unfold register_mod.
  assert (E : forallb (registered s) (mod_regs env m) = forallb (registered s0) (mod_regs env m)).
  { induction (mod_regs env m) as [|c l IHl]; [reflexivity|]. cbn [forallb]. rewrite IHl.
    unfold registered. rewrite Hr. reflexivity. }
  rewrite <- E, <- Hl, <- Hr.
  destruct (forallb (registered s) (mod_regs env m)).
  - repeat split; auto.
  - destruct (t_locked s) eqn:Hls; [reflexivity|].
    cbn [set_reg t_reg t_locked t_consts t_store t_prov t_imports]. repeat split; auto. congruence.
Qed.

(* what a whole parse may do to registry, constants, recorded imports and lock *)
(* (the recorded imports only grow, at the end: every import statement that takes effect is recorded at once) *)
Definition frame_gen (env : fenv) (s s' : tstate) : Prop :=
  reg_extends env s s' /\ t_consts s' = t_consts s /\ (exists d, t_imports s' = t_imports s ++ d) /\ t_locked s' = t_locked s.
Lemma frame_gen_refl : forall env s, frame_gen env s s.
Proof.
  intros env s. split; [apply reg_extends_refl|]. split; [reflexivity|]. split; [|reflexivity].
  exists []. rewrite app_nil_r. reflexivity.
Qed.
Lemma frame_gen_trans : forall env a b c, frame_gen env a b -> frame_gen env b c -> frame_gen env a c.
Proof.
  intros env a b c [A1 [A2 [[d1 A3] A4]]] [B1 [B2 [[d2 B3] B4]]]. split; [eapply reg_extends_trans; eassumption|].
  split; [congruence|]. split; [|congruence]. exists (d1 ++ d2). rewrite B3, A3, app_assoc. reflexivity.
Qed.
Lemma frame_gen_pure : forall env s s', pure_imports env -> frame_gen env s s' ->
  t_reg s' = t_reg s /\ t_consts s' = t_consts s /\ (exists d, t_imports s' = t_imports s ++ d) /\ t_locked s' = t_locked s.
Proof. intros env s s' Hp [A [B [C D]]]. split; [apply (reg_extends_pure env s s' Hp A)|]. auto. Qed.
Lemma frame_gen_same_imports : forall env s s',
  reg_extends env s s' -> t_consts s' = t_consts s -> t_imports s' = t_imports s -> t_locked s' = t_locked s ->
  frame_gen env s s'.
Proof.
  intros env s s' A B C D. split; [exact A|]. split; [exact B|]. split; [|exact D].
  exists []. rewrite app_nil_r. exact C.
Qed.
Lemma frame_gen_add_imports : forall env l s, frame_gen env s (add_imports l s).
Proof.
  intros env l s. split; [apply reg_extends_eq; reflexivity|]. split; [reflexivity|]. split; [|reflexivity].
  exists l. reflexivity.
Qed.
Lemma bind_frame_gen : forall env s sc sel arg v l s', bind s sc sel arg v l = SOk s' -> frame_gen env s s'.
Proof.
  intros env s sc sel arg v l s' H. destruct (bind_ok_frame _ _ _ _ _ _ _ H) as [A [B [C D]]].
  apply frame_gen_same_imports; auto. apply reg_extends_eq; exact A.
Qed.
Lemma register_mod_frame_gen : forall env m s s', register_mod env m s = SOk s' -> frame_gen env s s'.
Proof.
  intros env m s s' H. destruct (register_mod_ok_frame _ _ _ _ H) as [A [B [_ [_ [C D]]]]].
  apply frame_gen_same_imports; auto.
Qed.

(* ---------- apply_stmts: sequencing ---------- *)
Lemma apply_stmts_cons : forall env sk fname inc st rest s im ic,
  apply_stmts env sk fname inc (st :: rest) s im ic =
  (let '(s1, r) := apply_stmts env sk fname inc [st] s im ic in
   match r with SErr e => (s1, SErr e) | SOk (im', ic') => apply_stmts env sk fname inc rest s1 im' ic' end).
Proof.
  intros env sk fname inc st rest s im ic.
  destruct st as [sc sel arg v line|sc sel line|m isf al line|v line]; cbn [apply_stmts].
  - destruct (String.eqb arg "").
    + destruct (bind s _ "gin.macro" "value" v (fname, line)) as [s'|e];
        [reflexivity|rewrite with_loc_SErr; reflexivity].
    + destruct (should_skip s sel sk); [reflexivity|].
      destruct (bind s sc sel arg v (fname, line)) as [s'|e];
        [reflexivity|rewrite with_loc_SErr; reflexivity].
  - destruct (should_skip s sel sk); [reflexivity|].
    destruct (sm_get_match (to_key sel) (t_reg s)) as [| |k [c|]]; reflexivity.
  - destruct (str_in m (e_modules env)).
    + destruct (register_mod env m s) as [s'|e]; [reflexivity|rewrite with_loc_SErr; reflexivity].
    + destruct (sk_truthy sk); reflexivity.
  - destruct (inc (str_of_value v) s) as [s1 r]. destruct r as [t|e];
      [reflexivity|rewrite with_loc_SErr; reflexivity].
Qed.

Lemma apply_stmts_app : forall env sk fname inc a b s im ic,
  apply_stmts env sk fname inc (a ++ b) s im ic =
  (let '(s1, r) := apply_stmts env sk fname inc a s im ic in
   match r with SErr e => (s1, SErr e) | SOk (im', ic') => apply_stmts env sk fname inc b s1 im' ic' end).
Proof.
  intros env sk fname inc a. induction a as [|st a IH]; intros b s im ic.
  - reflexivity.
  - change ((st :: a) ++ b) with (st :: (a ++ b)).
    rewrite (apply_stmts_cons env sk fname inc st (a ++ b)).
    rewrite (apply_stmts_cons env sk fname inc st a).
    destruct (apply_stmts env sk fname inc [st] s im ic) as [s1 r1].
    destruct r1 as [[im1 ic1]|e1]; [apply IH|reflexivity].
Qed.

Definition noinc (stmts : list stmt) : bool := forallb (fun st => negb (is_include st)) stmts.

(* apply_stmts never consults the include handler on an include-free statement list *)
Lemma apply_stmts_inc_indep : forall env sk fname inc inc' stmts s im ic,
  forallb (fun st => negb (is_include st)) stmts = true ->
  apply_stmts env sk fname inc stmts s im ic = apply_stmts env sk fname inc' stmts s im ic.
Proof.
  intros env sk fname inc inc' stmts. induction stmts as [|st rest IH]; intros s im ic Hn.
  - reflexivity.
  - cbn [forallb] in Hn. apply andb_true_iff in Hn. destruct Hn as [Hst Hrest].
    destruct st as [sc sel arg v line|sc sel line|m isf al line|v line]; cbn [apply_stmts].
    + destruct (String.eqb arg "").
      * destruct (bind s _ "gin.macro" "value" v (fname, line)) as [s'|e]; [apply IH; exact Hrest|reflexivity].
      * destruct (should_skip s sel sk); [apply IH; exact Hrest|].
        destruct (bind s sc sel arg v (fname, line)) as [s'|e]; [apply IH; exact Hrest|reflexivity].
    + destruct (should_skip s sel sk); [apply IH; exact Hrest|].
      destruct (sm_get_match (to_key sel) (t_reg s)) as [| |k [c|]]; try reflexivity. apply IH; exact Hrest.
    + destruct (str_in m (e_modules env)).
      * destruct (register_mod env m s) as [s'|e]; [apply IH; exact Hrest|reflexivity].
      * destruct (sk_truthy sk); [apply IH; exact Hrest|reflexivity].
    + cbn in Hst. discriminate.
Qed.

(* without includes apply_stmts never touches constants / lock, the recorded imports only grow, and the registry only
   grows by what the imported modules register *)
Theorem apply_stmts_frame_gen : forall env sk fname inc stmts s im ic s' r,
  forallb (fun st => negb (is_include st)) stmts = true ->
  apply_stmts env sk fname inc stmts s im ic = (s', r) -> frame_gen env s s'.
Proof.
  intros env sk fname inc stmts. induction stmts as [|st rest IH]; intros s im ic s' r Hn H.
  - cbn [apply_stmts] in H. inversion H. apply frame_gen_refl.
  - cbn [forallb] in Hn. apply andb_true_iff in Hn. destruct Hn as [Hst Hrest].
    destruct st as [sc sel arg v line|sc sel line|m isf al line|v line]; cbn [apply_stmts] in H.
    + destruct (String.eqb arg "").
      * destruct (bind s _ "gin.macro" "value" v (fname, line)) as [s0|e] eqn:Hbind.
        -- eapply frame_gen_trans; [eapply bind_frame_gen; exact Hbind|eapply IH; eassumption].
        -- inversion H. apply frame_gen_refl.
      * destruct (should_skip s sel sk); [eapply IH; eassumption|].
        destruct (bind s sc sel arg v (fname, line)) as [s0|e] eqn:Hbind.
        -- eapply frame_gen_trans; [eapply bind_frame_gen; exact Hbind|eapply IH; eassumption].
        -- inversion H. apply frame_gen_refl.
    + destruct (should_skip s sel sk); [eapply IH; eassumption|].
      destruct (sm_get_match (to_key sel) (t_reg s)) as [| |k [c|]];
        try (inversion H; apply frame_gen_refl).
      eapply IH; eassumption.
    + destruct (str_in m (e_modules env)).
      * destruct (register_mod env m s) as [s0|e] eqn:Hreg.
        -- eapply frame_gen_trans; [eapply register_mod_frame_gen; exact Hreg|].
           eapply frame_gen_trans; [apply (frame_gen_add_imports env [m] s0)|eapply IH; eassumption].
        -- inversion H. apply frame_gen_refl.
      * destruct (sk_truthy sk); [eapply IH; eassumption|].
        inversion H. apply frame_gen_refl.
    + cbn in Hst. discriminate.
Qed.

(* with side-effect-free imports the registry is untouched as well *)
Theorem apply_stmts_frame : forall env sk fname inc stmts s im ic s' r,
  pure_imports env ->
  forallb (fun st => negb (is_include st)) stmts = true ->
  apply_stmts env sk fname inc stmts s im ic = (s', r) ->
  t_reg s' = t_reg s /\ t_consts s' = t_consts s /\ (exists d, t_imports s' = t_imports s ++ d) /\ t_locked s' = t_locked s.
Proof.
  intros env sk fname inc stmts s im ic s' r Hp Hn H. apply (frame_gen_pure env s s' Hp).
  eapply apply_stmts_frame_gen; eassumption.
Qed.

(* group atomicity: on failure the state is the one reached by the longest successful prefix of the group,
   followed by whatever the failing statement itself did (nothing, unless it is an include) *)
Theorem apply_stmts_prefix : forall env sk fname inc stmts s im ic s' e,
  apply_stmts env sk fname inc stmts s im ic = (s', SErr e) ->
  exists k st s_mid im' ic',
    nth_error stmts k = Some st /\
    apply_stmts env sk fname inc (firstn k stmts) s im ic = (s_mid, SOk (im', ic')) /\
    apply_stmts env sk fname inc [st] s_mid im' ic' = (s', SErr e).
Proof.
  intros env sk fname inc stmts. induction stmts as [|st rest IH]; intros s im ic s' e H.
  - cbn [apply_stmts] in H. discriminate.
  - rewrite apply_stmts_cons in H.
    destruct (apply_stmts env sk fname inc [st] s im ic) as [s1 r1] eqn:H1.
    destruct r1 as [[im1 ic1]|e1].
    + destruct (IH _ _ _ _ _ H) as [k [st' [s_mid [im' [ic' [Hn [Hp Hf]]]]]]].
      exists (S k), st', s_mid, im', ic'. split; [exact Hn|]. split; [|exact Hf].
      cbn [firstn]. rewrite apply_stmts_cons, H1. exact Hp.
    + inversion H; subst s1 e1.
      exists 0, st, s, im, ic. split; [reflexivity|]. split; [reflexivity|exact H1].
Qed.

(* a failing non-include statement leaves the state it started from *)
Lemma apply_one_fail_state : forall env sk fname inc st s im ic s' e,
  is_include st = false ->
  apply_stmts env sk fname inc [st] s im ic = (s', SErr e) -> s' = s.
Proof.
  intros env sk fname inc st s im ic s' e Hst H.
  destruct st as [sc sel arg v line|sc sel line|m isf al line|v line]; cbn [apply_stmts] in H.
  - destruct (String.eqb arg "").
    + destruct (bind s _ "gin.macro" "value" v (fname, line)); [discriminate|inversion H; reflexivity].
    + destruct (should_skip s sel sk); [discriminate|].
      destruct (bind s sc sel arg v (fname, line)); [discriminate|inversion H; reflexivity].
  - destruct (should_skip s sel sk); [discriminate|].
    destruct (sm_get_match (to_key sel) (t_reg s)) as [| |k [c|]]; try discriminate; inversion H; reflexivity.
  - destruct (str_in m (e_modules env)).
    + destruct (register_mod env m s); [discriminate|inversion H; reflexivity].
    + destruct (sk_truthy sk); [discriminate|inversion H; reflexivity].
  - discriminate.
Qed.

(* include-free sharpening: the final state IS the state after the longest successful prefix *)
Theorem apply_stmts_prefix_noinc : forall env sk fname inc stmts s im ic s' e,
  forallb (fun st => negb (is_include st)) stmts = true ->
  apply_stmts env sk fname inc stmts s im ic = (s', SErr e) ->
  exists k st im' ic',
    nth_error stmts k = Some st /\
    apply_stmts env sk fname inc (firstn k stmts) s im ic = (s', SOk (im', ic')) /\
    apply_stmts env sk fname inc [st] s' im' ic' = (s', SErr e).
Proof.
  intros env sk fname inc stmts s im ic s' e Hn H.
  destruct (apply_stmts_prefix _ _ _ _ _ _ _ _ _ _ H) as [k [st [s_mid [im' [ic' [Hk [Hp Hf]]]]]]].
  assert (Hst : is_include st = false).
  { rewrite forallb_forall in Hn. specialize (Hn st (nth_error_In _ _ Hk)).
    destruct (is_include st); [discriminate|reflexivity]. }
  pose proof (apply_one_fail_state _ _ _ _ _ _ _ _ _ _ Hst Hf) as Heq. subst s_mid.
  exists k, st, im', ic'. auto.
Qed.

(* ---------- resolve_group ---------- *)
(* unfolding lemmas (kept opaque to the kernel: never let it unfold [resolve_value 100]) *)
Lemma resolve_group_nil : forall s sk fname, resolve_group s sk fname [] = SOk [].
Proof. reflexivity. Qed.
Lemma resolve_group_SBind : forall s sk fname sc sel arg v line rest,
  resolve_group s sk fname (SBind sc sel arg v line :: rest) =
  match resolve_value 100 s sk v with
  | SErr e => with_loc (fname, line) (SErr e)
  | SOk v' => match resolve_group s sk fname rest with
              | SErr e => SErr e
              | SOk r' => SOk (SBind sc sel arg v' line :: r')
              end
  end.
Proof. reflexivity. Qed.
Lemma resolve_group_other : forall s sk fname st rest,
  (forall sc sel arg v line, st <> SBind sc sel arg v line) ->
  resolve_group s sk fname (st :: rest) =
  match resolve_group s sk fname rest with SErr e => SErr e | SOk r' => SOk (st :: r') end.
Proof.
  intros s sk fname st rest Hst. destruct st as [sc sel arg v line| | |]; try reflexivity.
  exfalso. eapply Hst. reflexivity.
Qed.

Lemma resolve_group_is_include : forall s sk fname g g',
  resolve_group s sk fname g = SOk g' -> map is_include g' = map is_include g.
Proof.
  intros s sk fname g. induction g as [|st rest IH]; intros g' H.
  - rewrite resolve_group_nil in H. inversion H. reflexivity.
  - destruct st as [sc sel arg v line|sc sel line|m isf al line|v line].
    + rewrite resolve_group_SBind in H.
      destruct (resolve_value 100 s sk v) as [v'|e]; [|rewrite with_loc_SErr in H; discriminate].
      destruct (resolve_group s sk fname rest) as [r'|e]; [|discriminate].
      inversion H. cbn [map]. rewrite (IH r' eq_refl). reflexivity.
    + rewrite resolve_group_other in H by (intros; discriminate).
      destruct (resolve_group s sk fname rest) as [r'|e]; [|discriminate].
      inversion H. cbn [map]. rewrite (IH r' eq_refl). reflexivity.
    + rewrite resolve_group_other in H by (intros; discriminate).
      destruct (resolve_group s sk fname rest) as [r'|e]; [|discriminate].
      inversion H. cbn [map]. rewrite (IH r' eq_refl). reflexivity.
    + rewrite resolve_group_other in H by (intros; discriminate).
      destruct (resolve_group s sk fname rest) as [r'|e]; [|discriminate].
      inversion H. cbn [map]. rewrite (IH r' eq_refl). reflexivity.
Qed.

Lemma noinc_map : forall g, forallb (fun st => negb (is_include st)) g = forallb negb (map is_include g).
Proof. intros g. induction g as [|st r IH]; cbn [forallb map]; [reflexivity|rewrite IH; reflexivity]. Qed.

Lemma resolve_group_noinc : forall s sk fname g g',
  resolve_group s sk fname g = SOk g' ->
  forallb (fun st => negb (is_include st)) g' = forallb (fun st => negb (is_include st)) g.
Proof.
  intros s sk fname g g' H. rewrite !noinc_map. rewrite (resolve_group_is_include _ _ _ _ _ H). reflexivity.
Qed.

(* ---------- consume ---------- *)
Lemma consume_frame_gen : forall env sk fname inc gs s im ic s' r,
  no_includes gs ->
  consume env sk fname inc gs s im ic = (s', r) -> frame_gen env s s'.
Proof.
  intros env sk fname inc gs. induction gs as [|g rest IH]; intros s im ic s' r Hn H.
  - cbn [consume] in H. inversion H. apply frame_gen_refl.
  - inversion Hn as [|g0 rest0 Hg Hrest]; subst g0 rest0.
    cbn [consume] in H.
    destruct (resolve_group s sk fname g) as [g'|e0] eqn:Hr.
    + destruct (apply_stmts env sk fname inc g' s im ic) as [s1 r1] eqn:Ha.
      assert (Hg' : forallb (fun st => negb (is_include st)) g' = true)
        by (rewrite (resolve_group_noinc _ _ _ _ _ Hr); exact Hg).
      pose proof (apply_stmts_frame_gen _ _ _ _ _ _ _ _ _ _ Hg' Ha) as B.
      destruct r1 as [[im1 ic1]|e1].
      * eapply frame_gen_trans; [exact B|eapply IH; eassumption].
      * inversion H; subst s1. exact B.
    + inversion H. apply frame_gen_refl.
Qed.

Lemma consume_frame : forall env sk fname inc gs s im ic s' r,
  pure_imports env -> no_includes gs ->
  consume env sk fname inc gs s im ic = (s', r) ->
  t_reg s' = t_reg s /\ t_consts s' = t_consts s /\ (exists d, t_imports s' = t_imports s ++ d) /\ t_locked s' = t_locked s.
Proof.
  intros env sk fname inc gs s im ic s' r Hp Hn H. apply (frame_gen_pure env s s' Hp).
  eapply consume_frame_gen; eassumption.
Qed.

(* consequence: after a failure at group index i, the store is that of consuming firstn i groups and then the
   prefix of group i *)
Theorem C16_failed_parse_is_prefix : forall env sk fname gs s im ic s1 e,
  consume env sk fname no_inc gs s im ic = (s1, SErr e) ->
  exists i g, nth_error gs i = Some g /\
    exists s0 im0 ic0, consume env sk fname no_inc (firstn i gs) s im ic = (s0, SOk (im0, ic0)) /\
      ((resolve_group s0 sk fname g = SErr e /\ s1 = s0) \/
       exists g', resolve_group s0 sk fname g = SOk g' /\
                  apply_stmts env sk fname no_inc g' s0 im0 ic0 = (s1, SErr e)).
Proof.
  intros env sk fname gs. induction gs as [|g rest IH]; intros s im ic s1 e H.
  - cbn [consume] in H. discriminate.
  - cbn [consume] in H.
    destruct (resolve_group s sk fname g) as [g'|e0] eqn:Hr.
    + destruct (apply_stmts env sk fname no_inc g' s im ic) as [s2 r2] eqn:Ha.
      destruct r2 as [[im2 ic2]|e2].
      * destruct (IH _ _ _ _ _ H) as [i [gi [Hn [s0 [im0 [ic0 [Hc Hd]]]]]]].
        exists (S i), gi. split; [exact Hn|]. exists s0, im0, ic0. split; [|exact Hd].
        cbn [firstn consume]. rewrite Hr, Ha. exact Hc.
      * inversion H; subst s2 e2.
        exists 0, g. split; [reflexivity|]. exists s, im, ic. split; [reflexivity|].
        right. exists g'. split; [exact Hr|exact Ha].
    + inversion H; subst s1 e0.
      exists 0, g. split; [reflexivity|]. exists s, im, ic. split; [reflexivity|].
      left. split; [exact Hr|reflexivity].
Qed.

(* the same down to the single statement: exactly the groups before i and the statements before k of group i
   have taken effect *)
Theorem C16_failed_parse_is_statement_prefix : forall env sk fname gs s im ic s1 e,
  no_includes gs ->
  consume env sk fname no_inc gs s im ic = (s1, SErr e) ->
  exists i g, nth_error gs i = Some g /\
    exists s0 im0 ic0, consume env sk fname no_inc (firstn i gs) s im ic = (s0, SOk (im0, ic0)) /\
      ((resolve_group s0 sk fname g = SErr e /\ s1 = s0) \/
       exists g' k st im' ic', resolve_group s0 sk fname g = SOk g' /\
         nth_error g' k = Some st /\
         apply_stmts env sk fname no_inc (firstn k g') s0 im0 ic0 = (s1, SOk (im', ic')) /\
         apply_stmts env sk fname no_inc [st] s1 im' ic' = (s1, SErr e)).
Proof.
  intros env sk fname gs s im ic s1 e Hn H.
  destruct (C16_failed_parse_is_prefix _ _ _ _ _ _ _ _ _ H) as [i [g [Hi [s0 [im0 [ic0 [Hc Hd]]]]]]].
  exists i, g. split; [exact Hi|]. exists s0, im0, ic0. split; [exact Hc|].
  destruct Hd as [Hd|[g' [Hr Ha]]]; [left; exact Hd|right].
  assert (Hg : forallb (fun st => negb (is_include st)) g = true).
  { unfold no_includes in Hn. rewrite Forall_forall in Hn. apply Hn. eapply nth_error_In; exact Hi. }
  assert (Hg' : forallb (fun st => negb (is_include st)) g' = true)
    by (rewrite (resolve_group_noinc _ _ _ _ _ Hr); exact Hg).
  destruct (apply_stmts_prefix_noinc _ _ _ _ _ _ _ _ _ _ Hg' Ha) as [k [st [im' [ic' [Hk [Hp Hf]]]]]].
  exists g', k, st, im', ic'. auto.
Qed.

(* ---------- parse_tokens vs parse_groups + consume ---------- *)
(* the include handler parse_tokens (S f) builds: parse_config_file one recursion level down *)
Definition inc_of (f : nat) (env : fenv) (sk : skip_unknown) : inc_handler := fun name s =>
  match resolve_file env name with
  | None => (s, SErr (SEOther "OSError" []))
  | Some (full, g) =>
      let '(s', r) :=
        match settle (f_tokens g) with
        | PErr (ESyntax ln) => (s, SErr (SESyntax full ln))
        | PErr (EOther c) => (s, SErr (SEOther c []))
        | POk ts0 => parse_tokens f env sk full (f_oracle g) false ts0 s [] []
        end in
      match r with
      | SErr e => (s', SErr e)
      | SOk (im, ic) => (s', SOk (INode name im ic))
      end
  end.

Lemma parse_tokens_S : forall f env sk fname o pending ts s im ic,
  parse_tokens (S f) env sk fname o pending ts s im ic =
  match parse_statement o pending ts with
  | PErr e => (s, SErr (perr_to_serr fname e))
  | POk None => (s, SOk (im, ic))
  | POk (Some (stmts, ts', pending')) =>
      match resolve_group s sk fname stmts with
      | SErr e => (s, SErr e)
      | SOk stmts' =>
          let '(s1, r) := apply_stmts env sk fname (inc_of f env sk) stmts' s im ic in
          match r with
          | SErr e => (s1, SErr e)
          | SOk (im', ic') => parse_tokens f env sk fname o pending' ts' s1 im' ic'
          end
      end
  end.
Proof.
  intros. cbn [parse_tokens].
  destruct (parse_statement o pending ts) as [[[[stmts ts'] pending']|]|[line|c]]; reflexivity.
Qed.

Lemma parse_groups_S : forall f o pending ts,
  parse_groups (S f) o pending ts =
  match parse_statement o pending ts with
  | PErr e => ([], Some e)
  | POk None => ([], None)
  | POk (Some (stmts, ts', pending')) =>
      let '(gs, e) := parse_groups f o pending' ts' in (stmts :: gs, e)
  end.
Proof. reflexivity. Qed.

(* parse_groups ran out of ITS OWN fuel exactly when it produced [fuel] groups *)
Lemma parse_groups_length : forall fuel o pending ts gs pe,
  parse_groups fuel o pending ts = (gs, pe) ->
  List.length gs <= fuel /\ (List.length gs = fuel -> pe = Some (EOther "OutOfFuel")).
Proof.
  induction fuel as [|f IH]; intros o pending ts gs pe H.
  - cbn [parse_groups] in H. inversion H. cbn. split; [lia|reflexivity].
  - rewrite parse_groups_S in H.
    destruct (parse_statement o pending ts) as [[[[stmts ts'] pending']|]|e].
    + destruct (parse_groups f o pending' ts') as [gs' e'] eqn:Hg. inversion H; subst gs pe.
      destruct (IH _ _ _ _ _ Hg) as [A B]. cbn [List.length]. split; [lia|].
      intros Hl. apply B. lia.
    + inversion H. cbn. split; [lia|discriminate].
    + inversion H. cbn. split; [lia|discriminate].
Qed.

(* THE streaming theorem, most general form (include-free configs, EVERY fuel): parsing-and-applying statement
   by statement gives the same final state and outcome as first parsing the whole token stream into groups and
   then consuming the groups in order, stopping at the first failure.  The only difference is the name of the
   error when the recursion budget itself is exhausted (List.length gs = fuel). *)
Theorem C16_stream_eq_gen : forall fuel env sk fname o pending ts s im ic gs pe,
  parse_groups fuel o pending ts = (gs, pe) -> no_includes gs ->
  parse_tokens fuel env sk fname o pending ts s im ic =
  (let '(s1, r) := consume env sk fname no_inc gs s im ic in
   match r with
   | SErr e => (s1, SErr e)
   | SOk (im', ic') =>
       if Nat.eqb (List.length gs) fuel then (s1, SErr (SEOther "RecursionError" []))
       else match pe with
            | Some e => (s1, SErr (perr_to_serr fname e))
            | None => (s1, SOk (im', ic'))
            end
   end).
Proof.
  induction fuel as [|f IH]; intros env sk fname o pending ts s im ic gs pe H Hn.
  - cbn [parse_groups] in H. inversion H; subst gs pe. reflexivity.
  - rewrite parse_tokens_S. rewrite parse_groups_S in H.
    destruct (parse_statement o pending ts) as [[[[stmts ts'] pending']|]|e].
    + destruct (parse_groups f o pending' ts') as [gs' e'] eqn:Hg. inversion H; subst gs pe.
      inversion Hn as [|g0 rest0 Hg1 Hrest]; subst g0 rest0.
      cbn [consume].
      destruct (resolve_group s sk fname stmts) as [stmts'|e0] eqn:Hr; [|reflexivity].
      assert (Hg' : forallb (fun st => negb (is_include st)) stmts' = true)
        by (rewrite (resolve_group_noinc _ _ _ _ _ Hr); exact Hg1).
      rewrite (apply_stmts_inc_indep env sk fname (inc_of f env sk) no_inc stmts' s im ic Hg').
      destruct (apply_stmts env sk fname no_inc stmts' s im ic) as [s1 r1].
      destruct r1 as [[im1 ic1]|e1]; [|reflexivity].
      rewrite (IH env sk fname o pending' ts' s1 im1 ic1 gs' e' Hg Hrest).
      reflexivity.
    + inversion H; subst gs pe. reflexivity.
    + inversion H; subst gs pe. reflexivity.
Qed.

(* THE streaming theorem (C16_prefix, include-free configs) in the requested form; the added hypothesis says
   that parse_groups did not exhaust its own fuel *)
Theorem C16_stream_eq : forall fuel env sk fname o pending ts s im ic gs pe,
  parse_groups fuel o pending ts = (gs, pe) -> no_includes gs ->
  List.length gs < fuel ->
  parse_tokens fuel env sk fname o pending ts s im ic =
  (let '(s1, r) := consume env sk fname no_inc gs s im ic in
   match r with
   | SErr e => (s1, SErr e)
   | SOk (im', ic') =>
       match pe with
       | Some e => (s1, SErr (perr_to_serr fname e))
       | None => (s1, SOk (im', ic'))
       end
   end).
Proof.
  intros fuel env sk fname o pending ts s im ic gs pe H Hn Hl.
  rewrite (C16_stream_eq_gen _ _ _ _ _ _ _ _ _ _ _ _ H Hn).
  destruct (Nat.eqb_spec (List.length gs) fuel) as [Heq|_]; [lia|reflexivity].
Qed.

(* variant: the parser outcome itself witnesses that the fuel sufficed *)
Corollary C16_stream_eq' : forall fuel env sk fname o pending ts s im ic gs pe,
  parse_groups fuel o pending ts = (gs, pe) -> no_includes gs ->
  pe <> Some (EOther "OutOfFuel") ->
  parse_tokens fuel env sk fname o pending ts s im ic =
  (let '(s1, r) := consume env sk fname no_inc gs s im ic in
   match r with
   | SErr e => (s1, SErr e)
   | SOk (im', ic') =>
       match pe with
       | Some e => (s1, SErr (perr_to_serr fname e))
       | None => (s1, SOk (im', ic'))
       end
   end).
Proof.
  intros fuel env sk fname o pending ts s im ic gs pe H Hn Hpe.
  apply C16_stream_eq; try assumption.
  destruct (parse_groups_length _ _ _ _ _ _ H) as [A B].
  destruct (Nat.eq_dec (List.length gs) fuel) as [Heq|Hne]; [exfalso; apply Hpe, B, Heq|lia].
Qed.

(* the hypothesis of C16_stream_eq cannot simply be dropped: at fuel 0 the two sides name the error differently *)
Example C16_stream_eq_needs_fuel :
  let env := {| e_files := []; e_readers := []; e_prefixes := []; e_modules := []; e_mod_regs := [] |} in
  let s := init_tstate [] [] in
  parse_groups 0 [] false [] = ([], Some (EOther "OutOfFuel")) /\
  snd (parse_tokens 0 env SkFalse "" [] false [] s [] []) = SErr (SEOther "RecursionError" []) /\
  perr_to_serr "" (EOther "OutOfFuel") = SEOther "OutOfFuel" [].
Proof. cbn [parse_groups parse_tokens snd perr_to_serr]. repeat split; reflexivity. Qed.

(* ---------- the recorded imports ---------- *)
(* imports a file's own statements record: the importable modules, in order *)
Definition stmt_imports (env : fenv) (st : stmt) : list string :=
  match st with SImport m _ _ _ => if str_in m (e_modules env) then [m] else [] | _ => [] end.
Definition imports_of (env : fenv) (gs : list (list stmt)) : list string := flat_map (flat_map (stmt_imports env)) gs.

Lemma imports_of_app : forall env a b, imports_of env (a ++ b) = imports_of env a ++ imports_of env b.
Proof. intros env a b. unfold imports_of. apply flat_map_app. Qed.

(* resolving the references of a group changes no import statement *)
Lemma resolve_group_map_imports : forall env s sk fname g g',
  resolve_group s sk fname g = SOk g' -> map (stmt_imports env) g' = map (stmt_imports env) g.
Proof.
  intros env s sk fname g. induction g as [|st rest IH]; intros g' H.
  - rewrite resolve_group_nil in H. inversion H. reflexivity.
  - destruct st as [sc sel arg v line|sc sel line|m isf al line|v line].
    + rewrite resolve_group_SBind in H.
      destruct (resolve_value 100 s sk v) as [v'|e]; [|rewrite with_loc_SErr in H; discriminate].
      destruct (resolve_group s sk fname rest) as [r'|e]; [|discriminate].
      inversion H. cbn [map stmt_imports]. rewrite (IH r' eq_refl). reflexivity.
    + rewrite resolve_group_other in H by (intros; discriminate).
      destruct (resolve_group s sk fname rest) as [r'|e]; [|discriminate].
      inversion H. cbn [map]. rewrite (IH r' eq_refl). reflexivity.
    + rewrite resolve_group_other in H by (intros; discriminate).
      destruct (resolve_group s sk fname rest) as [r'|e]; [|discriminate].
      inversion H. cbn [map]. rewrite (IH r' eq_refl). reflexivity.
    + rewrite resolve_group_other in H by (intros; discriminate).
      destruct (resolve_group s sk fname rest) as [r'|e]; [|discriminate].
      inversion H. cbn [map]. rewrite (IH r' eq_refl). reflexivity.
Qed.
Lemma resolve_group_imports_firstn : forall env s sk fname g g' k,
  resolve_group s sk fname g = SOk g' ->
  flat_map (stmt_imports env) (firstn k g') = flat_map (stmt_imports env) (firstn k g).
Proof.
  intros env s sk fname g g' k H. rewrite !flat_map_concat_map, <- !firstn_map.
  rewrite (resolve_group_map_imports env _ _ _ _ _ H). reflexivity.
Qed.
Lemma resolve_group_imports : forall env s sk fname g g',
  resolve_group s sk fname g = SOk g' -> flat_map (stmt_imports env) g' = flat_map (stmt_imports env) g.
Proof.
  intros env s sk fname g g' H. rewrite !flat_map_concat_map.
  rewrite (resolve_group_map_imports env _ _ _ _ _ H). reflexivity.
Qed.

(* a statement list that has been applied has RECORDED, import by import and in order, exactly what it returns: the
   importable modules of its import statements *)
Theorem apply_stmts_noinc_records : forall env sk fname inc stmts s im ic s1 im1 ic1,
  forallb (fun st => negb (is_include st)) stmts = true ->
  apply_stmts env sk fname inc stmts s im ic = (s1, SOk (im1, ic1)) ->
  im1 = im ++ flat_map (stmt_imports env) stmts /\ t_imports s1 = t_imports s ++ flat_map (stmt_imports env) stmts.
Proof.
  intros env sk fname inc stmts. induction stmts as [|st rest IH]; intros s im ic s1 im1 ic1 Hn H.
  - cbn [apply_stmts] in H. inversion H. cbn [flat_map]. rewrite !app_nil_r. auto.
  - cbn [forallb] in Hn. apply andb_true_iff in Hn. destruct Hn as [Hst Hrest].
    assert (Hb : forall sc sel arg v l,
      match bind s sc sel arg v l with
      | SErr e => (s, with_loc l (SErr e))
      | SOk s' => apply_stmts env sk fname inc rest s' im ic
      end = (s1, SOk (im1, ic1)) ->
      im1 = im ++ flat_map (stmt_imports env) rest /\ t_imports s1 = t_imports s ++ flat_map (stmt_imports env) rest).
    { intros sc sel arg v l Hm.
      destruct (bind s sc sel arg v l) as [s0|e] eqn:Hbind; [|rewrite with_loc_SErr in Hm; discriminate].
      destruct (bind_ok_frame _ _ _ _ _ _ _ Hbind) as [_ [_ [C _]]]. rewrite <- C. eapply IH; eassumption. }
    destruct st as [sc sel arg v line|sc sel line|m isf al line|v line]; cbn [apply_stmts] in H;
      cbn [flat_map stmt_imports app].
    + destruct (String.eqb arg ""); [eapply Hb; exact H|].
      destruct (should_skip s sel sk); [eapply IH; eassumption|eapply Hb; exact H].
    + destruct (should_skip s sel sk); [eapply IH; eassumption|].
      destruct (sm_get_match (to_key sel) (t_reg s)) as [| |k [c|]]; try discriminate. eapply IH; eassumption.
    + destruct (str_in m (e_modules env)).
      * destruct (register_mod env m s) as [s0|e] eqn:Hreg; [|rewrite with_loc_SErr in H; discriminate].
        destruct (register_mod_ok_frame _ _ _ _ Hreg) as [_ [_ [_ [_ [C _]]]]].
        destruct (IH _ _ _ _ _ _ Hrest H) as [A B]. unfold add_imports in B. cbn [t_imports] in B.
        rewrite C in B. rewrite <- app_assoc in A, B. auto.
      * destruct (sk_truthy sk); [|discriminate]. cbn [app]. eapply IH; eassumption.
    + cbn in Hst. discriminate.
Qed.

Lemma no_includes_firstn : forall i gs, no_includes gs -> no_includes (firstn i gs).
Proof.
  intros i gs H. unfold no_includes in *. rewrite <- (firstn_skipn i gs) in H. apply Forall_app in H. exact (proj1 H).
Qed.
Lemma noinc_firstn : forall k (g : list stmt),
  forallb (fun st => negb (is_include st)) g = true -> forallb (fun st => negb (is_include st)) (firstn k g) = true.
Proof.
  intros k g H. rewrite <- (firstn_skipn k g), forallb_app in H. apply andb_true_iff in H. exact (proj1 H).
Qed.

(* the same for any number of groups *)
Theorem consume_noinc_records : forall env sk fname inc gs s im ic s1 im1 ic1,
  no_includes gs -> consume env sk fname inc gs s im ic = (s1, SOk (im1, ic1)) ->
  im1 = im ++ imports_of env gs /\ t_imports s1 = t_imports s ++ imports_of env gs.
Proof.
  intros env sk fname inc gs. induction gs as [|g rest IH]; intros s im ic s1 im1 ic1 Hn H.
  - cbn [consume] in H. inversion H. unfold imports_of. cbn [flat_map]. rewrite !app_nil_r. auto.
  - inversion Hn as [|g0 rest0 Hg Hrest]; subst g0 rest0. cbn [consume] in H.
    destruct (resolve_group s sk fname g) as [g'|e0] eqn:Hr; [|discriminate].
    destruct (apply_stmts env sk fname inc g' s im ic) as [s2 r2] eqn:Ha.
    destruct r2 as [[im2 ic2]|e2]; [|discriminate].
    assert (Hg' : forallb (fun st => negb (is_include st)) g' = true)
      by (rewrite (resolve_group_noinc _ _ _ _ _ Hr); exact Hg).
    destruct (apply_stmts_noinc_records _ _ _ _ _ _ _ _ _ _ _ Hg' Ha) as [B1 B2].
    destruct (IH _ _ _ _ _ _ Hrest H) as [C1 C2].
    rewrite (resolve_group_imports env _ _ _ _ _ Hr) in B1, B2.
    unfold imports_of. cbn [flat_map]. fold (imports_of env rest).
    rewrite C1, C2, B1, B2, <- !app_assoc. auto.
Qed.

(* what a FAILED parse of the groups gs has recorded: exactly the imports of the statements that took effect before
   the failure, in order.  Either every group was applied (the text then ended in a parse error, or the recursion
   budget ran out), or group i failed -- while its references were resolved: nothing of it was applied; or at its
   statement k: the statements before k were. *)
Definition failed_parse_imports (env : fenv) (sk : skip_unknown) (fname : string) (gs : list (list stmt))
           (s : tstate) (im : list string) (ic : list itree) (s' : tstate) (e : serr) : Prop :=
  (exists im' ic', consume env sk fname no_inc gs s im ic = (s', SOk (im', ic')) /\
     t_imports s' = t_imports s ++ imports_of env gs) \/
  (exists i g, nth_error gs i = Some g /\
     exists s0 im0 ic0, consume env sk fname no_inc (firstn i gs) s im ic = (s0, SOk (im0, ic0)) /\
       ((resolve_group s0 sk fname g = SErr e /\ s' = s0 /\
         t_imports s' = t_imports s ++ imports_of env (firstn i gs)) \/
        (exists g' k st im' ic', resolve_group s0 sk fname g = SOk g' /\ nth_error g' k = Some st /\
           apply_stmts env sk fname no_inc (firstn k g') s0 im0 ic0 = (s', SOk (im', ic')) /\
           apply_stmts env sk fname no_inc [st] s' im' ic' = (s', SErr e) /\
           t_imports s' = t_imports s ++ imports_of env (firstn i gs) ++ flat_map (stmt_imports env) (firstn k g)))).

(* an error never locks/unlocks, never touches constants; the registry only grows by the registrations of the modules
   imported before the failure, and the imports recorded are exactly those of the statements applied before it
   (no fuel side condition needed) *)
Theorem C16_error_leaves_flags_gen : forall fuel env sk fname o pending ts s im ic s' e gs pe,
  parse_groups fuel o pending ts = (gs, pe) -> no_includes gs ->
  parse_tokens fuel env sk fname o pending ts s im ic = (s', SErr e) ->
  failed_parse_imports env sk fname gs s im ic s' e /\
  t_locked s' = t_locked s /\ reg_extends env s s' /\ t_consts s' = t_consts s.
Proof.
  intros fuel env sk fname o pending ts s im ic s' e gs pe H Hn Hp.
  rewrite (C16_stream_eq_gen _ _ _ _ _ _ _ _ _ _ _ _ H Hn) in Hp.
  destruct (consume env sk fname no_inc gs s im ic) as [s1 r] eqn:Hc.
  destruct (consume_frame_gen _ _ _ _ _ _ _ _ _ _ Hn Hc) as [A1 [A2 [A3 A4]]].
  assert (Hs : s' = s1 /\ match r with SErr e1 => e1 = e | SOk _ => True end).
  { destruct r as [[im1 ic1]|e1].
    - split; [|exact I]. destruct (Nat.eqb (List.length gs) fuel); [inversion Hp; reflexivity|].
      destruct pe as [e2|]; [inversion Hp; reflexivity|discriminate].
    - inversion Hp; auto. }
  destruct Hs as [Hs He]. subst s'. split; [|auto].
  destruct r as [[im1 ic1]|e1].
  - left. exists im1, ic1. split; [exact Hc|]. exact (proj2 (consume_noinc_records _ _ _ _ _ _ _ _ _ _ _ Hn Hc)).
  - subst e1. right.
    destruct (C16_failed_parse_is_statement_prefix _ _ _ _ _ _ _ _ _ Hn Hc) as [i [g [Hi [s0 [im0 [ic0 [Hpre Hd]]]]]]].
    exists i, g. split; [exact Hi|]. exists s0, im0, ic0. split; [exact Hpre|].
    destruct (consume_noinc_records _ _ _ _ _ _ _ _ _ _ _ (no_includes_firstn i gs Hn) Hpre) as [B1 B2].
    destruct Hd as [[Hr Hs]|[g' [k [st [im' [ic' [Hr [Hk [Ha Hf]]]]]]]]].
    + left. subst s1. auto.
    + right. exists g', k, st, im', ic'. repeat (split; [assumption|]).
      assert (Hg : forallb (fun st => negb (is_include st)) g = true).
      { unfold no_includes in Hn. rewrite Forall_forall in Hn. apply Hn. eapply nth_error_In; exact Hi. }
      assert (Hg' : forallb (fun st => negb (is_include st)) g' = true)
        by (rewrite (resolve_group_noinc _ _ _ _ _ Hr); exact Hg).
      destruct (apply_stmts_noinc_records _ _ _ _ _ _ _ _ _ _ _ (noinc_firstn k g' Hg') Ha) as [_ C2].
      rewrite (resolve_group_imports_firstn env _ _ _ _ _ k Hr) in C2. rewrite C2, B2, <- app_assoc. reflexivity.
Qed.

(* with side-effect-free imports: neither lock, registry nor constants are touched *)
Theorem C16_error_leaves_flags : forall fuel env sk fname o pending ts s im ic s' e gs pe,
  pure_imports env ->
  parse_groups fuel o pending ts = (gs, pe) -> no_includes gs ->
  parse_tokens fuel env sk fname o pending ts s im ic = (s', SErr e) ->
  failed_parse_imports env sk fname gs s im ic s' e /\
  t_locked s' = t_locked s /\ t_reg s' = t_reg s /\ t_consts s' = t_consts s.
Proof.
  intros fuel env sk fname o pending ts s im ic s' e gs pe Hpure H Hn Hp.
  destruct (C16_error_leaves_flags_gen _ _ _ _ _ _ _ _ _ _ _ _ _ _ H Hn Hp) as [A [B [C D]]].
  repeat split; try assumption. apply (reg_extends_pure env s s' Hpure C).
Qed.

(* and on success the only other flag that changes is the recorded-imports list, extended by exactly this parse's
   imports: those the parse returns beyond the ones it was handed *)
Theorem C16_success_records_imports_gen : forall fuel env sk fname o pending ts s im ic s' im' ic' gs pe,
  parse_groups fuel o pending ts = (gs, pe) -> no_includes gs ->
  parse_tokens fuel env sk fname o pending ts s im ic = (s', SOk (im', ic')) ->
  (im' = im ++ imports_of env gs /\ t_imports s' = t_imports s ++ imports_of env gs) /\
  t_locked s' = t_locked s /\ reg_extends env s s' /\ t_consts s' = t_consts s.
Proof.
  intros fuel env sk fname o pending ts s im ic s' im' ic' gs pe H Hn Hp.
  rewrite (C16_stream_eq_gen _ _ _ _ _ _ _ _ _ _ _ _ H Hn) in Hp.
  destruct (consume env sk fname no_inc gs s im ic) as [s1 r] eqn:Hc.
  destruct (consume_frame_gen _ _ _ _ _ _ _ _ _ _ Hn Hc) as [A1 [A2 [A3 A4]]].
  destruct r as [[im1 ic1]|e1]; [|discriminate].
  destruct (Nat.eqb (List.length gs) fuel); [discriminate|].
  destruct pe as [e2|]; [discriminate|].
  inversion Hp; subst s' im' ic'. split; [|auto].
  exact (consume_noinc_records _ _ _ _ _ _ _ _ _ _ _ Hn Hc).
Qed.

Theorem C16_success_records_imports : forall fuel env sk fname o pending ts s im ic s' im' ic' gs pe,
  pure_imports env ->
  parse_groups fuel o pending ts = (gs, pe) -> no_includes gs ->
  parse_tokens fuel env sk fname o pending ts s im ic = (s', SOk (im', ic')) ->
  (im' = im ++ imports_of env gs /\ t_imports s' = t_imports s ++ imports_of env gs) /\
  t_locked s' = t_locked s /\ t_reg s' = t_reg s /\ t_consts s' = t_consts s.
Proof.
  intros fuel env sk fname o pending ts s im ic s' im' ic' gs pe Hpure H Hn Hp.
  destruct (C16_success_records_imports_gen _ _ _ _ _ _ _ _ _ _ _ _ _ _ _ H Hn Hp) as [A [B [C D]]].
  repeat split; try apply A; try assumption. apply (reg_extends_pure env s s' Hpure C).
Qed.

(* a parse call starts with no imports of its own: what a successful call has recorded is what it returns *)
Corollary C16_success_records_returned_imports : forall fuel env sk fname o pending ts s s' im' ic' gs pe,
  parse_groups fuel o pending ts = (gs, pe) -> no_includes gs ->
  parse_tokens fuel env sk fname o pending ts s [] [] = (s', SOk (im', ic')) ->
  t_imports s' = t_imports s ++ im'.
Proof.
  intros fuel env sk fname o pending ts s s' im' ic' gs pe H Hn Hp.
  destruct (C16_success_records_imports_gen _ _ _ _ _ _ _ _ _ _ _ _ _ _ _ H Hn Hp) as [[A B] _].
  cbn [app] in A. subst im'. exact B.
Qed.

(* the entry point parse_config (fuel 60) *)
Corollary C16_parse_config : forall env sk fname g s ts gs pe,
  settle (f_tokens g) = POk ts ->
  parse_groups 60 (f_oracle g) false ts = (gs, pe) -> no_includes gs -> List.length gs < 60 ->
  parse_config env sk fname g s =
  (let '(s1, r) := consume env sk fname no_inc gs s [] [] in
   match r with
   | SErr e => (s1, SErr e)
   | SOk (im', ic') =>
       match pe with
       | Some e => (s1, SErr (perr_to_serr fname e))
       | None => (s1, SOk (im', ic'))
       end
   end).
Proof.
  intros env sk fname g s ts gs pe Hs H Hn Hl. unfold parse_config. rewrite Hs.
  apply C16_stream_eq; assumption.
Qed.

Print Assumptions with_loc_chain.
Print Assumptions with_loc_syntax.
Print Assumptions bind_ok_frame.
Print Assumptions bind_records_location.
Print Assumptions apply_stmts_app.
Print Assumptions apply_stmts_frame.
Print Assumptions apply_stmts_prefix.
Print Assumptions apply_stmts_prefix_noinc.
Print Assumptions C16_failed_parse_is_prefix.
Print Assumptions C16_failed_parse_is_statement_prefix.
Print Assumptions C16_stream_eq_gen.
Print Assumptions C16_stream_eq.
Print Assumptions C16_stream_eq'.
Print Assumptions apply_stmts_frame_gen.
Print Assumptions C16_error_leaves_flags_gen.
Print Assumptions C16_error_leaves_flags.
Print Assumptions C16_success_records_imports_gen.
Print Assumptions C16_success_records_imports.
Print Assumptions C16_success_records_returned_imports.
Print Assumptions apply_stmts_noinc_records.
Print Assumptions consume_noinc_records.
Print Assumptions C16_parse_config.
