(* C15 with imports that REGISTER configurables: `import m` runs module m's decorators, so a name can be unknown before
   the import statement and known after it within one parse; _should_skip consults the registry at each statement.
   The reduction of a statement list therefore tracks the registry through the successful imports. *)
From Coq Require Import List String ZArith Bool Arith Lia.
From GinV Require Import Lib.Out Lib.PyStr Model.SelectorMap Model.Parser Model.Stmt Model.StmtSpec
  Proofs.SelectorMapLemmas Proofs.StmtProofs Proofs.StmtProofs2.
Import ListNotations.
Open Scope string_scope.
Open Scope list_scope.

(* the state after `import m` as far as later statements can tell (a failing import ends the group) *)
Definition after_import (env : fenv) (m : string) (s : tstate) : tstate :=
  match register_mod env m s with SOk s' => s' | SErr _ => s end.

(* drop exactly the statements covered AT THEIR POINT: a binding / block header whose target is unknown in the registry
   as it is when the statement is reached and covered by sk; an import of a missing module when sk is truthy.
   Nothing after an include is touched (the included file may register anything). *)
Fixpoint reduce (env : fenv) (sk : skip_unknown) (s : tstate) (stmts : list stmt) : list stmt :=
  match stmts with
  | [] => []
  | st :: rest =>
      match st with
      | SBind _ sel arg _ _ =>
          if negb (String.eqb arg "") && should_skip s sel sk then reduce env sk s rest
          else st :: reduce env sk s rest
      | SBlock _ sel _ =>
          if should_skip s sel sk then reduce env sk s rest else st :: reduce env sk s rest
      | SImport m _ _ _ =>
          if str_in m (e_modules env) then st :: reduce env sk (after_import env m s) rest
          else if sk_truthy sk then reduce env sk s rest
          else st :: reduce env sk s rest
      | SInclude _ _ => st :: rest
      end
  end.

Lemma C15_reduce_equiv_dynamic_gen : forall env sk fname inc stmts s0 s im ic,
  t_reg s = t_reg s0 -> t_locked s = t_locked s0 ->
  apply_stmts env sk fname inc stmts s im ic = apply_stmts env sk fname inc (reduce env sk s0 stmts) s im ic.
Proof.
  intros env sk fname inc stmts. induction stmts as [|st rest IH]; intros s0 s im ic Hreg Hl; [reflexivity|].
  assert (Hb : forall sc sel arg v l s1, bind s sc sel arg v l = SOk s1 -> t_reg s1 = t_reg s0 /\ t_locked s1 = t_locked s0).
  { intros sc sel arg v l s1 Hbind. destruct (bind_ok_frame _ _ _ _ _ _ _ Hbind) as [B1 [_ [_ B4]]]. split; congruence. }
  destruct st as [sc sel arg v line|sc sel line|m isf al line|v line]; cbn [reduce].
  - rewrite <- (should_skip_reg s0 s sel sk Hreg).
    destruct (String.eqb arg "") eqn:Ea; cbn [negb andb].
    + cbn [apply_stmts]. rewrite Ea.
      destruct (bind s _ "gin.macro" "value" v (fname, line)) as [s1|e] eqn:Hbind; [|reflexivity].
      destruct (Hb _ _ _ _ _ _ Hbind). apply IH; assumption.
    + destruct (should_skip s sel sk) eqn:Es.
      * cbn [apply_stmts]. rewrite Ea, Es. apply IH; assumption.
      * cbn [apply_stmts]. rewrite Ea, Es.
        destruct (bind s sc sel arg v (fname, line)) as [s1|e] eqn:Hbind; [|reflexivity].
        destruct (Hb _ _ _ _ _ _ Hbind). apply IH; assumption.
  - rewrite <- (should_skip_reg s0 s sel sk Hreg).
    destruct (should_skip s sel sk) eqn:Es.
    + cbn [apply_stmts]. rewrite Es. apply IH; assumption.
    + cbn [apply_stmts]. rewrite Es.
      destruct (sm_get_match (to_key sel) (t_reg s)) as [| |k [c|]]; try reflexivity. apply IH; assumption.
  - destruct (str_in m (e_modules env)) eqn:Em.
    + cbn [apply_stmts]. rewrite Em. unfold after_import.
      pose proof (register_mod_reg_lock env m s s0 Hreg Hl) as R.
      destruct (register_mod env m s) as [a|e], (register_mod env m s0) as [b|e']; try contradiction; [|reflexivity].
      destruct R as [R1 [R2 _]]. apply IH; assumption.
    + destruct (sk_truthy sk) eqn:Et.
      * cbn [apply_stmts]. rewrite Em, Et. apply IH; assumption.
      * cbn [apply_stmts]. rewrite Em, Et. reflexivity.
  - reflexivity.
Qed.

(* exactly deletion, with the registry tracked through the imports *)
Theorem C15_reduce_equiv_dynamic : forall env sk fname inc stmts s im ic,
  apply_stmts env sk fname inc stmts s im ic = apply_stmts env sk fname inc (reduce env sk s stmts) s im ic.
Proof. intros. apply C15_reduce_equiv_dynamic_gen; reflexivity. Qed.

(* with side-effect-free imports this is the static deletion of StmtProofs2 *)
Lemma after_import_pure : forall env m s, pure_imports env -> after_import env m s = s.
Proof. intros env m s Hp. unfold after_import. rewrite (register_mod_pure env m s Hp). reflexivity. Qed.

Theorem reduce_pure : forall env sk s stmts, pure_imports env ->
  forallb (fun st => negb (is_include st)) stmts = true ->
  reduce env sk s stmts = filter (fun st => negb (covered_env env s sk st)) stmts.
Proof.
  intros env sk s stmts Hp. induction stmts as [|st rest IH]; intros Hn; [reflexivity|].
  cbn [forallb] in Hn. apply andb_true_iff in Hn. destruct Hn as [Hst Hrest]. specialize (IH Hrest).
  destruct st as [sc sel arg v line|sc sel line|m isf al line|v line]; cbn [reduce filter covered_env covered].
  - destruct (negb (String.eqb arg "") && should_skip s sel sk); cbn [negb]; rewrite IH; reflexivity.
  - destruct (should_skip s sel sk); cbn [negb]; rewrite IH; reflexivity.
  - rewrite (after_import_pure env m s Hp).
    destruct (str_in m (e_modules env)); cbn [negb andb]; [rewrite IH; reflexivity|].
    destruct (sk_truthy sk); cbn [negb]; rewrite IH; reflexivity.
  - cbn in Hst. discriminate.
Qed.

(* ---------- skipping switched off ---------- *)
Definition known (s : tstate) (sel : string) : bool :=
  match sm_matching (to_key sel) (t_reg s) with [] => false | _ :: _ => true end.

(* every statement targets a name that is known WHEN IT IS REACHED, every import is importable, no include *)
Fixpoint targets_known_dyn (env : fenv) (s : tstate) (stmts : list stmt) : bool :=
  match stmts with
  | [] => true
  | st :: rest =>
      match st with
      | SBind _ sel arg _ _ => (String.eqb arg "" || known s sel) && targets_known_dyn env s rest
      | SBlock _ sel _ => known s sel && targets_known_dyn env s rest
      | SImport m _ _ _ => str_in m (e_modules env) && targets_known_dyn env (after_import env m s) rest
      | SInclude _ _ => false
      end
  end.

Lemma known_reg : forall s s' sel, t_reg s' = t_reg s -> known s' sel = known s sel.
Proof. intros s s' sel H. unfold known. rewrite H. reflexivity. Qed.

Lemma C15_known_targets_skip_irrelevant_dyn_gen : forall env sk sk' fname inc stmts s0 s im ic,
  t_reg s = t_reg s0 -> t_locked s = t_locked s0 ->
  targets_known_dyn env s0 stmts = true ->
  apply_stmts env sk fname inc stmts s im ic = apply_stmts env sk' fname inc stmts s im ic.
Proof.
  intros env sk sk' fname inc stmts. induction stmts as [|st rest IH]; intros s0 s im ic Hreg Hl Hk; [reflexivity|].
  assert (Hb : forall sc sel arg v l s1, bind s sc sel arg v l = SOk s1 -> t_reg s1 = t_reg s0 /\ t_locked s1 = t_locked s0).
  { intros sc sel arg v l s1 Hbind. destruct (bind_ok_frame _ _ _ _ _ _ _ Hbind) as [B1 [_ [_ B4]]]. split; congruence. }
  destruct st as [sc sel arg v line|sc sel line|m isf al line|v line]; cbn [targets_known_dyn] in Hk;
    try discriminate; apply andb_true_iff in Hk; destruct Hk as [Hk1 Hk2]; cbn [apply_stmts].
  - destruct (String.eqb arg "") eqn:Ea; cbn [orb] in Hk1.
    + destruct (bind s _ "gin.macro" "value" v (fname, line)) as [s1|e] eqn:Hbind; [|reflexivity].
      destruct (Hb _ _ _ _ _ _ Hbind). eapply IH; eassumption.
    + rewrite <- (known_reg s0 s sel Hreg) in Hk1.
      rewrite (known_no_skip s sel sk Hk1), (known_no_skip s sel sk' Hk1).
      destruct (bind s sc sel arg v (fname, line)) as [s1|e] eqn:Hbind; [|reflexivity].
      destruct (Hb _ _ _ _ _ _ Hbind). eapply IH; eassumption.
  - rewrite <- (known_reg s0 s sel Hreg) in Hk1.
    rewrite (known_no_skip s sel sk Hk1), (known_no_skip s sel sk' Hk1).
    destruct (sm_get_match (to_key sel) (t_reg s)) as [| |k [c|]]; try reflexivity. eapply IH; eassumption.
  - rewrite Hk1. unfold after_import in Hk2.
    pose proof (register_mod_reg_lock env m s s0 Hreg Hl) as R.
    destruct (register_mod env m s) as [a|e], (register_mod env m s0) as [b|e']; try contradiction; [|reflexivity].
    destruct R as [R1 [R2 _]]. eapply IH; eassumption.
Qed.

Theorem C15_known_targets_skip_irrelevant_dyn : forall env sk fname inc stmts s im ic,
  targets_known_dyn env s stmts = true ->
  apply_stmts env sk fname inc stmts s im ic = apply_stmts env SkFalse fname inc stmts s im ic.
Proof. intros env sk fname inc stmts s im ic Hk. apply (C15_known_targets_skip_irrelevant_dyn_gen env sk SkFalse fname inc stmts s s); auto. Qed.

(* both halves: the original list under sk = the reduced list with skipping switched OFF, provided every remaining
   target is known at its point *)
Theorem C15_reduce_equiv_dynamic_skfalse : forall env sk fname inc stmts s im ic,
  targets_known_dyn env s (reduce env sk s stmts) = true ->
  apply_stmts env sk fname inc stmts s im ic = apply_stmts env SkFalse fname inc (reduce env sk s stmts) s im ic.
Proof.
  intros env sk fname inc stmts s im ic Hk. rewrite (C15_reduce_equiv_dynamic env sk fname inc stmts s im ic).
  apply C15_known_targets_skip_irrelevant_dyn. exact Hk.
Qed.

(* ---------- a name registered by an import is known afterwards ---------- *)
Lemma fmem_fset : forall (V : Type) k (v : V) m j, fmem j (fset k v m) = if key_eqb j k then true else fmem j m.
Proof. intros V k v m j. unfold fmem. rewrite fget_fset. destruct (key_eqb j k); reflexivity. Qed.

Lemma reg_add_fmem : forall cs r k,
  fmem k (sm_flat r) = true \/ (exists c, In c cs /\ to_key (cs_sel c) = k) ->
  fmem k (sm_flat (reg_add cs r)) = true.
Proof.
  induction cs as [|c cs IH]; intros r k H.
  - destruct H as [H|[c [[] _]]]. exact H.
  - change (reg_add (c :: cs) r) with (reg_add cs (sm_set (to_key (cs_sel c)) c r)). apply IH.
    destruct H as [H|[c' [[E|Hin] Hk]]].
    + left. cbn [sm_set sm_flat]. rewrite fmem_fset, H. destruct (key_eqb k (to_key (cs_sel c))); reflexivity.
    + subst c'. left. cbn [sm_set sm_flat]. rewrite fmem_fset, <- Hk, key_eqb_refl. reflexivity.
    + right. exists c'. split; assumption.
Qed.

Lemma fmem_matching : forall (V : Type) p (m : smap V), fmem p (sm_flat m) = true -> sm_matching p m = [p].
Proof. intros V p m H. unfold sm_matching. rewrite H. reflexivity. Qed.

(* after a successful `import m`, every configurable m registers is known under its full selector *)
Theorem register_mod_registers : forall env m s s1 c,
  register_mod env m s = SOk s1 -> In c (mod_regs env m) ->
  sm_matching (to_key (cs_sel c)) (t_reg s1) = [to_key (cs_sel c)].
Proof.
  intros env m s s1 c H Hc. apply fmem_matching. unfold register_mod in H.
  destruct (forallb (registered s) (mod_regs env m)) eqn:Ef.
  - inversion H; subst s1. rewrite forallb_forall in Ef. specialize (Ef c Hc). unfold registered in Ef.
    unfold fmem. destruct (fget (to_key (cs_sel c)) (sm_flat (t_reg s))); [reflexivity|discriminate].
  - destruct (t_locked s); [discriminate|]. inversion H; subst s1. cbn [set_reg t_reg].
    apply reg_add_fmem. right. exists c. split; [exact Hc|reflexivity].
Qed.

(* when does the import succeed: always unless it has something new to register while the config is locked *)
Theorem register_mod_unlocked_ok : forall env m s, t_locked s = false -> exists s1, register_mod env m s = SOk s1.
Proof.
  intros env m s Hl. unfold register_mod. rewrite Hl.
  destruct (forallb (registered s) (mod_regs env m)); eexists; reflexivity.
Qed.

(* the decision on an unknown name *)
Lemma should_skip_unknown : forall s sel sk, sm_matching (to_key sel) (t_reg s) = [] ->
  should_skip s sel sk = match sk with SkList l => str_in sel l | SkTrue => true | SkFalse => false end.
Proof. intros s sel sk H. unfold should_skip. rewrite H. reflexivity. Qed.

(* a binding of a selector that is known once `import m` has run, placed AFTER the import: it is applied (never
   skipped), whatever skip_unknown says -- on the state in which the import is already recorded *)
Theorem C15_known_after_import : forall env sk fname inc m isf al l1 sc sel arg v line rest s s1 im ic,
  str_in m (e_modules env) = true -> register_mod env m s = SOk s1 ->
  sm_matching (to_key sel) (t_reg s1) <> [] -> arg <> "" ->
  apply_stmts env sk fname inc (SImport m isf al l1 :: SBind sc sel arg v line :: rest) s im ic =
  match bind (add_imports [m] s1) sc sel arg v (fname, line) with
  | SErr e => (add_imports [m] s1, with_loc (fname, line) (SErr e))
  | SOk s2 => apply_stmts env sk fname inc rest s2 (im ++ [m]) ic
  end.
Proof.
  intros env sk fname inc m isf al l1 sc sel arg v line rest s s1 im ic Hm Hr Hk Harg.
  cbn [apply_stmts]. rewrite Hm, Hr. destruct (String.eqb_spec arg "") as [E|_]; [contradiction|].
  rewrite (C15_known_never_skipped (add_imports [m] s1) sel sk Hk). reflexivity.
Qed.
(* in particular for the full selector of a configurable the module registers *)
Corollary C15_known_after_import_full : forall env sk fname inc m isf al l1 sc c arg v line rest s s1 im ic,
  str_in m (e_modules env) = true -> register_mod env m s = SOk s1 -> In c (mod_regs env m) -> arg <> "" ->
  apply_stmts env sk fname inc (SImport m isf al l1 :: SBind sc (cs_sel c) arg v line :: rest) s im ic =
  match bind (add_imports [m] s1) sc (cs_sel c) arg v (fname, line) with
  | SErr e => (add_imports [m] s1, with_loc (fname, line) (SErr e))
  | SOk s2 => apply_stmts env sk fname inc rest s2 (im ++ [m]) ic
  end.
Proof.
  intros env sk fname inc m isf al l1 sc c arg v line rest s s1 im ic Hm Hr Hc Harg.
  apply C15_known_after_import; try assumption. rewrite (register_mod_registers env m s s1 c Hr Hc). discriminate.
Qed.

(* the same binding placed BEFORE the import (the name still unknown): dropped iff covered, otherwise an error that
   applies nothing -- the import is not even reached *)
Theorem C15_unknown_before_import : forall env sk fname inc m isf al l1 sc sel arg v line rest s im ic,
  sm_matching (to_key sel) (t_reg s) = [] -> arg <> "" ->
  let cov := match sk with SkList l => str_in sel l | SkTrue => true | SkFalse => false end in
  should_skip s sel sk = cov /\
  (cov = true ->
     apply_stmts env sk fname inc (SBind sc sel arg v line :: SImport m isf al l1 :: rest) s im ic =
     apply_stmts env sk fname inc (SImport m isf al l1 :: rest) s im ic) /\
  (cov = false ->
     exists e, apply_stmts env sk fname inc (SBind sc sel arg v line :: SImport m isf al l1 :: rest) s im ic = (s, SErr e)).
Proof.
  intros env sk fname inc m isf al l1 sc sel arg v line rest s im ic Hu Harg cov.
  pose proof (should_skip_unknown s sel sk Hu) as Hs. fold cov in Hs. split; [exact Hs|]. split; intros Hc.
  - apply C15_covered_binding_dropped; [exact Harg|]. rewrite Hs. exact Hc.
  - apply C15_uncovered_unknown_errors; [exact Harg| |apply get_match_none_matching; exact Hu]. rewrite Hs. exact Hc.
Qed.

(* ---------- a concrete instance ---------- *)
(* module `plug` registers late.lfn(a, b).   text:  lfn.a = 1 / import plug / lfn.b = 2   with skip_unknown=['lfn']:
   the first binding is dropped (lfn unknown there and listed), the second is applied (lfn known by then) *)
Module C15DynExample.
  Definition tk (t : ttype) (x : string) (r c e : nat) : token :=
    {| ty := t; text := x; srow := r; scol := c; erow := r; ecol := e |}.
  Definition nlc : string := String (Ascii.ascii_of_nat 10) "".
  Definition lfn_line (r : nat) (a n : string) : list token :=
    [tk NAME "lfn" r 0 3; tk OP "." r 3 4; tk NAME a r 4 5; tk OP "=" r 6 7; tk NUMBER n r 8 9; tk NEWLINE nlc r 9 10].
  Definition text : gfile :=
    {| f_tokens := lfn_line 1 "a" "1" ++ [tk NAME "import" 2 0 6; tk NAME "plug" 2 7 11; tk NEWLINE nlc 2 11 12]
                   ++ lfn_line 3 "b" "2" ++ [tk ENDMARKER "" 4 0 0];
       f_oracle := [("1", Some (OZ 1)); ("2", Some (OZ 2))] |}.
  Definition lfn : cspec := {| cs_sel := "late.lfn"; cs_args := ["a"; "b"]; cs_varkw := false; cs_allow := []; cs_deny := [] |}.
  Definition env : fenv :=
    {| e_files := []; e_readers := [0]; e_prefixes := [""]; e_modules := ["plug"]; e_mod_regs := [("plug", [lfn])] |}.
  Definition s0 : tstate := init_tstate [] [].
  Definition stmts : list stmt :=
    [SBind "" "lfn" "a" (OZ 1) 1; SImport "plug" false None 2; SBind "" "lfn" "b" (OZ 2) 3].

  Example groups :
    parse_groups 60 (f_oracle text) false (f_tokens text) =
    ([[SBind "" "lfn" "a" (OZ 1) 1]; [SImport "plug" false None 2]; [SBind "" "lfn" "b" (OZ 2) 3]], None).
  Proof. vm_compute. reflexivity. Qed.

  (* the reduction drops the first binding only *)
  Example reduced : reduce env (SkList ["lfn"]) s0 stmts = [SImport "plug" false None 2; SBind "" "lfn" "b" (OZ 2) 3].
  Proof. vm_compute. reflexivity. Qed.
  (* the static deletion (registry of the start state) would wrongly drop both *)
  Example static_differs :
    filter (fun st => negb (covered_env env s0 (SkList ["lfn"]) st)) stmts = [SImport "plug" false None 2].
  Proof. vm_compute. reflexivity. Qed.

  Example run_list :
    (let '(s, r) := parse_config env (SkList ["lfn"]) "" text s0 in (t_store s, t_prov s, r)) =
    ([(("", "late.lfn"), [("b", OZ 2)])], [(("", "late.lfn"), [("b", ("", 3))])], SOk (["plug"], [])).
  Proof. vm_compute. reflexivity. Qed.
  (* without skip_unknown the first binding is the ValueError and nothing is applied (the import is not reached) *)
  Example run_false :
    parse_config env SkFalse "" text s0 = (s0, SErr (SEOther "ValueError" [("", 1)])).
  Proof. vm_compute. reflexivity. Qed.
  (* while locked, the import itself fails: it has something to register *)
  Example run_locked :
    snd (parse_config env SkTrue "" text (set_locked true s0)) = SErr (SEOther "RuntimeError" [("", 2)]).
  Proof. vm_compute. reflexivity. Qed.
End C15DynExample.

Print Assumptions C15_reduce_equiv_dynamic.
Print Assumptions reduce_pure.
Print Assumptions C15_known_targets_skip_irrelevant_dyn.
Print Assumptions C15_reduce_equiv_dynamic_skfalse.
Print Assumptions register_mod_registers.
Print Assumptions register_mod_unlocked_ok.
Print Assumptions C15_known_after_import.
Print Assumptions C15_known_after_import_full.
Print Assumptions C15_unknown_before_import.
Print Assumptions C15DynExample.reduced.
Print Assumptions C15DynExample.run_list.
