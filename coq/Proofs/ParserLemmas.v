(* Token-level lemmas for the parser model: settle / skip / advance over trivia,
   the string-run loop of _maybe_parse_basic_type, and a named version of the
   container item loop of parse_value. *)
From Coq Require Import List String ZArith Bool Arith Lia Ascii.
From GinV Require Import Lib.Out Lib.PyStr Model.Parser Model.ParserSpec.
Import ListNotations. Open Scope string_scope. Open Scope list_scope.

(* ------------------------------------------------------------------ *)
(* token classes *)
Lemma ttype_eqb_eq : forall a b, ttype_eqb a b = true <-> a = b.
Proof. intros a b; destruct a, b; cbn; split; intro H; try reflexivity; discriminate. Qed.

Lemma in_types_true : forall t l, in_types t l = true <-> In t l.
Proof.
  intros t l. unfold in_types. rewrite existsb_exists. split.
  - intros [x [Hx E]]. apply ttype_eqb_eq in E. subst x. exact Hx.
  - intros H. exists t. split; [exact H | apply ttype_eqb_eq; reflexivity].
Qed.
Lemma in_types_false : forall t l, in_types t l = false <-> ~ In t l.
Proof.
  intros t l. rewrite <- in_types_true. destruct (in_types t l); split; intro H; try reflexivity;
    try discriminate; try (intro; discriminate). exfalso; apply H; reflexivity.
Qed.

(* a "solid" token: never skipped as whitespace, never a tokenizer error *)
Definition solid (t : token) : Prop :=
  ty t = NAME \/ ty t = NUMBER \/ ty t = STRING \/ ty t = OP \/ ty t = NEWLINE \/ ty t = ENDMARKER.

(* what may follow a value (any bracket level): an operator token (the enclosing
   construct's ',' ':' or closer, but any OP will do), or the end of the statement *)
Definition follow_ok (t : token) : Prop := ty t = OP \/ ty t = NEWLINE \/ ty t = ENDMARKER.
Definition follows (rest : list token) : Prop := exists t r', rest = t :: r' /\ follow_ok t.

Lemma follow_solid : forall t, follow_ok t -> solid t.
Proof. intros t [H|[H|H]]; unfold solid; tauto. Qed.

Lemma trivia_ws : forall wb t, trivia_tok t -> in_types (ty t) (ws_types wb) = true.
Proof. intros wb t [H|H]; rewrite H; destruct wb; reflexivity. Qed.
Lemma solid_not_ws : forall wb t, solid t -> in_types (ty t) (ws_types wb) = false.
Proof. intros wb t H. unfold solid in H. destruct wb; decompose [or] H; rewrite H0 || rewrite H1; reflexivity. Qed.
Lemma solid_noerr : forall t, solid t -> ty t <> TERR /\ ty t <> ERRORTOKEN.
Proof. intros t H. unfold solid in H. split; intro E; rewrite E in H; decompose [or] H; discriminate. Qed.
Lemma trivia_noerr : forall t, trivia_tok t -> ty t <> TERR /\ ty t <> ERRORTOKEN.
Proof. intros t [H|H]; rewrite H; split; discriminate. Qed.

(* ------------------------------------------------------------------ *)
(* settle / skip / advance *)
Lemma settle_non_trivia : forall t r, ty t <> TERR -> ty t <> ERRORTOKEN -> settle (t :: r) = POk (t :: r).
Proof. intros t r H1 H2. cbn [settle]. destruct (ty t); try reflexivity; congruence. Qed.

Lemma settle_app : forall tr t r,
  Forall (fun x => ty x <> TERR /\ ty x <> ERRORTOKEN) tr -> ty t <> TERR -> ty t <> ERRORTOKEN ->
  settle (tr ++ t :: r) = POk (tr ++ t :: r).
Proof.
  intros [|a tr] t r Htr H1 H2; cbn [app].
  - apply settle_non_trivia; assumption.
  - inversion Htr as [|? ? [Ha1 Ha2] _]; subst. apply settle_non_trivia; assumption.
Qed.

Lemma skip_S : forall f types ts, skip (S f) types ts =
  if in_types (ty (cur ts)) types
  then match advance_one ts with PErr e => PErr e | POk ts' => skip f types ts' end
  else POk ts.
Proof. reflexivity. Qed.

Lemma skip_over : forall types tr t r fuel,
  Forall (fun x => in_types (ty x) types = true /\ ty x <> TERR /\ ty x <> ERRORTOKEN) tr ->
  in_types (ty t) types = false -> ty t <> TERR -> ty t <> ERRORTOKEN ->
  List.length tr < fuel ->
  skip fuel types (tr ++ t :: r) = POk (t :: r).
Proof.
  intros types tr t r. induction tr as [|a tr IH]; intros fuel Htr Ht H1 H2 Hf.
  - destruct fuel as [|f]; [cbn in Hf; lia|]. rewrite skip_S. cbn [app cur hd]. rewrite Ht. reflexivity.
  - destruct fuel as [|f]; [cbn in Hf; lia|]. rewrite skip_S. cbn [app cur hd].
    inversion Htr as [|? ? [Ha [Ha1 Ha2]] Htr']; subst. rewrite Ha. cbn [advance_one].
    rewrite settle_app; try assumption.
    + apply IH; try assumption. cbn [List.length] in Hf. lia.
    + eapply Forall_impl; [|exact Htr']. cbn beta. intros x [_ Hx]. exact Hx.
Qed.

Lemma skip_ws_trivia : forall wb tr rest, Forall trivia_tok tr ->
  (forall t r', rest = t :: r' -> ~ In (ty t) (ws_types wb) /\ ty t <> TERR /\ ty t <> ERRORTOKEN) ->
  rest <> [] ->
  skip_ws wb (tr ++ rest) = POk rest.
Proof.
  intros wb tr rest Htr Hrest Hne. destruct rest as [|t r]; [congruence|].
  destruct (Hrest t r eq_refl) as [Hn [H1 H2]].
  unfold skip_ws. apply skip_over; try assumption.
  - eapply Forall_impl; [|exact Htr]. cbn beta. intros x Hx. split; [apply trivia_ws; exact Hx|].
    apply trivia_noerr; exact Hx.
  - apply in_types_false. exact Hn.
  - rewrite app_length. cbn [List.length]. lia.
Qed.

Lemma skip_ws_solid : forall wb tr t r, Forall trivia_tok tr -> solid t ->
  skip_ws wb (tr ++ t :: r) = POk (t :: r).
Proof.
  intros wb tr t r Htr Ht. apply skip_ws_trivia; [exact Htr| |discriminate].
  intros t' r' E. injection E as <- <-. split.
  - apply in_types_false. apply solid_not_ws. exact Ht.
  - apply solid_noerr. exact Ht.
Qed.

Lemma advance_solid : forall wb x tr t r, Forall trivia_tok tr -> solid t ->
  advance wb (x :: tr ++ t :: r) = POk (t :: r).
Proof.
  intros wb x tr t r Htr Ht. unfold advance. cbn [advance_one].
  destruct (solid_noerr _ Ht) as [H1 H2].
  rewrite settle_app; try assumption.
  - apply skip_ws_solid; assumption.
  - eapply Forall_impl; [|exact Htr]. cbn beta. intros y Hy. apply trivia_noerr; exact Hy.
Qed.

Lemma advance_one_solid : forall x t r, solid t -> advance_one (x :: t :: r) = POk (t :: r).
Proof. intros x t r Ht. cbn [advance_one]. destruct (solid_noerr _ Ht). apply settle_non_trivia; assumption. Qed.

(* ------------------------------------------------------------------ *)
(* strings: the accumulated text *)
Definition acc_next (acc s : string) : string :=
  (if String.eqb acc "" || String.eqb acc "-" then acc ++ s else acc ++ " " ++ s)%string.
Definition fold_acc (acc : string) (ts : list token) : string :=
  fold_left (fun a t => acc_next a (text t)) ts acc.

Lemma basic_loop_S : forall f o wb ts acc,
  basic_loop (S f) o wb ts acc =
  let acc' := acc_next acc (text (cur ts)) in
  match olookup o acc' with
  | None => PErr (EOther "OracleMiss")
  | Some None => syntax_here ts
  | Some (Some v) =>
      let was_string := cur_ty ts STRING in
      match advance wb ts with
      | PErr e => PErr e
      | POk ts' => if was_string && cur_ty ts' STRING then basic_loop f o wb ts' acc' else POk (v, ts')
      end
  end.
Proof. reflexivity. Qed.

Fixpoint render_strs (trf : nat -> list token) (ts : list token) (n : nat) : list token * nat :=
  match ts with
  | [] => ([], n)
  | t :: r => let '(rest, n') := render_strs trf r (S n) in (t :: trf n ++ rest, n')
  end.

Lemma render_LStrs : forall ts lay n inside,
  render (LStrs ts) lay n inside = render_strs (fun n => if inside then lay n else []) ts n.
Proof.
  intros ts lay n inside. cbn [render]. revert n.
  induction ts as [|t r IH]; intro n; [reflexivity|].
  cbn [render_strs]. rewrite <- IH. reflexivity.
Qed.

Lemma render_strs_cons : forall trf t r n toks n',
  render_strs trf (t :: r) n = (toks, n') ->
  exists toks1, render_strs trf r (S n) = (toks1, n') /\ toks = t :: trf n ++ toks1.
Proof.
  intros trf t r n toks n' H. cbn [render_strs] in H.
  destruct (render_strs trf r (S n)) as [toks1 n1]. injection H as <- <-.
  exists toks1. split; reflexivity.
Qed.

Lemma cur_ty_follow_string : forall rest, follows rest -> cur_ty rest STRING = false.
Proof.
  intros rest [t [r' [-> H]]]. unfold cur_ty. cbn [cur hd].
  destruct H as [H|[H|H]]; rewrite H; reflexivity.
Qed.

Lemma basic_loop_strs : forall o wb trf more t n toks n' fuel acc v tr rest,
  (forall k, Forall trivia_tok (trf k)) ->
  Forall (fun t => ty t = STRING) (t :: more) ->
  Forall (fun p => exists v', olookup o (fold_acc acc p) = Some (Some v')) (prefixes_ne (t :: more)) ->
  olookup o (fold_acc acc (t :: more)) = Some (Some v) ->
  render_strs trf (t :: more) n = (toks, n') ->
  Forall trivia_tok tr -> follows rest ->
  List.length more < fuel ->
  basic_loop fuel o wb (toks ++ tr ++ rest) acc = POk (v, rest).
Proof.
  intros o wb trf more. induction more as [|t2 more IH];
    intros t n toks n' fuel acc v tr rest Htrf Hstr Hpre Hv Hr Htr Hrest Hfuel.
  - destruct fuel as [|f]; [cbn in Hfuel; lia|].
    cbn [render_strs] in Hr. injection Hr as <- <-.
    rewrite basic_loop_S. cbn [app cur hd]. cbn zeta.
    cbn [fold_acc fold_left] in Hv. rewrite Hv.
    destruct Hrest as [t0 [r0 [-> Hf0]]].
    rewrite app_nil_r. rewrite app_assoc.
    rewrite advance_solid.
    + rewrite (cur_ty_follow_string (t0 :: r0)); [|exists t0, r0; split; [reflexivity|exact Hf0]].
      rewrite andb_false_r. reflexivity.
    + apply Forall_app. split; [apply Htrf | exact Htr].
    + apply follow_solid; exact Hf0.
  - destruct fuel as [|f]; [cbn in Hfuel; lia|].
    apply render_strs_cons in Hr. destruct Hr as [toks1 [Hr1 ->]].
    destruct (render_strs_cons _ _ _ _ _ _ Hr1) as [toks2 [_ E2]].
    pose proof (Forall_inv Hstr) as Ht. pose proof (Forall_inv_tail Hstr) as Hstr'.
    pose proof (Forall_inv Hstr') as Ht2. cbn beta in Ht, Ht2.
    rewrite basic_loop_S. cbn [app cur hd]. cbn zeta.
    change (prefixes_ne (t :: t2 :: more)) with ([t] :: map (cons t) (prefixes_ne (t2 :: more))) in Hpre.
    pose proof (Forall_inv Hpre) as [v1 Hv1]. pose proof (Forall_inv_tail Hpre) as Hpre'.
    cbn [fold_acc fold_left] in Hv1. rewrite Hv1.
    rewrite <- app_assoc. rewrite E2 at 1. cbn [app].
    rewrite advance_solid; [| apply Htrf | unfold solid; tauto].
    unfold cur_ty at 1 2. cbn [cur hd]. rewrite Ht, Ht2. cbn [ttype_eqb andb].
    change (t2 :: (trf (S n) ++ toks2) ++ tr ++ rest) with ((t2 :: trf (S n) ++ toks2) ++ tr ++ rest).
    rewrite <- E2.
    eapply IH with (n := S n) (n' := n'); try eassumption.
    + rewrite Forall_map in Hpre'. exact Hpre'.
    + cbn [List.length] in Hfuel. lia.
Qed.

(* with well-behaved texts the accumulated text is the blank-separated join *)
Definition text_ok (s : string) : Prop :=
  s <> "" /\ s <> "-" /\ closer s = None /\ s <> "]" /\ s <> ")" /\ s <> "}".

Lemma acc_next_good : forall acc s, acc <> "" -> acc <> "-" ->
  acc_next acc s = (acc ++ " " ++ s)%string /\ acc_next acc s <> "" /\ acc_next acc s <> "-".
Proof.
  intros acc s H1 H2. unfold acc_next.
  destruct (String.eqb_spec acc "") as [E|_]; [congruence|].
  destruct (String.eqb_spec acc "-") as [E|_]; [congruence|]. cbn [orb].
  split; [reflexivity|].
  destruct acc as [|c acc]; [congruence|]. cbn [String.append].
  split; [discriminate|]. destruct acc; cbn [String.append]; discriminate.
Qed.

Lemma append_assoc' : forall a b c : string, ((a ++ b) ++ c = a ++ (b ++ c))%string.
Proof. intros a b c. induction a as [|x a IH]; cbn [String.append]; [reflexivity | now rewrite IH]. Qed.

Lemma fold_acc_good : forall p acc, acc <> "" -> acc <> "-" ->
  fold_acc acc p = (acc ++ concat_strs (map (fun t => " " ++ text t) p))%string.
Proof.
  induction p as [|t p IH]; intros acc H1 H2; cbn [fold_acc fold_left map concat_strs].
  - clear. induction acc as [|c a IHa]; cbn [String.append]; [reflexivity| now rewrite <- IHa].
  - destruct (acc_next_good acc (text t) H1 H2) as [E [G1 G2]].
    fold (fold_acc (acc_next acc (text t)) p). rewrite (IH _ G1 G2). rewrite E.
    rewrite !append_assoc'. reflexivity.
Qed.

Lemma strs_text_join : forall t p,
  strs_text (t :: p) = (text t ++ concat_strs (map (fun t => " " ++ text t) p))%string.
Proof.
  intros t p. revert t. induction p as [|t2 p IH]; intro t.
  - cbn [strs_text map concat_strs]. clear. induction (text t) as [|c a IHa]; cbn [String.append];
      [reflexivity | now rewrite <- IHa].
  - change (strs_text (t :: t2 :: p)) with (text t ++ " " ++ strs_text (t2 :: p))%string.
    rewrite IH. cbn [map concat_strs]. rewrite !append_assoc'. reflexivity.
Qed.

Lemma fold_acc_strs_text : forall t p, text t <> "" -> text t <> "-" ->
  fold_acc "" (t :: p) = strs_text (t :: p).
Proof.
  intros t p H1 H2. cbn [fold_acc fold_left].
  change (acc_next "" (text t)) with (text t).
  fold (fold_acc (text t) p). rewrite (fold_acc_good p _ H1 H2). rewrite strs_text_join. reflexivity.
Qed.

(* ------------------------------------------------------------------ *)
(* maybe_basic *)
Lemma maybe_basic_plain : forall o wb ts,
  cur_is ts "-" = false -> in_types (ty (cur ts)) [NAME; NUMBER; STRING] = true ->
  maybe_basic o wb ts =
  match basic_loop (S (List.length ts)) o wb ts "" with PErr e => PErr e | POk r => POk (Some r) end.
Proof. intros o wb ts H1 H2. unfold maybe_basic. rewrite H1, H2. reflexivity. Qed.

Lemma maybe_basic_neg : forall o wb ts ts1,
  cur_is ts "-" = true -> advance wb ts = POk ts1 -> in_types (ty (cur ts1)) [NAME; NUMBER; STRING] = true ->
  maybe_basic o wb ts =
  match basic_loop (S (List.length ts1)) o wb ts1 "-" with PErr e => PErr e | POk r => POk (Some r) end.
Proof. intros o wb ts ts1 H1 H2 H3. unfold maybe_basic. rewrite H1, H2, H3. reflexivity. Qed.

(* ------------------------------------------------------------------ *)
(* the container item loop of parse_value, named *)
Definition pv_loop (f : nat) (o : oracle) (wb : bool) (close : string) (is_dict : bool) :=
  fix loop (n : nat) (ts : list token) (vals : list out) (pairs : list (out * out))
           (saw_comma : bool) {struct n}
    : pres (list out * list (out * out) * bool * list token) :=
    match n with
    | O => PErr (EOther "OutOfFuel")
    | S n' =>
        if cur_is ts close then POk (vals, pairs, saw_comma, ts) else
        let item :=
          if is_dict then
            match parse_value f o wb ts with
            | PErr e => PErr e
            | POk (k, ts') =>
                if negb (cur_is ts' ":") then syntax_here ts' else
                match advance wb ts' with
                | PErr e => PErr e
                | POk ts'' =>
                    match parse_value f o wb ts'' with
                    | PErr e => PErr e
                    | POk (v, ts3) => POk (v, Some (k, v), ts3)
                    end
                end
            end
          else match parse_value f o wb ts with
               | PErr e => PErr e
               | POk (v, ts') => POk (v, None, ts')
               end in
        match item with
        | PErr e => PErr e
        | POk (v, kv, ts') =>
            let vals' := vals ++ [v] in
            let pairs' := match kv with Some p => pairs ++ [p] | None => pairs end in
            if cur_is ts' "," then
              match advance wb ts' with
              | PErr e => PErr e
              | POk ts'' => loop n' ts'' vals' pairs' true
              end
            else if negb (cur_is ts' close) then syntax_here ts'
            else loop n' ts' vals' pairs' saw_comma
        end
    end.

Definition container_value (open_ : string) (vals : list out) (pairs : list (out * out)) (saw_comma : bool) : out :=
  if String.eqb open_ "{" then build_dict pairs
  else if String.eqb open_ "(" then
    match vals with
    | [x] => if saw_comma then OT "T" vals else x
    | _ => OT "T" vals
    end
  else OT "L" vals.

Lemma parse_value_container : forall f o wb ts close,
  closer (text (cur ts)) = Some close ->
  parse_value (S f) o wb ts =
  match advance wb ts with
  | PErr e => PErr e
  | POk ts1 =>
      match pv_loop f o wb close (String.eqb (text (cur ts)) "{") (S (List.length ts1)) ts1 [] [] false with
      | PErr e => PErr e
      | POk (vals, pairs, saw_comma, ts2) =>
          match advance wb ts2 with
          | PErr e => PErr e
          | POk ts3 =>
              if String.eqb (text (cur ts)) "{" && negb (keys_hashable pairs) then PErr (EOther "TypeError")
              else POk (container_value (text (cur ts)) vals pairs saw_comma, ts3)
          end
      end
  end.
Proof. intros f o wb ts close H. cbn [parse_value]. rewrite H. reflexivity. Qed.

Lemma parse_value_basic : forall f o wb ts r,
  closer (text (cur ts)) = None -> maybe_basic o wb ts = POk (Some r) ->
  parse_value (S f) o wb ts = POk r.
Proof. intros f o wb ts r H1 H2. cbn [parse_value]. rewrite H1, H2. reflexivity. Qed.

Lemma pv_loop_S : forall f o wb close is_dict n' ts vals pairs saw_comma,
  pv_loop f o wb close is_dict (S n') ts vals pairs saw_comma =
        if cur_is ts close then POk (vals, pairs, saw_comma, ts) else
        let item :=
          if is_dict then
            match parse_value f o wb ts with
            | PErr e => PErr e
            | POk (k, ts') =>
                if negb (cur_is ts' ":") then syntax_here ts' else
                match advance wb ts' with
                | PErr e => PErr e
                | POk ts'' =>
                    match parse_value f o wb ts'' with
                    | PErr e => PErr e
                    | POk (v, ts3) => POk (v, Some (k, v), ts3)
                    end
                end
            end
          else match parse_value f o wb ts with
               | PErr e => PErr e
               | POk (v, ts') => POk (v, None, ts')
               end in
        match item with
        | PErr e => PErr e
        | POk (v, kv, ts') =>
            let vals' := vals ++ [v] in
            let pairs' := match kv with Some p => pairs ++ [p] | None => pairs end in
            if cur_is ts' "," then
              match advance wb ts' with
              | PErr e => PErr e
              | POk ts'' => pv_loop f o wb close is_dict n' ts'' vals' pairs' true
              end
            else if negb (cur_is ts' close) then syntax_here ts'
            else pv_loop f o wb close is_dict n' ts' vals' pairs' saw_comma
        end.
Proof. reflexivity. Qed.
