(* Frame theorems for the Gin machine: evaluating references / calling
   configurables never changes the store, the registry, the lock, the
   constants, the hooks, the interactive flag, and restores the scope stack. *)
From Coq Require Import List String ZArith Bool Arith Lia.
From GinV Require Import Lib.Out Lib.PyStr Model.SelectorMap Model.Values Model.Gin Model.GinEngine.
Import ListNotations. Open Scope string_scope. Open Scope list_scope.

Definition same_static (s s' : state) : Prop :=
  config s' = config s /\ reg s' = reg s /\ locked s' = locked s /\ interactive s' = interactive s /\
  constants s' = constants s /\ hooks s' = hooks s /\ scopes s' = scopes s.

Lemma ss_refl : forall s, same_static s s.
Proof. intro s. unfold same_static. repeat split. Qed.

Lemma ss_trans : forall s1 s2 s3, same_static s1 s2 -> same_static s2 s3 -> same_static s1 s3.
Proof.
  unfold same_static. intros s1 s2 s3 (A1&A2&A3&A4&A5&A6&A7) (B1&B2&B3&B4&B5&B6&B7).
  repeat split; congruence.
Qed.

Lemma ss_oper_update : forall s k v, same_static s (oper_update s k v).
Proof. intros. unfold same_static, oper_update. simpl. repeat split. Qed.
Lemma ss_log_call : forall s c, same_static s (log_call c s).
Proof. intros. unfold same_static. simpl. repeat split. Qed.
Lemma ss_set_singletons : forall s x, same_static s (set_singletons x s).
Proof. intros. unfold same_static. simpl. repeat split. Qed.
Lemma ss_set_operative : forall s x, same_static s (set_operative x s).
Proof. intros. unfold same_static. simpl. repeat split. Qed.
Lemma ss_emit : forall s x, same_static s (emit x s).
Proof. intros. unfold same_static. simpl. repeat split. Qed.

(* ---- the inner loops of eval / call, abstracted over the evaluator ---- *)
Definition evaluator := state -> value -> state * res value.

Definition go_list (ev : evaluator) :=
  fix go (s : state) (l : list value) : state * res (list value) :=
    match l with
    | [] => (s, Ok [])
    | x :: t => let '(s1, rx) := ev s x in
                match rx with
                | Raise e => (s1, Raise e)
                | Ok x' => let '(s2, rt) := go s1 t in
                           match rt with Raise e => (s2, Raise e) | Ok t' => (s2, Ok (x' :: t')) end
                end
    end.

Definition go_dict (ev : evaluator) :=
  fix go (s : state) (l : list (value * value)) (y : list (value * value)) : state * res (list (value * value)) :=
    match l with
    | [] => (s, Ok y)
    | (k, x) :: t =>
        let '(s0, rx) := ev s x in
        match rx with
        | Raise e => (s0, Raise e)
        | Ok x' =>
            let '(s1, rk) := ev s0 k in
            match rk with
            | Raise e => (s1, Raise e)
            | Ok k' => if py_hashable k' then go s1 t (vdict_set k' x' y) else (s1, Raise "TypeError")
            end
        end
    end.

Definition go_kw (ev : evaluator) :=
  fix go (s : state) (l : pdict) : state * res pdict :=
    match l with
    | [] => (s, Ok [])
    | (k, x) :: t => let '(s1, rx) := ev s x in
                     match rx with
                     | Raise e => (s1, Raise e)
                     | Ok x' => let '(s2, rt) := go s1 t in
                                match rt with Raise e => (s2, Raise e) | Ok t' => (s2, Ok ((k, x') :: t')) end
                     end
    end.

(* ---- unfolding equations ---- *)
Lemma eval_0 : forall s v, eval 0 s v = (s, Raise "RecursionError").
Proof. reflexivity. Qed.
Lemma call_handle_0 : forall s sc sel a k, call_handle 0 s sc sel a k = (s, Raise "RecursionError").
Proof. reflexivity. Qed.
Lemma call_0 : forall s sel a k, call 0 s sel a k = (s, Raise "RecursionError").
Proof. reflexivity. Qed.

Lemma eval_VList : forall f s l, eval (S f) s (VList l) =
  let '(s', r) := go_list (eval f) s l in
  (s', match r with Ok l' => Ok (VList l') | Raise e => Raise e end).
Proof. reflexivity. Qed.
Lemma eval_VTuple : forall f s l, eval (S f) s (VTuple l) =
  let '(s', r) := go_list (eval f) s l in
  (s', match r with Ok l' => Ok (VTuple l') | Raise e => Raise e end).
Proof. reflexivity. Qed.
Lemma eval_VDict : forall f s l, eval (S f) s (VDict l) =
  let '(s', r) := go_dict (eval f) s l [] in
  (s', match r with Ok l' => Ok (VDict l') | Raise e => Raise e end).
Proof. reflexivity. Qed.
Lemma eval_VRef_true : forall f s sc sel, eval (S f) s (VRef sc sel true) = call_handle f s sc sel [] [].
Proof. reflexivity. Qed.
Lemma eval_VRef_false : forall f s sc sel, eval (S f) s (VRef sc sel false) = (s, Ok (VHandle sc sel)).
Proof. reflexivity. Qed.

Lemma call_handle_S : forall f s sc sel args kwargs, call_handle (S f) s sc sel args kwargs =
  match sc with
  | [] => call f s sel args kwargs
  | _ =>
      let s1 := set_scopes (sc :: scopes s) s in
      if negb (scope_valid sc) then (set_scopes (scopes s) s1, Raise "ValueError") else
      let '(s2, r) := call f s1 sel args kwargs in
      (set_scopes (tl (scopes s2)) s2, r)
  end.
Proof. reflexivity. Qed.

(* the tail of gin_wrapper after the bindings have been evaluated *)
Definition call_tail (f : nat) (c : cfgable) (sel sstr : string) (args : list value) (kwargs : pdict)
           (s : state) (rk : res pdict) : state * res value :=
  match rk with
  | Raise e => (s, Raise e)
  | Ok nk =>
      match merge_call c args kwargs nk with
      | Raise e => (s, Raise e)
      | Ok (new_args, final_kwargs) =>
          match py_bind (c_sig c) new_args final_kwargs with
          | None => (s, Raise "TypeError")
          | Some env =>
              match c_kind c with
              | KProbe =>
                  let n := counter s in
                  (log_call {| cr_sel := sel; cr_scope := current_scope s; cr_env := env; cr_n := n |} s,
                   Ok (VRet sel n))
              | KMacro => (s, match sget "value" env with Some x => Ok x | None => Raise "ModelError" end)
              | KConstant =>
                  match fget (to_key sstr) (sm_flat (constants s)) with
                  | Some x => (s, Ok x)
                  | None => (s, Raise "KeyError")
                  end
              | KSingleton =>
                  match sget sstr (singletons s) with
                  | Some x => (s, Ok x)
                  | None =>
                      match sget "constructor" env with
                      | Some (VHandle hsc hsel) =>
                          let '(s', r) := call_handle f s hsc hsel [] [] in
                          match r with
                          | Ok x => (set_singletons (sset sstr x (singletons s')) s', Ok x)
                          | Raise e => (s', Raise e)
                          end
                      | Some x => (s, Raise "ValueError")
                      | None => (s, Raise "ModelError")
                      end
                  end
              end
          end
      end
  end.

Lemma current_scope_oper_update : forall s k v, current_scope (oper_update s k v) = current_scope s.
Proof. reflexivity. Qed.

Lemma call_S : forall f s sel args kwargs, call (S f) s sel args kwargs =
  match lookup_sel s sel with
  | None => (s, Raise "ModelError")
  | Some c =>
      if existsb is_req (skipn (List.length (supplied_positional_names (c_sig c) args)) args)
      then (s, Raise "ValueError") else
      let new_kwargs := prep_bindings (config s) (current_scope s) c args kwargs in
      let s0 := oper_update s (scope_str (current_scope s), sel) (prep_operative c args kwargs new_kwargs) in
      let '(s1, rk) := go_kw (eval f) s0 new_kwargs in
      call_tail f c sel (scope_str (current_scope s)) args kwargs s1 rk
  end.
Proof.
  intros. unfold call_tail. simpl.
  destruct (lookup_sel s sel) as [c|]; [|reflexivity].
  destruct (existsb is_req (skipn (List.length (supplied_positional_names (c_sig c) args)) args)); [reflexivity|].
  cbv zeta.
  match goal with |- (let '(_, _) := ?X in _) = (let '(_, _) := ?Y in _) => change X with Y; destruct Y as [s1 rk] end.
  reflexivity.
Qed.

(* ---- loop helpers ---- *)
Lemma go_list_cons : forall ev s x t, go_list ev s (x :: t) =
  let '(s1, rx) := ev s x in
  match rx with
  | Raise e => (s1, Raise e)
  | Ok x' => let '(s2, rt) := go_list ev s1 t in
             match rt with Raise e => (s2, Raise e) | Ok t' => (s2, Ok (x' :: t')) end
  end.
Proof. reflexivity. Qed.
Lemma go_dict_cons : forall ev s k x t y, go_dict ev s ((k, x) :: t) y =
  let '(s0, rx) := ev s x in
  match rx with
  | Raise e => (s0, Raise e)
  | Ok x' =>
      let '(s1, rk) := ev s0 k in
      match rk with
      | Raise e => (s1, Raise e)
      | Ok k' => if py_hashable k' then go_dict ev s1 t (vdict_set k' x' y) else (s1, Raise "TypeError")
      end
  end.
Proof. reflexivity. Qed.
Lemma go_kw_cons : forall ev s k x t, go_kw ev s ((k, x) :: t) =
  let '(s1, rx) := ev s x in
  match rx with
  | Raise e => (s1, Raise e)
  | Ok x' => let '(s2, rt) := go_kw ev s1 t in
             match rt with Raise e => (s2, Raise e) | Ok t' => (s2, Ok ((k, x') :: t')) end
  end.
Proof. reflexivity. Qed.
Definition ev_frame (ev : evaluator) : Prop := forall s v s' r, ev s v = (s', r) -> same_static s s'.

Lemma go_list_frame : forall ev, ev_frame ev ->
  forall l s s' r, go_list ev s l = (s', r) -> same_static s s'.
Proof.
  intros ev Hev l. induction l as [|x t IH]; intros s s' r H.
  - simpl in H. inversion H; subst. apply ss_refl.
  - rewrite go_list_cons in H.
    destruct (ev s x) as [s1 rx] eqn:E1. pose proof (Hev _ _ _ _ E1) as F1.
    destruct rx as [x'|e]; [|inversion H; subst; exact F1].
    destruct (go_list ev s1 t) as [s2 rt] eqn:E2.
    pose proof (IH _ _ _ E2) as F2.
    destruct rt; inversion H; subst; eapply ss_trans; eassumption.
Qed.

Lemma go_dict_frame : forall ev, ev_frame ev ->
  forall l s y s' r, go_dict ev s l y = (s', r) -> same_static s s'.
Proof.
  intros ev Hev l. induction l as [|[k x] t IH]; intros s y s' r H.
  - simpl in H. inversion H; subst. apply ss_refl.
  - rewrite go_dict_cons in H. destruct (ev s x) as [s0 rx] eqn:E0. pose proof (Hev _ _ _ _ E0) as F0.
    destruct rx as [x'|e]; [|inversion H; subst; exact F0].
    destruct (ev s0 k) as [s1 rk] eqn:E1. pose proof (Hev _ _ _ _ E1) as F1.
    destruct rk as [k'|e]; [|inversion H; subst; eapply ss_trans; eassumption].
    destruct (py_hashable k'); [|inversion H; subst; eapply ss_trans; eassumption].
    pose proof (IH _ _ _ _ H) as F2.
    eapply ss_trans; [exact F0|]. eapply ss_trans; eassumption.
Qed.

Lemma go_kw_frame : forall ev, ev_frame ev ->
  forall l s s' r, go_kw ev s l = (s', r) -> same_static s s'.
Proof.
  intros ev Hev l. induction l as [|[k x] t IH]; intros s s' r H.
  - simpl in H. inversion H; subst. apply ss_refl.
  - rewrite go_kw_cons in H. destruct (ev s x) as [s1 rx] eqn:E1. pose proof (Hev _ _ _ _ E1) as F1.
    destruct rx as [x'|e]; [|inversion H; subst; exact F1].
    destruct (go_kw ev s1 t) as [s2 rt] eqn:E2.
    pose proof (IH _ _ _ E2) as F2.
    destruct rt; inversion H; subst; eapply ss_trans; eassumption.
Qed.

Definition ch_frame (f : nat) : Prop :=
  forall s sc sel args kw s' r, call_handle f s sc sel args kw = (s', r) -> same_static s s'.
Definition call_frame_at (f : nat) : Prop :=
  forall s sel args kw s' r, call f s sel args kw = (s', r) -> same_static s s'.

Lemma call_tail_frame : forall f c sel sstr args kwargs s rk s' r, ch_frame f ->
  call_tail f c sel sstr args kwargs s rk = (s', r) -> same_static s s'.
Proof.
  intros f c sel sstr args kwargs s rk s' r Hch H. unfold call_tail in H.
  destruct rk as [nk|e]; [|inversion H; subst; apply ss_refl].
  destruct (merge_call c args kwargs nk) as [[new_args final_kwargs]|e]; [|inversion H; subst; apply ss_refl].
  destruct (py_bind (c_sig c) new_args final_kwargs) as [env|]; [|inversion H; subst; apply ss_refl].
  destruct (c_kind c).
  - inversion H; subst. apply ss_log_call.
  - inversion H; subst. apply ss_refl.
  - destruct (fget (to_key sstr) (sm_flat (constants s))); inversion H; subst; apply ss_refl.
  - destruct (sget sstr (singletons s)); [inversion H; subst; apply ss_refl|].
    destruct (sget "constructor" env) as [x|]; [|inversion H; subst; apply ss_refl].
    destruct x; try (inversion H; subst; apply ss_refl).
    destruct (call_handle f s scopes sel0 [] []) as [s1 r1] eqn:E.
    pose proof (Hch _ _ _ _ _ _ _ E) as F.
    destruct r1; inversion H; subst; [|exact F].
    eapply ss_trans; [exact F|apply ss_set_singletons].
Qed.

Lemma frame_all : forall fuel, ev_frame (eval fuel) /\ ch_frame fuel /\ call_frame_at fuel.
Proof.
  induction fuel as [|f [IHe [IHh IHc]]].
  - split; [|split].
    + intros s v s' r H. rewrite eval_0 in H. inversion H; subst. apply ss_refl.
    + intros s sc sel a k s' r H. rewrite call_handle_0 in H. inversion H; subst. apply ss_refl.
    + intros s sel a k s' r H. rewrite call_0 in H. inversion H; subst. apply ss_refl.
  - split; [|split].
    + intros s v s' r H. destruct v; try (simpl in H; inversion H; subst; apply ss_refl).
      * rewrite eval_VList in H. destruct (go_list (eval f) s l) as [s1 r1] eqn:E.
        inversion H; subst. eapply go_list_frame; eassumption.
      * rewrite eval_VTuple in H. destruct (go_list (eval f) s l) as [s1 r1] eqn:E.
        inversion H; subst. eapply go_list_frame; eassumption.
      * rewrite eval_VDict in H. destruct (go_dict (eval f) s l []) as [s1 r1] eqn:E.
        inversion H; subst. eapply go_dict_frame; eassumption.
      * destruct ev.
        -- rewrite eval_VRef_true in H. eapply IHh; eassumption.
        -- rewrite eval_VRef_false in H. inversion H; subst. apply ss_refl.
    + intros s sc sel args kw s' r H. rewrite call_handle_S in H.
      destruct sc as [|x sc]; [eapply IHc; eassumption|].
      cbv zeta in H. destruct (negb (scope_valid (x :: sc))).
      * inversion H; subst. unfold same_static; simpl. repeat split.
      * destruct (call f (set_scopes ((x :: sc) :: scopes s) s) sel args kw) as [s2 r2] eqn:E.
        apply IHc in E. inversion H; subst. clear H.
        unfold same_static in *. simpl in *. destruct E as (A1&A2&A3&A4&A5&A6&A7).
        rewrite A7. simpl. repeat split; assumption.
    + intros s sel args kw s' r H. rewrite call_S in H.
      destruct (lookup_sel s sel) as [c|]; [|inversion H; subst; apply ss_refl].
      destruct (existsb is_req _); [inversion H; subst; apply ss_refl|].
      cbv zeta in H.
      match type of H with (let '(_, _) := ?X in _) = _ => destruct X as [s1 rk] eqn:E end.
      apply (go_kw_frame _ IHe) in E. apply call_tail_frame in H; [|exact IHh].
      eapply ss_trans; [apply ss_oper_update|]. eapply ss_trans; eassumption.
Qed.

Theorem eval_frame : forall fuel s v s' r, eval fuel s v = (s', r) -> same_static s s'.
Proof. intro fuel. apply (frame_all fuel). Qed.
Theorem call_handle_frame : forall fuel s sc sel args kw s' r,
  call_handle fuel s sc sel args kw = (s', r) -> same_static s s'.
Proof. intro fuel. apply (frame_all fuel). Qed.
Theorem call_frame : forall fuel s sel args kw s' r, call fuel s sel args kw = (s', r) -> same_static s s'.
Proof. intro fuel. apply (frame_all fuel). Qed.

(* ================================================================== *)
(* a dict item: the value before the key; equal keys merge             *)
(* ================================================================== *)
(* copy._deepcopy_dict runs  y[deepcopy(key)] = deepcopy(value)  per item: the right-hand side first *)
Lemma eval_VDict_value_raises : forall f s k x t s0 e,
  eval f s x = (s0, Raise e) -> eval (S f) s (VDict ((k, x) :: t)) = (s0, Raise e).
Proof. intros f s k x t s0 e H. rewrite eval_VDict, go_dict_cons, H. reflexivity. Qed.

Definition probe1 (sel : string) : cfgable :=
  {| c_sel := sel; c_kind := KProbe;
     c_sig := {| s_args := ["a"]; s_defaults := [VNone]; s_varargs := false; s_kwonly := []; s_varkw := false |};
     c_allow := []; c_deny := []; c_method := false |}.
Definition log_of (s : state) : list (string * pdict * Z) := map (fun c => (cr_sel c, cr_env c, cr_n c)) (rev (calllog s)).

(* k = @g() ; f.a = {%k: @h()} : h (under the key) runs BEFORE g (the key).
   k = @g() ; f.a = {%k: %unbound} : the value raises first, g never runs. *)
Lemma dict_item_value_before_key :
  let regs := [probe1 "m.f"; probe1 "n.g"; probe1 "n.h"] in
  let s1 := run_top 50 (setup regs) [OParse "k" (VRef [] "g" true); OParse "f.a" (VDict [(VMacro "k", VRef [] "h" true)])] in
  let s2 := run_top 50 (setup regs) [OParse "k" (VRef [] "g" true); OParse "f.a" (VDict [(VMacro "k", VMacro "unbound")])] in
  (snd (call 50 s1 "m.f" [] []) = Ok (VRet "m.f" 2) /\
   log_of (fst (call 50 s1 "m.f" [] [])) =
     [("n.h", [("a", VNone)], 0%Z); ("n.g", [("a", VNone)], 1%Z);
      ("m.f", [("a", VDict [(VRet "n.g" 1, VRet "n.h" 0)])], 2%Z)]) /\
  (snd (call 50 s2 "m.f" [] []) = Raise "TypeError" /\ log_of (fst (call 50 s2 "m.f" [] [])) = []).
Proof. vm_compute. repeat split; reflexivity. Qed.

(* y[k'] = x' : keys that are equal after evaluation (1 == True) are ONE entry, which keeps the earlier key and
   place and takes the later value; a key that evaluates to a list raises TypeError, after the item's value has run
   and before the next item is touched *)
Lemma dict_equal_keys_merge :
  let regs := [probe1 "m.f"; probe1 "n.g"; probe1 "n.h"] in
  let s1 := run_top 50 (setup regs)
     [OParse "k1" (VInt 1); OParse "k2" (VBool true);
      OParse "f.a" (VDict [(VMacro "k1", VStr "a"); (VInt 2, VStr "b"); (VMacro "k2", VStr "c")])] in
  let s2 := run_top 50 (setup regs)
     [OParse "kl" (VList [VInt 1]);
      OParse "f.a" (VDict [(VInt 1, VInt 2); (VMacro "kl", VRef [] "g" true); (VInt 3, VRef [] "h" true)])] in
  log_of (fst (call 50 s1 "m.f" [] [])) = [("m.f", [("a", VDict [(VInt 1, VStr "c"); (VInt 2, VStr "b")])], 0%Z)] /\
  (snd (call 50 s2 "m.f" [] []) = Raise "TypeError" /\
   log_of (fst (call 50 s2 "m.f" [] [])) = [("n.g", [("a", VNone)], 0%Z)]).
Proof. vm_compute. repeat split; reflexivity. Qed.

Print Assumptions eval_VDict_value_raises.
Print Assumptions dict_item_value_before_key.
Print Assumptions dict_equal_keys_merge.
