(* skip_unknown under dynamic registration: Model/DynReg.v run_stmts_sk / parse_call_sk / should_skip_dyn. *)
From Coq Require Import List String ZArith Bool Arith Lia.
From GinV Require Import Lib.Out Lib.PyStr Model.SelectorMap Model.Serial Model.DynReg Proofs.DynRegProofs.
Import ListNotations.
Open Scope string_scope.
Open Scope list_scope.

Notation drefs := (list ((string * string) * string * string)).
Notation dresult := (dstate * list ((string * string) * string * string) * dctx * option string)%type.

(* ------------------------------------------------------------------ *)
(* ---- run_stmts, one statement at a time ---- *)
(* ------------------------------------------------------------------ *)
Definition then_run (r : dresult) (k : dstate -> drefs -> dctx -> dresult) : dresult :=
  let '(s', refs', c', e) := r in match e with Some _ => (s', refs', c', e) | None => k s' refs' c' end.

Lemma then_run_some : forall s refs c x k, then_run (s, refs, c, Some x) k = (s, refs, c, Some x).
Proof. reflexivity. Qed.
Lemma then_run_none : forall s refs c k, then_run (s, refs, c, None) k = k s refs c.
Proof. reflexivity. Qed.

Theorem run_stmts_cons : forall univ st rest s refs c,
  run_stmts univ (st :: rest) s refs c = then_run (run_stmts univ [st] s refs c) (run_stmts univ rest).
Proof.
  intros univ st rest s refs c. unfold then_run. destruct st as [d | scope sel param v | scope sel]; cbn [run_stmts].
  - destruct (process_import univ c d); reflexivity.
  - destruct v as [z | scopes rsel].
    + destruct (get_configurable (ds_reg s) c sel) as [[[reg2 full] rp2]|err]; reflexivity.
    + destruct (get_configurable (ds_reg s) c rsel) as [[[reg1 rfull] rp1]|err]; [|reflexivity].
      destruct (get_configurable reg1 c sel) as [[[reg2 full] rp2]|err]; reflexivity.
  - destruct (get_configurable (ds_reg s) c sel) as [[[reg2 full] rp2]|err]; reflexivity.
Qed.
Theorem run_stmts_nil : forall univ s refs c, run_stmts univ [] s refs c = (s, refs, c, None).
Proof. reflexivity. Qed.
Theorem run_stmts_import : forall univ d s refs c, run_stmts univ [DImport d] s refs c =
  match process_import univ c d with DErr e => (s, refs, c, Some e) | DOk c' => (s, refs, c', None) end.
Proof. reflexivity. Qed.
Theorem run_stmts_block : forall univ scope sel s refs c, run_stmts univ [DBlock scope sel] s refs c =
  match get_configurable (ds_reg s) c sel with
  | DErr e => (with_reg s (failed_reg (ds_reg s) c sel), refs, c, Some e)
  | DOk (reg, _, rp) => (with_reg s reg, retarget rp refs, c, None)
  end.
Proof. intros. cbn [run_stmts]. destruct (get_configurable (ds_reg s) c sel) as [[[reg full] rp]|err]; reflexivity. Qed.

(* a property of the context that process_import keeps is kept by run_stmts *)
Lemma run_stmts_ctx_inv : forall (Q : dctx -> Prop) univ,
  (forall c d c1, Q c -> process_import univ c d = DOk c1 -> Q c1) ->
  forall stmts s refs c s' refs' c' e, Q c -> run_stmts univ stmts s refs c = (s', refs', c', e) -> Q c'.
Proof.
  intros Q univ HQ stmts. induction stmts as [|st rest IH]; intros s refs c s' refs' c' e Hc Hrun.
  - cbn [run_stmts] in Hrun. inversion Hrun; subst. exact Hc.
  - destruct st as [d | scope sel param v | scope sel]; cbn [run_stmts] in Hrun.
    + destruct (process_import univ c d) as [c1|err] eqn:Ep.
      * eapply IH; [|exact Hrun]. eapply HQ; eauto.
      * inversion Hrun; subst. exact Hc.
    + destruct v as [z | scopes rsel].
      * destruct (get_configurable (ds_reg s) c sel) as [[[reg2 full] rp2]|err].
        -- eapply IH; eauto.
        -- inversion Hrun; subst. exact Hc.
      * destruct (get_configurable (ds_reg s) c rsel) as [[[reg1 rfull] rp1]|err].
        -- destruct (get_configurable reg1 c sel) as [[[reg2 full] rp2]|err].
           ++ eapply IH; eauto.
           ++ inversion Hrun; subst. exact Hc.
        -- inversion Hrun; subst. exact Hc.
    + destruct (get_configurable (ds_reg s) c sel) as [[[reg2 full] rp2]|err].
      * eapply IH; eauto.
      * inversion Hrun; subst. exact Hc.
Qed.
Lemma run_stmts_table_ok : forall univ stmts s refs c s' refs' c' e, class_ids_ok (PMod univ) = true ->
  table_ok c -> run_stmts univ stmts s refs c = (s', refs', c', e) -> table_ok c'.
Proof.
  intros univ stmts s refs c s' refs' c' e Hu Hc Hrun.
  eapply (run_stmts_ctx_inv table_ok univ); [|exact Hc|exact Hrun].
  intros c0 d c1 H0 Hp. eapply process_import_table_ok; eauto.
Qed.
(* a statement that is not an import leaves the context alone *)
Lemma run_single_ctx : forall univ st s refs c s' refs' c' e, (forall d, st <> DImport d) ->
  run_stmts univ [st] s refs c = (s', refs', c', e) -> c' = c.
Proof.
  intros univ st s refs c s' refs' c' e Hni Hrun. destruct st as [d | scope sel param v | scope sel]; [exfalso; exact (Hni d eq_refl)| |];
    cbn [run_stmts] in Hrun.
  - destruct v as [z | scopes rsel].
    + destruct (get_configurable (ds_reg s) c sel) as [[[reg2 full] rp2]|err]; inversion Hrun; reflexivity.
    + destruct (get_configurable (ds_reg s) c rsel) as [[[reg1 rfull] rp1]|err]; [|inversion Hrun; reflexivity].
      destruct (get_configurable reg1 c sel) as [[[reg2 full] rp2]|err]; inversion Hrun; reflexivity.
  - destruct (get_configurable (ds_reg s) c sel) as [[[reg2 full] rp2]|err]; inversion Hrun; reflexivity.
Qed.

(* ------------------------------------------------------------------ *)
(* ---- resolving a name twice ---- *)
(* ------------------------------------------------------------------ *)
Lemma retarget_nil : forall refs, retarget [] refs = refs.
Proof.
  intros refs. rewrite retarget_map. induction refs as [|[k r] l IH]; [reflexivity|]. cbn [map fst snd]. rewrite retarget1_nil, IH. reflexivity.
Qed.
(* distinct objects carry distinct ids, for the chain a name denotes in this context *)
Definition ids_ok_for (c : dctx) (sel : string) : Prop :=
  forall root d chain, tget (hd "" (split_dot sel)) (c_table c) = Some (root, d) ->
    follow root (tl (split_dot sel)) [] = Some chain -> distinct_ids chain = true.
Lemma table_ok_ids_ok_for : forall c sel, table_ok c -> ids_ok_for c sel.
Proof.
  intros c sel Hok root d chain Ht Hf. eapply follow_distinct_ids; [exact Hf|exact (Hok _ _ _ Ht)|reflexivity].
Qed.
(* get_configurable is idempotent on success: the second resolution finds the object registered by the first *)
Theorem get_configurable_idempotent : forall reg c sel reg1 full rp, ids_ok_for c sel ->
  get_configurable reg c sel = DOk (reg1, full, rp) -> get_configurable reg1 c sel = DOk (reg1, full, []).
Proof.
  intros reg c sel reg1 full rp Hids H. destruct (c_dynamic c) eqn:Hd.
  - destruct (get_configurable_dyn_inv _ _ _ _ _ _ Hd H) as [root [d [chain [i [Ht [Hf [Hi [[e [Hfo [Hr [Hfull Hrp]]]]|[Hfo Hreg]]]]]]]]].
    + subst reg1 full rp. exact H.
    + destruct (register_chain_appended _ _ _ _ _ _ _ i Hreg Hi Hfo (Hids _ _ _ Ht Hf)) as [reg0 [e [Hr [Hse [Hoe _]]]]].
      unfold get_configurable. rewrite Hd. cbn [negb]. cbv zeta. rewrite Ht, Hf, Hi.
      subst reg1. rewrite (find_obj_snoc_same i reg0 e Hoe), Hse. reflexivity.
  - destruct (get_configurable_static2 _ _ _ _ _ _ Hd H) as [Hr Hrp]. subst reg1 rp. exact H.
Qed.
(* hence: resolving a reference first (as a block) and then running the binding is running the binding *)
Theorem reference_two_phase : forall univ scope sel param scopes rsel s refs c, ids_ok_for c rsel ->
  run_stmts univ [DBind scope sel param (DRef scopes rsel)] s refs c =
  then_run (run_stmts univ [DBlock "" rsel] s refs c)
           (run_stmts univ [DBind scope sel param (DRef scopes rsel)]).
Proof.
  intros univ scope sel param scopes rsel s refs c Hids. rewrite run_stmts_block. unfold then_run.
  destruct (get_configurable (ds_reg s) c rsel) as [[[reg1 rfull] rp1]|err] eqn:E1.
  - pose proof (get_configurable_idempotent _ _ _ _ _ _ Hids E1) as E1'.
    cbn [run_stmts]. cbn [with_reg ds_reg ds_store ds_imports ds_dynamic_seen]. rewrite E1, E1'.
    destruct (get_configurable reg1 c sel) as [[[reg2 full] rp2]|err2]; rewrite retarget_nil; reflexivity.
  - cbn [run_stmts]. rewrite E1. reflexivity.
Qed.

(* ------------------------------------------------------------------ *)
(* ---- run_stmts_sk, one statement at a time ---- *)
(* ------------------------------------------------------------------ *)
Section Sk.
Variable skipf : dskip -> list centry -> dctx -> string -> bool.
Variable univ : list (string * pyobj).

Theorem run_stmts_sk_nil : forall sk s refs c, run_stmts_sk skipf univ sk [] s refs c = (s, refs, c, None).
Proof. reflexivity. Qed.
Theorem run_stmts_sk_import : forall sk d rest s refs c,
  run_stmts_sk skipf univ sk (DImport d :: rest) s refs c =
  match process_import univ c d with
  | DErr e => if dsk_truthy sk && String.eqb e "ModuleNotFoundError" then run_stmts_sk skipf univ sk rest s refs c
              else (s, refs, c, Some e)
  | DOk c' => run_stmts_sk skipf univ sk rest s refs c'
  end.
Proof. reflexivity. Qed.
Theorem run_stmts_sk_block : forall sk scope sel rest s refs c,
  run_stmts_sk skipf univ sk (DBlock scope sel :: rest) s refs c =
  if skipf sk (ds_reg s) c sel then run_stmts_sk skipf univ sk rest s refs c
  else then_run (run_stmts univ [DBlock scope sel] s refs c) (run_stmts_sk skipf univ sk rest).
Proof. reflexivity. Qed.
Theorem run_stmts_sk_bind_val : forall sk scope sel param z rest s refs c,
  run_stmts_sk skipf univ sk (DBind scope sel param (DVal z) :: rest) s refs c =
  if skipf sk (ds_reg s) c sel then run_stmts_sk skipf univ sk rest s refs c
  else then_run (run_stmts univ [DBind scope sel param (DVal z)] s refs c) (run_stmts_sk skipf univ sk rest).
Proof. reflexivity. Qed.
(* a reference to a name that is itself skipped is a placeholder: nothing is resolved, a plain value is bound *)
Theorem run_stmts_sk_bind_ref : forall sk scope sel param scopes rsel rest s refs c,
  run_stmts_sk skipf univ sk (DBind scope sel param (DRef scopes rsel) :: rest) s refs c =
  if skipf sk (ds_reg s) c rsel then
    if skipf sk (ds_reg s) c sel then run_stmts_sk skipf univ sk rest s refs c
    else then_run (run_stmts univ [DBind scope sel param (DVal 0)] s refs c) (run_stmts_sk skipf univ sk rest)
  else
  then_run (run_stmts univ [DBlock "" rsel] s refs c)
    (fun s1 refs1 c1 =>
       if skipf sk (ds_reg s1) c1 sel then run_stmts_sk skipf univ sk rest s1 refs1 c1
       else then_run (run_stmts univ [DBind scope sel param (DRef scopes rsel)] s1 refs1 c1) (run_stmts_sk skipf univ sk rest)).
Proof.
  intros. cbn [run_stmts_sk]. unfold then_run. destruct (skipf sk (ds_reg s) c rsel).
  - destruct (skipf sk (ds_reg s) c sel); reflexivity.
  - destruct (run_stmts univ [DBlock "" rsel] s refs c) as [[[s1 refs1] c1] e1]. reflexivity.
Qed.

(* nothing is skipped along this run: every import succeeds (or fails for good), no target is skipped *)
Fixpoint never_skips (sk : dskip) (stmts : list dstmt) (s : dstate) (refs : drefs) (c : dctx) : bool :=
  match stmts with
  | [] => true
  | st :: rest =>
      match st with
      | DImport d => match process_import univ c d with
                     | DOk c' => never_skips sk rest s refs c'
                     | DErr e => negb (dsk_truthy sk && String.eqb e "ModuleNotFoundError")
                     end
      | DBlock scope sel =>
          negb (skipf sk (ds_reg s) c sel) &&
          (let '(s', refs', c', e) := run_stmts univ [st] s refs c in
           match e with Some _ => true | None => never_skips sk rest s' refs' c' end)
      | DBind scope sel param v =>
          (* no reference is a placeholder *)
          negb (match v with DRef _ rsel => skipf sk (ds_reg s) c rsel | DVal _ => false end) &&
          (let '(s1, refs1, c1, e1) := match v with
                                       | DVal _ => (s, refs, c, None)
                                       | DRef _ rsel => run_stmts univ [DBlock "" rsel] s refs c
                                       end in
           match e1 with
           | Some _ => true
           | None => negb (skipf sk (ds_reg s1) c1 sel) &&
                     (let '(s', refs', c', e) := run_stmts univ [st] s1 refs1 c1 in
                      match e with Some _ => true | None => never_skips sk rest s' refs' c' end)
           end)
      end
  end.

Theorem run_stmts_sk_noskip : forall sk stmts s refs c, class_ids_ok (PMod univ) = true -> table_ok c ->
  never_skips sk stmts s refs c = true -> run_stmts_sk skipf univ sk stmts s refs c = run_stmts univ stmts s refs c.
Proof.
  intros sk stmts. induction stmts as [|st rest IH]; intros s refs c Hu Htab Hns; [reflexivity|].
  rewrite run_stmts_cons. destruct st as [d | scope sel param v | scope sel].
  - rewrite run_stmts_sk_import, run_stmts_import. cbn [never_skips] in Hns.
    destruct (process_import univ c d) as [c1|err] eqn:Ep; unfold then_run.
    + apply IH; [exact Hu|eapply process_import_table_ok; eauto|exact Hns].
    + apply negb_true_iff in Hns. rewrite Hns. reflexivity.
  - destruct v as [z | scopes rsel].
    + rewrite run_stmts_sk_bind_val. cbn [never_skips negb andb] in Hns. apply andb_true_iff in Hns. destruct Hns as [Hsk Hns].
      apply negb_true_iff in Hsk. rewrite Hsk.
      destruct (run_stmts univ [DBind scope sel param (DVal z)] s refs c) as [[[s' refs'] c'] e] eqn:E. unfold then_run.
      destruct e; [reflexivity|]. apply IH; [exact Hu|eapply run_stmts_table_ok; eauto|exact Hns].
    + rewrite run_stmts_sk_bind_ref. rewrite (reference_two_phase univ scope sel param scopes rsel s refs c (table_ok_ids_ok_for _ _ Htab)).
      cbn [never_skips] in Hns. apply andb_true_iff in Hns. destruct Hns as [Hph Hns]. apply negb_true_iff in Hph. rewrite Hph.
      destruct (run_stmts univ [DBlock "" rsel] s refs c) as [[[s1 refs1] c1] [x|]] eqn:E1.
      * rewrite !then_run_some. reflexivity.
      * rewrite !then_run_none. apply andb_true_iff in Hns. destruct Hns as [Hsk Hns].
        apply negb_true_iff in Hsk. rewrite Hsk.
        pose proof (run_stmts_table_ok _ _ _ _ _ _ _ _ _ Hu Htab E1) as Htab1.
        destruct (run_stmts univ [DBind scope sel param (DRef scopes rsel)] s1 refs1 c1) as [[[s' refs'] c'] [y|]] eqn:E.
        -- rewrite !then_run_some. reflexivity.
        -- rewrite !then_run_none. apply IH; [exact Hu|eapply run_stmts_table_ok; eauto|exact Hns].
  - rewrite run_stmts_sk_block. cbn [never_skips] in Hns. apply andb_true_iff in Hns. destruct Hns as [Hsk Hns].
    apply negb_true_iff in Hsk. rewrite Hsk.
    destruct (run_stmts univ [DBlock scope sel] s refs c) as [[[s' refs'] c'] e] eqn:E. unfold then_run.
    destruct e; [reflexivity|]. apply IH; [exact Hu|eapply run_stmts_table_ok; eauto|exact Hns].
Qed.

(* skip_unknown=False: nothing is ever skipped *)
Lemma never_skips_false : (forall reg c sel, skipf DSkFalse reg c sel = false) ->
  forall stmts s refs c, never_skips DSkFalse stmts s refs c = true.
Proof.
  intros Hsk stmts. induction stmts as [|st rest IH]; intros s refs c; [reflexivity|].
  destruct st as [d | scope sel param v | scope sel]; cbn [never_skips].
  - destruct (process_import univ c d); [apply IH|reflexivity].
  - assert (Hph : (match v with DRef _ rsel => skipf DSkFalse (ds_reg s) c rsel | DVal _ => false end) = false)
      by (destruct v; [reflexivity|apply Hsk]).
    rewrite Hph. cbn [negb andb].
    destruct (match v with DVal _ => (s, refs, c, None) | DRef _ rsel => run_stmts univ [DBlock "" rsel] s refs c end)
      as [[[s1 refs1] c1] e1]. destruct e1; [reflexivity|]. rewrite Hsk. cbn [negb andb].
    destruct (run_stmts univ [DBind scope sel param v] s1 refs1 c1) as [[[s' refs'] c'] e]. destruct e; [reflexivity|apply IH].
  - rewrite Hsk. cbn [negb andb].
    destruct (run_stmts univ [DBlock scope sel] s refs c) as [[[s' refs'] c'] e]. destruct e; [reflexivity|apply IH].
Qed.
Theorem run_stmts_sk_false : (forall reg c sel, skipf DSkFalse reg c sel = false) ->
  forall stmts s refs c, class_ids_ok (PMod univ) = true -> table_ok c ->
  run_stmts_sk skipf univ DSkFalse stmts s refs c = run_stmts univ stmts s refs c.
Proof. intros Hsk stmts s refs c Hu Htab. apply run_stmts_sk_noskip; [exact Hu|exact Htab|apply never_skips_false; exact Hsk]. Qed.

(* ---- lifting: what every single statement keeps, run_stmts_sk keeps ---- *)
Theorem run_stmts_sk_ind : forall (A : dstmt -> Prop) (P : dstate -> drefs -> dctx -> Prop),
  (forall st s refs c s' refs' c' e, A st -> P s refs c -> run_stmts univ [st] s refs c = (s', refs', c', e) -> P s' refs' c') ->
  (forall scope sel param scopes rsel, A (DBind scope sel param (DRef scopes rsel)) ->
     A (DBlock "" rsel) /\ A (DBind scope sel param (DVal 0))) ->
  forall sk stmts s refs c s' refs' c' e, (forall st, In st stmts -> A st) -> P s refs c ->
  run_stmts_sk skipf univ sk stmts s refs c = (s', refs', c', e) -> P s' refs' c'.
Proof.
  intros A P Hstep Hcl sk stmts. induction stmts as [|st rest IH]; intros s refs c s' refs' c' e HA HP Hrun.
  - cbn [run_stmts_sk] in Hrun. inversion Hrun; subst. exact HP.
  - assert (HA' : forall st0, In st0 rest -> A st0) by (intros st0 H0; apply HA; right; exact H0).
    pose proof (HA st (or_introl eq_refl)) as HAst.
    destruct st as [d | scope sel param v | scope sel].
    + rewrite run_stmts_sk_import in Hrun. pose proof (Hstep (DImport d) s refs c) as Hs. rewrite run_stmts_import in Hs.
      destruct (process_import univ c d) as [c1|err].
      * eapply IH; [exact HA'| |exact Hrun]. eapply Hs; eauto.
      * destruct (dsk_truthy sk && String.eqb err "ModuleNotFoundError"); [eapply IH; eauto|]. inversion Hrun; subst. exact HP.
    + destruct v as [z | scopes rsel].
      * rewrite run_stmts_sk_bind_val in Hrun. destruct (skipf sk (ds_reg s) c sel); [eapply IH; eauto|].
        destruct (run_stmts univ [DBind scope sel param (DVal z)] s refs c) as [[[s1 refs1] c1] e1] eqn:E. unfold then_run in Hrun.
        pose proof (Hstep _ _ _ _ _ _ _ _ HAst HP E) as HP1. destruct e1; [inversion Hrun; subst; exact HP1|eapply IH; eauto].
      * rewrite run_stmts_sk_bind_ref in Hrun. destruct (Hcl _ _ _ _ _ HAst) as [HAblk HAval].
        destruct (skipf sk (ds_reg s) c rsel).
        { destruct (skipf sk (ds_reg s) c sel); [eapply IH; eauto|].
          destruct (run_stmts univ [DBind scope sel param (DVal 0)] s refs c) as [[[s1 refs1] c1] e1] eqn:E. unfold then_run in Hrun.
          pose proof (Hstep _ _ _ _ _ _ _ _ HAval HP E) as HP1. destruct e1; [inversion Hrun; subst; exact HP1|eapply IH; eauto]. }
        destruct (run_stmts univ [DBlock "" rsel] s refs c) as [[[s1 refs1] c1] e1] eqn:E1.
        pose proof (Hstep _ _ _ _ _ _ _ _ HAblk HP E1) as HP1.
        destruct e1; [rewrite then_run_some in Hrun; inversion Hrun; subst; exact HP1|rewrite then_run_none in Hrun].
        destruct (skipf sk (ds_reg s1) c1 sel); [eapply IH; eauto|].
        destruct (run_stmts univ [DBind scope sel param (DRef scopes rsel)] s1 refs1 c1) as [[[s2 refs2] c2] e2] eqn:E2. unfold then_run in Hrun.
        pose proof (Hstep _ _ _ _ _ _ _ _ HAst HP1 E2) as HP2. destruct e2; [inversion Hrun; subst; exact HP2|eapply IH; eauto].
    + rewrite run_stmts_sk_block in Hrun. destruct (skipf sk (ds_reg s) c sel); [eapply IH; eauto|].
      destruct (run_stmts univ [DBlock scope sel] s refs c) as [[[s1 refs1] c1] e1] eqn:E. unfold then_run in Hrun.
      pose proof (Hstep _ _ _ _ _ _ _ _ HAst HP E) as HP1. destruct e1; [inversion Hrun; subst; exact HP1|eapply IH; eauto].
Qed.
(* the common case: an invariant of run_stmts (for all statement lists) *)
Corollary run_stmts_sk_inv : forall (P : dstate -> drefs -> dctx -> Prop),
  (forall stmts s refs c s' refs' c' e, P s refs c -> run_stmts univ stmts s refs c = (s', refs', c', e) -> P s' refs' c') ->
  forall sk stmts s refs c s' refs' c' e, P s refs c ->
  run_stmts_sk skipf univ sk stmts s refs c = (s', refs', c', e) -> P s' refs' c'.
Proof.
  intros P HP sk stmts s refs c s' refs' c' e H0 Hrun.
  eapply (run_stmts_sk_ind (fun _ => True) P); [| | |exact H0|exact Hrun]; auto.
  intros st s0 refs0 c0 s1 refs1 c1 e1 _ H1 Hr. eapply HP; eauto.
Qed.
End Sk.

(* ------------------------------------------------------------------ *)
(* ---- skip_unknown=False is the plain parse ---- *)
(* ------------------------------------------------------------------ *)
Lemma should_skip_dyn_false : forall reg c sel, should_skip_dyn DSkFalse reg c sel = false.
Proof. intros. unfold should_skip_dyn. destruct (known_dyn reg c sel); reflexivity. Qed.
Lemma should_skip_dyn_orig_false : forall reg c sel, should_skip_dyn_orig DSkFalse reg c sel = false.
Proof. intros. unfold should_skip_dyn_orig. destruct (reg_matches reg sel); reflexivity. Qed.
Lemma should_skip_dyn_orig2_false : forall reg c sel, should_skip_dyn_orig2 DSkFalse reg c sel = false.
Proof. intros. unfold should_skip_dyn_orig2. destruct (reg_matches reg sel || provides c sel); reflexivity. Qed.
Theorem run_stmts_sk_false_dyn : forall univ stmts s refs c, class_ids_ok (PMod univ) = true -> table_ok c ->
  run_stmts_sk should_skip_dyn univ DSkFalse stmts s refs c = run_stmts univ stmts s refs c.
Proof. intros. apply run_stmts_sk_false; [exact should_skip_dyn_false|assumption|assumption]. Qed.
Theorem run_stmts_sk_false_dyn_orig : forall univ stmts s refs c, class_ids_ok (PMod univ) = true -> table_ok c ->
  run_stmts_sk should_skip_dyn_orig univ DSkFalse stmts s refs c = run_stmts univ stmts s refs c.
Proof. intros. apply run_stmts_sk_false; [exact should_skip_dyn_orig_false|assumption|assumption]. Qed.
Theorem run_stmts_sk_false_dyn_orig2 : forall univ stmts s refs c, class_ids_ok (PMod univ) = true -> table_ok c ->
  run_stmts_sk should_skip_dyn_orig2 univ DSkFalse stmts s refs c = run_stmts univ stmts s refs c.
Proof. intros. apply run_stmts_sk_false; [exact should_skip_dyn_orig2_false|assumption|assumption]. Qed.
Lemma table_ok_empty : table_ok empty_ctx.
Proof. intros n root d H. cbn in H. discriminate. Qed.
Theorem parse_call_sk_false : forall univ stmts sr, class_ids_ok (PMod univ) = true ->
  parse_call_sk univ DSkFalse stmts sr = parse_call univ stmts sr.
Proof.
  intros univ stmts [s refs] Hu. unfold parse_call_sk, parse_call.
  rewrite (run_stmts_sk_false_dyn univ stmts s refs empty_ctx Hu table_ok_empty). reflexivity.
Qed.

(* ------------------------------------------------------------------ *)
(* ---- the invariants of a parse, with skip_unknown ---- *)
(* ------------------------------------------------------------------ *)
(* a property of the registry that get_configurable and failed_reg keep is kept by run_stmts *)
Lemma run_stmts_reg_inv : forall (R : list centry -> Prop) univ,
  (forall reg c sel reg' full rp, R reg -> get_configurable reg c sel = DOk (reg', full, rp) -> R reg') ->
  (forall reg c sel, R reg -> R (failed_reg reg c sel)) ->
  forall stmts s refs c s' refs' c' e, R (ds_reg s) -> run_stmts univ stmts s refs c = (s', refs', c', e) -> R (ds_reg s').
Proof.
  intros R univ Hg Hfail stmts. induction stmts as [|st rest IH]; intros s refs c s' refs' c' e Hr Hrun.
  - cbn [run_stmts] in Hrun. inversion Hrun; subst. exact Hr.
  - destruct st as [d | scope sel param v | scope sel]; cbn [run_stmts] in Hrun.
    + destruct (process_import univ c d) as [c1|err]; [eapply IH; eauto|inversion Hrun; subst; exact Hr].
    + destruct v as [z | scopes rsel].
      * destruct (get_configurable (ds_reg s) c sel) as [[[reg2 full] rp2]|err] eqn:E2.
        -- eapply IH; [|exact Hrun]. cbn [ds_reg]. eapply Hg; eauto.
        -- inversion Hrun; subst. cbn [ds_reg with_reg]. apply Hfail. exact Hr.
      * destruct (get_configurable (ds_reg s) c rsel) as [[[reg1 rfull] rp1]|err] eqn:E1.
        -- pose proof (Hg _ _ _ _ _ _ Hr E1) as Hr1.
           destruct (get_configurable reg1 c sel) as [[[reg2 full] rp2]|err] eqn:E2.
           ++ eapply IH; [|exact Hrun]. cbn [ds_reg]. eapply Hg; eauto.
           ++ inversion Hrun; subst. cbn [ds_reg with_reg]. apply Hfail. exact Hr1.
        -- inversion Hrun; subst. cbn [ds_reg with_reg]. apply Hfail. exact Hr.
    + destruct (get_configurable (ds_reg s) c sel) as [[[reg2 full] rp2]|err] eqn:E2.
      * eapply IH; [|exact Hrun]. cbn [ds_reg]. eapply Hg; eauto.
      * inversion Hrun; subst. cbn [ds_reg with_reg]. apply Hfail. exact Hr.
Qed.
Lemma run_stmts_reg_wf : forall univ stmts s refs c s' refs' c' e, reg_wf (ds_reg s) ->
  run_stmts univ stmts s refs c = (s', refs', c', e) -> reg_wf (ds_reg s').
Proof.
  intros univ. apply (run_stmts_reg_inv reg_wf univ).
  - intros reg c sel reg' full rp Hr H. eapply get_configurable_wf; eauto.
  - intros reg c sel Hr. apply failed_reg_wf. exact Hr.
Qed.

Section SkInv.
Variable skipf : dskip -> list centry -> dctx -> string -> bool.
Variable univ : list (string * pyobj).

Theorem run_stmts_sk_reg_wf : forall sk stmts s refs c s' refs' c' e, reg_wf (ds_reg s) ->
  run_stmts_sk skipf univ sk stmts s refs c = (s', refs', c', e) -> reg_wf (ds_reg s').
Proof.
  intros sk stmts s refs c s' refs' c' e Hwf Hrun.
  eapply (run_stmts_sk_inv skipf univ (fun s _ _ => reg_wf (ds_reg s))); [|exact Hwf|exact Hrun].
  intros stmts0 s0 refs0 c0 s1 refs1 c1 e1 H0 Hr. eapply run_stmts_reg_wf; eauto.
Qed.
Theorem run_stmts_sk_table_ok : forall sk stmts s refs c s' refs' c' e, class_ids_ok (PMod univ) = true -> table_ok c ->
  run_stmts_sk skipf univ sk stmts s refs c = (s', refs', c', e) -> table_ok c'.
Proof.
  intros sk stmts s refs c s' refs' c' e Hu Hc Hrun.
  eapply (run_stmts_sk_inv skipf univ (fun _ _ c => table_ok c)); [|exact Hc|exact Hrun].
  intros stmts0 s0 refs0 c0 s1 refs1 c1 e1 H0 Hr. eapply run_stmts_table_ok; eauto.
Qed.
(* configuring keeps existing references working, with skip_unknown *)
Theorem C19_references_keep_working_sk : forall sk stmts s refs c s' refs' c' e,
  class_ids_ok (PMod univ) = true -> table_ok c ->
  reg_wf (ds_reg s) -> refs_resolvable (ds_reg s) refs ->
  run_stmts_sk skipf univ sk stmts s refs c = (s', refs', c', e) ->
  reg_wf (ds_reg s') /\ refs_resolvable (ds_reg s') refs'.
Proof.
  intros sk stmts s refs c s' refs' c' e Hu Hc Hwf Hrefs Hrun.
  assert (H : table_ok c' /\ reg_wf (ds_reg s') /\ refs_resolvable (ds_reg s') refs'); [|exact (proj2 H)].
  eapply (run_stmts_sk_inv skipf univ (fun s refs c => table_ok c /\ reg_wf (ds_reg s) /\ refs_resolvable (ds_reg s) refs));
    [|split; [exact Hc|split; [exact Hwf|exact Hrefs]]|exact Hrun].
  intros stmts0 s0 refs0 c0 s1 refs1 c1 e1 [H1 [H2 H3]] Hr. split; [eapply run_stmts_table_ok; eauto|].
  eapply C19_references_keep_working; eauto.
Qed.
(* a reference whose (scope, param) no statement binds again keeps its object (skipped bindings do not rebind) *)
Theorem C19_reference_object_preserved_sk : forall sk stmts s refs c s' refs' c' e kp r e0,
  reg_wf (ds_reg s) -> In (kp, r) refs -> find_sel r (ds_reg s) = Some e0 ->
  (forall scope sel param v, In (DBind scope sel param v) stmts -> scope <> fst (fst kp) \/ param <> snd kp) ->
  run_stmts_sk skipf univ sk stmts s refs c = (s', refs', c', e) ->
  exists r' e', In (kp, r') refs' /\ find_sel r' (ds_reg s') = Some e' /\ ce_obj e' = ce_obj e0.
Proof.
  intros sk stmts s refs c s' refs' c' e kp r e0 Hwf Hin Hs Hnb Hrun.
  set (A := fun st => match st with DBind scope _ param _ => scope <> fst (fst kp) \/ param <> snd kp | _ => True end).
  set (P := fun (s : dstate) (refs : drefs) (_ : dctx) =>
              reg_wf (ds_reg s) /\ exists r' e', In (kp, r') refs /\ find_sel r' (ds_reg s) = Some e' /\ ce_obj e' = ce_obj e0).
  assert (H : P s' refs' c'); [|exact (proj2 H)].
  eapply (run_stmts_sk_ind skipf univ A P); [| | |split; [exact Hwf|exists r, e0; split; [exact Hin|split; [exact Hs|reflexivity]]]|exact Hrun].
  - intros st s0 refs0 c0 s1 refs1 c1 e1 HA [Hw [r0 [e0' [Hi0 [Hs0 Ho0]]]]] Hr. split; [eapply run_stmts_reg_wf; eauto|].
    destruct (C19_reference_object_preserved univ [st] s0 refs0 c0 s1 refs1 c1 e1 kp r0 e0' Hw Hi0 Hs0) as [r1 [e1' [Hi1 [Hs1 Ho1]]]]; [|exact Hr|].
    + intros scope sel param v [Heq|[]]. subst st. exact HA.
    + exists r1, e1'. split; [exact Hi1|]. split; [exact Hs1|congruence].
  - intros scope sel param scopes rsel HA. split; [exact I|exact HA].
  - intros st Hst. unfold A. destruct st as [d|scope sel param v|scope sel]; try exact I. eapply Hnb; exact Hst.
Qed.
(* the symbol table is built from the call's own import statements only *)
Theorem run_stmts_sk_table_gen : forall sk stmts s refs c s' refs' c' e n v,
  run_stmts_sk skipf univ sk stmts s refs c = (s', refs', c', e) -> tget n (c_table c') = Some v ->
  tget n (c_table c) = Some v \/ exists d, In (DImport d) stmts /\ d_bound_name d = n /\ snd v = d.
Proof.
  intros sk stmts s refs c s' refs' c' e n v Hrun Hg.
  set (P := fun (_ : dstate) (_ : drefs) (c0 : dctx) => forall v0, tget n (c_table c0) = Some v0 ->
              tget n (c_table c) = Some v0 \/ exists d, In (DImport d) stmts /\ d_bound_name d = n /\ snd v0 = d).
  assert (H : P s' refs' c'); [|exact (H v Hg)].
  eapply (run_stmts_sk_ind skipf univ (fun st => match st with DImport d => In (DImport d) stmts | _ => True end) P);
    [| | |intros v0 H0; left; exact H0|exact Hrun].
  - intros st s0 refs0 c0 s1 refs1 c1 e1 HA HP Hr v0 H0.
    destruct (run_table_gen univ [st] s0 refs0 c0 s1 refs1 c1 e1 n v0 Hr H0) as [Hl|[d [[Hd|[]] Hd2]]]; [exact (HP v0 Hl)|].
    right. exists d. subst st. split; [exact HA|exact Hd2].
  - intros. split; exact I.
  - intros st Hst. destruct st; [exact Hst|exact I|exact I].
Qed.
End SkInv.

Theorem C19_table_from_own_imports_sk : forall skipf univ sk stmts s refs s' refs' c' e n v,
  run_stmts_sk skipf univ sk stmts s refs empty_ctx = (s', refs', c', e) -> tget n (c_table c') = Some v ->
  exists d, In (DImport d) stmts /\ d_bound_name d = n /\ snd v = d.
Proof.
  intros skipf univ sk stmts s refs s' refs' c' e n v Hrun Hg.
  destruct (run_stmts_sk_table_gen skipf univ sk stmts s refs empty_ctx s' refs' c' e n v Hrun Hg) as [Hl|Hr]; [cbn in Hl; discriminate|exact Hr].
Qed.

(* ---- isolation: the context, the error and the registry depend on the statements, sk and the registry only ---- *)
Lemma run_stmts_sk_iso_gen : forall skipf univ sk stmts s1 refs1 s2 refs2 c s1' r1' c1 e1 s2' r2' c2 e2,
  ds_reg s1 = ds_reg s2 ->
  run_stmts_sk skipf univ sk stmts s1 refs1 c = (s1', r1', c1, e1) ->
  run_stmts_sk skipf univ sk stmts s2 refs2 c = (s2', r2', c2, e2) ->
  c1 = c2 /\ e1 = e2 /\ ds_reg s1' = ds_reg s2'.
Proof.
  intros skipf univ sk stmts. induction stmts as [|st rest IH];
    intros s1 refs1 s2 refs2 c s1' r1' c1 e1 s2' r2' c2 e2 Hreg H1 H2.
  - cbn [run_stmts_sk] in H1, H2. inversion H1; inversion H2; subst. auto.
  - (* one statement, run from states with the same registry *)
    assert (Hone : forall st0 a1 b1 a2 b2 c0 x1 y1 z1 w1 x2 y2 z2 w2, ds_reg a1 = ds_reg a2 ->
              run_stmts univ [st0] a1 b1 c0 = (x1, y1, z1, w1) -> run_stmts univ [st0] a2 b2 c0 = (x2, y2, z2, w2) ->
              z1 = z2 /\ w1 = w2 /\ ds_reg x1 = ds_reg x2).
    { intros. eapply run_iso_gen; eauto. }
    destruct st as [d | scope sel param v | scope sel].
    + rewrite run_stmts_sk_import in H1, H2. destruct (process_import univ c d) as [c0|err].
      * eapply IH; eauto.
      * destruct (dsk_truthy sk && String.eqb err "ModuleNotFoundError"); [eapply IH; eauto|].
        inversion H1; inversion H2; subst. auto.
    + destruct v as [z | scopes rsel].
      * rewrite run_stmts_sk_bind_val in H1, H2. rewrite Hreg in H1.
        destruct (skipf sk (ds_reg s2) c sel); [eapply IH; eauto|].
        destruct (run_stmts univ [DBind scope sel param (DVal z)] s1 refs1 c) as [[[x1 y1] z1] w1] eqn:E1.
        destruct (run_stmts univ [DBind scope sel param (DVal z)] s2 refs2 c) as [[[x2 y2] z2] w2] eqn:E2.
        destruct (Hone _ _ _ _ _ _ _ _ _ _ _ _ _ _ Hreg E1 E2) as [Hz [Hw Hx]]. subst z2 w2.
        destruct w1; [rewrite then_run_some in H1, H2; inversion H1; inversion H2; subst; auto|].
        rewrite then_run_none in H1, H2. eapply IH; eauto.
      * rewrite run_stmts_sk_bind_ref in H1, H2. rewrite Hreg in H1.
        destruct (skipf sk (ds_reg s2) c rsel).
        { destruct (skipf sk (ds_reg s2) c sel); [eapply IH; eauto|].
          destruct (run_stmts univ [DBind scope sel param (DVal 0)] s1 refs1 c) as [[[x1 y1] z1] w1] eqn:E1.
          destruct (run_stmts univ [DBind scope sel param (DVal 0)] s2 refs2 c) as [[[x2 y2] z2] w2] eqn:E2.
          destruct (Hone _ _ _ _ _ _ _ _ _ _ _ _ _ _ Hreg E1 E2) as [Hz [Hw Hx]]. subst z2 w2.
          destruct w1; [rewrite then_run_some in H1, H2; inversion H1; inversion H2; subst; auto|].
          rewrite then_run_none in H1, H2. eapply IH; eauto. }
        destruct (run_stmts univ [DBlock "" rsel] s1 refs1 c) as [[[x1 y1] z1] w1] eqn:E1.
        destruct (run_stmts univ [DBlock "" rsel] s2 refs2 c) as [[[x2 y2] z2] w2] eqn:E2.
        destruct (Hone _ _ _ _ _ _ _ _ _ _ _ _ _ _ Hreg E1 E2) as [Hz [Hw Hx]]. subst z2 w2.
        destruct w1; [rewrite then_run_some in H1, H2; inversion H1; inversion H2; subst; auto|].
        rewrite then_run_none in H1, H2. rewrite Hx in H1.
        destruct (skipf sk (ds_reg x2) z1 sel); [eapply IH; eauto|].
        destruct (run_stmts univ [DBind scope sel param (DRef scopes rsel)] x1 y1 z1) as [[[x3 y3] z3] w3] eqn:E3.
        destruct (run_stmts univ [DBind scope sel param (DRef scopes rsel)] x2 y2 z1) as [[[x4 y4] z4] w4] eqn:E4.
        destruct (Hone _ _ _ _ _ _ _ _ _ _ _ _ _ _ Hx E3 E4) as [Hz' [Hw' Hx']]. subst z4 w4.
        destruct w3; [rewrite then_run_some in H1, H2; inversion H1; inversion H2; subst; auto|].
        rewrite then_run_none in H1, H2. eapply IH; eauto.
    + rewrite run_stmts_sk_block in H1, H2. rewrite Hreg in H1.
      destruct (skipf sk (ds_reg s2) c sel); [eapply IH; eauto|].
      destruct (run_stmts univ [DBlock scope sel] s1 refs1 c) as [[[x1 y1] z1] w1] eqn:E1.
      destruct (run_stmts univ [DBlock scope sel] s2 refs2 c) as [[[x2 y2] z2] w2] eqn:E2.
      destruct (Hone _ _ _ _ _ _ _ _ _ _ _ _ _ _ Hreg E1 E2) as [Hz [Hw Hx]]. subst z2 w2.
      destruct w1; [rewrite then_run_some in H1, H2; inversion H1; inversion H2; subst; auto|].
      rewrite then_run_none in H1, H2. eapply IH; eauto.
Qed.
Theorem C19_isolation_sk : forall skipf univ sk stmts s1 refs1 s2 refs2 s1' r1' c1 e1 s2' r2' c2 e2,
  ds_reg s1 = ds_reg s2 ->
  run_stmts_sk skipf univ sk stmts s1 refs1 empty_ctx = (s1', r1', c1, e1) ->
  run_stmts_sk skipf univ sk stmts s2 refs2 empty_ctx = (s2', r2', c2, e2) ->
  c_table c1 = c_table c2 /\ e1 = e2 /\ ds_reg s1' = ds_reg s2'.
Proof.
  intros skipf univ sk stmts s1 refs1 s2 refs2 s1' r1' c1 e1 s2' r2' c2 e2 Hreg H1 H2.
  destruct (run_stmts_sk_iso_gen skipf univ sk stmts s1 refs1 s2 refs2 empty_ctx _ _ _ _ _ _ _ _ Hreg H1 H2) as [Hc [He Hr]]. subst c2. auto.
Qed.

(* ------------------------------------------------------------------ *)
(* ---- the skip clause ---- *)
(* ------------------------------------------------------------------ *)
(* known (Model/DynReg.v known_dyn): under dynamic registration, provided by the file's own imports -- and nothing else;
   without it, matched by the registry *)
Lemma provides_dynamic : forall c sel, provides c sel = true -> c_dynamic c = true.
Proof. intros c sel H. unfold provides in H. apply andb_true_iff in H. exact (proj1 H). Qed.
Theorem C15_dyn_known_is_provided : forall reg c sel, c_dynamic c = true -> known_dyn reg c sel = provides c sel.
Proof. intros reg c sel Hd. unfold known_dyn. rewrite Hd. reflexivity. Qed.
Theorem C15_static_known_is_registered : forall reg c sel, c_dynamic c = false -> known_dyn reg c sel = reg_matches reg sel.
Proof. intros reg c sel Hd. unfold known_dyn. rewrite Hd. reflexivity. Qed.
Theorem C15_dyn_provided_never_skipped : forall c sel, provides c sel = true ->
  forall sk reg, should_skip_dyn sk reg c sel = false.
Proof.
  intros c sel H sk reg. unfold should_skip_dyn. rewrite (C15_dyn_known_is_provided reg c sel (provides_dynamic c sel H)), H. reflexivity.
Qed.
(* without dynamic registration a registered name is never skipped ... *)
Theorem C15_dyn_registered_never_skipped : forall reg sel c, c_dynamic c = false -> reg_matches reg sel = true ->
  forall sk, should_skip_dyn sk reg c sel = false.
Proof. intros reg sel c Hd H sk. unfold should_skip_dyn. rewrite (C15_static_known_is_registered reg c sel Hd), H. reflexivity. Qed.
(* ... under dynamic registration a name the file's own imports do not provide IS skipped when covered, whatever the
   registry holds (what something else registered under that spelling does not make it known here) *)
Theorem C15_dyn_unprovided_skip_decision : forall c sel, c_dynamic c = true -> provides c sel = false ->
  forall sk reg, should_skip_dyn sk reg c sel = dsk_covers sk sel.
Proof. intros c sel Hd H sk reg. unfold should_skip_dyn. rewrite (C15_dyn_known_is_provided reg c sel Hd), H. reflexivity. Qed.
Theorem C15_dyn_registered_unprovided_skipped : forall reg c sel sk, c_dynamic c = true -> reg_matches reg sel = true ->
  provides c sel = false -> dsk_covers sk sel = true -> should_skip_dyn sk reg c sel = true.
Proof. intros reg c sel sk Hd _ Hp Hc. rewrite (C15_dyn_unprovided_skip_decision c sel Hd Hp sk reg). exact Hc. Qed.
(* "known" means resolvable through the file's imports, independent of what was parsed before: for a dynamic context the
   skip decision does not depend on the registry at all *)
Theorem C15_dyn_known_independent_of_registry : forall sk reg1 reg2 c sel, c_dynamic c = true ->
  should_skip_dyn sk reg1 c sel = should_skip_dyn sk reg2 c sel.
Proof.
  intros sk reg1 reg2 c sel Hd. unfold should_skip_dyn.
  rewrite (C15_dyn_known_is_provided reg1 c sel Hd), (C15_dyn_known_is_provided reg2 c sel Hd). reflexivity.
Qed.
(* the decision in full: not known and covered *)
Theorem C15_dyn_skip_decision_full : forall sk reg c sel,
  should_skip_dyn sk reg c sel = negb (if c_dynamic c then provides c sel else reg_matches reg sel) && dsk_covers sk sel.
Proof. intros sk reg c sel. unfold should_skip_dyn, known_dyn. destruct (c_dynamic c); [destruct (provides c sel)|destruct (reg_matches reg sel)]; reflexivity. Qed.
Theorem C15_dyn_skip_decision : forall sk reg c sel, reg_matches reg sel = false -> provides c sel = false ->
  should_skip_dyn sk reg c sel = dsk_covers sk sel.
Proof. intros sk reg c sel H1 H2. rewrite C15_dyn_skip_decision_full, H1, H2. destruct (c_dynamic c); reflexivity. Qed.
Theorem C15_dyn_skipped_block_dropped : forall skipf univ sk scope sel rest s refs c, skipf sk (ds_reg s) c sel = true ->
  run_stmts_sk skipf univ sk (DBlock scope sel :: rest) s refs c = run_stmts_sk skipf univ sk rest s refs c.
Proof. intros. rewrite run_stmts_sk_block, H. reflexivity. Qed.
Theorem C15_dyn_skipped_binding_dropped : forall skipf univ sk scope sel param z rest s refs c, skipf sk (ds_reg s) c sel = true ->
  run_stmts_sk skipf univ sk (DBind scope sel param (DVal z) :: rest) s refs c = run_stmts_sk skipf univ sk rest s refs c.
Proof. intros. rewrite run_stmts_sk_bind_val, H. reflexivity. Qed.
(* with a reference value that is not a placeholder: the reference is resolved (and registered) first; then the binding is dropped *)
Theorem C15_dyn_skipped_ref_binding_dropped : forall skipf univ sk scope sel param scopes rsel rest s refs c s1 refs1 c1,
  skipf sk (ds_reg s) c rsel = false ->
  run_stmts univ [DBlock "" rsel] s refs c = (s1, refs1, c1, None) -> skipf sk (ds_reg s1) c1 sel = true ->
  run_stmts_sk skipf univ sk (DBind scope sel param (DRef scopes rsel) :: rest) s refs c = run_stmts_sk skipf univ sk rest s1 refs1 c1.
Proof. intros. rewrite run_stmts_sk_bind_ref, H, H0, then_run_none, H1. reflexivity. Qed.
(* a reference to a name that is itself skipped is a PLACEHOLDER: nothing is resolved or registered for it; the binding
   (its own target not being skipped) stores an opaque plain value *)
Theorem C15_dyn_placeholder_binding : forall skipf univ sk scope sel param scopes rsel rest s refs c,
  skipf sk (ds_reg s) c rsel = true -> skipf sk (ds_reg s) c sel = false ->
  run_stmts_sk skipf univ sk (DBind scope sel param (DRef scopes rsel) :: rest) s refs c =
  then_run (run_stmts univ [DBind scope sel param (DVal 0)] s refs c) (run_stmts_sk skipf univ sk rest).
Proof. intros. rewrite run_stmts_sk_bind_ref, H, H0. reflexivity. Qed.
Theorem C15_dyn_placeholder_binding_dropped : forall skipf univ sk scope sel param scopes rsel rest s refs c,
  skipf sk (ds_reg s) c rsel = true -> skipf sk (ds_reg s) c sel = true ->
  run_stmts_sk skipf univ sk (DBind scope sel param (DRef scopes rsel) :: rest) s refs c = run_stmts_sk skipf univ sk rest s refs c.
Proof. intros. rewrite run_stmts_sk_bind_ref, H, H0. reflexivity. Qed.
Lemma then_run_ret : forall r, then_run r (fun s refs c => (s, refs, c, None)) = r.
Proof. intros [[[s refs] c] [x|]]; reflexivity. Qed.
(* ... so the statement alone leaves exactly what binding a plain value leaves: same registry, same references *)
Theorem C15_dyn_placeholder_registers_nothing : forall skipf univ sk scope sel param scopes rsel s refs c,
  skipf sk (ds_reg s) c rsel = true -> skipf sk (ds_reg s) c sel = false ->
  run_stmts_sk skipf univ sk [DBind scope sel param (DRef scopes rsel)] s refs c =
  run_stmts univ [DBind scope sel param (DVal 0)] s refs c.
Proof.
  intros. rewrite (C15_dyn_placeholder_binding skipf univ sk scope sel param scopes rsel [] s refs c H H0).
  apply then_run_ret.
Qed.
(* a reference to a name the file's own imports provide is never a placeholder: it is resolved *)
Theorem C15_dyn_provided_reference_resolved : forall univ sk scope sel param scopes rsel rest s refs c,
  provides c rsel = true ->
  run_stmts_sk should_skip_dyn univ sk (DBind scope sel param (DRef scopes rsel) :: rest) s refs c =
  then_run (run_stmts univ [DBlock "" rsel] s refs c)
    (fun s1 refs1 c1 =>
       if should_skip_dyn sk (ds_reg s1) c1 sel then run_stmts_sk should_skip_dyn univ sk rest s1 refs1 c1
       else then_run (run_stmts univ [DBind scope sel param (DRef scopes rsel)] s1 refs1 c1)
                     (run_stmts_sk should_skip_dyn univ sk rest)).
Proof.
  intros. rewrite run_stmts_sk_bind_ref, (C15_dyn_provided_never_skipped c rsel H sk (ds_reg s)). reflexivity.
Qed.
Theorem C15_dyn_missing_import_dropped : forall skipf univ sk d rest s refs c, dsk_truthy sk = true ->
  process_import univ c d = DErr "ModuleNotFoundError" ->
  run_stmts_sk skipf univ sk (DImport d :: rest) s refs c = run_stmts_sk skipf univ sk rest s refs c.
Proof. intros. rewrite run_stmts_sk_import, H0, H. reflexivity. Qed.

(* every target is known at its point (state tracked along the run), and no import is skipped *)
Definition all_known_dyn (univ : list (string * pyobj)) (sk : dskip) (stmts : list dstmt) (s : dstate) (refs : drefs) (c : dctx) : bool :=
  never_skips (fun _ reg c sel => negb (known_dyn reg c sel)) univ sk stmts s refs c.
Lemma never_skips_mono : forall (f1 f2 : dskip -> list centry -> dctx -> string -> bool) univ sk,
  (forall reg c sel, f1 sk reg c sel = false -> f2 sk reg c sel = false) ->
  forall stmts s refs c, never_skips f1 univ sk stmts s refs c = true -> never_skips f2 univ sk stmts s refs c = true.
Proof.
  intros f1 f2 univ sk Hf stmts. induction stmts as [|st rest IH]; intros s refs c H; [reflexivity|].
  destruct st as [d | scope sel param v | scope sel]; cbn [never_skips] in *.
  - destruct (process_import univ c d); [apply IH; exact H|exact H].
  - apply andb_true_iff in H. destruct H as [Hph H]. apply negb_true_iff in Hph.
    assert (Hph2 : (match v with DRef _ rsel => f2 sk (ds_reg s) c rsel | DVal _ => false end) = false)
      by (destruct v; [reflexivity|apply Hf; exact Hph]).
    rewrite Hph2. cbn [negb andb].
    destruct (match v with DVal _ => (s, refs, c, None) | DRef _ rsel => run_stmts univ [DBlock "" rsel] s refs c end)
      as [[[s1 refs1] c1] e1]. destruct e1; [reflexivity|]. apply andb_true_iff in H. destruct H as [H1 H2].
    apply negb_true_iff in H1. rewrite (Hf _ _ _ H1). cbn [negb andb].
    destruct (run_stmts univ [DBind scope sel param v] s1 refs1 c1) as [[[s' refs'] c'] e]. destruct e; [reflexivity|apply IH; exact H2].
  - apply andb_true_iff in H. destruct H as [H1 H2]. apply negb_true_iff in H1. rewrite (Hf _ _ _ H1). cbn [negb andb].
    destruct (run_stmts univ [DBlock scope sel] s refs c) as [[[s' refs'] c'] e]. destruct e; [reflexivity|apply IH; exact H2].
Qed.
Theorem C15_dyn_known_targets_skip_irrelevant : forall univ sk stmts s refs c, class_ids_ok (PMod univ) = true -> table_ok c ->
  all_known_dyn univ sk stmts s refs c = true ->
  run_stmts_sk should_skip_dyn univ sk stmts s refs c = run_stmts univ stmts s refs c.
Proof.
  intros univ sk stmts s refs c Hu Htab H. apply run_stmts_sk_noskip; [exact Hu|exact Htab|].
  eapply never_skips_mono; [|exact H]. intros reg c0 sel H0. cbn beta in H0. apply negb_false_iff in H0.
  unfold should_skip_dyn. rewrite H0. reflexivity.
Qed.

(* ---- the code before the repair dropped a binding whose target the file's own imports provide ---- *)
Module DynSkipExample.
  Definition feat : dimport := {| d_module := "__gin__.dynamic_registration"; d_from := true; d_alias := None |}.
  Definition univ : list (string * pyobj) := [("dmod", PMod [("fn", PFunc 1)])].
  Definition stmts : list dstmt :=
    [DImport feat; DImport {| d_module := "dmod"; d_from := false; d_alias := None |}; DBind "" "dmod.fn" "x" (DVal 1)].
  Definition s0 : dstate := {| ds_reg := []; ds_store := []; ds_imports := []; ds_dynamic_seen := false |}.
  Definition summary (r : dresult) := let '(s, refs, c, e) := r in (map ce_sel (ds_reg s), ds_store s, e).
  Eval vm_compute in (summary (run_stmts_sk should_skip_dyn_orig univ DSkTrue stmts s0 [] empty_ctx),
                      summary (run_stmts_sk should_skip_dyn univ DSkTrue stmts s0 [] empty_ctx)).
  Theorem C15_dyn_orig_drops_provided_binding :
    summary (run_stmts_sk should_skip_dyn_orig univ DSkTrue stmts s0 [] empty_ctx) = ([], [], None) /\
    summary (run_stmts_sk should_skip_dyn univ DSkTrue stmts s0 [] empty_ctx) = (["dmod.fn"], [(("", "dmod.fn"), [("x", 1%Z)])], None) /\
    run_stmts_sk should_skip_dyn univ DSkTrue stmts s0 [] empty_ctx = run_stmts univ stmts s0 [] empty_ctx /\
    all_known_dyn univ DSkTrue stmts s0 [] empty_ctx = true.
  Proof. vm_compute. repeat split; reflexivity. Qed.
  (* a reference to an unknown (covered) name is a placeholder: nothing registered or recorded for it, an opaque value bound *)
  Definition stmts_ph : list dstmt :=
    [DImport feat; DImport {| d_module := "dmod"; d_from := false; d_alias := None |};
     DBind "" "dmod.fn" "x" (DRef [] "nowhere.thing")].
  Definition summary_refs (r : dresult) := let '(s, refs, c, e) := r in (map ce_sel (ds_reg s), ds_store s, refs, e).
  Eval vm_compute in (summary_refs (run_stmts_sk should_skip_dyn univ DSkTrue stmts_ph s0 [] empty_ctx),
                      summary_refs (run_stmts_sk should_skip_dyn univ DSkFalse stmts_ph s0 [] empty_ctx)).
  Theorem C15_dyn_placeholder_example :
    summary_refs (run_stmts_sk should_skip_dyn univ DSkTrue stmts_ph s0 [] empty_ctx)
      = (["dmod.fn"], [(("", "dmod.fn"), [("x", 0%Z)])], [], None) /\
    summary_refs (run_stmts_sk should_skip_dyn univ DSkFalse stmts_ph s0 [] empty_ctx) = ([], [], [], Some "NameError").
  Proof. vm_compute. split; reflexivity. Qed.
End DynSkipExample.

(* ---- the code between the two repairs: under dynamic registration a name the file's imports do NOT provide counted as
   known when something else (another file, a decorator) had registered that spelling: the statement was not skipped and
   then raised NameError; "known" depended on what was parsed before ---- *)
Module DynSkipExample2.
  Import DynSkipExample.
  Definition univ2 : list (string * pyobj) := [("dmod", PMod [("fn", PFunc 1)]); ("other", PMod [("g", PFunc 2)])].
  (* "other.g" was registered by something else (a decorator, or another file's import other) *)
  Definition other_g : centry := {| ce_sel := "other.g"; ce_obj := 2; ce_method := false; ce_src := None; ce_home := ("other", "g") |}.
  Definition s_reg : dstate := {| ds_reg := [other_g]; ds_store := []; ds_imports := []; ds_dynamic_seen := false |}.
  (* this file imports dmod only: other.g does not resolve through its imports *)
  Definition stmts2 : list dstmt :=
    [DImport feat; DImport {| d_module := "dmod"; d_from := false; d_alias := None |};
     DBind "" "other.g" "x" (DVal 7); DBind "" "dmod.fn" "x" (DVal 1)].
  Definition ctx2 : dctx := let '(_, _, c, _) := run_stmts_sk should_skip_dyn univ2 DSkTrue stmts2 s_reg [] empty_ctx in c.
  Eval vm_compute in (summary (run_stmts_sk should_skip_dyn_orig2 univ2 DSkTrue stmts2 s_reg [] empty_ctx),
                      summary (run_stmts_sk should_skip_dyn univ2 DSkTrue stmts2 s_reg [] empty_ctx),
                      summary (run_stmts_sk should_skip_dyn_orig2 univ2 DSkTrue stmts2 s0 [] empty_ctx)).
  Theorem C15_dyn_orig_registered_spelling_not_skipped :
    (* the name is not provided by the file's imports, something else registered it, skip_unknown covers it *)
    c_dynamic ctx2 = true /\ provides ctx2 "other.g" = false /\ reg_matches (ds_reg s_reg) "other.g" = true /\
    dsk_covers DSkTrue "other.g" = true /\
    (* code before the repair: not skipped, NameError (nothing of the file's remainder is applied) *)
    should_skip_dyn_orig2 DSkTrue (ds_reg s_reg) ctx2 "other.g" = false /\
    summary (run_stmts_sk should_skip_dyn_orig2 univ2 DSkTrue stmts2 s_reg [] empty_ctx) = (["other.g"], [], Some "NameError") /\
    (* ... while the same text, parsed when nothing had registered that spelling, was accepted (the binding dropped):
       the outcome depended on what was parsed before *)
    summary (run_stmts_sk should_skip_dyn_orig2 univ2 DSkTrue stmts2 s0 [] empty_ctx)
      = (["dmod.fn"], [(("", "dmod.fn"), [("x", 1%Z)])], None) /\
    (* repaired code: the binding is dropped, whatever the registry holds, and the remainder is applied *)
    should_skip_dyn DSkTrue (ds_reg s_reg) ctx2 "other.g" = true /\
    summary (run_stmts_sk should_skip_dyn univ2 DSkTrue stmts2 s_reg [] empty_ctx)
      = (["other.g"; "dmod.fn"], [(("", "dmod.fn"), [("x", 1%Z)])], None) /\
    summary (run_stmts_sk should_skip_dyn univ2 DSkTrue stmts2 s0 [] empty_ctx)
      = (["dmod.fn"], [(("", "dmod.fn"), [("x", 1%Z)])], None).
  Proof. vm_compute. repeat split; reflexivity. Qed.
End DynSkipExample2.

Print Assumptions run_stmts_cons.
Print Assumptions get_configurable_idempotent.
Print Assumptions reference_two_phase.
Print Assumptions run_stmts_sk_noskip.
Print Assumptions run_stmts_sk_false.
Print Assumptions run_stmts_sk_false_dyn.
Print Assumptions run_stmts_sk_false_dyn_orig.
Print Assumptions run_stmts_sk_false_dyn_orig2.
Print Assumptions parse_call_sk_false.
Print Assumptions run_stmts_sk_ind.
Print Assumptions run_stmts_sk_reg_wf.
Print Assumptions C19_references_keep_working_sk.
Print Assumptions C19_reference_object_preserved_sk.
Print Assumptions C19_table_from_own_imports_sk.
Print Assumptions C19_isolation_sk.
Print Assumptions C15_dyn_provided_never_skipped.
Print Assumptions C15_dyn_registered_never_skipped.
Print Assumptions C15_dyn_skip_decision.
Print Assumptions C15_dyn_skip_decision_full.
Print Assumptions C15_dyn_known_is_provided.
Print Assumptions C15_static_known_is_registered.
Print Assumptions C15_dyn_unprovided_skip_decision.
Print Assumptions C15_dyn_registered_unprovided_skipped.
Print Assumptions C15_dyn_known_independent_of_registry.
Print Assumptions C15_dyn_skipped_block_dropped.
Print Assumptions C15_dyn_skipped_binding_dropped.
Print Assumptions C15_dyn_skipped_ref_binding_dropped.
Print Assumptions C15_dyn_placeholder_binding.
Print Assumptions C15_dyn_placeholder_binding_dropped.
Print Assumptions C15_dyn_placeholder_registers_nothing.
Print Assumptions C15_dyn_provided_reference_resolved.
Print Assumptions C15_dyn_missing_import_dropped.
Print Assumptions C15_dyn_known_targets_skip_irrelevant.
Print Assumptions DynSkipExample.C15_dyn_orig_drops_provided_binding.
Print Assumptions DynSkipExample.C15_dyn_placeholder_example.
Print Assumptions DynSkipExample2.C15_dyn_orig_registered_spelling_not_skipped.
