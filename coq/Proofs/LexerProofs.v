(* Proofs about the character-level lexer Model/Lexer.v.
   1. scanners: what they return is a prefix of what they are given, made of the right characters
   2. [Step]: a relational reading of one tokenizer step, [step_Step : Step imp st l (step imp st l)]
   3. an induction principle for [run] with the fuel shown sufficient
   4. the invariants behind the theorems of Props/Lexer.v *)
From Coq Require Import List String Bool Arith Ascii Lia.
From GinV Require Import Lib.Out Lib.PyStr Model.Parser Model.Lexer.
Import ListNotations.
Open Scope char_scope.
Open Scope list_scope.
Open Scope nat_scope.

(* ================================================================== *)
(* 0. lex is defined exactly on the supported texts *)
Lemma lex_none_iff : forall s, lex s = None <-> supported s = false.
Proof. intro s. unfold lex. destruct (supported s); split; intro H; congruence. Qed.
Lemma lex_some : forall s ts, lex s = Some ts -> supported s = true /\ ts = lex_raw s.
Proof. intros s ts H. unfold lex in H. destruct (supported s); [injection H as <-; auto | discriminate]. Qed.

(* ================================================================== *)
(* 1. positions *)
Definition ple (p q : pos) : Prop := fst p < fst q \/ (fst p = fst q /\ snd p <= snd q).
Definition plt (p q : pos) : Prop := fst p < fst q \/ (fst p = fst q /\ snd p < snd q).

Lemma ple_refl : forall p, ple p p.
Proof. intro p. right. split; [reflexivity | apply le_n]. Qed.
Lemma ple_trans : forall p q r, ple p q -> ple q r -> ple p r.
Proof. unfold ple. intros p q r H1 H2. lia. Qed.
Lemma plt_ple : forall p q, plt p q -> ple p q.
Proof. unfold ple, plt. intros. lia. Qed.
Lemma plt_ple_trans : forall p q r, plt p q -> ple q r -> plt p r.
Proof. unfold ple, plt. intros p q r H1 H2. lia. Qed.
Lemma ple_plt_trans : forall p q r, ple p q -> plt q r -> plt p r.
Proof. unfold ple, plt. intros p q r H1 H2. lia. Qed.

Lemma adv_plt : forall p c, plt p (adv p c).
Proof. intros p c. unfold adv, plt. destruct (Ascii.eqb c nl); cbn [fst snd]; lia. Qed.
Lemma pos_after_app : forall a b p, pos_after p (a ++ b) = pos_after (pos_after p a) b.
Proof. induction a as [|c a IH]; intros b p; cbn [app pos_after]; [reflexivity | apply IH]. Qed.
Lemma pos_after_ple : forall l p, ple p (pos_after p l).
Proof.
  induction l as [|c l IH]; intro p; cbn [pos_after]; [apply ple_refl|].
  eapply ple_trans; [apply plt_ple, adv_plt | apply IH].
Qed.
Lemma pos_after_plt : forall l p, l <> [] -> plt p (pos_after p l).
Proof.
  intros [|c l] p H; [congruence|]. cbn [pos_after].
  eapply plt_ple_trans; [apply adv_plt | apply pos_after_ple].
Qed.
Lemma next_line_adv : forall p, next_line p = adv p nl.
Proof. intro p. unfold next_line, adv. rewrite Ascii.eqb_refl. reflexivity. Qed.

(* ================================================================== *)
(* 2. scanners *)
(* a scanner result is a split of its input whose first part satisfies P everywhere *)
Definition splits (P : ascii -> Prop) (l : chars) (r : scan) : Prop :=
  forall a rest, r = Some (a, rest) -> l = a ++ rest /\ Forall P a.

Lemma splits_pre : forall P a l r, Forall P a -> splits P l r -> splits P (a ++ l) (pre a r).
Proof.
  intros P a l r Ha H b rest E. destruct r as [[b0 rest0]|]; cbn [pre] in E; [|discriminate].
  injection E as <- <-. destruct (H b0 rest0 eq_refl) as [-> Hb].
  split; [apply app_assoc | apply Forall_app; split; assumption].
Qed.
Lemma splits_andthen : forall P l r f,
  splits P l r -> (forall l', splits P l' (f l')) -> splits P l (andthen r f).
Proof.
  intros P l r f H Hf b rest E. destruct r as [[a rest0]|]; cbn [andthen] in E; [|discriminate].
  destruct (H a rest0 eq_refl) as [-> Ha].
  exact (splits_pre P a rest0 (f rest0) Ha (Hf rest0) b rest E).
Qed.
Lemma splits_nil : forall (P : ascii -> Prop) l, splits P l (Some ([], l)).
Proof. intros P l a rest E. injection E as <- <-. split; [reflexivity | constructor]. Qed.
Lemma splits_none : forall (P : ascii -> Prop) l, splits P l None.
Proof. intros P l a rest E. discriminate. Qed.
Lemma splits_pre1 : forall (P : ascii -> Prop) c l r, P c -> splits P l r -> splits P (c :: l) (pre [c] r).
Proof. intros P c l r Hc H. apply (splits_pre P [c] l r); [repeat constructor; assumption | assumption]. Qed.
Lemma splits_pre2 : forall (P : ascii -> Prop) c d l r, P c -> P d -> splits P l r -> splits P (c :: d :: l) (pre [c; d] r).
Proof. intros P c d l r Hc Hd H. apply (splits_pre P [c; d] l r); [repeat constructor; assumption | assumption]. Qed.
Lemma splits_pre3 : forall (P : ascii -> Prop) c d e l r, P c -> P d -> P e -> splits P l r -> splits P (c :: d :: e :: l) (pre [c; d; e] r).
Proof. intros P c d e l r Hc Hd He H. apply (splits_pre P [c; d; e] l r); [repeat constructor; assumption | assumption]. Qed.
Lemma splits_one : forall (P : ascii -> Prop) c l, P c -> splits P (c :: l) (Some ([c], l)).
Proof. intros P c l Hc a rest E. injection E as <- <-. split; [reflexivity | repeat constructor; assumption]. Qed.

Lemma span_spec : forall p l a b, span p l = (a, b) ->
  l = a ++ b /\ Forall (fun c => p c = true) a /\ (match b with c :: _ => p c = false | [] => True end).
Proof.
  intros p. induction l as [|c l IH]; intros a b H; cbn [span] in H.
  - injection H as <- <-. repeat split; constructor.
  - destruct (p c) eqn:Ec.
    + destruct (span p l) as [a0 b0]. injection H as <- <-. destruct (IH a0 b0 eq_refl) as [-> [H1 H2]].
      repeat split; [constructor; assumption | exact H2].
    + injection H as <- <-. repeat split; [constructor | exact Ec].
Qed.
Lemma span_head : forall p c l a b, span p (c :: l) = (a, b) -> p c = true -> exists a', a = c :: a'.
Proof.
  intros p c l a b H Hc. cbn [span] in H. rewrite Hc in H. destruct (span p l) as [a0 b0].
  injection H as <- <-. eexists; reflexivity.
Qed.

(* characters of number literals: anything but a newline (all we need later) *)
Definition nonl (c : ascii) : Prop := c <> nl.
Lemma eqb_nonl : forall c d, Ascii.eqb c d = true -> d <> nl -> nonl c.
Proof. intros c d H Hd. apply Ascii.eqb_eq in H. subst c. exact Hd. Qed.
Lemma either_nonl : forall a b c, either a b c = true -> a <> nl -> b <> nl -> nonl c.
Proof.
  intros a b c H Ha Hb. unfold either in H. apply orb_true_iff in H.
  destruct H as [H|H]; apply Ascii.eqb_eq in H; subst c; assumption.
Qed.
Lemma is_digit_nonl : forall c, is_digit c = true -> nonl c.
Proof. intros c H E. subst c. vm_compute in H. discriminate. Qed.
Lemma is_hex_nonl : forall c, is_hex c = true -> nonl c.
Proof. intros c H E. subst c. vm_compute in H. discriminate. Qed.
Lemma is_oct_nonl : forall c, is_oct c = true -> nonl c.
Proof. intros c H E. subst c. vm_compute in H. discriminate. Qed.
Lemma is_bin_nonl : forall c, is_bin c = true -> nonl c.
Proof. intros c H E. subst c. vm_compute in H. discriminate. Qed.
Lemma is_word_nonl : forall c, is_word c = true -> nonl c.
Proof. intros c H E. subst c. vm_compute in H. discriminate. Qed.
Lemma is_alpha_nonl : forall c, is_alpha_ c = true -> nonl c.
Proof. intros c H E. subst c. vm_compute in H. discriminate. Qed.
Lemma is_quote_nonl : forall c, is_quote c = true -> nonl c.
Proof. intros c H E. subst c. vm_compute in H. discriminate. Qed.
Lemma is_space_nonl : forall c, is_space c = true -> nonl c.
Proof. intros c H E. subst c. vm_compute in H. discriminate. Qed.
Lemma not_nl_nonl : forall c, not_nl c = true -> nonl c.
Proof. intros c H E. subst c. vm_compute in H. discriminate. Qed.

Ltac nonl_char :=
  match goal with
  | H : is_digit ?c = true |- nonl ?c => exact (is_digit_nonl c H)
  | H : is_hex ?c = true |- nonl ?c => exact (is_hex_nonl c H)
  | H : is_oct ?c = true |- nonl ?c => exact (is_oct_nonl c H)
  | H : is_bin ?c = true |- nonl ?c => exact (is_bin_nonl c H)
  | H : Ascii.eqb ?c ?d = true |- nonl ?c => apply (eqb_nonl c d H); intro; discriminate
  | H : either ?a ?b ?c = true |- nonl ?c => apply (either_nonl a b c H); intro; discriminate
  end.

Lemma digits_tail_splits : forall ok, (forall c, ok c = true -> nonl c) ->
  forall l, splits nonl l (digits_tail ok l).
Proof.
  intros ok Hok. fix IH 1. intros [|c r]; cbn [digits_tail]; [apply splits_nil|].
  destruct (ok c) eqn:Ec.
  - apply splits_pre1; [apply Hok; exact Ec | apply IH].
  - destruct (Ascii.eqb c "_") eqn:Eu; [|apply splits_nil].
    destruct r as [|d r']; [apply splits_none|].
    destruct (ok d) eqn:Ed; [|apply splits_none].
    apply splits_pre2; [nonl_char | apply Hok; exact Ed | apply IH].
Qed.
Lemma radix_start_splits : forall ok, (forall c, ok c = true -> nonl c) ->
  forall l, splits nonl l (radix_start ok l).
Proof.
  intros ok Hok [|c r]; cbn [radix_start]; [apply splits_none|].
  destruct (ok c) eqn:Ec.
  - apply splits_pre1; [apply Hok; exact Ec | apply digits_tail_splits; exact Hok].
  - destruct (Ascii.eqb c "_") eqn:Eu; [|apply splits_none].
    destruct r as [|d r']; [apply splits_none|].
    destruct (ok d) eqn:Ed; [|apply splits_none].
    apply splits_pre2; [nonl_char | apply Hok; exact Ed | apply digits_tail_splits; exact Hok].
Qed.
Lemma no_digit_behind_splits : forall l r, splits nonl l r -> splits nonl l (no_digit_behind r).
Proof.
  intros l r H. unfold no_digit_behind. destruct r as [[a [|d rest]]|]; try exact H.
  destruct (is_digit d); [apply splits_none | exact H].
Qed.
Lemma opt_digits_splits : forall l, splits nonl l (opt_digits l).
Proof.
  intros [|d r]; cbn [opt_digits]; [apply splits_nil|].
  destruct (is_digit d) eqn:Ed; [|apply splits_nil].
  apply splits_pre1; [nonl_char | apply digits_tail_splits; exact is_digit_nonl].
Qed.
Lemma scan_imag_splits : forall l, splits nonl l (scan_imag l).
Proof.
  intros [|c r]; cbn [scan_imag]; [apply splits_nil|].
  destruct (either "j" "J" c) eqn:E; [apply splits_one; nonl_char | apply splits_nil].
Qed.
Lemma scan_exponent_splits : forall l, splits nonl l (scan_exponent l).
Proof.
  intros [|e r]; cbn [scan_exponent]; [apply splits_nil|].
  destruct (either "e" "E" e) eqn:Ee; [|apply scan_imag_splits].
  destruct r as [|s r']; [apply splits_nil|].
  destruct (either "+" "-" s) eqn:Es.
  - destruct r' as [|d r'']; [apply splits_none|].
    destruct (is_digit d) eqn:Ed; [|apply splits_none].
    apply splits_pre3; try nonl_char.
    apply splits_andthen; [apply digits_tail_splits; exact is_digit_nonl | apply scan_imag_splits].
  - destruct (is_digit s) eqn:Ed; [|apply splits_nil].
    apply splits_pre2; try nonl_char.
    apply splits_andthen; [apply digits_tail_splits; exact is_digit_nonl | apply scan_imag_splits].
Qed.
Lemma scan_fraction_splits : forall l, splits nonl l (scan_fraction l).
Proof.
  intro l. unfold scan_fraction. apply splits_andthen; [apply opt_digits_splits | apply scan_exponent_splits].
Qed.
Lemma after_int_splits : forall l, splits nonl l (after_int l).
Proof.
  intros [|c r]; cbn [after_int]; [apply splits_nil|].
  destruct (Ascii.eqb c ".") eqn:E; [|apply scan_exponent_splits].
  apply splits_pre1; [nonl_char | apply scan_fraction_splits].
Qed.
Lemma zeros_splits : forall l, splits nonl l (zeros l).
Proof.
  fix IH 1. intros [|c r]; cbn [zeros]; [apply splits_nil|].
  destruct (Ascii.eqb c "0") eqn:E0; [apply splits_pre1; [nonl_char | apply IH]|].
  destruct (Ascii.eqb c "_") eqn:Eu; [|apply splits_nil].
  destruct r as [|d r']; [apply splits_none|].
  destruct (Ascii.eqb d "0") eqn:Ed0; [apply splits_pre2; [nonl_char | nonl_char | apply IH]|].
  destruct (is_digit d); [|apply splits_none].
  apply splits_one. nonl_char.
Qed.
Lemma scan_number_splits : forall c r, nonl c -> splits nonl (c :: r) (scan_number (c :: r)).
Proof.
  intros c r Hc. cbn [scan_number].
  destruct (Ascii.eqb c ".") eqn:Ed; [apply splits_pre1; [nonl_char | apply scan_fraction_splits]|].
  destruct (Ascii.eqb c "0") eqn:E0.
  - destruct r as [|x r']; [apply splits_one; nonl_char|].
    destruct (either "x" "X" x) eqn:Ex;
      [apply splits_pre2; [nonl_char | nonl_char | apply radix_start_splits; exact is_hex_nonl]|].
    destruct (either "o" "O" x) eqn:Eo;
      [apply splits_pre2; [nonl_char | nonl_char | apply no_digit_behind_splits, radix_start_splits; exact is_oct_nonl]|].
    destruct (either "b" "B" x) eqn:Eb;
      [apply splits_pre2; [nonl_char | nonl_char | apply no_digit_behind_splits, radix_start_splits; exact is_bin_nonl]|].
    apply splits_pre1; [nonl_char|].
    apply splits_andthen; [apply zeros_splits|]. intro l1.
    apply splits_andthen; [apply opt_digits_splits | apply after_int_splits].
  - apply splits_pre1; [exact Hc|].
    apply splits_andthen; [apply digits_tail_splits; exact is_digit_nonl | apply after_int_splits].
Qed.

(* strings: any characters; the lexeme ends with the quote it was opened with *)
Definition anyc (c : ascii) : Prop := True.
Lemma Forall_anyc : forall l, Forall anyc l.
Proof. induction l; constructor; [exact I | assumption]. Qed.
Definition ends_with (q : ascii) (r : scan) : Prop :=
  forall a rest, r = Some (a, rest) -> exists b, a = b ++ [q].
Lemma ends_pre : forall q a r, ends_with q r -> ends_with q (pre a r).
Proof.
  intros q a r H b rest E. destruct r as [[b0 rest0]|]; cbn [pre] in E; [|discriminate].
  injection E as <- <-. destruct (H b0 rest0 eq_refl) as [x ->]. exists (a ++ x). apply app_assoc.
Qed.
Lemma ends_one : forall q rest, ends_with q (Some ([q], rest)).
Proof. intros q rest a r E. injection E as <- <-. exists []. reflexivity. Qed.
Lemma ends_none : forall q, ends_with q None.
Proof. intros q a r E. discriminate. Qed.

Lemma str1_spec : forall q l, splits anyc l (str1 q l) /\ ends_with q (str1 q l).
Proof.
  intro q. fix IH 1. intros [|c r]; cbn [str1]; [split; [apply splits_none | apply ends_none]|].
  destruct (Ascii.eqb c nl); [split; [apply splits_none | apply ends_none]|].
  destruct (Ascii.eqb c q) eqn:Eq.
  - apply Ascii.eqb_eq in Eq. subst c. split; [apply splits_one; exact I | apply ends_one].
  - destruct (Ascii.eqb c "\").
    + destruct r as [|d r']; [split; [apply splits_none | apply ends_none]|].
      destruct (IH r') as [H1 H2]. split; [apply splits_pre2; [exact I | exact I | exact H1] | apply ends_pre; exact H2].
    + destruct (IH r) as [H1 H2]. split; [apply splits_pre1; [exact I | exact H1] | apply ends_pre; exact H2].
Qed.
Lemma str3_spec : forall q l run, splits anyc l (str3 q run l) /\ ends_with q (str3 q run l).
Proof.
  intro q. fix IH 1. intros [|c r] run; cbn [str3]; [split; [apply splits_none | apply ends_none]|].
  destruct (Ascii.eqb c q) eqn:Eq.
  - apply Ascii.eqb_eq in Eq. subst c. destruct (Nat.eqb run 2).
    + split; [apply splits_one; exact I | apply ends_one].
    + destruct (IH r (S run)) as [H1 H2]. split; [apply splits_pre1; [exact I | exact H1] | apply ends_pre; exact H2].
  - destruct (Ascii.eqb c "\").
    + destruct r as [|d r']; [split; [apply splits_none | apply ends_none]|].
      destruct (IH r' 0) as [H1 H2]. split; [apply splits_pre2; [exact I | exact I | exact H1] | apply ends_pre; exact H2].
    + destruct (IH r 0) as [H1 H2]. split; [apply splits_pre1; [exact I | exact H1] | apply ends_pre; exact H2].
Qed.
(* a quoted lexeme: q ... q *)
Lemma scan_string_spec : forall q r a rest, scan_string (q :: r) = Some (a, rest) ->
  q :: r = a ++ rest /\ exists body, a = q :: body ++ [q].
Proof.
  intros q r a rest H. cbn [scan_string] in H.
  assert (H1 : forall l, pre [q] (str1 q l) = Some (a, rest) -> q :: l = a ++ rest /\ exists body, a = q :: body ++ [q]).
  { intros l E. destruct (str1 q l) as [[b rest0]|] eqn:Es; cbn [pre] in E; [|discriminate].
    injection E as <- <-. destruct (str1_spec q l) as [Hs He].
    destruct (Hs b rest0 Es) as [-> _]. destruct (He b rest0 Es) as [x ->].
    split; [reflexivity | exists x; reflexivity]. }
  destruct r as [|q1 [|q2 r']]; try (apply H1; exact H).
  destruct (Ascii.eqb q1 q && Ascii.eqb q2 q) eqn:E3; [|apply H1; exact H].
  destruct (str3 q 0 r') as [[b rest0]|] eqn:Es; cbn [pre] in H; [|discriminate].
  injection H as <- <-. destruct (str3_spec q r' 0) as [Hs He].
  destruct (Hs b rest0 Es) as [-> _]. destruct (He b rest0 Es) as [x ->].
  split; [reflexivity | exists (q1 :: q2 :: x); reflexivity].
Qed.

Lemma string_prefix_spec : forall l pfx qrest, string_prefix l = Some (pfx, qrest) ->
  l = pfx ++ qrest /\ (exists q r, qrest = q :: r /\ is_quote q = true) /\
  Forall (fun c => is_alpha_ c = true) pfx /\ List.length pfx <= 2.
Proof.
  intros l pfx qrest H. unfold string_prefix in H.
  assert (Hal : forall a, is_b a || is_r a || is_u a = true -> is_alpha_ a = true).
  { intros a Ha. unfold is_b, is_r, is_u, either in Ha.
    repeat (apply orb_true_iff in Ha; destruct Ha as [Ha|Ha]); apply Ascii.eqb_eq in Ha; subst a; reflexivity. }
  destruct l as [|a [|q r]]; try discriminate.
  destruct (is_quote q) eqn:Eq.
  - destruct (is_b a || is_r a || is_u a) eqn:Ea; [|discriminate]. injection H as <- <-.
    repeat split; [exists q, r; auto | repeat constructor; apply Hal; exact Ea | cbn; lia].
  - destruct r as [|q2 r']; [discriminate|].
    destruct (is_quote q2 && (is_b a && is_r q || is_r a && is_b q)) eqn:E2; [|discriminate].
    injection H as <- <-. apply andb_true_iff in E2. destruct E2 as [Eq2 Eab].
    repeat split; [exists q2, r'; auto | | cbn; lia].
    apply orb_true_iff in Eab. destruct Eab as [E|E]; apply andb_true_iff in E; destruct E as [E1 E2];
      repeat constructor; apply Hal; rewrite ?E1, ?E2, ?orb_true_r; reflexivity.
Qed.

Lemma in_table_In : forall tbl l, in_table tbl l = true -> In (string_of_list_ascii l) tbl.
Proof.
  intros tbl l H. unfold in_table in H. apply existsb_exists in H. destruct H as [x [Hx E]].
  apply String.eqb_eq in E. rewrite E. exact Hx.
Qed.
Lemma scan_op_spec : forall l op rest, scan_op l = Some (op, rest) ->
  l = op ++ rest /\ In (string_of_list_ascii op) op_table /\ op <> [].
Proof.
  intros l op rest H. unfold scan_op in H. unfold op_table.
  destruct l as [|a [|b [|c r]]]; try discriminate;
    repeat match type of H with
           | (if in_table ?t ?x then _ else _) = _ => let E := fresh "E" in destruct (in_table t x) eqn:E
           end; try discriminate; injection H as <- <-;
    (split; [reflexivity | split; [|discriminate]]);
    match goal with E : in_table _ _ = true |- _ => apply in_table_In in E end;
    rewrite !in_app_iff; auto.
Qed.

Definition spaces (l : chars) : Prop := Forall (fun c => is_space c = true) l.
Lemma scan_indent_spec : forall l before sp icol cont before' sp' icol' cont' rest,
  scan_indent l before sp icol cont = Some (before', sp', icol', cont', rest) ->
  before ++ sp ++ l = before' ++ sp' ++ rest /\ (spaces sp -> spaces sp').
Proof.
  intro l. remember (List.length l) as n eqn:Hn. revert l Hn.
  induction n as [n IH] using lt_wf_ind. intros l Hn.
  assert (IH' : forall l', List.length l' < List.length l -> forall before sp icol cont before' sp' icol' cont' rest,
            scan_indent l' before sp icol cont = Some (before', sp', icol', cont', rest) ->
            before ++ sp ++ l' = before' ++ sp' ++ rest /\ (spaces sp -> spaces sp')).
  { intros l' Hl. apply (IH (List.length l')); [subst n; exact Hl | reflexivity]. }
  clear IH Hn. rename IH' into IH.
  intros before sp icol cont before' sp' icol' cont' rest H.
  destruct l as [|c r]; cbn [scan_indent] in H.
  - injection H as <- <- <- <- <-. split; auto.
  - destruct (is_space c) eqn:Ec.
    + apply IH in H; [|cbn; lia]. destruct H as [E Hs]. split.
      * rewrite <- E. rewrite <- !app_assoc. reflexivity.
      * intro Hsp. apply Hs. apply Forall_app. split; [exact Hsp | repeat constructor; exact Ec].
    + destruct (Ascii.eqb c "\") eqn:Eb.
      * destruct r as [|n0 r']; [discriminate|]. destruct (Ascii.eqb n0 nl) eqn:En; [|discriminate].
        destruct r' as [|x r'']; [discriminate|].
        apply IH in H; [|cbn; lia]. destruct H as [E Hs]. split.
        -- rewrite <- E. rewrite <- !app_assoc. reflexivity.
        -- intros _. apply Hs. constructor.
      * injection H as <- <- <- <- <-. split; auto.
Qed.

Lemma pop_to_spec : forall ind stk k s, pop_to ind stk = (k, s) ->
  exists popped, stk = popped ++ s /\ List.length popped = k.
Proof.
  intro ind. induction stk as [|top r IH]; intros k s H; cbn [pop_to] in H.
  - injection H as <- <-. exists []. auto.
  - destruct (ind <? top).
    + destruct (pop_to ind r) as [k0 s0]. injection H as <- <-.
      destruct (IH k0 s0 eq_refl) as [p [-> Hl]]. exists (top :: p). cbn. split; [reflexivity | lia].
    + injection H as <- <-. exists []. auto.
Qed.

(* ================================================================== *)
(* 3. one step of the tokenizer, relationally *)
Definition lexeme_ok (t : ttype) (lx : chars) : Prop :=
  match t with
  | COMMENT => (exists r, lx = "#" :: r) /\ Forall nonl lx
  | NAME => exists c r, lx = c :: r /\ is_alpha_ c = true /\ Forall (fun x => is_word x = true) r
  | NUMBER => Forall nonl lx /\ exists c r, lx = c :: r /\ (is_digit c = true \/ c = ".")
  | STRING => exists pfx q body, lx = pfx ++ q :: body ++ [q] /\ is_quote q = true /\
                                 Forall (fun c => is_alpha_ c = true) pfx /\ List.length pfx <= 2
  | _ => False
  end.

Section StepRel.
Variable imp : bool.
Variable st : lstate.
Let p := lpos st.

Inductive Step (l : chars) : outcome -> Prop :=
| S_err : Step l (Done [terr_token])
| S_ierr : forall n, atbol st = true -> Step l (Done [terr_indent n])
| S_end : forall ws, atbol st = false -> l = ws -> spaces ws -> level st = 0 ->
    Step l (Done [mk_empty ENDMARKER (pos_after p ws)])
| S_blank : forall ws r, atbol st = true -> l = ws ++ nl :: r ->
    Step l (Next [mk_nl NL imp r (pos_after p ws)] (move st (next_line (pos_after p ws)) true) r)
| S_cline : forall ws cm r, atbol st = true -> l = ws ++ cm ++ nl :: r -> lexeme_ok COMMENT cm ->
    Step l (Next [mk COMMENT cm (pos_after p ws); mk_nl NL imp r (pos_after (pos_after p ws) cm)]
                 (move st (next_line (pos_after (pos_after p ws) cm)) true) r)
| S_ceof : forall ws cm, atbol st = true -> l = ws ++ cm -> lexeme_ok COMMENT cm ->
    Step l (Next [mk COMMENT cm (pos_after p ws)] (move st (pos_after (pos_after p ws) cm) false) [])
| S_pass : forall ws rest, atbol st = true -> l = ws ++ rest -> (rest = [] -> level st <> 0) ->
    Step l (Next [] (move st (pos_after p ws) false) rest)
| S_indent : forall before sp rest ind, atbol st = true -> level st = 0 -> l = before ++ sp ++ rest -> spaces sp ->
    hd 0 (stack st) < ind -> rest <> [] ->
    Step l (Next [mk INDENT sp (pos_after p before)]
                 {| lpos := pos_after (pos_after p before) sp; atbol := false; stack := ind :: stack st; level := level st |} rest)
| S_dedent : forall ws rest popped stk, atbol st = true -> level st = 0 -> l = ws ++ rest -> stack st = popped ++ stk ->
    (rest = [] -> stk = []) ->
    Step l (Next (repeat (mk_empty DEDENT (pos_after p ws)) (List.length popped))
                 {| lpos := pos_after p ws; atbol := false; stack := stk; level := level st |} rest)
| S_tok : forall ws lx rest t, atbol st = false -> l = ws ++ lx ++ rest -> In t [COMMENT; NAME; NUMBER; STRING] ->
    lexeme_ok t lx ->
    Step l (Next [mk t lx (pos_after p ws)] (move st (pos_after (pos_after p ws) lx) false) rest)
| S_op : forall ws op rest, atbol st = false -> l = ws ++ op ++ rest -> op <> [] -> In (string_of_list_ascii op) op_table ->
    Step l (Next [mk OP op (pos_after p ws)]
                 {| lpos := pos_after (pos_after p ws) op; atbol := false; stack := stack st;
                    level := new_level (level st) op |} rest)
| S_nl : forall ws r, atbol st = false -> l = ws ++ nl :: r ->
    Step l (Next [mk_nl (if Nat.eqb (level st) 0 then NEWLINE else NL) imp r (pos_after p ws)]
                 (move st (next_line (pos_after p ws)) true) r)
| S_cont : forall ws c r, atbol st = false -> l = ws ++ "\" :: nl :: c :: r ->
    Step l (Next [] (move st (next_line (pos_after p ws)) false) (c :: r)).
End StepRel.

Lemma span_comment : forall c r cm r2, Ascii.eqb c "#" = true -> span not_nl (c :: r) = (cm, r2) ->
  c :: r = cm ++ r2 /\ lexeme_ok COMMENT cm /\ (match r2 with x :: _ => x = nl | [] => True end).
Proof.
  intros c r cm r2 Hc H. destruct (span_spec _ _ _ _ H) as [E [Hall Hn]].
  assert (Hnn : not_nl c = true) by (apply Ascii.eqb_eq in Hc; subst c; reflexivity).
  destruct (span_head _ _ _ _ _ H Hnn) as [a' ->].
  apply Ascii.eqb_eq in Hc. subst c. repeat split.
  - exact E.
  - exists a'. reflexivity.
  - eapply Forall_impl; [|exact Hall]. exact not_nl_nonl.
  - destruct r2 as [|x r2']; [exact I|]. unfold not_nl in Hn. apply negb_false_iff in Hn.
    apply Ascii.eqb_eq. exact Hn.
Qed.

Lemma step_bol_Step : forall imp st l, atbol st = true -> Step imp st l (step_bol imp st l).
Proof.
  intros imp st l Hb. unfold step_bol.
  destruct (scan_indent l [] [] 0 0) as [[[[[before sp] icol] cont] rest]|] eqn:Es; [|apply S_err].
  destruct (scan_indent_spec _ _ _ _ _ _ _ _ _ _ Es) as [El Hsp]. cbn [app] in El.
  specialize (Hsp (Forall_nil _)).
  assert (Ews : pos_after (pos_after (lpos st) before) sp = pos_after (lpos st) (before ++ sp))
    by (symmetry; apply pos_after_app).
  cbv zeta. rewrite Ews.
  assert (Hind : forall c r, rest = c :: r ->
    Step imp st l
      (if negb (level st =? 0) then Next [] (move st (pos_after (lpos st) (before ++ sp)) false) rest
       else if hd 0 (stack st) <? (if cont =? 0 then icol else cont)
            then if MAXINDENT <=? S (List.length (stack st))
                 then Done [terr_indent (fst (pos_after (lpos st) (before ++ sp)))]
                 else Next [mk INDENT sp (pos_after (lpos st) before)]
                        {| lpos := pos_after (lpos st) (before ++ sp); atbol := false;
                           stack := (if cont =? 0 then icol else cont) :: stack st; level := level st |} rest
            else if (if cont =? 0 then icol else cont) <? hd 0 (stack st)
                 then let (k, stk) := pop_to (if cont =? 0 then icol else cont) (stack st) in
                      if (if cont =? 0 then icol else cont) =? hd 0 stk
                      then Next (repeat (mk_empty DEDENT (pos_after (lpos st) (before ++ sp))) k)
                             {| lpos := pos_after (lpos st) (before ++ sp); atbol := false; stack := stk; level := level st |} rest
                      else Done [terr_indent (fst (pos_after (lpos st) (before ++ sp)))]
                 else Next [] (move st (pos_after (lpos st) (before ++ sp)) false) rest)).
  { intros c r Er. set (ind := if cont =? 0 then icol else cont).
    destruct (level st =? 0) eqn:Elv; cbn [negb].
    2:{ apply S_pass; [exact Hb | rewrite El, app_assoc; reflexivity |]. intros _. apply Nat.eqb_neq. exact Elv. }
    apply Nat.eqb_eq in Elv.
    destruct (hd 0 (stack st) <? ind) eqn:E1.
    - destruct (MAXINDENT <=? S (List.length (stack st))); [apply S_ierr; exact Hb|].
      rewrite <- Ews. apply S_indent; try assumption.
      + apply Nat.ltb_lt. exact E1.
      + rewrite Er. discriminate.
    - destruct (ind <? hd 0 (stack st)) eqn:E2.
      + destruct (pop_to ind (stack st)) as [k stk] eqn:Ep.
        destruct (pop_to_spec _ _ _ _ Ep) as [popped [Hst <-]].
        destruct (ind =? hd 0 stk); [|apply S_ierr; exact Hb].
        apply S_dedent; try assumption; [rewrite El, app_assoc; reflexivity|].
        rewrite Er. discriminate.
      + apply S_pass; [exact Hb | rewrite El, app_assoc; reflexivity | rewrite Er; discriminate]. }
  destruct rest as [|c r].
  - destruct (level st =? 0) eqn:Elv; cbn [negb].
    + apply Nat.eqb_eq in Elv.
      apply (S_dedent imp st l (before ++ sp) [] (stack st) []); auto.
      * rewrite El, app_assoc. reflexivity.
      * rewrite app_nil_r. reflexivity.
    + apply S_pass; [exact Hb | rewrite El, app_assoc; reflexivity |]. intros _. apply Nat.eqb_neq. exact Elv.
  - destruct (Ascii.eqb c nl) eqn:Enl.
    + apply Ascii.eqb_eq in Enl. subst c. apply S_blank; [exact Hb | rewrite El, app_assoc; reflexivity].
    + destruct (Ascii.eqb c "#") eqn:Ec.
      * destruct (span not_nl (c :: r)) as [cm r2] eqn:Esp.
        destruct (span_comment _ _ _ _ Ec Esp) as [E [Hcm Hr2]].
        destruct r2 as [|x r3].
        -- rewrite app_nil_r in E.
           apply S_ceof; [exact Hb | rewrite El, E, app_assoc; reflexivity | exact Hcm].
        -- subst x. apply S_cline; [exact Hb | rewrite El, E, app_assoc; reflexivity | exact Hcm].
      * apply (Hind c r eq_refl).
Qed.

Lemma pre_head : forall c a r lx rest, pre (c :: a) r = Some (lx, rest) -> exists lx', lx = c :: lx'.
Proof.
  intros c a r lx rest H. destruct r as [[b rest0]|]; cbn [pre] in H; [|discriminate].
  injection H as <- <-. eexists. reflexivity.
Qed.
Lemma scan_number_head : forall c r lx rest, scan_number (c :: r) = Some (lx, rest) -> exists lx', lx = c :: lx'.
Proof.
  intros c r lx rest H. cbn [scan_number] in H.
  destruct (Ascii.eqb c "."); [exact (pre_head _ _ _ _ _ H)|].
  destruct (Ascii.eqb c "0"); [|exact (pre_head _ _ _ _ _ H)].
  destruct r as [|x r']; [injection H as <- <-; eexists; reflexivity|].
  destruct (either "x" "X" x); [exact (pre_head _ _ _ _ _ H)|].
  destruct (either "o" "O" x); [exact (pre_head _ _ _ _ _ H)|].
  destruct (either "b" "B" x); exact (pre_head _ _ _ _ _ H).
Qed.
Lemma is_alpha_word : forall c, is_alpha_ c = true -> is_word c = true.
Proof. intros c H. unfold is_word. rewrite H. reflexivity. Qed.

Lemma step_tok_Step : forall imp st l, atbol st = false -> Step imp st l (step_tok imp st l).
Proof.
  intros imp st l Hb. unfold step_tok.
  destruct (span is_space l) as [ws rest] eqn:Esp.
  destruct (span_spec _ _ _ _ Esp) as [El [Hws _]]. cbv zeta.
  assert (Htok : forall t (r : scan), In t [COMMENT; NAME; NUMBER; STRING] ->
            (forall lx rest', r = Some (lx, rest') -> rest = lx ++ rest' /\ lexeme_ok t lx) ->
            Step imp st l
              match r with
              | Some (lx, rest') =>
                  Next [mk t lx (pos_after (lpos st) ws)] (move st (pos_after (pos_after (lpos st) ws) lx) false) rest'
              | None => Done [terr_token]
              end).
  { intros t r Ht Hr. destruct r as [[lx rest']|]; [|apply S_err].
    destruct (Hr lx rest' eq_refl) as [E Hok]. apply S_tok; [exact Hb | rewrite El, E; reflexivity | exact Ht | exact Hok]. }
  destruct rest as [|c r].
  { destruct (level st =? 0) eqn:Elv; [|apply S_err].
    apply S_end; [exact Hb | rewrite El, app_nil_r; reflexivity | exact Hws | apply Nat.eqb_eq; exact Elv]. }
  destruct (Ascii.eqb c "#") eqn:Ec.
  { destruct (span not_nl (c :: r)) as [cm r2] eqn:E.
    apply (Htok COMMENT (Some (cm, r2))); [cbn; auto|]. intros lx rest' E0. injection E0 as <- <-.
    destruct (span_comment _ _ _ _ Ec E) as [E1 [E2 _]]. auto. }
  destruct (Ascii.eqb c nl) eqn:Enl.
  { apply Ascii.eqb_eq in Enl. subst c. apply S_nl; [exact Hb | exact El]. }
  assert (Hstr : forall pfx q r0, c :: r = pfx ++ q :: r0 -> is_quote q = true ->
            Forall (fun c => is_alpha_ c = true) pfx -> List.length pfx <= 2 ->
            forall lx rest', pre pfx (scan_string (q :: r0)) = Some (lx, rest') ->
            c :: r = lx ++ rest' /\ lexeme_ok STRING lx).
  { intros pfx q r0 E Hq Hp Hl lx rest' Hs.
    destruct (scan_string (q :: r0)) as [[a rest0]|] eqn:Ess; cbn [pre] in Hs; [|discriminate].
    injection Hs as <- <-. destruct (scan_string_spec _ _ _ _ Ess) as [E2 [body ->]]. split.
    - rewrite E, E2, app_assoc. reflexivity.
    - exists pfx, q, body. auto. }
  destruct (is_alpha_ c) eqn:Eal.
  { destruct (string_prefix (c :: r)) as [[pfx qrest]|] eqn:Epf.
    - destruct (string_prefix_spec _ _ _ Epf) as [E [[q [r0 [-> Hq]]] [Hp Hl]]].
      apply Htok; [cbn; auto|]. apply Hstr; assumption.
    - destruct (span is_word (c :: r)) as [nm r2] eqn:E.
      apply (Htok NAME (Some (nm, r2))); [cbn; auto|]. intros lx rest' E0. injection E0 as <- <-.
      destruct (span_spec _ _ _ _ E) as [E1 [Hall _]].
      destruct (span_head _ _ _ _ _ E (is_alpha_word _ Eal)) as [a' ->].
      split; [exact E1|]. exists c, a'. repeat split; [exact Eal | exact (Forall_inv_tail Hall)]. }
  destruct (is_digit c || (Ascii.eqb c "." && match r with d :: _ => is_digit d | [] => false end)) eqn:Enum.
  { apply Htok; [cbn; auto|]. intros lx rest' E.
    assert (Hc : is_digit c = true \/ c = ".").
    { apply orb_true_iff in Enum. destruct Enum as [H|H]; [left; exact H|].
      apply andb_true_iff in H. right. apply Ascii.eqb_eq. tauto. }
    assert (Hn : nonl c) by (destruct Hc as [H| ->]; [nonl_char | intro; discriminate]).
    destruct (scan_number_splits c r Hn lx rest' E) as [E1 Hall].
    destruct (scan_number_head _ _ _ _ E) as [lx' ->].
    split; [exact E1|]. split; [exact Hall|]. exists c, lx'. auto. }
  destruct (is_quote c) eqn:Eq.
  { apply Htok; [cbn; auto|]. intros lx rest' E.
    apply (Hstr [] c r eq_refl Eq (Forall_nil _)); [cbn; lia|].
    destruct (scan_string (c :: r)) as [[a b]|]; cbn [pre app]; [exact E | discriminate]. }
  destruct (Ascii.eqb c "\") eqn:Ebs.
  { destruct r as [|n [|x r']]; try apply S_err.
    destruct (Ascii.eqb n nl) eqn:En; [|apply S_err].
    apply Ascii.eqb_eq in En, Ebs. subst n c. apply S_cont; [exact Hb | exact El]. }
  destruct (scan_op (c :: r)) as [[op rest']|] eqn:Eop; [|apply S_err].
  destruct (scan_op_spec _ _ _ Eop) as [E [Hin Hne]].
  destruct (is_open_op op && (MAXLEVEL <=? level st)); [apply S_err|].
  apply S_op; [exact Hb | rewrite El, E; reflexivity | exact Hne | exact Hin].
Qed.

Theorem step_Step : forall imp st l, Step imp st l (step imp st l).
Proof.
  intros imp st l. unfold step. destruct (atbol st) eqn:Hb; [apply step_bol_Step | apply step_tok_Step]; exact Hb.
Qed.

(* ================================================================== *)
(* 4. the run: induction principle, the fuel suffices *)
Lemma lexeme_nonempty : forall t lx, lexeme_ok t lx -> lx <> [].
Proof.
  intros t lx H. destruct t; cbn [lexeme_ok] in H; try contradiction.
  - destruct H as [c [r [-> _]]]. discriminate.
  - destruct H as [_ [c [r [-> _]]]]. discriminate.
  - destruct H as [pfx [q [body [-> _]]]]. destruct pfx; discriminate.
  - destruct H as [[r ->] _]. discriminate.
Qed.

Lemma app_nil_inv_r : forall (A : Type) (a b : list A), a ++ b = [] -> b = [].
Proof. intros A a b H. apply app_eq_nil in H. tauto. Qed.

Definition consumed_prop (st : lstate) (l : chars) (o : outcome) : Prop :=
  match o with
  | Next e st' l' =>
      exists c, l = c ++ l' /\ lpos st' = pos_after (lpos st) c /\ (c = [] -> atbol st = true /\ atbol st' = false)
  | Done _ => True
  end.
Lemma pos_after_snoc_nl : forall p ws, pos_after p (ws ++ [nl]) = next_line (pos_after p ws).
Proof. intros p ws. rewrite pos_after_app. cbn [pos_after]. symmetry. apply next_line_adv. Qed.
Lemma Step_consumed_gen : forall imp st l o, Step imp st l o -> consumed_prop st l o.
Proof.
  intros imp st l o H.
  assert (Hnn : forall (P : Prop) (a b : chars), b <> [] -> a ++ b = [] -> P).
  { intros P a b Hb E. apply app_nil_inv_r in E. contradiction. }
  destruct H; cbn [consumed_prop]; try exact I; cbn [lpos move atbol].
  - exists (ws ++ [nl]). subst l. rewrite <- app_assoc. split; [reflexivity|]. split; [symmetry; apply pos_after_snoc_nl|].
    apply Hnn. discriminate.
  - exists (ws ++ cm ++ [nl]). subst l. rewrite <- !app_assoc. split; [reflexivity|]. split.
    + rewrite app_assoc, pos_after_snoc_nl, pos_after_app. reflexivity.
    + rewrite app_assoc. apply Hnn. discriminate.
  - exists (ws ++ cm). subst l. rewrite app_nil_r. split; [reflexivity|]. split; [rewrite pos_after_app; reflexivity|].
    apply Hnn. eapply lexeme_nonempty; eassumption.
  - exists ws. split; [assumption|]. split; [reflexivity|]. intros _. split; [assumption | reflexivity].
  - exists (before ++ sp). subst l. rewrite <- app_assoc. split; [reflexivity|]. split; [rewrite pos_after_app; reflexivity|].
    intros _. split; [assumption | reflexivity].
  - exists ws. split; [assumption|]. split; [reflexivity|]. intros _. split; [assumption | reflexivity].
  - exists (ws ++ lx). subst l. rewrite <- app_assoc. split; [reflexivity|]. split; [rewrite pos_after_app; reflexivity|].
    apply Hnn. eapply lexeme_nonempty; eassumption.
  - exists (ws ++ op). subst l. rewrite <- app_assoc. split; [reflexivity|]. split; [rewrite pos_after_app; reflexivity|].
    apply Hnn. assumption.
  - exists (ws ++ [nl]). subst l. rewrite <- app_assoc. split; [reflexivity|]. split; [symmetry; apply pos_after_snoc_nl|].
    apply Hnn. discriminate.
  - exists (ws ++ ["\"; nl]). subst l. rewrite <- app_assoc. split; [reflexivity|]. split.
    + change ["\"; nl] with (["\"] ++ [nl]). rewrite app_assoc, pos_after_snoc_nl, pos_after_app.
      cbn [pos_after]. unfold adv. change (Ascii.eqb "\" nl) with false. reflexivity.
    + apply Hnn. discriminate.
Qed.
Lemma Step_consumed : forall imp st l e st' l', Step imp st l (Next e st' l') ->
  exists c, l = c ++ l' /\ lpos st' = pos_after (lpos st) c /\ (c = [] -> atbol st = true /\ atbol st' = false).
Proof. intros imp st l e st' l' H. exact (Step_consumed_gen _ _ _ _ H). Qed.

Definition measure (st : lstate) (l : chars) : nat := 2 * List.length l + (if atbol st then 1 else 0).
Lemma Step_measure : forall imp st l e st' l', Step imp st l (Next e st' l') -> measure st' l' < measure st l.
Proof.
  intros imp st l e st' l' H. destruct (Step_consumed _ _ _ _ _ _ H) as [c [-> [_ Hc]]].
  unfold measure. rewrite app_length. destruct c as [|x c].
  - destruct (Hc eq_refl) as [-> ->]. cbn [List.length]. lia.
  - cbn [List.length]. destruct (atbol st'), (atbol st); lia.
Qed.

Section RunInd.
Variable imp : bool.
Variable Inv : list token -> lstate -> chars -> Prop.
Variable Fin : list token -> Prop.
Hypothesis Inv_next : forall acc st l e st' l',
  Inv acc st l -> Step imp st l (Next e st' l') -> Inv (acc ++ e) st' l'.
Hypothesis Inv_done : forall acc st l e, Inv acc st l -> Step imp st l (Done e) -> Fin (acc ++ e).

Lemma run_ind : forall fuel acc st l, measure st l < fuel -> Inv acc st l -> Fin (acc ++ run fuel imp st l).
Proof.
  induction fuel as [|f IH]; intros acc st l Hm HI; [lia|].
  cbn [run]. pose proof (step_Step imp st l) as HS. destruct (step imp st l) as [e st' l'|e].
  - rewrite app_assoc. apply IH.
    + pose proof (Step_measure _ _ _ _ _ _ HS). lia.
    + exact (Inv_next _ _ _ _ _ _ HI HS).
  - exact (Inv_done _ _ _ _ HI HS).
Qed.
End RunInd.

Theorem lex_chars_ind : forall (Inv : list token -> lstate -> chars -> Prop) (Fin : list token -> Prop) l,
  (forall acc st l0 e st' l', Inv acc st l0 -> Step (needs_nl l) st l0 (Next e st' l') -> Inv (acc ++ e) st' l') ->
  (forall acc st l0 e, Inv acc st l0 -> Step (needs_nl l) st l0 (Done e) -> Fin (acc ++ e)) ->
  Inv [] init_state (normalize l) -> Fin (lex_chars l).
Proof.
  intros Inv Fin l Hn Hd H0. unfold lex_chars.
  apply (run_ind (needs_nl l) Inv Fin Hn Hd _ [] init_state (normalize l)); [|exact H0].
  unfold measure, init_state. cbn [atbol]. lia.
Qed.

(* ================================================================== *)
(* 5. (a) the shape of the output: body tokens, then ENDMARKER or the error token *)
Definition body_ty (t : ttype) : Prop := In t [NAME; NUMBER; STRING; OP; NEWLINE; NL; COMMENT; INDENT; DEDENT].
Definition final_tok (t : token) : Prop :=
  (ty t = ENDMARKER /\ text t = EmptyString) \/ t = terr_token \/ exists n, t = terr_indent n.
Definition types_prop (o : outcome) : Prop :=
  match o with
  | Next e _ _ => Forall (fun t => body_ty (ty t)) e
  | Done e => exists t, e = [t] /\ final_tok t
  end.
Lemma Forall_repeat : forall (A : Type) (P : A -> Prop) x n, P x -> Forall P (repeat x n).
Proof. intros A P x n H. induction n; cbn [repeat]; constructor; assumption. Qed.
Lemma Step_types : forall imp st l o, Step imp st l o -> types_prop o.
Proof.
  intros imp st l o H.
  destruct H; cbn [types_prop]; unfold body_ty; try (repeat constructor; cbn; tauto).
  - eexists. split; [reflexivity|]. right. left. reflexivity.
  - eexists. split; [reflexivity|]. right. right. eexists. reflexivity.
  - eexists. split; [reflexivity|]. left. split; reflexivity.
  - apply Forall_repeat. cbn. tauto.
  - constructor; [|constructor]. cbn [mk ty]. cbn [In] in *. unfold body_ty.
    decompose [or] H1; try contradiction; subst t; cbn; tauto.
  - constructor; [|constructor]. cbn [mk_nl ty]. destruct (level st =? 0); cbn; tauto.
Qed.

Definition ends_properly (ts : list token) : Prop :=
  exists front last, ts = front ++ [last] /\ Forall (fun t => body_ty (ty t)) front /\ final_tok last.

Theorem lex_chars_shape : forall l, ends_properly (lex_chars l).
Proof.
  intro l.
  apply (lex_chars_ind (fun acc _ _ => Forall (fun t => body_ty (ty t)) acc) ends_properly l).
  - intros acc st l0 e st' l' HI HS. apply Forall_app. split; [exact HI|]. exact (Step_types _ _ _ _ HS).
  - intros acc st l0 e HI HS. destruct (Step_types _ _ _ _ HS) as [t [-> Ht]]. exists acc, t. auto.
  - constructor.
Qed.

(* ================================================================== *)
(* 6. (f) kinds: what the text of each kind of token looks like *)
Definition nl_text (s : string) : Prop := s = String nl EmptyString \/ s = EmptyString.
Definition kind_ok (t : token) : Prop :=
  match ty t with
  | NAME | NUMBER | STRING | COMMENT => exists lx, text t = string_of_list_ascii lx /\ lexeme_ok (ty t) lx
  | OP => In (text t) op_table /\ text t <> EmptyString
  | INDENT => exists sp, text t = string_of_list_ascii sp /\ spaces sp
  | DEDENT | ENDMARKER => text t = EmptyString
  | NEWLINE | NL => nl_text (text t)
  | TERR => True
  | _ => False
  end.
Lemma nl_text_mk_nl : forall t imp r p, nl_text (text (mk_nl t imp r p)).
Proof.
  intros t imp r p. unfold mk_nl, nl_text. cbn [text].
  destruct (imp && match r with [] => true | _ :: _ => false end); auto.
Qed.
Lemma string_of_nonempty : forall l, l <> [] -> string_of_list_ascii l <> EmptyString.
Proof. intros [|c l] H; [congruence | discriminate]. Qed.

Definition kinds_prop (o : outcome) : Prop :=
  match o with Next e _ _ => Forall kind_ok e | Done e => Forall kind_ok e end.
Lemma Step_kinds : forall imp st l o, Step imp st l o -> kinds_prop o.
Proof.
  intros imp st l o H.
  destruct H; cbn [kinds_prop]; repeat (apply Forall_cons || apply Forall_nil);
    try (unfold kind_ok; cbn [ty terr_token terr_indent mk_empty mk text]; try exact I; try reflexivity).
  - apply nl_text_mk_nl.
  - eexists. split; [reflexivity | assumption].
  - apply nl_text_mk_nl.
  - eexists. split; [reflexivity | assumption].
  - eexists. split; [reflexivity | assumption].
  - apply Forall_repeat. reflexivity.
  - cbn [In] in H1. decompose [or] H1; try contradiction; subst t; eexists; (split; [reflexivity | assumption]).
  - split; [assumption | apply string_of_nonempty; assumption].
  - unfold kind_ok. destruct (level st =? 0); cbn [mk_nl ty]; apply nl_text_mk_nl.
Qed.

Theorem lex_chars_kinds : forall l, Forall kind_ok (lex_chars l).
Proof.
  intro l. apply (lex_chars_ind (fun acc _ _ => Forall kind_ok acc) (Forall kind_ok) l).
  - intros acc st l0 e st' l' HI HS. apply Forall_app. split; [exact HI | exact (Step_kinds _ _ _ _ HS)].
  - intros acc st l0 e HI HS. apply Forall_app. split; [exact HI | exact (Step_kinds _ _ _ _ HS)].
  - constructor.
Qed.

(* ================================================================== *)
(* 7. (b) bracket discipline *)
Definition opens : list string := ["("; "["; "{"]%string.
Definition closes : list string := [")"; "]"; "}"]%string.
(* bracket depth behind the token [t], [d] in front of it: counted on OP tokens only; a closer at depth 0
   leaves the depth at 0 (the tokenizer does not complain about it) *)
Definition tok_level (d : nat) (t : token) : nat :=
  if ttype_eqb (ty t) OP then
    if existsb (String.eqb (text t)) opens then S d
    else if existsb (String.eqb (text t)) closes then Nat.pred d else d
  else d.
Definition depth_from (d : nat) (ts : list token) : nat := fold_left tok_level ts d.
Definition depth (ts : list token) : nat := depth_from 0 ts.
Definition layout_ty (t : ttype) : Prop := t = NEWLINE \/ t = INDENT \/ t = DEDENT.
Fixpoint depth_ok (d : nat) (ts : list token) : Prop :=
  match ts with
  | [] => True
  | t :: r => (layout_ty (ty t) -> d = 0) /\ depth_ok (tok_level d t) r
  end.
Lemma depth_ok_app : forall a b d, depth_ok d (a ++ b) <-> depth_ok d a /\ depth_ok (depth_from d a) b.
Proof.
  induction a as [|t a IH]; intros b d; cbn [app depth_ok depth_from fold_left]; [tauto|].
  rewrite IH. unfold depth_from. tauto.
Qed.
Lemma depth_from_app : forall a b d, depth_from d (a ++ b) = depth_from (depth_from d a) b.
Proof. intros a b d. unfold depth_from. apply fold_left_app. Qed.
Lemma depth_ok_split : forall ts pre t post, depth_ok 0 ts -> ts = pre ++ t :: post -> layout_ty (ty t) -> depth pre = 0.
Proof.
  intros ts pre t post H -> Ht. apply depth_ok_app in H. destruct H as [_ H]. cbn [depth_ok] in H.
  destruct H as [H _]. exact (H Ht).
Qed.

Lemma tok_level_other : forall d t, ty t <> OP -> tok_level d t = d.
Proof. intros d t H. unfold tok_level. destruct (ty t); try reflexivity. congruence. Qed.
Lemma tok_level_op : forall d op p, tok_level d (mk OP op p) = new_level d op.
Proof. intros d op p. reflexivity. Qed.
Lemma depth_from_repeat : forall t k d, ty t <> OP -> depth_from d (repeat t k) = d.
Proof.
  intros t k d H. induction k as [|k IH]; cbn [repeat depth_from fold_left]; [reflexivity|].
  rewrite (tok_level_other _ _ H). exact IH.
Qed.
Lemma depth_ok_repeat : forall t k, ty t <> OP -> depth_ok 0 (repeat t k).
Proof.
  intros t k H. induction k as [|k IH]; cbn [repeat depth_ok]; [exact I|].
  rewrite (tok_level_other _ _ H). split; [reflexivity | exact IH].
Qed.

Definition depth_prop (st : lstate) (o : outcome) : Prop :=
  match o with
  | Next e st' _ => depth_ok (level st) e /\ level st' = depth_from (level st) e
  | Done e => depth_ok (level st) e
  end.
Lemma Step_depth : forall imp st l o, Step imp st l o -> depth_prop st o.
Proof.
  intros imp st l o H. unfold layout_ty.
  destruct H; cbn [depth_prop depth_ok depth_from fold_left move level];
    try (cbn [ty mk mk_nl mk_empty terr_token terr_indent]; repeat split; try reflexivity;
         intros [E|[E|E]]; discriminate E).
  - (* INDENT *) repeat split; auto.
  - (* DEDENT *) rewrite H0. split; [apply depth_ok_repeat; discriminate|].
    symmetry. apply (depth_from_repeat _ _ 0). discriminate.
  - (* NAME .. *) cbn [In] in H1. rewrite tok_level_other.
    + repeat split. cbn [mk ty]. intros [E|[E|E]]; subst t; decompose [or] H1; discriminate || contradiction.
    + cbn [mk ty]. intro E. subst t. decompose [or] H1; discriminate || contradiction.
  - (* newline *) destruct (level st =? 0) eqn:E.
    + apply Nat.eqb_eq in E. repeat split; auto.
    + repeat split. cbn [mk_nl ty]. intros [E1|[E1|E1]]; discriminate E1.
Qed.

Theorem lex_chars_depth : forall l, depth_ok 0 (lex_chars l).
Proof.
  intro l.
  apply (lex_chars_ind (fun acc st _ => depth_ok 0 acc /\ level st = depth acc) (depth_ok 0) l).
  - intros acc st l0 e st' l' [H1 H2] HS. destruct (Step_depth _ _ _ _ HS) as [H3 H4].
    split.
    + apply depth_ok_app. split; [exact H1|]. fold (depth acc). rewrite <- H2. exact H3.
    + unfold depth. rewrite depth_from_app. fold (depth acc). rewrite <- H2. exact H4.
  - intros acc st l0 e [H1 H2] HS. pose proof (Step_depth _ _ _ _ HS) as H3. cbn [depth_prop] in H3.
    apply depth_ok_app. split; [exact H1|]. fold (depth acc). rewrite <- H2. exact H3.
  - split; [exact I | reflexivity].
Qed.

(* ================================================================== *)
(* 8. (d) positions are ordered; the error token carries no position and is skipped *)
Definition tstart (t : token) : pos := (srow t, scol t).
Definition tend (t : token) : pos := (erow t, ecol t).
Definition is_terr (t : token) : bool := ttype_eqb (ty t) TERR.
Definition span_ok (t : token) : Prop :=
  ple (tstart t) (tend t) /\ (text t <> EmptyString -> plt (tstart t) (tend t)).
Fixpoint ordered (p : pos) (ts : list token) : Prop :=
  match ts with
  | [] => True
  | t :: r => if is_terr t then ordered p r else ple p (tstart t) /\ span_ok t /\ ordered (tend t) r
  end.
Fixpoint end_of (p : pos) (ts : list token) : pos :=
  match ts with [] => p | t :: r => end_of (if is_terr t then p else tend t) r end.
Lemma ordered_app : forall a b p, ordered p (a ++ b) <-> ordered p a /\ ordered (end_of p a) b.
Proof.
  induction a as [|t a IH]; intros b p; cbn [app ordered end_of]; [tauto|].
  destruct (is_terr t); rewrite IH; tauto.
Qed.
Lemma end_of_app : forall a b p, end_of p (a ++ b) = end_of (end_of p a) b.
Proof. induction a as [|t a IH]; intros b p; cbn [app end_of]; [reflexivity | apply IH]. Qed.

Lemma mk_span_ok : forall t lx p, span_ok (mk t lx p).
Proof.
  intros t lx p. unfold span_ok, tstart, tend, mk. cbn [srow scol erow ecol text].
  rewrite <- !surjective_pairing. split; [apply pos_after_ple|].
  intro H. apply pos_after_plt. intro E. subst lx. apply H. reflexivity.
Qed.
Lemma mk_nl_span_ok : forall t imp r p, span_ok (mk_nl t imp r p).
Proof.
  intros t imp r p. unfold span_ok, tstart, tend, mk_nl, ple, plt. cbn [srow scol erow ecol text fst snd].
  split; [|intros _]; right; split; lia.
Qed.
Lemma mk_empty_span_ok : forall t p, span_ok (mk_empty t p).
Proof.
  intros t p. unfold span_ok, tstart, tend, mk_empty. cbn [srow scol erow ecol text].
  split; [apply ple_refl | intro H; exfalso; apply H; reflexivity].
Qed.
Lemma tstart_mk : forall t lx p, tstart (mk t lx p) = p.
Proof. intros t lx p. unfold tstart, mk. cbn [srow scol]. symmetry. apply surjective_pairing. Qed.
Lemma tend_mk : forall t lx p, tend (mk t lx p) = pos_after p lx.
Proof. intros t lx p. unfold tend, mk. cbn [erow ecol]. symmetry. apply surjective_pairing. Qed.
Lemma tstart_mk_nl : forall t imp r p, tstart (mk_nl t imp r p) = p.
Proof. intros t imp r p. unfold tstart, mk_nl. cbn [srow scol]. symmetry. apply surjective_pairing. Qed.
Lemma tend_mk_nl_le : forall t imp r p, ple (tend (mk_nl t imp r p)) (next_line p).
Proof. intros t imp r p. unfold tend, mk_nl, next_line, ple. cbn [erow ecol fst snd]. left. lia. Qed.
Lemma tstart_mk_empty : forall t p, tstart (mk_empty t p) = p.
Proof. intros t p. unfold tstart, mk_empty. cbn [srow scol]. symmetry. apply surjective_pairing. Qed.
Lemma tend_mk_empty : forall t p, tend (mk_empty t p) = p.
Proof. intros t p. unfold tend, mk_empty. cbn [erow ecol]. symmetry. apply surjective_pairing. Qed.

Lemma ordered_repeat_empty : forall t p k q, t <> TERR -> ple q p ->
  ordered q (repeat (mk_empty t p) k) /\ ple (end_of q (repeat (mk_empty t p) k)) p.
Proof.
  intros t p k q Ht. revert q. induction k as [|k IH]; intros q Hq; cbn [repeat ordered end_of]; [auto|].
  assert (E : is_terr (mk_empty t p) = false) by (unfold is_terr, mk_empty; cbn [ty]; destruct t; try reflexivity; congruence).
  rewrite E. rewrite tstart_mk_empty, tend_mk_empty.
  destruct (IH p (ple_refl p)) as [H1 H2].
  split; [split; [exact Hq | split; [apply mk_empty_span_ok | exact H1]] | exact H2].
Qed.

Definition order_prop (st : lstate) (o : outcome) : Prop :=
  forall q, ple q (lpos st) ->
  match o with
  | Next e st' _ => ordered q e /\ ple (end_of q e) (lpos st')
  | Done e => ordered q e
  end.
Lemma is_terr_mk : forall t lx p, t <> TERR -> is_terr (mk t lx p) = false.
Proof. intros t lx p H. unfold is_terr, mk. cbn [ty]. destruct t; try reflexivity. congruence. Qed.
Lemma is_terr_mk_nl : forall t imp r p, t <> TERR -> is_terr (mk_nl t imp r p) = false.
Proof. intros t imp r p H. unfold is_terr, mk_nl. cbn [ty]. destruct t; try reflexivity. congruence. Qed.

Lemma ordered_one : forall q t p', is_terr t = false -> ple q (tstart t) -> span_ok t -> ple (tend t) p' ->
  ordered q [t] /\ ple (end_of q [t]) p'.
Proof. intros q t p' E H1 H2 H3. cbn [ordered end_of]. rewrite E. auto. Qed.
Lemma ordered_two : forall q t u p', is_terr t = false -> is_terr u = false ->
  ple q (tstart t) -> span_ok t -> ple (tend t) (tstart u) -> span_ok u -> ple (tend u) p' ->
  ordered q [t; u] /\ ple (end_of q [t; u]) p'.
Proof. intros q t u p' E1 E2 H1 H2 H3 H4 H5. cbn [ordered end_of]. rewrite E1, E2. auto 6. Qed.

Lemma Step_order : forall imp st l o, Step imp st l o -> order_prop st o.
Proof.
  intros imp st l o H q Hq.
  assert (Hws : forall ws, ple q (pos_after (lpos st) ws))
    by (intro ws; eapply ple_trans; [exact Hq | apply pos_after_ple]).
  destruct H; cbn [move lpos].
  - exact I.
  - exact I.
  - apply (ordered_one q _ (pos_after (lpos st) ws)); [reflexivity | rewrite tstart_mk_empty; apply Hws
      | apply mk_empty_span_ok | rewrite tend_mk_empty; apply ple_refl].
  - apply ordered_one; [apply is_terr_mk_nl; discriminate | rewrite tstart_mk_nl; apply Hws
      | apply mk_nl_span_ok | apply tend_mk_nl_le].
  - apply ordered_two; [apply is_terr_mk; discriminate | apply is_terr_mk_nl; discriminate
      | rewrite tstart_mk; apply Hws | apply mk_span_ok | rewrite tend_mk, tstart_mk_nl; apply ple_refl
      | apply mk_nl_span_ok | apply tend_mk_nl_le].
  - apply ordered_one; [apply is_terr_mk; discriminate | rewrite tstart_mk; apply Hws
      | apply mk_span_ok | rewrite tend_mk; apply ple_refl].
  - split; [exact I | apply Hws].
  - apply ordered_one; [apply is_terr_mk; discriminate | rewrite tstart_mk; apply Hws
      | apply mk_span_ok | rewrite tend_mk; apply ple_refl].
  - apply ordered_repeat_empty; [discriminate | apply Hws].
  - assert (Ht : t <> TERR) by (intro E; subst t; cbn [In] in H1; decompose [or] H1; discriminate || contradiction).
    apply ordered_one; [apply is_terr_mk; exact Ht | rewrite tstart_mk; apply Hws
      | apply mk_span_ok | rewrite tend_mk; apply ple_refl].
  - apply ordered_one; [apply is_terr_mk; discriminate | rewrite tstart_mk; apply Hws
      | apply mk_span_ok | rewrite tend_mk; apply ple_refl].
  - assert (Ht : (if level st =? 0 then NEWLINE else NL) <> TERR) by (destruct (level st =? 0); discriminate).
    apply ordered_one; [apply is_terr_mk_nl; exact Ht | rewrite tstart_mk_nl; apply Hws
      | apply mk_nl_span_ok | apply tend_mk_nl_le].
  - split; [exact I|]. cbn [end_of]. eapply ple_trans; [apply (Hws ws) | unfold next_line, ple; left; simpl; lia].
Qed.

Theorem lex_chars_ordered : forall l, ordered (1, 0) (lex_chars l).
Proof.
  intro l.
  apply (lex_chars_ind (fun acc st _ => ordered (1, 0) acc /\ ple (end_of (1, 0) acc) (lpos st)) (ordered (1, 0)) l).
  - intros acc st l0 e st' l' [H1 H2] HS. destruct (Step_order _ _ _ _ HS _ H2) as [H3 H4].
    split; [apply ordered_app; split; assumption | rewrite end_of_app; exact H4].
  - intros acc st l0 e [H1 H2] HS. pose proof (Step_order _ _ _ _ HS _ H2) as H3. cbn in H3.
    apply ordered_app. split; assumption.
  - split; [exact I | apply ple_refl].
Qed.

(* ================================================================== *)
(* 9. (c) INDENT / DEDENT *)
(* 9.1 placement: an INDENT is the first token or follows a NEWLINE / NL; a DEDENT likewise, or follows a DEDENT *)
Definition line_start (prev : option ttype) : Prop := prev = None \/ prev = Some NEWLINE \/ prev = Some NL.
Fixpoint indents_ok (prev : option ttype) (ts : list token) : Prop :=
  match ts with
  | [] => True
  | t :: r => (ty t = INDENT -> line_start prev) /\
              (ty t = DEDENT -> line_start prev \/ prev = Some DEDENT) /\
              indents_ok (Some (ty t)) r
  end.
Definition last_ty (prev : option ttype) (ts : list token) : option ttype :=
  fold_left (fun _ t => Some (ty t)) ts prev.
Lemma indents_ok_app : forall a b prev, indents_ok prev (a ++ b) <-> indents_ok prev a /\ indents_ok (last_ty prev a) b.
Proof.
  induction a as [|t a IH]; intros b prev; cbn [app indents_ok last_ty fold_left]; [tauto|].
  rewrite IH. unfold last_ty. tauto.
Qed.
Lemma last_ty_app : forall a b prev, last_ty prev (a ++ b) = last_ty (last_ty prev a) b.
Proof. intros a b prev. unfold last_ty. apply fold_left_app. Qed.

Lemma indents_ok_one : forall prev t, ty t <> INDENT -> ty t <> DEDENT -> indents_ok prev [t].
Proof. intros prev t H1 H2. cbn [indents_ok]. repeat split; intro; contradiction. Qed.
Lemma indents_ok_dedents : forall t k prev, ty t = DEDENT -> line_start prev \/ prev = Some DEDENT ->
  indents_ok prev (repeat t k).
Proof.
  intros t k prev Ht. revert prev. induction k as [|k IH]; intros prev Hp; cbn [repeat indents_ok]; [exact I|].
  split; [intro E; congruence|]. split; [intros _; exact Hp|]. apply IH. right. rewrite Ht. reflexivity.
Qed.

Definition indent_prop (st : lstate) (o : outcome) : Prop :=
  forall prev, (atbol st = true -> line_start prev) ->
  match o with
  | Next e st' _ => indents_ok prev e /\ (atbol st' = true -> line_start (last_ty prev e))
  | Done e => indents_ok prev e
  end.
Lemma Step_indent : forall imp st l o, Step imp st l o -> indent_prop st o.
Proof.
  intros imp st l o H prev Hp. unfold line_start.
  destruct H; cbn [move atbol last_ty fold_left];
    try (split; [apply indents_ok_one; cbn [ty mk mk_nl]; discriminate | intros; try discriminate; auto]);
    try (apply indents_ok_one; cbn [ty mk_empty terr_token terr_indent]; discriminate).
  - (* comment line *) split; [|auto]. cbn [indents_ok mk mk_nl ty]. repeat split; intro; discriminate.
  - (* nothing *) split; [exact I | intro; discriminate].
  - (* INDENT *) split; [|intro; discriminate]. cbn [indents_ok mk ty]. repeat split; [auto | intro; discriminate].
  - (* DEDENT *) split; [|intro; discriminate]. apply indents_ok_dedents; [reflexivity | left; auto].
  - (* NAME .. *) split; [|intro; discriminate].
    apply indents_ok_one; cbn [mk ty]; intro E; subst t; cbn [In] in H1; decompose [or] H1; discriminate || contradiction.
  - (* newline *) split.
    + apply indents_ok_one; cbn [mk_nl ty]; destruct (level st =? 0); discriminate.
    + intros _. cbn [mk_nl ty]. destruct (level st =? 0); auto.
  - (* continuation *) split; [exact I | intro; discriminate].
Qed.

Theorem lex_chars_indents : forall l, indents_ok None (lex_chars l).
Proof.
  intro l.
  apply (lex_chars_ind (fun acc st _ => indents_ok None acc /\ (atbol st = true -> line_start (last_ty None acc)))
           (indents_ok None) l).
  - intros acc st l0 e st' l' [H1 H2] HS. destruct (Step_indent _ _ _ _ HS _ H2) as [H3 H4].
    split; [apply indents_ok_app; split; assumption | rewrite last_ty_app; exact H4].
  - intros acc st l0 e [H1 H2] HS. pose proof (Step_indent _ _ _ _ HS _ H2) as H3. cbn in H3.
    apply indents_ok_app. split; assumption.
  - split; [exact I | intros _; left; reflexivity].
Qed.

(* 9.2 counts: in error-free output every INDENT has its DEDENT *)
Definition count_ty (k : ttype) (ts : list token) : nat :=
  List.length (filter (fun t => ttype_eqb (ty t) k) ts).
Lemma count_ty_app : forall k a b, count_ty k (a ++ b) = count_ty k a + count_ty k b.
Proof. intros k a b. unfold count_ty. rewrite filter_app, app_length. reflexivity. Qed.
Lemma count_ty_repeat : forall k t n, count_ty k (repeat t n) = if ttype_eqb (ty t) k then n else 0.
Proof.
  intros k t n. unfold count_ty. induction n as [|n IH]; cbn [repeat filter].
  - destruct (ttype_eqb (ty t) k); reflexivity.
  - destruct (ttype_eqb (ty t) k); cbn [List.length]; rewrite IH; reflexivity.
Qed.

(* the text ends with a newline (normalisation), and so does every suffix that is still to be read *)
Definition ends_nl (l : chars) : Prop := l = [] \/ exists l0, l = l0 ++ [nl].
Lemma ends_nl_suffix : forall c l, ends_nl (c ++ l) -> ends_nl l.
Proof.
  intros c l [H|[l0 H]].
  - left. apply app_eq_nil in H. tauto.
  - destruct l as [|x l' _] using rev_ind; [left; reflexivity|]. right.
    rewrite app_assoc in H. apply app_inj_tail in H. destruct H as [_ ->]. exists l'. reflexivity.
Qed.
Lemma ends_nl_last : forall a x, ends_nl (a ++ [x]) -> x = nl.
Proof.
  intros a x [H|[l0 H]]; [destruct a; discriminate|]. apply app_inj_tail in H. tauto.
Qed.
Lemma ends_nl_normalize : forall l, ends_nl (normalize l).
Proof.
  intro l. unfold normalize, needs_nl. destruct l as [|c r]; [left; reflexivity|].
  destruct (Ascii.eqb (last (c :: r) nl) nl) eqn:E; cbn [negb].
  - right. exists (removelast (c :: r)). apply Ascii.eqb_eq in E.
    rewrite <- E. apply app_removelast_last. discriminate.
  - right. eexists. reflexivity.
Qed.
(* lexemes do not end with a newline *)
Lemma Forall_nonl_last : forall a x, Forall nonl (a ++ [x]) -> x <> nl.
Proof. intros a x H. apply Forall_app in H. destruct H as [_ H]. exact (Forall_inv H). Qed.
Lemma lexeme_not_nl_last : forall t lx, lexeme_ok t lx -> forall a, lx <> a ++ [nl].
Proof.
  intros t lx H a E. subst lx. destruct t; cbn [lexeme_ok] in H; try contradiction.
  - destruct H as [c [r [E [Hc Hr]]]]. destruct a as [|x a]; cbn [app] in E; injection E as Ec Er.
    + subst c. vm_compute in Hc. discriminate.
    + subst r. apply Forall_app in Hr. destruct Hr as [_ Hr]. apply Forall_inv in Hr. vm_compute in Hr. discriminate.
  - destruct H as [H _]. exact (Forall_nonl_last _ _ H eq_refl).
  - destruct H as [pfx [q [body [E [Hq _]]]]].
    change (pfx ++ q :: body ++ [q]) with (pfx ++ (q :: body) ++ [q]) in E. rewrite app_assoc in E.
    apply app_inj_tail in E. destruct E as [_ <-]. vm_compute in Hq. discriminate.
  - destruct H as [_ H]. exact (Forall_nonl_last _ _ H eq_refl).
Qed.
Definition no_nl_string (s : string) : bool := forallb not_nl (list_ascii_of_string s).
Lemma op_table_no_nl : forall s, In s op_table -> no_nl_string s = true.
Proof.
  assert (H : forallb no_nl_string op_table = true) by (vm_compute; reflexivity).
  intros s Hs. rewrite forallb_forall in H. exact (H s Hs).
Qed.
Lemma op_not_nl_last : forall op, In (string_of_list_ascii op) op_table -> forall a, op <> a ++ [nl].
Proof.
  intros op H a E. apply op_table_no_nl in H. unfold no_nl_string in H.
  rewrite list_ascii_of_string_of_list_ascii in H. subst op. rewrite forallb_app in H.
  apply andb_true_iff in H. destruct H as [_ H]. vm_compute in H. discriminate.
Qed.
Lemma spaces_ends_nl : forall ws, spaces ws -> ends_nl ws -> ws = [].
Proof.
  intros ws Hs [H|[l0 ->]]; [exact H|]. apply Forall_app in Hs. destruct Hs as [_ Hs].
  apply Forall_inv in Hs. vm_compute in Hs. discriminate.
Qed.

Definition closed_at_end (st : lstate) (l : chars) : Prop :=
  atbol st = false -> l = [] -> level st = 0 -> stack st = [].
Definition count_prop (st : lstate) (l : chars) (o : outcome) : Prop :=
  ends_nl l -> closed_at_end st l ->
  match o with
  | Next e st' l' =>
      count_ty INDENT e + List.length (stack st) = count_ty DEDENT e + List.length (stack st') /\ closed_at_end st' l'
  | Done e => forall t, e = [t] -> ty t = ENDMARKER -> stack st = []
  end.
Lemma Step_count : forall imp st l o, Step imp st l o -> count_prop st l o.
Proof.
  intros imp st l o H Hnl Hc. unfold closed_at_end.
  assert (Hlast : forall ws lx, l = ws ++ lx ++ [] -> (forall a, lx <> a ++ [nl]) -> lx <> [] -> False).
  { intros ws lx E Hl Hne. rewrite app_nil_r in E. subst l.
    destruct lx as [|x lx' _] using rev_ind; [congruence|].
    rewrite app_assoc in Hnl. apply ends_nl_last in Hnl. subst x. exact (Hl lx' eq_refl). }
  destruct H; cbn [move atbol stack level]; unfold count_ty; cbn [filter mk mk_nl mk_empty ty ttype_eqb List.length].
  - intros t E. injection E as <-. discriminate.
  - intros t E. injection E as <-. discriminate.
  - intros t _ _. subst l. rewrite (spaces_ends_nl _ H1 Hnl) in *. apply Hc; auto.
  - split; [reflexivity | intro; discriminate].
  - split; [reflexivity | intro; discriminate].
  - split; [reflexivity|]. intros _ _ _. exfalso. apply (Hlast ws cm).
    + rewrite app_nil_r. exact H0.
    + exact (lexeme_not_nl_last _ _ H1).
    + exact (lexeme_nonempty _ _ H1).
  - split; [reflexivity|]. intros _ E Hl. exfalso. exact (H1 E Hl).
  - split; [cbn [List.length]; lia|]. intros _ E. contradiction.
  - fold (count_ty INDENT (repeat (mk_empty DEDENT (pos_after (lpos st) ws)) (List.length popped))).
    fold (count_ty DEDENT (repeat (mk_empty DEDENT (pos_after (lpos st) ws)) (List.length popped))).
    rewrite !count_ty_repeat. cbn [mk_empty ty ttype_eqb]. rewrite H2, app_length. split; [lia|].
    intros _ E _. exact (H3 E).
  - assert (E1 : ttype_eqb t INDENT = false /\ ttype_eqb t DEDENT = false)
      by (cbn [In] in H1; decompose [or] H1; try contradiction; subst t; split; reflexivity).
    destruct E1 as [-> ->]. split; [reflexivity|]. intros _ E _. exfalso. subst rest.
    exact (Hlast ws lx H0 (lexeme_not_nl_last _ _ H2) (lexeme_nonempty _ _ H2)).
  - split; [reflexivity|]. intros _ E _. exfalso. subst rest.
    exact (Hlast ws op H0 (op_not_nl_last _ H2) H1).
  - destruct (level st =? 0); (split; [reflexivity | intro; discriminate]).
  - split; [reflexivity|]. intros _ E. discriminate.
Qed.

Definition balanced (ts : list token) : Prop :=
  forall front e, ts = front ++ [e] -> ty e = ENDMARKER -> count_ty INDENT front = count_ty DEDENT front.
Lemma count_final : forall k t, final_tok t -> k = INDENT \/ k = DEDENT -> count_ty k [t] = 0.
Proof.
  intros k t [[H _]|[->|[n ->]]] Hk; unfold count_ty; cbn [filter]; try rewrite H;
    destruct Hk as [-> | ->]; reflexivity.
Qed.
Theorem lex_chars_balanced_le : forall l,
  balanced (lex_chars l) /\ count_ty DEDENT (lex_chars l) <= count_ty INDENT (lex_chars l).
Proof.
  intro l.
  apply (lex_chars_ind
           (fun acc st l0 => count_ty INDENT acc = count_ty DEDENT acc + List.length (stack st) /\
                             ends_nl l0 /\ closed_at_end st l0)
           (fun ts => balanced ts /\ count_ty DEDENT ts <= count_ty INDENT ts) l).
  - intros acc st l0 e st' l' [H1 [H2 H3]] HS. destruct (Step_count _ _ _ _ HS H2 H3) as [H4 H5].
    destruct (Step_consumed _ _ _ _ _ _ HS) as [c [E _]].
    split; [rewrite !count_ty_app; lia|]. split; [|exact H5]. rewrite E in H2. exact (ends_nl_suffix _ _ H2).
  - intros acc st l0 e [H1 [H2 H3]] HS.
    pose proof (Step_count _ _ _ _ HS H2 H3) as H4. cbn in H4.
    destruct (Step_types _ _ _ _ HS) as [t0 [-> Hf]]. split.
    + intros front t E Ht. apply app_inj_tail in E. destruct E as [<- <-].
      rewrite (H4 t0 eq_refl Ht) in H1. cbn [List.length] in H1. lia.
    + rewrite !count_ty_app, !(count_final _ _ Hf) by auto. lia.
  - split; [reflexivity|]. split; [apply ends_nl_normalize | intro; discriminate].
Qed.
Theorem lex_chars_balanced : forall l, balanced (lex_chars l).
Proof. intro l. exact (proj1 (lex_chars_balanced_le l)). Qed.

(* ================================================================== *)
(* 10. (e) token texts are the slices of the (normalised) text at the token positions *)
Definition pos_ltb (p q : pos) : bool := (fst p <? fst q) || ((fst p =? fst q) && (snd p <? snd q)).
Lemma pos_ltb_plt : forall p q, pos_ltb p q = true <-> plt p q.
Proof.
  intros p q. unfold pos_ltb, plt. rewrite orb_true_iff, andb_true_iff, !Nat.ltb_lt, Nat.eqb_eq. tauto.
Qed.
Lemma pos_ltb_irrefl : forall p, pos_ltb p p = false.
Proof.
  intro p. destruct (pos_ltb p p) eqn:E; [|reflexivity]. apply pos_ltb_plt in E. unfold plt in E. lia.
Qed.
(* the characters from position [target] on / up to position [target], walking from position [p] *)
Fixpoint skip_to (p target : pos) (l : chars) : chars :=
  match l with
  | [] => []
  | c :: r => if pos_ltb p target then skip_to (adv p c) target r else l
  end.
Fixpoint take_to (p target : pos) (l : chars) : chars :=
  match l with
  | [] => []
  | c :: r => if pos_ltb p target then c :: take_to (adv p c) target r else []
  end.
Definition slice_chars (l : chars) (sr sc er ec : nat) : chars :=
  take_to (sr, sc) (er, ec) (skip_to (1, 0) (sr, sc) l).
(* text[srow:scol .. erow:ecol] with 1-based rows and 0-based columns *)
Definition slice (s : string) (sr sc er ec : nat) : string :=
  string_of_list_ascii (slice_chars (list_ascii_of_string s) sr sc er ec).
Definition norm_text (s : string) : string := string_of_list_ascii (normalize (list_ascii_of_string s)).

Lemma skip_to_exact : forall a b p, skip_to p (pos_after p a) (a ++ b) = b.
Proof.
  induction a as [|c a IH]; intros b p; cbn [app pos_after].
  - destruct b as [|x b]; cbn [skip_to]; [reflexivity | rewrite pos_ltb_irrefl; reflexivity].
  - cbn [skip_to].
    assert (H : pos_ltb p (pos_after (adv p c) a) = true).
    { apply pos_ltb_plt. eapply plt_ple_trans; [apply adv_plt | apply pos_after_ple]. }
    rewrite H. apply IH.
Qed.
Lemma take_to_exact : forall a b p, take_to p (pos_after p a) (a ++ b) = a.
Proof.
  induction a as [|c a IH]; intros b p; cbn [app pos_after].
  - destruct b as [|x b]; cbn [take_to]; [reflexivity | rewrite pos_ltb_irrefl; reflexivity].
  - cbn [take_to].
    assert (H : pos_ltb p (pos_after (adv p c) a) = true).
    { apply pos_ltb_plt. eapply plt_ple_trans; [apply adv_plt | apply pos_after_ple]. }
    rewrite H. f_equal. apply IH.
Qed.
Lemma take_to_newline : forall b p, take_to p (fst p, S (snd p)) (nl :: b) = [nl].
Proof.
  intros b p. cbn [take_to].
  assert (H : pos_ltb p (fst p, S (snd p)) = true) by (apply pos_ltb_plt; unfold plt; cbn [fst snd]; lia).
  rewrite H. f_equal. destruct b as [|x b]; cbn [take_to]; [reflexivity|].
  assert (H2 : pos_ltb (adv p nl) (fst p, S (snd p)) = false).
  { destruct (pos_ltb (adv p nl) (fst p, S (snd p))) eqn:E; [|reflexivity].
    apply pos_ltb_plt in E. unfold adv, plt in E. rewrite Ascii.eqb_refl in E. cbn [fst snd] in E. lia. }
  rewrite H2. reflexivity.
Qed.

(* [strict]: something of the text is left behind the token (used for the newline added by normalisation) *)
Definition located_in (strict : bool) (input : chars) (t : token) : Prop :=
  exists a b c, input = a ++ b ++ c /\ tstart t = pos_after (1, 0) a /\ text t = string_of_list_ascii b /\
    (tend t = pos_after (tstart t) b \/ (b = [nl] /\ tend t = (fst (tstart t), S (snd (tstart t))))) /\
    (strict = true -> c <> []).
Definition located := located_in false.
Lemma located_slice : forall input t, located input t ->
  slice_chars input (srow t) (scol t) (erow t) (ecol t) = list_ascii_of_string (text t).
Proof.
  intros input t [a [b [c [-> [Hs [Ht [He _]]]]]]]. unfold slice_chars.
  change (srow t, scol t) with (tstart t). change (erow t, ecol t) with (tend t).
  rewrite Hs in *. rewrite skip_to_exact. rewrite Ht, list_ascii_of_string_of_list_ascii.
  destruct He as [-> | [-> ->]]; [apply take_to_exact|].
  cbn [app]. apply take_to_newline.
Qed.
Lemma located_in_weaken : forall strict input t, located_in strict input t -> located input t.
Proof.
  intros strict input t [a [b [c [H1 [H2 [H3 [H4 _]]]]]]]. exists a, b, c. repeat split; try assumption. discriminate.
Qed.
(* a token located strictly inside [l0 ++ [x]] is located in [l0] *)
Lemma located_strict_init : forall l0 x t, located_in true (l0 ++ [x]) t -> located l0 t.
Proof.
  intros l0 x t [a [b [c [H1 [H2 [H3 [H4 H5]]]]]]]. specialize (H5 eq_refl).
  destruct c as [|y c' _] using rev_ind; [congruence|].
  rewrite !app_assoc in H1. apply app_inj_tail in H1. destruct H1 as [H1 _].
  exists a, b, c'. rewrite <- app_assoc in H1. repeat split; try assumption. discriminate.
Qed.

Definition sliced_in (strict : bool) (input : chars) (t : token) : Prop :=
  ty t = TERR \/ text t = EmptyString \/ located_in strict input t.
Definition sliced := sliced_in false.
Definition slice_prop (imp : bool) (st : lstate) (l : chars) (o : outcome) : Prop :=
  forall pre, lpos st = pos_after (1, 0) pre -> ends_nl l ->
  Forall (sliced_in imp (pre ++ l)) (match o with Next e _ _ => e | Done e => e end).
Lemma located_mk : forall strict pre ws lx rest t, rest <> [] ->
  located_in strict (pre ++ ws ++ lx ++ rest) (mk t lx (pos_after (pos_after (1, 0) pre) ws)).
Proof.
  intros strict pre ws lx rest t Hr. exists (pre ++ ws), lx, rest. rewrite tstart_mk, tend_mk.
  repeat split; [rewrite <- app_assoc; reflexivity | rewrite pos_after_app; reflexivity | left; reflexivity | auto].
Qed.
Lemma sliced_mk_nl : forall pre ws r t imp,
  sliced_in imp (pre ++ ws ++ nl :: r) (mk_nl t imp r (pos_after (pos_after (1, 0) pre) ws)).
Proof.
  intros pre ws r t imp. unfold sliced_in.
  destruct (imp && match r with [] => true | _ => false end) eqn:E.
  - right. left. unfold mk_nl. cbn [text]. rewrite E. reflexivity.
  - right. right. exists (pre ++ ws), [nl], r. rewrite tstart_mk_nl.
    repeat split; [rewrite <- app_assoc; reflexivity | rewrite pos_after_app; reflexivity
                  | unfold mk_nl; cbn [text]; rewrite E; reflexivity | right; split; reflexivity |].
    intros ->. cbn [andb] in E. destruct r; [discriminate | discriminate].
Qed.
Lemma rest_nonempty : forall ws lx rest, ends_nl (ws ++ lx ++ rest) -> lx <> [] -> (forall a, lx <> a ++ [nl]) -> rest <> [].
Proof.
  intros ws lx rest Hnl Hne Hl ->. rewrite app_nil_r in Hnl.
  destruct lx as [|x lx' _] using rev_ind; [congruence|].
  rewrite app_assoc in Hnl. apply ends_nl_last in Hnl. subst x. exact (Hl lx' eq_refl).
Qed.
Lemma Step_slice : forall imp st l o, Step imp st l o -> slice_prop imp st l o.
Proof.
  intros imp st l o H pre Hp Hnl.
  destruct H; rewrite ?Hp; try subst l; repeat (apply Forall_cons || apply Forall_nil).
  - left. reflexivity.
  - left. reflexivity.
  - right. left. reflexivity.
  - apply sliced_mk_nl.
  - right. right. apply (located_mk imp pre ws cm (nl :: r)). discriminate.
  - rewrite <- pos_after_app. rewrite (app_assoc ws cm). apply sliced_mk_nl.
  - exfalso. rewrite <- (app_nil_r cm) in Hnl.
    exact (rest_nonempty ws cm [] Hnl (lexeme_nonempty _ _ H1) (lexeme_not_nl_last _ _ H1) eq_refl).
  - right. right. apply located_mk. assumption.
  - apply Forall_repeat. right. left. reflexivity.
  - right. right. apply located_mk.
    exact (rest_nonempty ws lx rest Hnl (lexeme_nonempty _ _ H2) (lexeme_not_nl_last _ _ H2)).
  - right. right. apply located_mk.
    exact (rest_nonempty ws op rest Hnl H1 (op_not_nl_last _ H2)).
  - apply sliced_mk_nl.
Qed.

Lemma sliced_in_weaken : forall strict input t, sliced_in strict input t -> sliced input t.
Proof.
  intros strict input t [H|[H|H]]; [left; exact H | right; left; exact H | right; right].
  exact (located_in_weaken _ _ _ H).
Qed.

Theorem lex_chars_sliced_norm : forall l, Forall (sliced_in (needs_nl l) (normalize l)) (lex_chars l).
Proof.
  intro l.
  apply (lex_chars_ind (fun acc st l0 => (exists pre, normalize l = pre ++ l0 /\ lpos st = pos_after (1, 0) pre) /\
                                         ends_nl l0 /\ Forall (sliced_in (needs_nl l) (normalize l)) acc)
                       (Forall (sliced_in (needs_nl l) (normalize l))) l).
  - intros acc st l0 e st' l' [[pre [E Hp]] [Hnl HF]] HS.
    destruct (Step_consumed _ _ _ _ _ _ HS) as [c [El [Hp' _]]]. split; [|split].
    + exists (pre ++ c). split.
      * rewrite E, El, app_assoc. reflexivity.
      * rewrite Hp', Hp, pos_after_app. reflexivity.
    + rewrite El in Hnl. exact (ends_nl_suffix _ _ Hnl).
    + apply Forall_app. split; [exact HF|]. rewrite E. exact (Step_slice _ _ _ _ HS pre Hp Hnl).
  - intros acc st l0 e [[pre [E Hp]] [Hnl HF]] HS. apply Forall_app. split; [exact HF|].
    rewrite E. exact (Step_slice _ _ _ _ HS pre Hp Hnl).
  - split; [exists []; split; reflexivity|]. split; [apply ends_nl_normalize | constructor].
Qed.

(* on the text as given: the newline added by normalisation belongs to no token with a text *)
Theorem lex_chars_sliced : forall l, Forall (sliced l) (lex_chars l).
Proof.
  intro l. pose proof (lex_chars_sliced_norm l) as H. unfold normalize in H.
  destruct (needs_nl l) eqn:E.
  - eapply Forall_impl; [|exact H]. intros t [Ht|[Ht|Ht]]; [left; exact Ht | right; left; exact Ht | right; right].
    exact (located_strict_init _ _ _ Ht).
  - eapply Forall_impl; [|exact H]. intros t Ht. exact (sliced_in_weaken _ _ _ Ht).
Qed.

(* ================================================================== *)
(* 11. the statements of Props/Lexer.v, about [lex] on supported texts *)
Lemma ttype_eqb_true : forall a b, ttype_eqb a b = true -> a = b.
Proof. intros a b H. destruct a, b; try discriminate H; reflexivity. Qed.
Section UserLevel.
Variables (s : string) (ts : list token).
Hypothesis Hlex : lex s = Some ts.
Let l := list_ascii_of_string s.
Lemma lex_is : ts = lex_chars l.
Proof. destruct (lex_some _ _ Hlex) as [_ H]. exact H. Qed.

(* (a) *)
Lemma lex_shape : exists front last, ts = front ++ [last] /\
  Forall (fun t => In (ty t) [NAME; NUMBER; STRING; OP; NEWLINE; NL; COMMENT; INDENT; DEDENT]) front /\
  ((ty last = ENDMARKER /\ text last = EmptyString) \/ last = terr_token \/ exists n, last = terr_indent n).
Proof. rewrite lex_is. exact (lex_chars_shape l). Qed.
Lemma lex_one_endmarker : forall pre t post, ts = pre ++ t :: post -> ty t = ENDMARKER \/ ty t = TERR -> post = [].
Proof.
  intros pre t post E Ht. destruct lex_shape as [front [last [E2 [Hf _]]]]. rewrite E2 in E.
  destruct post as [|u post' _] using rev_ind; [reflexivity|]. exfalso.
  change (pre ++ t :: post' ++ [u]) with (pre ++ (t :: post') ++ [u]) in E. rewrite app_assoc in E.
  apply app_inj_tail in E. destruct E as [-> _]. apply Forall_app in Hf. destruct Hf as [_ Hf].
  apply Forall_inv in Hf. cbn [In] in Hf. destruct Ht as [Ht|Ht]; rewrite Ht in Hf; decompose [or] Hf; discriminate || contradiction.
Qed.

(* (b) *)
Lemma lex_layout_depth0 : forall pre t post, ts = pre ++ t :: post ->
  ty t = NEWLINE \/ ty t = INDENT \/ ty t = DEDENT -> depth pre = 0.
Proof. intros pre t post E Ht. apply (depth_ok_split ts pre t post); [rewrite lex_is; apply lex_chars_depth | exact E | exact Ht]. Qed.
Lemma lex_nl_in_brackets : forall pre t post, ts = pre ++ t :: post ->
  ty t = NEWLINE \/ ty t = NL -> 0 < depth pre -> ty t = NL.
Proof.
  intros pre t post E [Ht|Ht] Hd; [|exact Ht]. pose proof (lex_layout_depth0 pre t post E (or_introl Ht)). lia.
Qed.

(* (c) *)
Lemma last_ty_snoc : forall prev a u, last_ty prev (a ++ [u]) = Some (ty u).
Proof. intros prev a u. rewrite last_ty_app. reflexivity. Qed.
Lemma lex_indent_placement : forall pre t post, ts = pre ++ t :: post -> ty t = INDENT \/ ty t = DEDENT ->
  pre = [] \/ exists pre' u, pre = pre' ++ [u] /\ (ty u = NEWLINE \/ ty u = NL \/ (ty t = DEDENT /\ ty u = DEDENT)).
Proof.
  intros pre t post E Ht. pose proof (lex_chars_indents l) as H. rewrite <- lex_is, E in H.
  apply indents_ok_app in H. destruct H as [_ H]. cbn [indents_ok] in H. destruct H as [H1 [H2 _]].
  destruct pre as [|u pre' _] using rev_ind; [left; reflexivity|]. right. exists pre', u. split; [reflexivity|].
  rewrite last_ty_snoc in H1, H2. unfold line_start in *.
  destruct Ht as [Ht|Ht].
  - destruct (H1 Ht) as [H|[H|H]]; [discriminate | injection H as H; auto | injection H as H; auto].
  - destruct (H2 Ht) as [[H|[H|H]]|H]; [discriminate | injection H as H; auto | injection H as H; auto | injection H as H; auto].
Qed.
Lemma lex_balanced : forall front e, ts = front ++ [e] -> ty e = ENDMARKER -> count_ty INDENT front = count_ty DEDENT front.
Proof. rewrite lex_is. exact (lex_chars_balanced l). Qed.
Lemma lex_dedent_le : count_ty DEDENT ts <= count_ty INDENT ts.
Proof. rewrite lex_is. exact (proj2 (lex_chars_balanced_le l)). Qed.

(* (d) *)
Lemma lex_ordered : ordered (1, 0) ts.
Proof. rewrite lex_is. exact (lex_chars_ordered l). Qed.
Lemma ordered_mid : forall pre rest p, ordered p (pre ++ rest) -> exists q, ordered q rest.
Proof. intros pre rest p H. apply ordered_app in H. eexists. exact (proj2 H). Qed.
Lemma lex_token_span : forall t, In t ts -> ty t <> TERR ->
  srow t <= erow t /\ (srow t = erow t -> scol t <= ecol t) /\
  (text t <> EmptyString -> srow t = erow t -> scol t < ecol t).
Proof.
  intros t Hin Ht. apply in_split in Hin. destruct Hin as [pre [post E]].
  pose proof lex_ordered as H. rewrite E in H. destruct (ordered_mid _ _ _ H) as [q Hq]. cbn [ordered] in Hq.
  assert (Et : is_terr t = false) by (unfold is_terr; destruct (ty t); try reflexivity; congruence).
  rewrite Et in Hq. destruct Hq as [_ [[H1 H2] _]]. unfold ple, plt, tstart, tend in *. cbn [fst snd] in *.
  repeat split; try lia. intros Hx. specialize (H2 Hx). lia.
Qed.
Lemma lex_adjacent : forall pre a b post, ts = pre ++ a :: b :: post -> ty b <> TERR ->
  erow a <= srow b /\ (erow a = srow b -> ecol a <= scol b) /\ srow a <= srow b.
Proof.
  intros pre a b post E Hb. pose proof lex_ordered as H. rewrite E in H.
  destruct (ordered_mid _ _ _ H) as [q Hq]. cbn [ordered] in Hq.
  assert (Ea : is_terr a = false).
  { destruct (ttype_eqb (ty a) TERR) eqn:Ea; [|exact Ea]. apply ttype_eqb_true in Ea.
    pose proof (lex_one_endmarker pre a (b :: post) E (or_intror Ea)). discriminate. }
  assert (Eb : is_terr b = false) by (unfold is_terr; destruct (ty b); try reflexivity; congruence).
  rewrite Ea, Eb in Hq. destruct Hq as [_ [[H1 _] [H2 _]]]. unfold ple, tstart, tend in *. cbn [fst snd] in *. lia.
Qed.

(* (e) *)
Lemma lex_lossless : forall t, In t ts -> ty t <> TERR -> text t <> EmptyString ->
  slice s (srow t) (scol t) (erow t) (ecol t) = text t.
Proof.
  intros t Hin Ht Hx. pose proof (lex_chars_sliced l) as H. rewrite <- lex_is in H. rewrite Forall_forall in H.
  destruct (H t Hin) as [H1|[H1|H1]]; [contradiction | contradiction|].
  unfold slice. fold l. rewrite (located_slice _ _ H1). apply string_of_list_ascii_of_string.
Qed.

(* (f) *)
Lemma lex_kind : forall t, In t ts -> kind_ok t.
Proof. pose proof (lex_chars_kinds l) as H. rewrite <- lex_is in H. rewrite Forall_forall in H. exact H. Qed.
End UserLevel.

Lemma string_of_app : forall a b, string_of_list_ascii (a ++ b) = (string_of_list_ascii a ++ string_of_list_ascii b)%string.
Proof. induction a as [|c a IH]; intro b; cbn [app string_of_list_ascii String.append]; [reflexivity | rewrite IH; reflexivity]. Qed.
Lemma all_chars_of_list : forall p r, Forall (fun x => p x = true) r -> all_chars p (string_of_list_ascii r) = true.
Proof.
  intros p r H. induction H as [|x r Hx _ IH]; cbn [string_of_list_ascii all_chars]; [reflexivity|].
  rewrite Hx, IH. reflexivity.
Qed.

Section Kinds.
Variables (s : string) (ts : list token).
Hypothesis Hlex : lex s = Some ts.
Lemma lex_name : forall t, In t ts -> ty t = NAME -> is_identifier (text t) = true.
Proof.
  intros t Hin Ht. pose proof (lex_kind s ts Hlex t Hin) as H. unfold kind_ok in H. rewrite Ht in H.
  destruct H as [lx [-> [c [r [-> [Hc Hr]]]]]]. cbn [string_of_list_ascii is_identifier].
  rewrite Hc, (all_chars_of_list _ _ Hr). reflexivity.
Qed.
Lemma lex_op : forall t, In t ts -> ty t = OP -> In (text t) op_table.
Proof.
  intros t Hin Ht. pose proof (lex_kind s ts Hlex t Hin) as H. unfold kind_ok in H. rewrite Ht in H. tauto.
Qed.
Lemma lex_comment : forall t, In t ts -> ty t = COMMENT ->
  exists r, text t = String "#" r /\ all_chars not_nl r = true.
Proof.
  intros t Hin Ht. pose proof (lex_kind s ts Hlex t Hin) as H. unfold kind_ok in H. rewrite Ht in H.
  destruct H as [lx [-> [[r ->] Hn]]]. exists (string_of_list_ascii r). split; [reflexivity|].
  apply all_chars_of_list. apply Forall_inv_tail in Hn. eapply Forall_impl; [|exact Hn].
  intros x Hx. unfold not_nl. apply negb_true_iff. apply Ascii.eqb_neq. exact Hx.
Qed.
Lemma lex_string : forall t, In t ts -> ty t = STRING ->
  exists pfx q body, text t = (pfx ++ String q (body ++ String q EmptyString))%string /\
    (q = "'" \/ q = """") /\ String.length pfx <= 2 /\ all_chars is_alpha_ pfx = true.
Proof.
  intros t Hin Ht. pose proof (lex_kind s ts Hlex t Hin) as H. unfold kind_ok in H. rewrite Ht in H.
  destruct H as [lx [-> [pfx [q [body [-> [Hq [Hp Hl]]]]]]]].
  exists (string_of_list_ascii pfx), q, (string_of_list_ascii body).
  rewrite string_of_app. cbn [string_of_list_ascii]. rewrite string_of_app. cbn [string_of_list_ascii].
  split; [reflexivity|]. split; [|split].
  - unfold is_quote in Hq. apply orb_true_iff in Hq. destruct Hq as [Hq|Hq]; apply Ascii.eqb_eq in Hq; auto.
  - clear - Hl. revert Hl. generalize 2. induction pfx as [|c pfx IH]; intros n Hl; cbn in *; [lia|].
    destruct n; [lia|]. apply le_n_S. apply IH. lia.
  - apply all_chars_of_list. exact Hp.
Qed.
Lemma lex_number : forall t, In t ts -> ty t = NUMBER ->
  exists c r, text t = String c r /\ (is_digit c = true \/ c = ".") /\ all_chars not_nl r = true.
Proof.
  intros t Hin Ht. pose proof (lex_kind s ts Hlex t Hin) as H. unfold kind_ok in H. rewrite Ht in H.
  destruct H as [lx [-> [Hn [c [r [-> Hc]]]]]]. exists c, (string_of_list_ascii r). repeat split; [exact Hc|].
  apply all_chars_of_list. apply Forall_inv_tail in Hn. eapply Forall_impl; [|exact Hn].
  intros x Hx. unfold not_nl. apply negb_true_iff. apply Ascii.eqb_neq. exact Hx.
Qed.
Lemma lex_layout_text : forall t, In t ts ->
  (ty t = INDENT -> all_chars is_space (text t) = true) /\
  (ty t = DEDENT \/ ty t = ENDMARKER -> text t = EmptyString) /\
  (ty t = NEWLINE \/ ty t = NL -> text t = String nl EmptyString \/ text t = EmptyString).
Proof.
  intros t Hin. pose proof (lex_kind s ts Hlex t Hin) as H. unfold kind_ok in H. repeat split.
  - intro Ht. rewrite Ht in H. destruct H as [sp [-> Hs]]. apply all_chars_of_list. exact Hs.
  - intros [Ht|Ht]; rewrite Ht in H; exact H.
  - intros [Ht|Ht]; rewrite Ht in H; exact H.
Qed.
End Kinds.
