(* C03: statements rendered as token lists (Model/ParserSpec2.v) are recovered exactly by
   parse_statement / parse_all, whatever trivia precedes them and however the value is laid out. *)
From Coq Require Import List String ZArith Bool Arith Lia Ascii.
From GinV Require Import Lib.Out Lib.PyStr Model.Parser Model.ParserSpec Model.ParserSpec2
                         Proofs.ParserSmall Proofs.ParserLemmas Proofs.ParserProofs.
Import ListNotations.
Open Scope string_scope.
Open Scope list_scope.

(* ------------------------------------------------------------------ *)
(* the alternation predicate of wf_name, named *)
Fixpoint alt_ok (l : list string) (is_name : bool) : Prop :=
  match l with
  | [] => is_name = false
  | p :: r => (if is_name then is_identifier p = true else (p = "/" \/ p = ".")) /\ alt_ok r (negb is_name)
  end.

Lemma wf_name_alt : forall parts, wf_name parts ->
  parts <> [] /\ selector_format_ok true false (name_text parts) = true /\ alt_ok parts true.
Proof. intros parts [H1 [H2 H3]]. split; [exact H1|]. split; [exact H2|]. exact H3. Qed.

(* ------------------------------------------------------------------ *)
(* name_tokens *)
Lemma name_tokens_cons : forall row col p r b,
  name_tokens row col (p :: r) b =
  {| ty := if b then NAME else OP; text := p; srow := row; scol := col; erow := row;
     ecol := col + String.length p |} :: name_tokens row (col + String.length p) r (negb b).
Proof. reflexivity. Qed.

Lemma name_tokens_length : forall parts row col b, List.length (name_tokens row col parts b) = List.length parts.
Proof.
  induction parts as [|p r IH]; intros row col b; [reflexivity|].
  rewrite name_tokens_cons. cbn [List.length]. rewrite IH. reflexivity.
Qed.

Lemma contiguous_cons2 : forall a b r,
  contiguous (a :: b :: r) =
  Nat.eqb (srow a) (srow b) && Nat.eqb (erow a) (srow b) && Nat.eqb (ecol a) (scol b) && contiguous (b :: r).
Proof. reflexivity. Qed.

Lemma name_tokens_contiguous_gen : forall parts row col b, contiguous (name_tokens row col parts b) = true.
Proof.
  induction parts as [|p r IH]; intros row col b; [reflexivity|].
  destruct r as [|q r'].
  - cbn [name_tokens contiguous srow erow]. apply Nat.eqb_refl.
  - specialize (IH row (col + String.length p) (negb b)).
    rewrite name_tokens_cons. rewrite name_tokens_cons in IH |- *.
    rewrite contiguous_cons2. cbn [srow erow ecol scol]. rewrite !Nat.eqb_refl. cbn [andb]. exact IH.
Qed.

Lemma name_tokens_contiguous : forall parts row col, contiguous (name_tokens row col parts true) = true.
Proof. intros parts row col. apply name_tokens_contiguous_gen. Qed.

Lemma name_tokens_texts : forall parts row col b, map text (name_tokens row col parts b) = parts.
Proof.
  induction parts as [|p r IH]; intros row col b; [reflexivity|].
  rewrite name_tokens_cons. cbn [map text]. rewrite IH. reflexivity.
Qed.

Lemma name_tokens_text : forall parts row col b,
  concat_strs (map text (name_tokens row col parts b)) = name_text parts.
Proof. intros parts row col b. rewrite name_tokens_texts. reflexivity. Qed.

Lemma name_tokens_srow : forall parts row col b t, In t (name_tokens row col parts b) -> srow t = row.
Proof.
  induction parts as [|p r IH]; intros row col b t H; [destruct H|].
  rewrite name_tokens_cons in H. destruct H as [<-|H]; [reflexivity|]. exact (IH _ _ _ _ H).
Qed.

(* what stops the selector loop: not a separator, not a tokenizer fault *)
Definition loop_stop (rest : list token) : Prop :=
  exists t r, rest = t :: r /\ text t <> "/" /\ text t <> "." /\ ty t <> TERR /\ ty t <> ERRORTOKEN.

Lemma settle_names : forall parts row col b rest, loop_stop rest ->
  settle (name_tokens row col parts b ++ rest) = POk (name_tokens row col parts b ++ rest).
Proof.
  intros parts row col b rest [t [r [-> [_ [_ [H1 H2]]]]]].
  destruct parts as [|p q].
  - cbn [name_tokens app]. apply settle_non_trivia; assumption.
  - rewrite name_tokens_cons. cbn [app]. apply settle_non_trivia; destruct b; cbn [ty]; discriminate.
Qed.

Lemma sel_loop_names : forall parts is_name row col rest fuel ap atk,
  alt_ok parts is_name -> loop_stop rest -> List.length parts < fuel ->
  sel_loop fuel (negb is_name) (name_tokens row col parts is_name ++ rest) ap atk =
  POk (ap ++ parts, atk ++ name_tokens row col parts is_name, rest).
Proof.
  induction parts as [|p r IH]; intros is_name row col rest fuel ap atk Halt Hstop Hfuel.
  - cbn [alt_ok] in Halt. subst is_name. destruct fuel as [|f]; [cbn in Hfuel; lia|].
    destruct Hstop as [t [r' [-> [H1 [H2 _]]]]].
    rewrite sel_loop_S. cbn [name_tokens app cur hd negb andb orb].
    apply String.eqb_neq in H1. apply String.eqb_neq in H2. rewrite H1, H2. cbn [orb].
    rewrite !app_nil_r. reflexivity.
  - destruct fuel as [|f]; [cbn in Hfuel; lia|].
    cbn [alt_ok] in Halt. destruct Halt as [Hp Hr].
    assert (Hf : List.length r < f) by (cbn [List.length] in Hfuel; lia).
    rewrite sel_loop_S. rewrite name_tokens_cons. cbn [app cur hd text ty].
    destruct is_name.
    + cbn [negb andb orb ttype_eqb]. cbn [advance_one].
      rewrite (settle_names _ _ _ _ _ Hstop).
      specialize (IH false row (col + String.length p) rest f (ap ++ [p])
                     (atk ++ [{| ty := NAME; text := p; srow := row; scol := col; erow := row;
                                 ecol := col + String.length p |}]) Hr Hstop Hf).
      cbn [negb] in IH. rewrite IH. rewrite <- !app_assoc. reflexivity.
    + assert (Es : (String.eqb p "/" || String.eqb p ".") = true).
      { destruct Hp as [-> | ->]; reflexivity. }
      cbn [negb andb orb]. rewrite Es. cbn [advance_one].
      rewrite (settle_names _ _ _ _ _ Hstop).
      specialize (IH true row (col + String.length p) rest f (ap ++ [p])
                     (atk ++ [{| ty := OP; text := p; srow := row; scol := col; erow := row;
                                 ecol := col + String.length p |}]) Hr Hstop Hf).
      cbn [negb] in IH. rewrite IH. rewrite <- !app_assoc. reflexivity.
Qed.

(* general form: the token after the name is anything that neither continues the alternation nor is skipped *)
Definition sel_stop (wb : bool) (rest : list token) : Prop :=
  exists t r, rest = t :: r /\ text t <> "/" /\ text t <> "." /\ ty t <> TERR /\ ty t <> ERRORTOKEN /\
              in_types (ty t) (ws_types wb) = false.

Lemma sel_stop_loop : forall wb rest, sel_stop wb rest -> loop_stop rest.
Proof. intros wb rest [t [r [E [H1 [H2 [H3 [H4 _]]]]]]]. exists t, r. tauto. Qed.

Lemma skip_ws_stop : forall wb t r, in_types (ty t) (ws_types wb) = false -> skip_ws wb (t :: r) = POk (t :: r).
Proof. intros wb t r H. unfold skip_ws. rewrite skip_S. cbn [cur hd]. rewrite H. reflexivity. Qed.

Theorem parse_selector_name_gen : forall parts row col wb rest scoped allow,
  parts <> [] -> alt_ok parts true -> selector_format_ok scoped allow (name_text parts) = true ->
  sel_stop wb rest ->
  parse_selector scoped allow wb (name_tokens row col parts true ++ rest) = POk (name_text parts, rest).
Proof.
  intros parts row col wb rest scoped allow Hne Halt Hfmt Hstop.
  pose proof (sel_stop_loop _ _ Hstop) as Hloop.
  unfold parse_selector.
  assert (Ecur : cur_ty (name_tokens row col parts true ++ rest) NAME = true).
  { destruct parts as [|p r]; [congruence|]. rewrite name_tokens_cons. reflexivity. }
  rewrite Ecur. cbn [negb].
  change (sel_loop (S (List.length (name_tokens row col parts true ++ rest))) false
                   (name_tokens row col parts true ++ rest) [] [])
    with (sel_loop (S (List.length (name_tokens row col parts true ++ rest))) (negb true)
                   (name_tokens row col parts true ++ rest) [] []).
  rewrite (sel_loop_names parts true row col rest _ [] [] Halt Hloop).
  2:{ rewrite app_length, name_tokens_length. lia. }
  cbn [app].
  destruct Hstop as [t [r [-> [_ [_ [_ [_ Hws]]]]]]].
  rewrite (skip_ws_stop _ _ _ Hws).
  rewrite name_tokens_contiguous. fold (name_text parts). rewrite Hfmt. reflexivity.
Qed.

Theorem parse_selector_name : forall parts row col wb rest scoped allow,
  wf_name parts -> selector_format_ok scoped allow (name_text parts) = true ->
  rest <> [] -> (forall t r, rest = t :: r -> ty t = OP /\ text t <> "/" /\ text t <> "." ) ->
  parse_selector scoped allow wb (name_tokens row col parts true ++ rest) = POk (name_text parts, rest).
Proof.
  intros parts row col wb rest scoped allow Hwf Hfmt Hne Hrest.
  destruct (wf_name_alt _ Hwf) as [Hp [_ Halt]].
  apply parse_selector_name_gen; try assumption.
  destruct rest as [|t r]; [congruence|]. destruct (Hrest t r eq_refl) as [Hop [H1 H2]].
  exists t, r. split; [reflexivity|]. split; [exact H1|]. split; [exact H2|].
  rewrite Hop. split; [discriminate|]. split; [discriminate|]. destruct wb; reflexivity.
Qed.

(* ------------------------------------------------------------------ *)
(* leading trivia *)
Lemma lead_ws : forall t, lead_tok t ->
  in_types (ty t) (ws_types false) = true /\ ty t <> TERR /\ ty t <> ERRORTOKEN.
Proof. intros t [H|[H|[H|H]]]; rewrite H; repeat split; discriminate. Qed.

Lemma skip_ws_lead : forall lead t r, Forall lead_tok lead ->
  in_types (ty t) (ws_types false) = false -> ty t <> TERR -> ty t <> ERRORTOKEN ->
  skip_ws false (lead ++ t :: r) = POk (t :: r).
Proof.
  intros lead t r Hl Ht H1 H2. unfold skip_ws. apply skip_over; try assumption.
  - eapply Forall_impl; [|exact Hl]. cbn beta. intros x Hx. apply lead_ws; exact Hx.
  - rewrite app_length. cbn [List.length]. lia.
Qed.

Lemma settle_lead : forall lead t r, Forall lead_tok lead -> ty t <> TERR -> ty t <> ERRORTOKEN ->
  settle (lead ++ t :: r) = POk (lead ++ t :: r).
Proof.
  intros lead t r Hl H1 H2. apply settle_app; try assumption.
  eapply Forall_impl; [|exact Hl]. cbn beta. intros x Hx. apply lead_ws; exact Hx.
Qed.

(* a pending advance over the previous end token, when what follows needs no settling *)
Lemma parse_statement_pending : forall o prev ts, settle ts = POk ts ->
  parse_statement o true (prev :: ts) = parse_statement o false ts.
Proof. intros o prev ts H. unfold parse_statement. cbn [advance_one]. rewrite H. reflexivity. Qed.

(* ------------------------------------------------------------------ *)
(* parse_statement, binding branch, as a chain of its steps *)
Lemma parse_statement_bind_core : forall o tsp ts0 key ts1 ts2 v ts3,
  skip_ws false tsp = POk ts0 -> cur_ty ts0 ENDMARKER = false ->
  parse_selector true false false ts0 = POk (key, ts1) ->
  cur_is ts1 "=" = true -> advance_one ts1 = POk ts2 ->
  parse_value (value_fuel ts2) o false ts2 = POk (v, ts3) ->
  in_types (ty (cur ts3)) [NEWLINE; DEDENT; ENDMARKER] = true ->
  parse_statement o false tsp =
  POk (Some ([let '(scope, sel, arg) := split_binding_key key in SBind scope sel arg v (srow (cur ts0))],
            ts3, negb (cur_ty ts3 ENDMARKER))).
Proof.
  intros o tsp ts0 key ts1 ts2 v ts3 H0 H1 H2 H3 H4 H5 H6.
  unfold parse_statement. rewrite H0, H1, H2, H3, H4, H5.
  destruct (split_binding_key key) as [[sc sel] arg]. rewrite H6. reflexivity.
Qed.

Lemma binding_tokens_app : forall row parts vtoks trailing rest,
  binding_tokens row parts vtoks trailing ++ rest =
  name_tokens row 0 parts true ++ tok OP "=" row :: vtoks ++ trailing ++ tok NEWLINE "" row :: rest.
Proof.
  intros row parts vtoks trailing rest. unfold binding_tokens.
  rewrite <- !app_assoc. cbn [app]. reflexivity.
Qed.

Lemma name_tokens_head : forall row col parts rest, parts <> [] ->
  exists t r, name_tokens row col parts true ++ rest = t :: r /\ ty t = NAME /\ srow t = row.
Proof.
  intros row col parts rest H. destruct parts as [|p q]; [congruence|].
  rewrite name_tokens_cons. cbn [app]. eexists _, _. split; [reflexivity|]. split; reflexivity.
Qed.

(* ---- C03: a flat binding / macro statement ---- *)
Theorem C03_binding_statement : forall o lit lay n v vtoks n' trailing lead row parts rest,
  lay_ok lay -> lit_wf o lit -> py_eval o lit = Some v -> render lit lay n false = (vtoks, n') -> Forall tok_ok vtoks ->
  Forall trivia_tok trailing -> Forall lead_tok lead -> wf_name parts ->
  parse_statement o false (lead ++ binding_tokens row parts vtoks trailing ++ rest) =
  POk (Some ([let '(scope, sel, arg) := split_binding_key (name_text parts) in SBind scope sel arg v row],
            tok NEWLINE "" row :: rest, true)).
Proof.
  intros o lit lay n v vtoks n' trailing lead row parts rest Hlay Hwf Hev Hr Hok Htr Hlead Hname.
  destruct (wf_name_alt _ Hname) as [Hne [Hfmt Halt]].
  rewrite binding_tokens_app.
  destruct (name_tokens_head row 0 parts
              (tok OP "=" row :: vtoks ++ trailing ++ tok NEWLINE "" row :: rest) Hne)
    as [t0 [r0 [E0 [Hty0 Hrow0]]]].
  destruct (render_first _ _ _ _ _ _ _ Hwf Hr Hok) as [v0 [vt' [Ev Hstart]]].
  pose proof (parse_statement_bind_core o
    (lead ++ name_tokens row 0 parts true ++ tok OP "=" row :: vtoks ++ trailing ++ tok NEWLINE "" row :: rest)
    (name_tokens row 0 parts true ++ tok OP "=" row :: vtoks ++ trailing ++ tok NEWLINE "" row :: rest)
    (name_text parts)
    (tok OP "=" row :: vtoks ++ trailing ++ tok NEWLINE "" row :: rest)
    (vtoks ++ trailing ++ tok NEWLINE "" row :: rest)
    v (tok NEWLINE "" row :: rest)) as Hcore.
  rewrite Hcore; clear Hcore.
  - rewrite E0. cbn [cur hd]. rewrite Hrow0. reflexivity.
  - rewrite E0. apply skip_ws_lead; [exact Hlead | rewrite Hty0; reflexivity | rewrite Hty0; discriminate
                                     | rewrite Hty0; discriminate].
  - rewrite E0. unfold cur_ty. cbn [cur hd]. rewrite Hty0. reflexivity.
  - apply parse_selector_name_gen; try assumption.
    eexists _, _. split; [reflexivity|]. cbn [tok text ty].
    repeat split; try discriminate.
  - reflexivity.
  - rewrite Ev. cbn [app]. apply advance_one_solid. apply start_solid. exact Hstart.
  - apply (C02_value_fuel o lit false lay n false v vtoks n' trailing (tok NEWLINE "" row :: rest));
      try assumption; [discriminate|].
    intros t r' E. injection E as <- <-. right. left. reflexivity.
  - reflexivity.
Qed.

Lemma binding_settle : forall lead row parts vtoks trailing rest, Forall lead_tok lead -> parts <> [] ->
  settle (lead ++ binding_tokens row parts vtoks trailing ++ rest) =
  POk (lead ++ binding_tokens row parts vtoks trailing ++ rest).
Proof.
  intros lead row parts vtoks trailing rest Hlead Hne.
  rewrite binding_tokens_app.
  destruct (name_tokens_head row 0 parts
              (tok OP "=" row :: vtoks ++ trailing ++ tok NEWLINE "" row :: rest) Hne)
    as [t0 [r0 [E0 [Hty0 _]]]].
  rewrite E0. apply settle_lead; [exact Hlead | rewrite Hty0; discriminate | rewrite Hty0; discriminate].
Qed.

Theorem C03_binding_statement_pending : forall o lit lay n v vtoks n' trailing lead row parts rest prev,
  lay_ok lay -> lit_wf o lit -> py_eval o lit = Some v -> render lit lay n false = (vtoks, n') -> Forall tok_ok vtoks ->
  Forall trivia_tok trailing -> Forall lead_tok lead -> wf_name parts -> ty prev = NEWLINE ->
  parse_statement o true (prev :: lead ++ binding_tokens row parts vtoks trailing ++ rest) =
  POk (Some ([let '(scope, sel, arg) := split_binding_key (name_text parts) in SBind scope sel arg v row],
            tok NEWLINE "" row :: rest, true)).
Proof.
  intros o lit lay n v vtoks n' trailing lead row parts rest prev Hlay Hwf Hev Hr Hok Htr Hlead Hname _.
  rewrite parse_statement_pending.
  - eapply C03_binding_statement; eassumption.
  - apply binding_settle; [exact Hlead|]. destruct (wf_name_alt _ Hname) as [Hne _]. exact Hne.
Qed.

(* ------------------------------------------------------------------ *)
(* whole files of flat statements *)
Record rstmt := { rs_lead : list token; rs_row : nat; rs_parts : list string; rs_vtoks : list token;
                  rs_trailing : list token; rs_value : out }.
Definition rstmt_ok (o : oracle) (r : rstmt) : Prop :=
  Forall lead_tok (rs_lead r) /\ wf_name (rs_parts r) /\ Forall trivia_tok (rs_trailing r) /\ Forall tok_ok (rs_vtoks r) /\
  exists lit lay n n', lay_ok lay /\ lit_wf o lit /\ py_eval o lit = Some (rs_value r) /\ render lit lay n false = (rs_vtoks r, n').
Fixpoint render_file (rs : list rstmt) : list token :=
  match rs with
  | [] => []
  | r :: t => rs_lead r ++ binding_tokens (rs_row r) (rs_parts r) (rs_vtoks r) (rs_trailing r) ++ render_file t
  end.
Definition expected (r : rstmt) : stmt :=
  let '(scope, sel, arg) := split_binding_key (name_text (rs_parts r)) in SBind scope sel arg (rs_value r) (rs_row r).

Lemma parse_all_S : forall f o pending ts acc,
  parse_all (S f) o pending ts acc =
  match parse_statement o pending ts with
  | PErr e => (acc, Some e)
  | POk None => (acc, None)
  | POk (Some (stmts, ts', pending')) => parse_all f o pending' ts' (acc ++ stmts)
  end.
Proof. reflexivity. Qed.

Lemma parse_statement_eof : forall o fl eof, Forall lead_tok fl -> ty eof = ENDMARKER ->
  parse_statement o false (fl ++ [eof]) = POk None.
Proof.
  intros o fl eof Hfl He. unfold parse_statement.
  rewrite skip_ws_lead; [| exact Hfl | rewrite He; reflexivity | rewrite He; discriminate | rewrite He; discriminate].
  unfold cur_ty. cbn [cur hd]. rewrite He. reflexivity.
Qed.

Lemma parse_statement_eof_pending : forall o prev fl eof, Forall lead_tok fl -> ty eof = ENDMARKER ->
  parse_statement o true (prev :: fl ++ [eof]) = POk None.
Proof.
  intros o prev fl eof Hfl He. rewrite parse_statement_pending.
  - apply parse_statement_eof; assumption.
  - apply settle_lead; [exact Hfl | rewrite He; discriminate | rewrite He; discriminate].
Qed.

Lemma rstmt_step : forall o r rest, rstmt_ok o r ->
  parse_statement o false (rs_lead r ++ binding_tokens (rs_row r) (rs_parts r) (rs_vtoks r) (rs_trailing r) ++ rest) =
  POk (Some ([expected r], tok NEWLINE "" (rs_row r) :: rest, true)).
Proof.
  intros o r rest [Hlead [Hname [Htr [Hok [lit [lay [n [n' [Hlay [Hwf [Hev Hr]]]]]]]]]]].
  unfold expected. eapply C03_binding_statement; eassumption.
Qed.

Lemma rstmt_step_pending : forall o r rest prev, rstmt_ok o r ->
  parse_statement o true (prev :: rs_lead r ++ binding_tokens (rs_row r) (rs_parts r) (rs_vtoks r) (rs_trailing r) ++ rest) =
  POk (Some ([expected r], tok NEWLINE "" (rs_row r) :: rest, true)).
Proof.
  intros o r rest prev Hr. pose proof Hr as [Hlead [Hname _]].
  rewrite parse_statement_pending.
  - apply rstmt_step; exact Hr.
  - apply binding_settle; [exact Hlead|]. destruct (wf_name_alt _ Hname) as [Hne _]. exact Hne.
Qed.

(* with a pending advance over any previous token (the NEWLINE left by the previous statement) *)
Lemma roundtrip_pending : forall o fl eof, Forall lead_tok fl -> ty eof = ENDMARKER ->
  forall rs, Forall (rstmt_ok o) rs -> forall prev acc fuel, List.length rs < fuel ->
  parse_all fuel o true (prev :: render_file rs ++ fl ++ [eof]) acc = (acc ++ map expected rs, None).
Proof.
  intros o fl eof Hfl He rs. induction rs as [|r t IH]; intros Hrs prev acc fuel Hfuel.
  - destruct fuel as [|f]; [cbn in Hfuel; lia|]. rewrite parse_all_S. cbn [render_file app].
    rewrite parse_statement_eof_pending; try assumption. cbn [map]. rewrite app_nil_r. reflexivity.
  - destruct fuel as [|f]; [cbn in Hfuel; lia|]. rewrite parse_all_S.
    cbn [render_file]. rewrite <- !app_assoc.
    rewrite rstmt_step_pending; [|exact (Forall_inv Hrs)].
    rewrite IH; [| exact (Forall_inv_tail Hrs) | cbn [List.length] in Hfuel; lia].
    cbn [map]. rewrite <- app_assoc. reflexivity.
Qed.

Lemma roundtrip_first : forall o fl eof, Forall lead_tok fl -> ty eof = ENDMARKER ->
  forall rs, Forall (rstmt_ok o) rs -> forall acc fuel, List.length rs < fuel ->
  parse_all fuel o false (render_file rs ++ fl ++ [eof]) acc = (acc ++ map expected rs, None).
Proof.
  intros o fl eof Hfl He rs Hrs acc fuel Hfuel. destruct rs as [|r t].
  - destruct fuel as [|f]; [cbn in Hfuel; lia|]. rewrite parse_all_S. cbn [render_file app].
    rewrite parse_statement_eof; try assumption. cbn [map]. rewrite app_nil_r. reflexivity.
  - destruct fuel as [|f]; [cbn in Hfuel; lia|]. rewrite parse_all_S.
    cbn [render_file]. rewrite <- !app_assoc.
    rewrite rstmt_step; [|exact (Forall_inv Hrs)].
    rewrite (roundtrip_pending o fl eof Hfl He t (Forall_inv_tail Hrs));
      [| cbn [List.length] in Hfuel; lia].
    cbn [map]. rewrite <- app_assoc. reflexivity.
Qed.

Theorem C03_roundtrip_flat : forall o rs final_lead eof,
  Forall (rstmt_ok o) rs -> Forall lead_tok final_lead -> ty eof = ENDMARKER ->
  exists fuel0, forall fuel, fuel0 <= fuel ->
    parse_all fuel o false (render_file rs ++ final_lead ++ [eof]) [] = (map expected rs, None).
Proof.
  intros o rs fl eof Hrs Hfl He. exists (S (List.length rs)). intros fuel Hfuel.
  rewrite (roundtrip_first o fl eof Hfl He rs Hrs [] fuel); [reflexivity | lia].
Qed.

(* the engine's own fuel (run_stmts uses S (length ts)) is enough *)
Lemma render_file_length : forall rs, List.length rs <= List.length (render_file rs).
Proof.
  induction rs as [|r t IH]; [cbn; lia|].
  cbn [render_file]. unfold binding_tokens. rewrite !app_length. cbn [List.length]. lia.
Qed.

Definition strip_line (s : stmt) : stmt := match s with SBind a b c v _ => SBind a b c v 0 | x => x end.

Definition stmt_of (pv : list string * out) : stmt :=
  let '(scope, sel, arg) := split_binding_key (name_text (fst pv)) in SBind scope sel arg (snd pv) 0.

Lemma strip_expected : forall r, strip_line (expected r) = stmt_of (rs_parts r, rs_value r).
Proof.
  intro r. unfold expected, stmt_of. cbn [fst snd].
  destruct (split_binding_key (name_text (rs_parts r))) as [[sc sel] arg]. reflexivity.
Qed.

Lemma strip_expected_map : forall rs,
  map strip_line (map expected rs) = map stmt_of (map (fun r => (rs_parts r, rs_value r)) rs).
Proof.
  induction rs as [|r t IH]; [reflexivity|]. cbn [map]. rewrite strip_expected, IH. reflexivity.
Qed.

Corollary C03_layout_irrelevant : forall o rs1 rs2 fl1 fl2 eof1 eof2,
  Forall (rstmt_ok o) rs1 -> Forall (rstmt_ok o) rs2 ->
  map (fun r => (rs_parts r, rs_value r)) rs1 = map (fun r => (rs_parts r, rs_value r)) rs2 ->
  Forall lead_tok fl1 -> Forall lead_tok fl2 -> ty eof1 = ENDMARKER -> ty eof2 = ENDMARKER ->
  exists fuel, map strip_line (fst (parse_all fuel o false (render_file rs1 ++ fl1 ++ [eof1]) [])) =
               map strip_line (fst (parse_all fuel o false (render_file rs2 ++ fl2 ++ [eof2]) [])) /\
               snd (parse_all fuel o false (render_file rs1 ++ fl1 ++ [eof1]) []) = None.
Proof.
  intros o rs1 rs2 fl1 fl2 eof1 eof2 H1 H2 Hsame Hfl1 Hfl2 He1 He2.
  destruct (C03_roundtrip_flat o rs1 fl1 eof1 H1 Hfl1 He1) as [f1 Hf1].
  destruct (C03_roundtrip_flat o rs2 fl2 eof2 H2 Hfl2 He2) as [f2 Hf2].
  exists (f1 + f2). rewrite Hf1 by lia. rewrite Hf2 by lia. cbn [fst snd]. split; [|reflexivity].
  rewrite !strip_expected_map. rewrite Hsame. reflexivity.
Qed.

(* stronger form: the same holds for every sufficiently large fuel, and for the second file too *)
Corollary C03_layout_irrelevant_strong : forall o rs1 rs2 fl1 fl2 eof1 eof2,
  Forall (rstmt_ok o) rs1 -> Forall (rstmt_ok o) rs2 ->
  map (fun r => (rs_parts r, rs_value r)) rs1 = map (fun r => (rs_parts r, rs_value r)) rs2 ->
  Forall lead_tok fl1 -> Forall lead_tok fl2 -> ty eof1 = ENDMARKER -> ty eof2 = ENDMARKER ->
  exists fuel0, forall fuel, fuel0 <= fuel ->
    map strip_line (fst (parse_all fuel o false (render_file rs1 ++ fl1 ++ [eof1]) [])) =
    map strip_line (fst (parse_all fuel o false (render_file rs2 ++ fl2 ++ [eof2]) [])) /\
    snd (parse_all fuel o false (render_file rs1 ++ fl1 ++ [eof1]) []) = None /\
    snd (parse_all fuel o false (render_file rs2 ++ fl2 ++ [eof2]) []) = None.
Proof.
  intros o rs1 rs2 fl1 fl2 eof1 eof2 H1 H2 Hsame Hfl1 Hfl2 He1 He2.
  destruct (C03_roundtrip_flat o rs1 fl1 eof1 H1 Hfl1 He1) as [f1 Hf1].
  destruct (C03_roundtrip_flat o rs2 fl2 eof2 H2 Hfl2 He2) as [f2 Hf2].
  exists (f1 + f2). intros fuel Hfuel. rewrite Hf1 by lia. rewrite Hf2 by lia. cbn [fst snd].
  split; [|split; reflexivity].
  rewrite !strip_expected_map. rewrite Hsame. reflexivity.
Qed.

(* the engine entry point on a rendered file *)
Corollary C03_run_stmts : forall o rs final_lead eof,
  Forall (rstmt_ok o) rs -> Forall lead_tok final_lead -> ty eof = ENDMARKER ->
  run_stmts (o, render_file rs ++ final_lead ++ [eof]) = OL (map stmt_out (map expected rs)).
Proof.
  intros o rs fl eof Hrs Hfl He. unfold run_stmts. cbn [fst snd].
  assert (Hset : settle (render_file rs ++ fl ++ [eof]) = POk (render_file rs ++ fl ++ [eof])).
  { destruct rs as [|r t].
    - cbn [render_file app]. apply settle_lead; [exact Hfl | rewrite He; discriminate | rewrite He; discriminate].
    - cbn [render_file]. rewrite <- !app_assoc. pose proof (Forall_inv Hrs) as [Hlead [Hname _]].
      apply binding_settle; [exact Hlead|]. destruct (wf_name_alt _ Hname) as [Hne _]. exact Hne. }
  rewrite Hset.
  rewrite (roundtrip_first o fl eof Hfl He rs Hrs []).
  - cbn [app]. rewrite app_nil_r. reflexivity.
  - rewrite app_length. pose proof (render_file_length rs). lia.
Qed.

(* ------------------------------------------------------------------ *)
(* imports *)
Lemma ident_not_special : forall p, is_identifier p = true ->
  p <> "/" /\ p <> "." /\ p <> "=" /\ p <> ":" /\ p <> "".
Proof. intros p H. repeat split; intro E; subst p; discriminate. Qed.

Lemma parse_statement_import_core : forall o tsp ts0 key ts1 s ts2,
  skip_ws false tsp = POk ts0 -> cur_ty ts0 ENDMARKER = false ->
  parse_selector true false false ts0 = POk (key, ts1) ->
  cur_is ts1 "=" = false -> cur_is ts1 ":" = false -> (String.eqb key "import" || String.eqb key "from") = true ->
  parse_import key (srow (cur ts0)) ts1 = POk (s, ts2) ->
  in_types (ty (cur ts2)) [NEWLINE; DEDENT; ENDMARKER] = true ->
  parse_statement o false tsp = POk (Some ([s], ts2, negb (cur_ty ts2 ENDMARKER))).
Proof.
  intros o tsp ts0 key ts1 s ts2 H0 H1 H2 H3 H4 H5 H6 H7.
  unfold parse_statement. rewrite H0, H1, H2, H3, H4, H5, H6, H7. reflexivity.
Qed.

Lemma append_nil_r : forall s : string, (s ++ "")%string = s.
Proof. induction s as [|c s IH]; cbn [String.append]; [reflexivity | now rewrite IH]. Qed.

(* the keyword itself read as a selector: a single NAME token followed by a NAME that is no separator *)
Lemma parse_selector_keyword : forall kw row t r,
  selector_format_ok true false kw = true ->
  ty t = NAME -> text t <> "/" -> text t <> "." ->
  parse_selector true false false (tok NAME kw row :: t :: r) = POk (kw, t :: r).
Proof.
  intros kw row t r Hfmt Hty H1 H2.
  unfold parse_selector.
  change (cur_ty (tok NAME kw row :: t :: r) NAME) with true. cbn [negb].
  cbn [List.length]. rewrite sel_loop_S.
  change (ty (cur (tok NAME kw row :: t :: r))) with NAME.
  change (cur (tok NAME kw row :: t :: r)) with (tok NAME kw row).
  cbn [negb andb orb ttype_eqb]. cbn [advance_one].
  rewrite settle_non_trivia; [| rewrite Hty; discriminate | rewrite Hty; discriminate].
  rewrite sel_loop_S. cbn [cur hd negb andb orb].
  apply String.eqb_neq in H1. apply String.eqb_neq in H2. rewrite H1, H2. cbn [orb app].
  rewrite skip_ws_stop; [| rewrite Hty; reflexivity].
  cbn [contiguous tok srow erow text concat_strs]. rewrite Nat.eqb_refl. rewrite append_nil_r. rewrite Hfmt.
  reflexivity.
Qed.

Definition alias_toks (row : nat) (alias : option string) : list token :=
  match alias with Some a => [tok NAME "as" row; tok NAME a row] | None => [] end.

Lemma import_tokens_app : forall row mparts alias rest,
  import_tokens row mparts alias ++ rest =
  tok NAME "import" row :: name_tokens row 7 mparts true ++ alias_toks row alias ++ tok NEWLINE "" row :: rest.
Proof.
  intros row mparts alias rest. unfold import_tokens. fold (alias_toks row alias).
  rewrite <- !app_assoc. cbn [app]. reflexivity.
Qed.

Lemma from_tokens_app : forall row mparts leaf alias rest,
  from_tokens row mparts leaf alias ++ rest =
  tok NAME "from" row :: name_tokens row 5 mparts true ++
    tok NAME "import" row :: tok NAME leaf row :: alias_toks row alias ++ tok NEWLINE "" row :: rest.
Proof.
  intros row mparts leaf alias rest. unfold from_tokens. fold (alias_toks row alias).
  rewrite <- !app_assoc. cbn [app]. reflexivity.
Qed.

Lemma name_tokens_head_ident : forall row col parts rest, parts <> [] -> alt_ok parts true ->
  exists t r, name_tokens row col parts true ++ rest = t :: r /\ ty t = NAME /\ is_identifier (text t) = true.
Proof.
  intros row col parts rest H Halt. destruct parts as [|p q]; [congruence|].
  cbn [alt_ok] in Halt. destruct Halt as [Hp _].
  rewrite name_tokens_cons. cbn [app]. eexists _, _. split; [reflexivity|]. split; [reflexivity|]. exact Hp.
Qed.

(* the optional "as alias" tail, then the NEWLINE *)
Lemma alias_tail : forall module isf line row alias rest,
  (forall a, alias = Some a -> is_identifier a = true) ->
  (if cur_is (alias_toks row alias ++ tok NEWLINE "" row :: rest) "as"
   then match advance_one (alias_toks row alias ++ tok NEWLINE "" row :: rest) with
        | PErr e => PErr e
        | POk ts3 => match parse_identifier false ts3 with
                     | PErr e => PErr e
                     | POk (al, ts4) => POk (SImport module isf (Some al) line, ts4)
                     end
        end
   else POk (SImport module isf None line, alias_toks row alias ++ tok NEWLINE "" row :: rest))
  = POk (SImport module isf alias line, tok NEWLINE "" row :: rest).
Proof.
  intros module isf line row alias rest Hal. destruct alias as [a|].
  - pose proof (Hal a eq_refl) as Ha. cbn [alias_toks app].
    change (cur_is (tok NAME "as" row :: tok NAME a row :: tok NEWLINE "" row :: rest) "as") with true.
    cbv iota.
    rewrite advance_one_solid; [| unfold solid; cbn [tok ty]; tauto].
    unfold parse_identifier. change (text (cur (tok NAME a row :: tok NEWLINE "" row :: rest))) with a.
    rewrite Ha. cbn [negb].
    change (tok NAME a row :: tok NEWLINE "" row :: rest) with (tok NAME a row :: [] ++ tok NEWLINE "" row :: rest).
    rewrite advance_solid; [reflexivity | constructor | unfold solid; cbn [tok ty]; tauto].
  - cbn [alias_toks app]. reflexivity.
Qed.

Lemma alias_head : forall row alias rest,
  exists t r, alias_toks row alias ++ tok NEWLINE "" row :: rest = t :: r /\
              (ty t = NAME \/ ty t = NEWLINE) /\ text t <> "/" /\ text t <> ".".
Proof.
  intros row alias rest. destruct alias as [a|]; cbn [alias_toks app]; eexists _, _;
    (split; [reflexivity|]); cbn [tok ty text]; (split; [tauto|]); split; discriminate.
Qed.

Lemma parse_import_import : forall line ts module ts1,
  parse_selector false false false ts = POk (module, ts1) ->
  parse_import "import" line ts =
  if cur_is ts1 "as"
  then match advance_one ts1 with
       | PErr e => PErr e
       | POk ts3 => match parse_identifier false ts3 with
                    | PErr e => PErr e
                    | POk (al, ts4) => POk (SImport module false (Some al) line, ts4)
                    end
       end
  else POk (SImport module false None line, ts1).
Proof. intros line ts module ts1 H. unfold parse_import. rewrite H. reflexivity. Qed.

Lemma parse_import_from : forall line ts module ts1 ts2 sub ts3,
  parse_selector false false false ts = POk (module, ts1) ->
  expect_str "import" ts1 = POk ts2 -> parse_identifier false ts2 = POk (sub, ts3) ->
  parse_import "from" line ts =
  if cur_is ts3 "as"
  then match advance_one ts3 with
       | PErr e => PErr e
       | POk ts4 => match parse_identifier false ts4 with
                    | PErr e => PErr e
                    | POk (al, ts5) => POk (SImport (module ++ "." ++ sub)%string true (Some al) line, ts5)
                    end
       end
  else POk (SImport (module ++ "." ++ sub)%string true None line, ts3).
Proof.
  intros line ts module ts1 ts2 sub ts3 H1 H2 H3. unfold parse_import. rewrite H1.
  change (String.eqb "from" "from") with true. cbv iota. rewrite H2, H3. reflexivity.
Qed.

Theorem parse_import_import_tokens : forall line row col mparts alias rest,
  mparts <> [] -> alt_ok mparts true -> selector_format_ok false false (name_text mparts) = true ->
  (forall a, alias = Some a -> is_identifier a = true) ->
  parse_import "import" line (name_tokens row col mparts true ++ alias_toks row alias ++ tok NEWLINE "" row :: rest) =
  POk (SImport (name_text mparts) false alias line, tok NEWLINE "" row :: rest).
Proof.
  intros line row col mparts alias rest Hne Halt Hfmt Hal.
  rewrite (parse_import_import line _ (name_text mparts) (alias_toks row alias ++ tok NEWLINE "" row :: rest)).
  - apply alias_tail; exact Hal.
  - apply parse_selector_name_gen; try assumption.
    destruct (alias_head row alias rest) as [t [r [E [Hty [H1 H2]]]]]. rewrite E.
    exists t, r. split; [reflexivity|]. split; [exact H1|]. split; [exact H2|].
    destruct Hty as [Hty|Hty]; rewrite Hty; repeat split; discriminate.
Qed.

Theorem parse_import_from_tokens : forall line row col mparts leaf alias rest,
  mparts <> [] -> alt_ok mparts true -> selector_format_ok false false (name_text mparts) = true ->
  is_identifier leaf = true -> (forall a, alias = Some a -> is_identifier a = true) ->
  parse_import "from" line (name_tokens row col mparts true ++
      tok NAME "import" row :: tok NAME leaf row :: alias_toks row alias ++ tok NEWLINE "" row :: rest) =
  POk (SImport (name_text mparts ++ "." ++ leaf)%string true alias line, tok NEWLINE "" row :: rest).
Proof.
  intros line row col mparts leaf alias rest Hne Halt Hfmt Hleaf Hal.
  rewrite (parse_import_from line _ (name_text mparts)
             (tok NAME "import" row :: tok NAME leaf row :: alias_toks row alias ++ tok NEWLINE "" row :: rest)
             (tok NAME leaf row :: alias_toks row alias ++ tok NEWLINE "" row :: rest)
             leaf (alias_toks row alias ++ tok NEWLINE "" row :: rest)).
  - apply alias_tail; exact Hal.
  - apply parse_selector_name_gen; try assumption.
    eexists _, _. split; [reflexivity|]. cbn [tok text ty]. repeat split; discriminate.
  - unfold expect_str.
    change (cur_is (tok NAME "import" row :: tok NAME leaf row :: alias_toks row alias ++ tok NEWLINE "" row :: rest) "import")
      with true. cbv iota.
    apply advance_one_solid. unfold solid; cbn [tok ty]; tauto.
  - unfold parse_identifier.
    change (text (cur (tok NAME leaf row :: alias_toks row alias ++ tok NEWLINE "" row :: rest))) with leaf.
    rewrite Hleaf. cbn [negb].
    destruct (alias_head row alias rest) as [t [r [E [Hty _]]]]. rewrite E.
    change (tok NAME leaf row :: t :: r) with (tok NAME leaf row :: [] ++ t :: r).
    rewrite advance_solid; [reflexivity | constructor | unfold solid; tauto].
Qed.

Lemma fmt_import : selector_format_ok true false "import" = true. Proof. reflexivity. Qed.
Lemma fmt_from : selector_format_ok true false "from" = true. Proof. reflexivity. Qed.

(* ---- C03 imports: `import a.b [as x]` (with any leading trivia) ---- *)
Theorem C03_import_statement_lead : forall o lead row mparts alias rest,
  Forall lead_tok lead -> wf_name mparts -> selector_format_ok false false (name_text mparts) = true ->
  (forall a, alias = Some a -> is_identifier a = true) ->
  parse_statement o false (lead ++ import_tokens row mparts alias ++ rest) =
  POk (Some ([SImport (name_text mparts) false alias row], tok NEWLINE "" row :: rest, true)).
Proof.
  intros o lead row mparts alias rest Hlead Hname Hfmt Hal.
  destruct (wf_name_alt _ Hname) as [Hne [_ Halt]].
  rewrite import_tokens_app.
  destruct (name_tokens_head_ident row 7 mparts (alias_toks row alias ++ tok NEWLINE "" row :: rest) Hne Halt)
    as [t0 [r0 [E0 [Hty0 Hid0]]]].
  destruct (ident_not_special _ Hid0) as [N1 [N2 [N3 [N4 _]]]].
  rewrite (parse_statement_import_core o _
             (tok NAME "import" row :: name_tokens row 7 mparts true ++ alias_toks row alias ++ tok NEWLINE "" row :: rest)
             "import"
             (name_tokens row 7 mparts true ++ alias_toks row alias ++ tok NEWLINE "" row :: rest)
             (SImport (name_text mparts) false alias row)
             (tok NEWLINE "" row :: rest)).
  - reflexivity.
  - apply skip_ws_lead; [exact Hlead | reflexivity | discriminate | discriminate].
  - reflexivity.
  - rewrite E0. apply parse_selector_keyword; [exact fmt_import | exact Hty0 | exact N1 | exact N2].
  - rewrite E0. rewrite cur_is_cons. apply String.eqb_neq. exact N3.
  - rewrite E0. rewrite cur_is_cons. apply String.eqb_neq. exact N4.
  - reflexivity.
  - change (srow (cur (tok NAME "import" row :: name_tokens row 7 mparts true ++
                        alias_toks row alias ++ tok NEWLINE "" row :: rest))) with row.
    apply parse_import_import_tokens; assumption.
  - reflexivity.
Qed.

Theorem C03_import_statement : forall o row mparts alias rest,
  wf_name mparts -> selector_format_ok false false (name_text mparts) = true ->
  (forall a, alias = Some a -> is_identifier a = true) ->
  parse_statement o false (import_tokens row mparts alias ++ rest) =
  POk (Some ([SImport (name_text mparts) false alias row], tok NEWLINE "" row :: rest, true)).
Proof.
  intros o row mparts alias rest H1 H2 H3.
  exact (C03_import_statement_lead o [] row mparts alias rest (Forall_nil _) H1 H2 H3).
Qed.

(* ---- `from a.b import c [as x]` ---- *)
Theorem C03_from_statement_lead : forall o lead row mparts leaf alias rest,
  Forall lead_tok lead -> wf_name mparts -> selector_format_ok false false (name_text mparts) = true ->
  is_identifier leaf = true -> (forall a, alias = Some a -> is_identifier a = true) ->
  parse_statement o false (lead ++ from_tokens row mparts leaf alias ++ rest) =
  POk (Some ([SImport (name_text mparts ++ "." ++ leaf)%string true alias row], tok NEWLINE "" row :: rest, true)).
Proof.
  intros o lead row mparts leaf alias rest Hlead Hname Hfmt Hleaf Hal.
  destruct (wf_name_alt _ Hname) as [Hne [_ Halt]].
  rewrite from_tokens_app.
  destruct (name_tokens_head_ident row 5 mparts
              (tok NAME "import" row :: tok NAME leaf row :: alias_toks row alias ++ tok NEWLINE "" row :: rest) Hne Halt)
    as [t0 [r0 [E0 [Hty0 Hid0]]]].
  destruct (ident_not_special _ Hid0) as [N1 [N2 [N3 [N4 _]]]].
  rewrite (parse_statement_import_core o _
             (tok NAME "from" row :: name_tokens row 5 mparts true ++
                tok NAME "import" row :: tok NAME leaf row :: alias_toks row alias ++ tok NEWLINE "" row :: rest)
             "from"
             (name_tokens row 5 mparts true ++
                tok NAME "import" row :: tok NAME leaf row :: alias_toks row alias ++ tok NEWLINE "" row :: rest)
             (SImport (name_text mparts ++ "." ++ leaf)%string true alias row)
             (tok NEWLINE "" row :: rest)).
  - reflexivity.
  - apply skip_ws_lead; [exact Hlead | reflexivity | discriminate | discriminate].
  - reflexivity.
  - rewrite E0. apply parse_selector_keyword; [exact fmt_from | exact Hty0 | exact N1 | exact N2].
  - rewrite E0. rewrite cur_is_cons. apply String.eqb_neq. exact N3.
  - rewrite E0. rewrite cur_is_cons. apply String.eqb_neq. exact N4.
  - reflexivity.
  - change (srow (cur (tok NAME "from" row :: name_tokens row 5 mparts true ++
                        tok NAME "import" row :: tok NAME leaf row :: alias_toks row alias ++
                        tok NEWLINE "" row :: rest))) with row.
    apply parse_import_from_tokens; assumption.
  - reflexivity.
Qed.

Theorem C03_from_statement : forall o row mparts leaf alias rest,
  wf_name mparts -> selector_format_ok false false (name_text mparts) = true ->
  is_identifier leaf = true -> (forall a, alias = Some a -> is_identifier a = true) ->
  parse_statement o false (from_tokens row mparts leaf alias ++ rest) =
  POk (Some ([SImport (name_text mparts ++ "." ++ leaf)%string true alias row], tok NEWLINE "" row :: rest, true)).
Proof.
  intros o row mparts leaf alias rest H1 H2 H3 H4.
  exact (C03_from_statement_lead o [] row mparts leaf alias rest (Forall_nil _) H1 H2 H3 H4).
Qed.

(* ------------------------------------------------------------------ *)
(* mixed files: bindings, imports and from-imports in any order *)
Inductive ritem :=
| RBind (r : rstmt)
| RImport (lead : list token) (row : nat) (mparts : list string) (alias : option string)
| RFrom (lead : list token) (row : nat) (mparts : list string) (leaf : string) (alias : option string).

Definition ritem_ok (o : oracle) (it : ritem) : Prop :=
  match it with
  | RBind r => rstmt_ok o r
  | RImport lead _ mparts alias =>
      Forall lead_tok lead /\ wf_name mparts /\ selector_format_ok false false (name_text mparts) = true /\
      (forall a, alias = Some a -> is_identifier a = true)
  | RFrom lead _ mparts leaf alias =>
      Forall lead_tok lead /\ wf_name mparts /\ selector_format_ok false false (name_text mparts) = true /\
      is_identifier leaf = true /\ (forall a, alias = Some a -> is_identifier a = true)
  end.
Definition ritem_tokens (it : ritem) : list token :=
  match it with
  | RBind r => rs_lead r ++ binding_tokens (rs_row r) (rs_parts r) (rs_vtoks r) (rs_trailing r)
  | RImport lead row mparts alias => lead ++ import_tokens row mparts alias
  | RFrom lead row mparts leaf alias => lead ++ from_tokens row mparts leaf alias
  end.
Definition ritem_row (it : ritem) : nat :=
  match it with RBind r => rs_row r | RImport _ row _ _ => row | RFrom _ row _ _ _ => row end.
Definition ritem_expected (it : ritem) : stmt :=
  match it with
  | RBind r => expected r
  | RImport _ row mparts alias => SImport (name_text mparts) false alias row
  | RFrom _ row mparts leaf alias => SImport (name_text mparts ++ "." ++ leaf)%string true alias row
  end.
Fixpoint render_items_file (its : list ritem) : list token :=
  match its with [] => [] | it :: t => ritem_tokens it ++ render_items_file t end.

Lemma ritem_step : forall o it rest, ritem_ok o it ->
  parse_statement o false (ritem_tokens it ++ rest) =
  POk (Some ([ritem_expected it], tok NEWLINE "" (ritem_row it) :: rest, true)).
Proof.
  intros o it rest H. destruct it as [r|lead row mparts alias|lead row mparts leaf alias];
    cbn [ritem_tokens ritem_expected ritem_row]; rewrite <- app_assoc.
  - apply rstmt_step; exact H.
  - destruct H as [H1 [H2 [H3 H4]]]. apply C03_import_statement_lead; assumption.
  - destruct H as [H1 [H2 [H3 [H4 H5]]]]. apply C03_from_statement_lead; assumption.
Qed.

Lemma ritem_settle : forall o it rest, ritem_ok o it ->
  settle (ritem_tokens it ++ rest) = POk (ritem_tokens it ++ rest).
Proof.
  intros o it rest H. destruct it as [r|lead row mparts alias|lead row mparts leaf alias];
    cbn [ritem_tokens]; rewrite <- app_assoc.
  - destruct H as [Hlead [Hname _]]. apply binding_settle; [exact Hlead|].
    destruct (wf_name_alt _ Hname) as [Hne _]. exact Hne.
  - destruct H as [H1 _]. rewrite import_tokens_app. apply settle_lead; [exact H1 | discriminate | discriminate].
  - destruct H as [H1 _]. rewrite from_tokens_app. apply settle_lead; [exact H1 | discriminate | discriminate].
Qed.

Lemma mixed_pending : forall o fl eof, Forall lead_tok fl -> ty eof = ENDMARKER ->
  forall its, Forall (ritem_ok o) its -> forall prev acc fuel, List.length its < fuel ->
  parse_all fuel o true (prev :: render_items_file its ++ fl ++ [eof]) acc = (acc ++ map ritem_expected its, None).
Proof.
  intros o fl eof Hfl He its. induction its as [|it t IH]; intros Hits prev acc fuel Hfuel.
  - destruct fuel as [|f]; [cbn in Hfuel; lia|]. rewrite parse_all_S. cbn [render_items_file app].
    rewrite parse_statement_eof_pending; try assumption. cbn [map]. rewrite app_nil_r. reflexivity.
  - destruct fuel as [|f]; [cbn in Hfuel; lia|]. rewrite parse_all_S.
    cbn [render_items_file]. rewrite <- !app_assoc.
    rewrite parse_statement_pending; [| apply (ritem_settle o); exact (Forall_inv Hits)].
    rewrite ritem_step; [|exact (Forall_inv Hits)].
    rewrite IH; [| exact (Forall_inv_tail Hits) | cbn [List.length] in Hfuel; lia].
    cbn [map]. rewrite <- app_assoc. reflexivity.
Qed.

Theorem C03_roundtrip_mixed : forall o its final_lead eof,
  Forall (ritem_ok o) its -> Forall lead_tok final_lead -> ty eof = ENDMARKER ->
  exists fuel0, forall fuel, fuel0 <= fuel ->
    parse_all fuel o false (render_items_file its ++ final_lead ++ [eof]) [] = (map ritem_expected its, None).
Proof.
  intros o its fl eof Hits Hfl He. exists (S (List.length its)). intros fuel Hfuel.
  destruct fuel as [|f]; [lia|]. rewrite parse_all_S. destruct its as [|it t].
  - cbn [render_items_file app]. rewrite parse_statement_eof; try assumption. reflexivity.
  - cbn [render_items_file]. rewrite <- !app_assoc.
    rewrite ritem_step; [|exact (Forall_inv Hits)].
    rewrite (mixed_pending o fl eof Hfl He t (Forall_inv_tail Hits)); [| cbn [List.length] in Hfuel; lia].
    reflexivity.
Qed.

(* ------------------------------------------------------------------ *)
Print Assumptions name_tokens_contiguous.
Print Assumptions name_tokens_text.
Print Assumptions parse_selector_name.
Print Assumptions C03_binding_statement.
Print Assumptions C03_binding_statement_pending.
Print Assumptions C03_roundtrip_flat.
Print Assumptions C03_layout_irrelevant.
Print Assumptions C03_layout_irrelevant_strong.
Print Assumptions C03_run_stmts.
Print Assumptions C03_import_statement.
Print Assumptions C03_from_statement.
Print Assumptions C03_roundtrip_mixed.
