(* Lemmas for C01 / C10: association-list algebra for sget/sset/sdel/supdate,
   prefixes, first_some, the overlay (= longest-prefix) theorems and the
   frame theorems for get_bindings_for.  Axiom-free, stdlib only. *)
From Coq Require Import List String ZArith Bool Arith Lia Ascii.
From GinV Require Import Lib.PyStr Model.SelectorMap Model.Values Model.Gin Model.CallSpec.
Import ListNotations.
Open Scope string_scope.
Open Scope list_scope.

(* ------------------------------------------------------------------ *)
(* generic list facts *)

Lemma nodup_app_intro : forall {A} (l1 l2 : list A),
  NoDup l1 -> NoDup l2 -> (forall x, In x l1 -> ~ In x l2) -> NoDup (l1 ++ l2).
Proof.
  intros A l1; induction l1 as [|a l1 IH]; intros l2 H1 H2 Hd; simpl; auto.
  inversion H1 as [|a' l' Hna Hnd]; subst.
  constructor.
  - intro Hin. apply in_app_or in Hin. destruct Hin as [Hin|Hin]; [auto|].
    apply (Hd a); [left; reflexivity|exact Hin].
  - apply IH; auto. intros x Hx. apply Hd. right; exact Hx.
Qed.

Lemma nodup_app_l : forall {A} (l1 l2 : list A), NoDup (l1 ++ l2) -> NoDup l1.
Proof.
  intros A l1; induction l1 as [|a l1 IH]; intros l2 H; [constructor|].
  simpl in H. inversion H as [|a' l' Hna Hnd]; subst. constructor.
  - intro Hin. apply Hna. apply in_or_app; left; exact Hin.
  - eapply IH; eauto.
Qed.

Lemma nodup_filter : forall {A} (f : A -> bool) l, NoDup l -> NoDup (filter f l).
Proof.
  intros A f l H; induction H as [|a l Hna Hnd IH]; simpl; [constructor|].
  destruct (f a); auto. constructor; auto.
  intro Hin. apply filter_In in Hin. tauto.
Qed.

Lemma filter_all_true : forall {A} (f : A -> bool) l,
  (forall x, In x l -> f x = true) -> filter f l = l.
Proof.
  intros A f l; induction l as [|a l IH]; intros H; simpl; auto.
  rewrite (H a (or_introl eq_refl)). f_equal. apply IH. intros x Hx; apply H; right; exact Hx.
Qed.

Lemma filter_all_false : forall {A} (f : A -> bool) l,
  (forall x, In x l -> f x = false) -> filter f l = [].
Proof.
  intros A f l; induction l as [|a l IH]; intros H; simpl; auto.
  rewrite (H a (or_introl eq_refl)). apply IH. intros x Hx; apply H; right; exact Hx.
Qed.

Lemma filter_nil_forall : forall {A} (f : A -> bool) l,
  filter f l = [] -> forall x, In x l -> f x = false.
Proof.
  intros A f l; induction l as [|a l IH]; intros H x Hx; [inversion Hx|].
  simpl in H. destruct (f a) eqn:E; [discriminate|].
  destruct Hx as [Hx|Hx]; [subst; exact E|auto].
Qed.

Lemma fold_left_ext_in : forall {A B} (f g : A -> B -> A) l a,
  (forall a x, In x l -> f a x = g a x) -> fold_left f l a = fold_left g l a.
Proof.
  intros A B f g l; induction l as [|x l IH]; intros a H; simpl; auto.
  rewrite (H a x (or_introl eq_refl)). apply IH. intros a' y Hy. apply H; right; exact Hy.
Qed.

(* ------------------------------------------------------------------ *)
(* str_in *)

Lemma str_in_iff : forall s l, str_in s l = true <-> In s l.
Proof.
  intros s l. unfold str_in. rewrite existsb_exists. split.
  - intros [x [Hx He]]. apply String.eqb_eq in He. subst; exact Hx.
  - intros H. exists s. split; [exact H|apply String.eqb_refl].
Qed.

Lemma str_in_false_iff : forall s l, str_in s l = false <-> ~ In s l.
Proof.
  intros s l. rewrite <- str_in_iff. destruct (str_in s l); split; intros; try congruence.
Qed.

Lemma str_in_cons : forall s a l, str_in s (a :: l) = String.eqb s a || str_in s l.
Proof. reflexivity. Qed.

Lemma str_in_nil : forall s, str_in s [] = false.
Proof. reflexivity. Qed.

(* ------------------------------------------------------------------ *)
(* association lists at String.eqb *)

Section SAL.
  Context {V : Type}.
  Implicit Types (d e : list (string * V)) (j k p : string) (v w : V).

  Lemma sget_nil : forall j, @sget V j [] = None.
  Proof. reflexivity. Qed.
  Lemma sget_cons : forall j k v d, sget j ((k, v) :: d) = if String.eqb j k then Some v else sget j d.
  Proof. reflexivity. Qed.
  Lemma sset_nil : forall k v, sset k v [] = [(k, v)].
  Proof. reflexivity. Qed.
  Lemma sset_cons : forall k v j w d,
    sset k v ((j, w) :: d) = if String.eqb k j then (j, v) :: d else (j, w) :: sset k v d.
  Proof. reflexivity. Qed.
  Lemma sdel_nil : forall k, @sdel V k [] = [].
  Proof. reflexivity. Qed.
  Lemma sdel_cons : forall k j w d, sdel k ((j, w) :: d) = if String.eqb k j then d else (j, w) :: sdel k d.
  Proof. reflexivity. Qed.
  Lemma supdate_nil : forall d, supdate d [] = d.
  Proof. reflexivity. Qed.
  Lemma supdate_cons : forall d k v e, supdate d ((k, v) :: e) = supdate (sset k v d) e.
  Proof. reflexivity. Qed.
  Lemma smem_sget : forall k d, smem k d = match sget k d with Some _ => true | None => false end.
  Proof. reflexivity. Qed.

  Lemma sget_sset : forall d k v j, sget j (sset k v d) = if String.eqb j k then Some v else sget j d.
  Proof.
    intros d k v j; induction d as [|[j0 w] d IH].
    - rewrite sset_nil, sget_cons, sget_nil. reflexivity.
    - rewrite sset_cons. destruct (String.eqb_spec k j0) as [E|N].
      + subst j0. rewrite !sget_cons. destruct (String.eqb j k); reflexivity.
      + rewrite !sget_cons, IH.
        destruct (String.eqb_spec j j0) as [E1|N1]; [|reflexivity].
        subst j0. destruct (String.eqb_spec j k) as [E2|N2]; [congruence|reflexivity].
  Qed.

  Lemma sget_none_iff : forall p d, sget p d = None <-> ~ In p (map fst d).
  Proof.
    intros p d; induction d as [|[j w] d IH]; cbn [map fst In].
    - rewrite sget_nil. tauto.
    - rewrite sget_cons. destruct (String.eqb_spec p j) as [E|N].
      + subst. split; [discriminate|]. intros H; exfalso; apply H; left; reflexivity.
      + rewrite IH. split; intros H; [intros [H1|H1]; [congruence|tauto]|tauto].
  Qed.

  Lemma sget_some_in : forall p d v, sget p d = Some v -> In (p, v) d.
  Proof.
    intros p d v; induction d as [|[j w] d IH]; [rewrite sget_nil; discriminate|].
    rewrite sget_cons. destruct (String.eqb_spec p j) as [E|N].
    - intros H; inversion H; subst. left; reflexivity.
    - intros H; right; auto.
  Qed.

  Lemma sget_some_key : forall p d v, sget p d = Some v -> In p (map fst d).
  Proof.
    intros p d v H. apply sget_some_in in H. apply (in_map fst) in H. exact H.
  Qed.

  Lemma in_sget_nodup : forall p d v, NoDup (map fst d) -> In (p, v) d -> sget p d = Some v.
  Proof.
    intros p d v; induction d as [|[j w] d IH]; intros Hnd Hin; [inversion Hin|].
    simpl in Hnd. inversion Hnd as [|a l Hna Hnd']; subst.
    rewrite sget_cons. destruct Hin as [Hin|Hin].
    - inversion Hin; subst. rewrite String.eqb_refl. reflexivity.
    - destruct (String.eqb_spec p j) as [E|N]; [|auto].
      subst. exfalso. apply Hna. apply (in_map fst) in Hin. exact Hin.
  Qed.

  Lemma in_keys_sget : forall p d, In p (map fst d) -> exists v, sget p d = Some v.
  Proof.
    intros p d H. destruct (sget p d) as [v|] eqn:E; [eauto|].
    apply sget_none_iff in E. tauto.
  Qed.

  (* deleting k never disturbs another key; no uniqueness needed *)
  Lemma sget_sdel_neq : forall d k j, j <> k -> sget j (sdel k d) = sget j d.
  Proof.
    intros d k j Hne; induction d as [|[j0 w] d IH]; [reflexivity|].
    rewrite sdel_cons. destruct (String.eqb_spec k j0) as [E|N].
    - subst j0. rewrite sget_cons. destruct (String.eqb_spec j k); [congruence|reflexivity].
    - rewrite !sget_cons, IH. reflexivity.
  Qed.

  Lemma sget_sdel_eq : forall d k, NoDup (map fst d) -> sget k (sdel k d) = None.
  Proof.
    intros d k; induction d as [|[j0 w] d IH]; intros Hnd; [reflexivity|].
    simpl in Hnd. inversion Hnd as [|a l Hna Hnd']; subst.
    rewrite sdel_cons. destruct (String.eqb_spec k j0) as [E|N].
    - subst. apply sget_none_iff. exact Hna.
    - rewrite sget_cons. destruct (String.eqb_spec k j0); [congruence|auto].
  Qed.

  Lemma sget_sdel : forall d k j, NoDup (map fst d) ->
    sget j (sdel k d) = if String.eqb j k then None else sget j d.
  Proof.
    intros d k j Hnd. destruct (String.eqb_spec j k) as [E|N].
    - subst. apply sget_sdel_eq; exact Hnd.
    - apply sget_sdel_neq; exact N.
  Qed.

  Lemma sdel_none_id : forall d k, sget k d = None -> sdel k d = d.
  Proof.
    intros d k; induction d as [|[j0 w] d IH]; intros H; [reflexivity|].
    rewrite sget_cons in H. rewrite sdel_cons.
    destruct (String.eqb k j0); [discriminate|]. rewrite IH; auto.
  Qed.

  (* a key absent before a deletion stays absent *)
  Lemma sget_sdel_none : forall d k j, sget j d = None -> sget j (sdel k d) = None.
  Proof.
    intros d k j H. destruct (String.eqb_spec j k) as [E|N].
    - subst. rewrite sdel_none_id; auto.
    - rewrite sget_sdel_neq; auto.
  Qed.

  Lemma in_sdel : forall d k x, In x (sdel k d) -> In x d.
  Proof.
    intros d k x; induction d as [|[j0 w] d IH]; [auto|].
    rewrite sdel_cons. destruct (String.eqb k j0); intros H; [right; exact H|].
    destruct H as [H|H]; [left; exact H|right; auto].
  Qed.

  Lemma keys_sdel_in : forall d k x, In x (map fst (sdel k d)) -> In x (map fst d).
  Proof.
    intros d k x H. apply in_map_iff in H. destruct H as [[a b] [E H]]. simpl in E; subst.
    apply in_sdel in H. apply (in_map fst) in H. exact H.
  Qed.

  Lemma keys_sdel_nodup : forall d k, NoDup (map fst d) -> NoDup (map fst (sdel k d)).
  Proof.
    intros d k; induction d as [|[j0 w] d IH]; intros Hnd; [exact Hnd|].
    simpl in Hnd. inversion Hnd as [|a l Hna Hnd']; subst.
    rewrite sdel_cons. destruct (String.eqb k j0); [exact Hnd'|].
    simpl. constructor; auto. intro H. apply Hna. eapply keys_sdel_in; eauto.
  Qed.

  Lemma keys_sset_in : forall d k v j, In j (map fst (sset k v d)) <-> j = k \/ In j (map fst d).
  Proof.
    intros d k v j; induction d as [|[j0 w] d IH].
    - rewrite sset_nil. simpl. intuition.
    - rewrite sset_cons. destruct (String.eqb_spec k j0) as [E|N].
      + subst. simpl. intuition.
      + simpl. rewrite IH. intuition.
  Qed.

  Lemma keys_sset_nodup : forall d k v, NoDup (map fst d) -> NoDup (map fst (sset k v d)).
  Proof.
    intros d k v; induction d as [|[j0 w] d IH]; intros Hnd.
    - rewrite sset_nil. simpl. constructor; [intros []|constructor].
    - simpl in Hnd. inversion Hnd as [|a l Hna Hnd']; subst.
      rewrite sset_cons. destruct (String.eqb_spec k j0) as [E|N].
      + simpl. constructor; auto.
      + simpl. constructor; auto. rewrite keys_sset_in. intros [H|H]; [congruence|tauto].
  Qed.

  Lemma keys_supdate_nodup : forall d e, NoDup (map fst d) -> NoDup (map fst (supdate d e)).
  Proof.
    intros d e; revert d; induction e as [|[k v] e IH]; intros d Hnd; [exact Hnd|].
    rewrite supdate_cons. apply IH. apply keys_sset_nodup; exact Hnd.
  Qed.

  Lemma keys_supdate_in : forall d e j,
    In j (map fst (supdate d e)) <-> In j (map fst d) \/ In j (map fst e).
  Proof.
    intros d e; revert d; induction e as [|[k v] e IH]; intros d j.
    - rewrite supdate_nil. simpl. tauto.
    - rewrite supdate_cons, IH, keys_sset_in. simpl. intuition.
  Qed.

  (* the LAST binding of p in e *)
  Fixpoint sget_last (p : string) (e : list (string * V)) : option V :=
    match e with
    | [] => None
    | (j, v) :: r =>
        match sget_last p r with
        | Some w => Some w
        | None => if String.eqb p j then Some v else None
        end
    end.

  Lemma sget_supdate : forall d e p,
    sget p (supdate d e) = match sget_last p e with Some v => Some v | None => sget p d end.
  Proof.
    intros d e; revert d; induction e as [|[k v] e IH]; intros d p.
    - reflexivity.
    - rewrite supdate_cons, IH, sget_sset. cbn [sget_last].
      destruct (sget_last p e); [reflexivity|].
      destruct (String.eqb p k); reflexivity.
  Qed.

  Lemma sget_last_none_iff : forall p e, sget_last p e = None <-> ~ In p (map fst e).
  Proof.
    intros p e; induction e as [|[j w] e IH]; simpl; [tauto|].
    destruct (sget_last p e) as [x|].
    - split; [discriminate|]. intros H. exfalso. apply H. right.
      destruct (in_dec string_dec p (map fst e)) as [Hi|Hn]; [exact Hi|].
      apply IH in Hn. discriminate.
    - destruct (String.eqb_spec p j) as [E|N].
      + subst. split; [discriminate|]. intros H; exfalso; apply H; left; reflexivity.
      + split; [|reflexivity]. intros _ [H|H]; [congruence|]. apply IH in H; auto.
  Qed.

  Lemma sget_last_some_in : forall p e v, sget_last p e = Some v -> In (p, v) e.
  Proof.
    intros p e v; induction e as [|[j w] e IH]; simpl; [discriminate|].
    destruct (sget_last p e) as [x|].
    - intros H; right; auto.
    - destruct (String.eqb_spec p j) as [E|N]; [|discriminate].
      intros H; inversion H; subst. left; reflexivity.
  Qed.

  Lemma sget_last_none_sget : forall p e, sget_last p e = None <-> sget p e = None.
  Proof. intros p e. rewrite sget_last_none_iff, sget_none_iff. tauto. Qed.

  Lemma sget_last_nodup : forall p e, NoDup (map fst e) -> sget_last p e = sget p e.
  Proof.
    intros p e; induction e as [|[j w] e IH]; intros Hnd; [reflexivity|].
    simpl in Hnd. inversion Hnd as [|a l Hna Hnd']; subst.
    cbn [sget_last]. rewrite sget_cons, IH by exact Hnd'.
    destruct (String.eqb_spec p j) as [E|N].
    - subst. apply sget_none_iff in Hna. rewrite Hna. reflexivity.
    - destruct (sget p e); reflexivity.
  Qed.

  Lemma sget_supdate_nodup : forall d e p, NoDup (map fst e) ->
    sget p (supdate d e) = match sget p e with Some v => Some v | None => sget p d end.
  Proof. intros d e p Hnd. rewrite sget_supdate, sget_last_nodup by exact Hnd. reflexivity. Qed.

  Lemma sget_app : forall d e p,
    sget p (d ++ e) = match sget p d with Some v => Some v | None => sget p e end.
  Proof.
    intros d e p; induction d as [|[j w] d IH]; [reflexivity|].
    simpl app. rewrite !sget_cons. destruct (String.eqb p j); auto.
  Qed.

  Lemma sget_keys_none : forall d (e : list (string * V)) p,
    map fst d = map fst e -> sget p d = None -> sget p e = None.
  Proof.
    intros d e p Hk H. apply sget_none_iff. rewrite <- Hk. apply sget_none_iff. exact H.
  Qed.
End SAL.

(* ------------------------------------------------------------------ *)
(* prefixes *)

Lemma is_prefix_nil : forall {A} (l : list A), is_prefix [] l.
Proof. intros A l. exists l. reflexivity. Qed.

Lemma is_prefix_cons : forall {A} (x y : A) q l, is_prefix (x :: q) (y :: l) <-> x = y /\ is_prefix q l.
Proof.
  intros A x y q l. split.
  - intros [r H]. simpl in H. inversion H; subst. split; [reflexivity|exists r; reflexivity].
  - intros [E [r H]]. subst. exists r. reflexivity.
Qed.

Lemma is_prefix_of_nil : forall {A} (q : list A), is_prefix q [] <-> q = [].
Proof.
  intros A q. split.
  - intros [r H]. destruct q; [reflexivity|discriminate].
  - intros ->. apply is_prefix_nil.
Qed.

Theorem prefixes_spec : forall (A : Type) (l q : list A), In q (prefixes l) <-> is_prefix q l.
Proof.
  intros A l; induction l as [|x l IH]; intros q.
  - simpl. rewrite is_prefix_of_nil. intuition.
  - cbn [prefixes]. split.
    + intros [H|H]; [subst; apply is_prefix_nil|].
      apply in_map_iff in H. destruct H as [q0 [E H]]. subst q.
      apply is_prefix_cons. split; [reflexivity|]. apply IH; exact H.
    + intros H. destruct q as [|y q]; [left; reflexivity|].
      apply is_prefix_cons in H. destruct H as [E H]. subst y.
      right. apply in_map. apply IH; exact H.
Qed.

Theorem prefixes_nth : forall (A : Type) (l : list A) i,
  i <= List.length l -> nth_error (prefixes l) i = Some (firstn i l).
Proof.
  intros A l; induction l as [|x l IH]; intros i Hi.
  - simpl in Hi. assert (i = 0) by lia. subst. reflexivity.
  - destruct i as [|i]; [reflexivity|].
    cbn [prefixes nth_error firstn]. simpl in Hi.
    rewrite (map_nth_error (cons x) i (prefixes l) (IH i ltac:(lia))). reflexivity.
Qed.

Lemma prefixes_length : forall (A : Type) (l : list A), List.length (prefixes l) = S (List.length l).
Proof.
  intros A l; induction l as [|x l IH]; [reflexivity|].
  cbn [prefixes]. simpl. rewrite map_length, IH. reflexivity.
Qed.

(* ------------------------------------------------------------------ *)
(* first_some *)

Lemma first_some_app : forall {A B} (f : A -> option B) l1 l2,
  first_some f (l1 ++ l2) = match first_some f l1 with Some v => Some v | None => first_some f l2 end.
Proof.
  intros A B f l1 l2; induction l1 as [|x l1 IH]; [reflexivity|].
  simpl. destruct (f x); auto.
Qed.

Lemma first_some_map : forall {A B C} (g : A -> B) (f : B -> option C) l,
  first_some f (map g l) = first_some (fun x => f (g x)) l.
Proof.
  intros A B C g f l; induction l as [|x l IH]; [reflexivity|].
  simpl. rewrite IH. reflexivity.
Qed.

Lemma first_some_ext : forall {A B} (f g : A -> option B) l,
  (forall x, In x l -> f x = g x) -> first_some f l = first_some g l.
Proof.
  intros A B f g l; induction l as [|x l IH]; intros H; [reflexivity|].
  simpl. rewrite (H x (or_introl eq_refl)), IH; [reflexivity|].
  intros y Hy; apply H; right; exact Hy.
Qed.

Lemma first_some_none : forall {A B} (f : A -> option B) l,
  first_some f l = None <-> forall x, In x l -> f x = None.
Proof.
  intros A B f l; induction l as [|x l IH]; simpl.
  - split; [intros _ x []|reflexivity].
  - destruct (f x) as [b|] eqn:E.
    + split; [discriminate|]. intros H. rewrite <- E. apply H. left; reflexivity.
    + rewrite IH. split.
      * intros H y [Hy|Hy]; [subst; exact E|auto].
      * intros H y Hy. apply H. right; exact Hy.
Qed.

(* first_some over the prefixes, longest first, unfolded one step *)
Lemma first_some_rev_prefixes_cons : forall {A B} (f : list A -> option B) x l,
  first_some f (rev (prefixes (x :: l))) =
  match first_some (fun q => f (x :: q)) (rev (prefixes l)) with Some v => Some v | None => f [] end.
Proof.
  intros A B f x l. cbn [prefixes]. cbn [rev].
  rewrite first_some_app, <- map_rev, first_some_map.
  destruct (first_some (fun q => f (x :: q)) (rev (prefixes l))); [reflexivity|].
  simpl. destruct (f []); reflexivity.
Qed.

Lemma first_some_prefixes_none : forall {A B} (f : list A -> option B) l,
  first_some f (rev (prefixes l)) = None <-> forall q, is_prefix q l -> f q = None.
Proof.
  intros A B f l. rewrite first_some_none. split.
  - intros H q Hq. apply H. apply in_rev. rewrite rev_involutive. apply prefixes_spec. exact Hq.
  - intros H q Hq. apply H. apply in_rev in Hq. apply prefixes_spec. exact Hq.
Qed.

Lemma first_some_prefixes_longest : forall {A B} (l : list A) (f : list A -> option B) v,
  first_some f (rev (prefixes l)) = Some v <->
  exists q, is_prefix q l /\ f q = Some v /\
            forall q', is_prefix q' l -> List.length q < List.length q' -> f q' = None.
Proof.
  intros A B l; induction l as [|x l IH]; intros f v.
  - simpl. split.
    + intros H. exists []. split; [apply is_prefix_nil|]. split.
      * destruct (f []); congruence.
      * intros q' Hq' Hlen. apply is_prefix_of_nil in Hq'. subst. simpl in Hlen. lia.
    + intros [q [Hq [Hf _]]]. apply is_prefix_of_nil in Hq. subst. rewrite Hf. reflexivity.
  - rewrite first_some_rev_prefixes_cons. split.
    + destruct (first_some (fun q => f (x :: q)) (rev (prefixes l))) as [w|] eqn:E.
      * intros H; inversion H; subst w. apply IH in E. destruct E as [q [Hq [Hf Hl]]].
        exists (x :: q). split; [apply is_prefix_cons; auto|]. split; [exact Hf|].
        intros q' Hq' Hlen. destruct q' as [|y q']; [simpl in Hlen; lia|].
        apply is_prefix_cons in Hq'. destruct Hq' as [Ey Hq']. subst y.
        apply (Hl q' Hq'). simpl in Hlen. lia.
      * intros H. exists []. split; [apply is_prefix_nil|]. split; [exact H|].
        intros q' Hq' Hlen. destruct q' as [|y q']; [simpl in Hlen; lia|].
        apply is_prefix_cons in Hq'. destruct Hq' as [Ey Hq']. subst y.
        exact (proj1 (first_some_prefixes_none (fun q => f (x :: q)) l) E q' Hq').
    + intros [q [Hq [Hf Hl]]]. destruct q as [|y q].
      * assert (E : first_some (fun q => f (x :: q)) (rev (prefixes l)) = None).
        { apply first_some_prefixes_none. intros q' Hq'. apply Hl.
          - apply is_prefix_cons; auto.
          - simpl; lia. }
        rewrite E. exact Hf.
      * apply is_prefix_cons in Hq. destruct Hq as [Ey Hq]. subst y.
        assert (E : first_some (fun q => f (x :: q)) (rev (prefixes l)) = Some v).
        { apply IH. exists q. split; [exact Hq|]. split; [exact Hf|].
          intros q' Hq' Hlen. apply Hl; [apply is_prefix_cons; auto|simpl; lia]. }
        rewrite E. reflexivity.
Qed.

(* ------------------------------------------------------------------ *)
(* the config dictionary *)

Definition cfg_wf (cfg : cdict) : Prop := forall k d, cget k cfg = Some d -> NoDup (map fst d).

(* the parameter dict stored for sel under exactly the scope q ({} when absent) *)
Definition dict_at (cfg : cdict) (sel : string) (q : list string) : pdict :=
  match cget (scope_str q, sel) cfg with Some d => d | None => [] end.

Lemma ckey_eqb_spec : forall a b : ckey, reflect (a = b) (ckey_eqb a b).
Proof.
  intros [a1 a2] [b1 b2]. unfold ckey_eqb. simpl.
  destruct (String.eqb_spec a1 b1) as [E1|N1]; destruct (String.eqb_spec a2 b2) as [E2|N2]; simpl;
    constructor; congruence.
Qed.

Lemma cget_cset : forall cfg k d k',
  cget k' (cset k d cfg) = if ckey_eqb k' k then Some d else cget k' cfg.
Proof.
  intros cfg k d k'; induction cfg as [|[j w] cfg IH].
  - reflexivity.
  - change (cset k d ((j, w) :: cfg)) with (if ckey_eqb k j then (j, d) :: cfg else (j, w) :: cset k d cfg).
    destruct (ckey_eqb_spec k j) as [E|N].
    + subst j. change (cget k' ((k, d) :: cfg)) with (if ckey_eqb k' k then Some d else cget k' cfg).
      change (cget k' ((k, w) :: cfg)) with (if ckey_eqb k' k then Some w else cget k' cfg).
      destruct (ckey_eqb k' k); reflexivity.
    + change (cget k' ((j, w) :: cset k d cfg)) with (if ckey_eqb k' j then Some w else cget k' (cset k d cfg)).
      change (cget k' ((j, w) :: cfg)) with (if ckey_eqb k' j then Some w else cget k' cfg).
      rewrite IH. destruct (ckey_eqb_spec k' j) as [E1|N1]; [|reflexivity].
      subst j. destruct (ckey_eqb_spec k' k); [congruence|reflexivity].
Qed.

Lemma dict_at_nodup : forall cfg sel q, cfg_wf cfg -> NoDup (map fst (dict_at cfg sel q)).
Proof.
  intros cfg sel q Hwf. unfold dict_at.
  destruct (cget (scope_str q, sel) cfg) as [d|] eqn:E; [eapply Hwf; eauto|constructor].
Qed.

Lemma bound_at_dict_at : forall cfg q sel p, bound_at cfg q sel p = sget p (dict_at cfg sel q).
Proof.
  intros cfg q sel p. unfold bound_at, dict_at.
  destruct (cget (scope_str q, sel) cfg); reflexivity.
Qed.

Lemma gbf_inherit_eq : forall cfg scope sel,
  get_bindings_for cfg scope sel true =
  fold_left (fun acc q => supdate acc (dict_at cfg sel q)) (prefixes scope) [].
Proof. reflexivity. Qed.

Lemma gbf_strict_eq : forall cfg scope sel,
  get_bindings_for cfg scope sel false = supdate [] (dict_at cfg sel scope).
Proof. reflexivity. Qed.

Lemma sget_fold_supdate : forall (D : list string -> pdict) p l acc,
  sget p (fold_left (fun acc q => supdate acc (D q)) l acc) =
  match first_some (fun q => sget_last p (D q)) (rev l) with Some v => Some v | None => sget p acc end.
Proof.
  intros D p l; induction l as [|a l IH]; intros acc.
  - reflexivity.
  - cbn [fold_left rev]. rewrite IH, first_some_app, sget_supdate.
    destruct (first_some (fun q => sget_last p (D q)) (rev l)); [reflexivity|].
    simpl. destruct (sget_last p (D a)); reflexivity.
Qed.

Lemma fold_supdate_nodup : forall (D : list string -> pdict) l acc,
  NoDup (map fst acc) -> NoDup (map fst (fold_left (fun acc q => supdate acc (D q)) l acc)).
Proof.
  intros D l; induction l as [|a l IH]; intros acc H; [exact H|].
  cbn [fold_left]. apply IH. apply keys_supdate_nodup. exact H.
Qed.

(* the applicable bindings always have unique keys, whatever cfg holds *)
Lemma gbf_nodup : forall cfg scope sel b, NoDup (map fst (get_bindings_for cfg scope sel b)).
Proof.
  intros cfg scope sel [|].
  - rewrite gbf_inherit_eq. apply fold_supdate_nodup. constructor.
  - rewrite gbf_strict_eq. apply keys_supdate_nodup. constructor.
Qed.

(* ------------------------------------------------------------------ *)
(* C01: overlay = longest-prefix rule *)

Theorem overlay_correct : forall cfg scope sel p, cfg_wf cfg ->
  sget p (get_bindings_for cfg scope sel true) = overlay_spec cfg scope sel p.
Proof.
  intros cfg scope sel p Hwf. rewrite gbf_inherit_eq, sget_fold_supdate. unfold overlay_spec.
  rewrite (first_some_ext (fun q => sget_last p (dict_at cfg sel q)) (fun q => bound_at cfg q sel p)).
  - destruct (first_some _ _); reflexivity.
  - intros q _. rewrite bound_at_dict_at. apply sget_last_nodup. apply dict_at_nodup; exact Hwf.
Qed.

(* cfg_wf is not needed here: overlay_spec is defined through bound_at *)
Theorem overlay_longest : forall cfg scope sel p v,
  (overlay_spec cfg scope sel p = Some v <->
   exists q, is_prefix q scope /\ bound_at cfg q sel p = Some v /\
             forall q', is_prefix q' scope -> List.length q < List.length q' -> bound_at cfg q' sel p = None).
Proof.
  intros cfg scope sel p v. unfold overlay_spec.
  apply (first_some_prefixes_longest scope (fun q => bound_at cfg q sel p) v).
Qed.

Theorem overlay_none : forall cfg scope sel p,
  overlay_spec cfg scope sel p = None <-> forall q, is_prefix q scope -> bound_at cfg q sel p = None.
Proof.
  intros cfg scope sel p. unfold overlay_spec.
  apply (first_some_prefixes_none (fun q => bound_at cfg q sel p) scope).
Qed.

Theorem strict_scope_only : forall cfg scope sel p, cfg_wf cfg ->
  sget p (get_bindings_for cfg scope sel false) = bound_at cfg scope sel p.
Proof.
  intros cfg scope sel p Hwf. rewrite gbf_strict_eq, sget_supdate_nodup by (apply dict_at_nodup; exact Hwf).
  rewrite bound_at_dict_at, sget_nil. destruct (sget p (dict_at cfg sel scope)); reflexivity.
Qed.

(* ------------------------------------------------------------------ *)
(* join_slash is injective on well-formed scopes *)

Lemma append_slash_inj : forall x y s t,
  contains_char slash x = false -> contains_char slash y = false ->
  (x ++ String slash s)%string = (y ++ String slash t)%string -> x = y /\ s = t.
Proof.
  intros x; induction x as [|c x IH]; intros y s t Hx Hy H.
  - destruct y as [|c' y]; simpl in H.
    + inversion H; auto.
    + inversion H; subst c'. simpl in Hy. try rewrite Ascii.eqb_refl in Hy. discriminate.
  - destruct y as [|c' y]; simpl in H.
    + inversion H; subst c. simpl in Hx. try rewrite Ascii.eqb_refl in Hx. discriminate.
    + inversion H; subst c'. simpl in Hx, Hy.
      apply orb_false_iff in Hx. apply orb_false_iff in Hy.
      destruct (IH y s t (proj2 Hx) (proj2 Hy) H2) as [E1 E2]. subst. auto.
Qed.

Lemma no_slash_append : forall x y t,
  contains_char slash x = false -> x = (y ++ String slash t)%string -> False.
Proof.
  intros x; induction x as [|c x IH]; intros y t Hx H.
  - destruct y; discriminate.
  - destruct y as [|c' y]; simpl in H; inversion H; subst; simpl in Hx.
    + try rewrite Ascii.eqb_refl in Hx. discriminate.
    + apply orb_false_iff in Hx. eapply IH; [exact (proj2 Hx)|reflexivity].
Qed.

Lemma join_slash_cons2 : forall x y r,
  join_slash (x :: y :: r) = (x ++ String slash (join_slash (y :: r)))%string.
Proof. reflexivity. Qed.

Lemma join_slash_nonempty : forall x r, x <> "" -> join_slash (x :: r) <> "".
Proof.
  intros x r Hx. destruct r as [|y r].
  - exact Hx.
  - rewrite join_slash_cons2. destruct x; [congruence|discriminate].
Qed.

Theorem join_slash_inj : forall l1 l2, scope_ok l1 -> scope_ok l2 -> join_slash l1 = join_slash l2 -> l1 = l2.
Proof.
  intros l1; induction l1 as [|x l1 IH]; intros l2 H1 H2 H.
  - destruct l2 as [|y l2]; [reflexivity|]. exfalso.
    inversion H2 as [|a b [Hy _] Hr]; subst.
    apply (join_slash_nonempty y l2 Hy). symmetry. exact H.
  - inversion H1 as [|a b [Hx Hxs] Hr1]; subst.
    destruct l2 as [|y l2].
    + exfalso. apply (join_slash_nonempty x l1 Hx). exact H.
    + inversion H2 as [|a b [Hy Hys] Hr2]; subst.
      destruct l1 as [|x' l1]; destruct l2 as [|y' l2].
      * change (x = y) in H. subst; reflexivity.
      * exfalso. rewrite join_slash_cons2 in H. change (join_slash [x]) with x in H.
        eapply no_slash_append; [exact Hxs|exact H].
      * exfalso. rewrite join_slash_cons2 in H. change (join_slash [y]) with y in H.
        eapply no_slash_append; [exact Hys|symmetry; exact H].
      * rewrite !join_slash_cons2 in H.
        destruct (append_slash_inj _ _ _ _ Hxs Hys H) as [E1 E2]. subst y.
        f_equal. apply IH; auto.
Qed.

Lemma scope_ok_prefix : forall q l, scope_ok l -> is_prefix q l -> scope_ok q.
Proof.
  intros q l H [r E]. subst l. unfold scope_ok in *. apply Forall_app in H. tauto.
Qed.

(* ------------------------------------------------------------------ *)
(* frame theorems *)

Theorem non_prefix_frame : forall cfg scope sel k d,
  (forall q, is_prefix q scope -> ckey_eqb k (scope_str q, sel) = false) ->
  get_bindings_for (cset k d cfg) scope sel true = get_bindings_for cfg scope sel true.
Proof.
  intros cfg scope sel k d H. rewrite !gbf_inherit_eq.
  apply fold_left_ext_in. intros acc q Hq. f_equal.
  unfold dict_at. rewrite cget_cset.
  apply prefixes_spec in Hq. specialize (H q Hq).
  destruct (ckey_eqb_spec (scope_str q, sel) k) as [E|N]; [|reflexivity].
  subst k. destruct (ckey_eqb_spec (scope_str q, sel) (scope_str q, sel)); congruence.
Qed.

Theorem non_prefix_never_applies : forall cfg scope q' sel d,
  scope_ok scope -> scope_ok q' -> ~ is_prefix q' scope ->
  get_bindings_for (cset (scope_str q', sel) d cfg) scope sel true = get_bindings_for cfg scope sel true.
Proof.
  intros cfg scope q' sel d Hs Hq' Hnp. apply non_prefix_frame. intros q Hq.
  destruct (ckey_eqb_spec (scope_str q', sel) (scope_str q, sel)) as [E|N]; [|reflexivity].
  exfalso. apply Hnp.
  assert (E1 : scope_str q' = scope_str q) by congruence.
  assert (Hqq : q' = q).
  { apply join_slash_inj; [exact Hq'|exact (scope_ok_prefix q scope Hs Hq)|exact E1]. }
  subst; exact Hq.
Qed.

Theorem other_selector_frame : forall cfg scope sel sel' s' d, sel' <> sel ->
  get_bindings_for (cset (s', sel') d cfg) scope sel true = get_bindings_for cfg scope sel true.
Proof.
  intros cfg scope sel sel' s' d Hne. apply non_prefix_frame. intros q _.
  destruct (ckey_eqb_spec (s', sel') (scope_str q, sel)) as [E|N]; [|reflexivity].
  inversion E; congruence.
Qed.
