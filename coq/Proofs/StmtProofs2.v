(* C14 (file resolution order, includes act as in-place inclusion) and C15 (skip_unknown).
   Proofs about Model/Stmt.v, Model/StmtSpec.v; reuses Proofs/StmtProofs.v. *)
From Coq Require Import List String ZArith Bool Arith Lia.
From GinV Require Import Lib.Out Lib.PyStr Model.SelectorMap Model.Parser Model.Stmt Model.StmtSpec Proofs.StmtProofs.
Import ListNotations.
Open Scope string_scope.
Open Scope list_scope.

(* ================================================================== *)
(* C15: skip_unknown                                                  *)
(* ================================================================== *)

(* never skip a known name *)
Theorem C15_known_never_skipped : forall s sel sk,
  sm_matching (to_key sel) (t_reg s) <> [] -> should_skip s sel sk = false.
Proof.
  intros s sel sk H. unfold should_skip.
  destruct (sm_matching (to_key sel) (t_reg s)) as [|k l]; [contradiction|reflexivity].
Qed.

Theorem C15_skip_false : forall s sel, should_skip s sel SkFalse = false.
Proof. intros s sel. unfold should_skip. destruct (sm_matching (to_key sel) (t_reg s)); reflexivity. Qed.

Theorem C15_skip_list : forall s sel l,
  sm_matching (to_key sel) (t_reg s) = [] -> should_skip s sel (SkList l) = str_in sel l.
Proof. intros s sel l H. unfold should_skip. rewrite H. reflexivity. Qed.

Theorem C15_skip_true : forall s sel,
  sm_matching (to_key sel) (t_reg s) = [] -> should_skip s sel SkTrue = true.
Proof. intros s sel H. unfold should_skip. rewrite H. reflexivity. Qed.

(* should_skip only ever says true for an unknown name *)
Theorem C15_skip_only_unknown : forall s sel sk,
  should_skip s sel sk = true -> sm_matching (to_key sel) (t_reg s) = [].
Proof.
  intros s sel sk H. unfold should_skip in H.
  destruct (sm_matching (to_key sel) (t_reg s)); [reflexivity|discriminate].
Qed.

(* should_skip reads nothing but the registry *)
Lemma should_skip_reg : forall s s' sel sk, t_reg s' = t_reg s -> should_skip s' sel sk = should_skip s sel sk.
Proof. intros s s' sel sk H. unfold should_skip. rewrite H. reflexivity. Qed.

(* a binding whose target is unknown and covered is dropped: applying it changes nothing and continues *)
Theorem C15_covered_binding_dropped : forall env sk fname inc sc sel arg v line rest s im ic,
  arg <> "" -> should_skip s sel sk = true ->
  apply_stmts env sk fname inc (SBind sc sel arg v line :: rest) s im ic = apply_stmts env sk fname inc rest s im ic.
Proof.
  intros env sk fname inc sc sel arg v line rest s im ic Harg Hsk. cbn [apply_stmts].
  destruct (String.eqb_spec arg "") as [E|_]; [contradiction|]. rewrite Hsk. reflexivity.
Qed.

Theorem C15_covered_block_dropped : forall env sk fname inc sc sel line rest s im ic,
  should_skip s sel sk = true ->
  apply_stmts env sk fname inc (SBlock sc sel line :: rest) s im ic = apply_stmts env sk fname inc rest s im ic.
Proof. intros env sk fname inc sc sel line rest s im ic Hsk. cbn [apply_stmts]. rewrite Hsk. reflexivity. Qed.

(* an import of a module that cannot be imported is dropped under a truthy skip setting *)
Theorem C15_missing_import_dropped : forall env sk fname inc m isf al line rest s im ic,
  str_in m (e_modules env) = false -> sk_truthy sk = true ->
  apply_stmts env sk fname inc (SImport m isf al line :: rest) s im ic = apply_stmts env sk fname inc rest s im ic.
Proof. intros env sk fname inc m isf al line rest s im ic Hm Hsk. cbn [apply_stmts]. rewrite Hm, Hsk. reflexivity. Qed.

(* an unknown, uncovered target is still an error that applies nothing *)
Theorem C15_uncovered_unknown_errors : forall env sk fname inc sc sel arg v line rest s im ic,
  arg <> "" -> should_skip s sel sk = false -> sm_get_match (to_key sel) (t_reg s) = MNone ->
  exists e, apply_stmts env sk fname inc (SBind sc sel arg v line :: rest) s im ic = (s, SErr e).
Proof.
  intros env sk fname inc sc sel arg v line rest s im ic Harg Hsk Hm. cbn [apply_stmts].
  destruct (String.eqb_spec arg "") as [E|_]; [contradiction|]. rewrite Hsk.
  unfold bind. destruct (t_locked s).
  - eexists. rewrite with_loc_SErr. reflexivity.
  - rewrite Hm. eexists. rewrite with_loc_SErr. reflexivity.
Qed.

(* sharper: when the config is not locked, the error is the ValueError of the unknown configurable, located at the statement *)
Theorem C15_uncovered_unknown_errors_exact : forall env sk fname inc sc sel arg v line rest s im ic,
  arg <> "" -> should_skip s sel sk = false -> sm_get_match (to_key sel) (t_reg s) = MNone -> t_locked s = false ->
  apply_stmts env sk fname inc (SBind sc sel arg v line :: rest) s im ic = (s, SErr (SEOther "ValueError" [(fname, line)])).
Proof.
  intros env sk fname inc sc sel arg v line rest s im ic Harg Hsk Hm Hl. cbn [apply_stmts].
  destruct (String.eqb_spec arg "") as [E|_]; [contradiction|]. rewrite Hsk.
  unfold bind. rewrite Hl, Hm. reflexivity.
Qed.

(* the same for a block header *)
Theorem C15_uncovered_unknown_block_errors : forall env sk fname inc sc sel line rest s im ic,
  should_skip s sel sk = false -> sm_get_match (to_key sel) (t_reg s) = MNone ->
  apply_stmts env sk fname inc (SBlock sc sel line :: rest) s im ic = (s, SErr (SEOther "ValueError" [(fname, line)])).
Proof.
  intros env sk fname inc sc sel line rest s im ic Hsk Hm. cbn [apply_stmts]. rewrite Hsk, Hm. reflexivity.
Qed.

(* ---------- equivalence with the reduced text ---------- *)
Definition covered (s : tstate) (sk : skip_unknown) (st : stmt) : bool :=
  match st with
  | SBind _ sel arg _ _ => negb (String.eqb arg "") && should_skip s sel sk
  | SBlock _ sel _ => should_skip s sel sk
  | _ => false
  end.

(* the same, plus the imports of modules that cannot be imported under a truthy skip setting *)
Definition covered_env (env : fenv) (s : tstate) (sk : skip_unknown) (st : stmt) : bool :=
  match st with
  | SImport m _ _ _ => negb (str_in m (e_modules env)) && sk_truthy sk
  | _ => covered s sk st
  end.

Lemma covered_reg : forall s s' sk st, t_reg s' = t_reg s -> covered s' sk st = covered s sk st.
Proof.
  intros s s' sk st H. destruct st as [sc sel arg v line|sc sel line|m isf al line|v line]; cbn [covered];
    try reflexivity; rewrite (should_skip_reg _ _ _ _ H); reflexivity.
Qed.

(* generalised over a reference state s0 with the same registry as the running state *)
Lemma C15_reduce_equiv_gen : forall env sk fname inc (cov : stmt -> bool) s0 stmts s im ic,
  pure_imports env ->
  (forall st, cov st = covered s0 sk st \/ cov st = covered_env env s0 sk st) ->
  forallb (fun st => negb (is_include st)) stmts = true ->
  t_reg s = t_reg s0 ->
  apply_stmts env sk fname inc stmts s im ic =
  apply_stmts env sk fname inc (filter (fun st => negb (cov st)) stmts) s im ic.
Proof.
  intros env sk fname inc cov s0 stmts. induction stmts as [|st rest IH]; intros s im ic Hpure Hcov Hn Hreg.
  - reflexivity.
  - cbn [forallb] in Hn. apply andb_true_iff in Hn. destruct Hn as [Hst Hrest].
    assert (Hb : forall sc sel arg v l s1, bind s sc sel arg v l = SOk s1 -> t_reg s1 = t_reg s0).
    { intros sc sel arg v l s1 Hbind. destruct (bind_ok_frame _ _ _ _ _ _ _ Hbind) as [B1 _]. congruence. }
    cbn [filter].
    destruct st as [sc sel arg v line|sc sel line|m isf al line|v line].
    + (* SBind *)
      assert (Hc : cov (SBind sc sel arg v line) = negb (String.eqb arg "") && should_skip s sel sk).
      { rewrite (should_skip_reg s0 s sel sk Hreg). destruct (Hcov (SBind sc sel arg v line)) as [E|E]; exact E. }
      rewrite Hc. cbn [apply_stmts].
      destruct (String.eqb arg "") eqn:Ea; cbn [negb andb].
      * cbn [apply_stmts]. rewrite Ea.
        destruct (bind s _ "gin.macro" "value" v (fname, line)) as [s1|e] eqn:Hbind; [|reflexivity].
        apply IH; try assumption. eapply Hb; exact Hbind.
      * destruct (should_skip s sel sk) eqn:Es; cbn [negb].
        -- apply IH; assumption.
        -- cbn [apply_stmts]. rewrite Ea, Es.
           destruct (bind s sc sel arg v (fname, line)) as [s1|e] eqn:Hbind; [|reflexivity].
           apply IH; try assumption. eapply Hb; exact Hbind.
    + (* SBlock *)
      assert (Hc : cov (SBlock sc sel line) = should_skip s sel sk).
      { rewrite (should_skip_reg s0 s sel sk Hreg). destruct (Hcov (SBlock sc sel line)) as [E|E]; exact E. }
      rewrite Hc. cbn [apply_stmts].
      destruct (should_skip s sel sk) eqn:Es; cbn [negb].
      * apply IH; assumption.
      * cbn [apply_stmts]. rewrite Es.
        destruct (sm_get_match (to_key sel) (t_reg s)) as [| |k [c|]]; try reflexivity. apply IH; assumption.
    + (* SImport *)
      destruct (Hcov (SImport m isf al line)) as [E|E]; rewrite E; cbn [covered covered_env negb].
      * cbn [apply_stmts].
        destruct (str_in m (e_modules env)); [rewrite (register_mod_pure env m s Hpure); apply IH; assumption|].
        destruct (sk_truthy sk); [apply IH; assumption|reflexivity].
      * cbn [apply_stmts].
        destruct (str_in m (e_modules env)) eqn:Em; cbn [negb andb].
        -- cbn [apply_stmts]. rewrite Em, (register_mod_pure env m s Hpure). apply IH; assumption.
        -- destruct (sk_truthy sk) eqn:Et; cbn [negb].
           ++ apply IH; assumption.
           ++ cbn [apply_stmts]. rewrite Em, Et. reflexivity.
    + cbn in Hst. discriminate.
Qed.

(* deleting the covered statements first and then applying with the SAME skip setting gives the same result *)
Theorem C15_reduce_equiv : forall env sk fname inc stmts s im ic,
  pure_imports env ->
  forallb (fun st => negb (is_include st)) stmts = true ->
  apply_stmts env sk fname inc stmts s im ic =
  apply_stmts env sk fname inc (filter (fun st => negb (covered s sk st)) stmts) s im ic.
Proof.
  intros env sk fname inc stmts s im ic Hpure Hn.
  apply (C15_reduce_equiv_gen env sk fname inc (covered s sk) s); auto.
Qed.

(* the same with the un-importable imports deleted as well *)
Theorem C15_reduce_equiv_imports : forall env sk fname inc stmts s im ic,
  pure_imports env ->
  forallb (fun st => negb (is_include st)) stmts = true ->
  apply_stmts env sk fname inc stmts s im ic =
  apply_stmts env sk fname inc (filter (fun st => negb (covered_env env s sk st)) stmts) s im ic.
Proof.
  intros env sk fname inc stmts s im ic Hpure Hn.
  apply (C15_reduce_equiv_gen env sk fname inc (covered_env env s sk) s); auto.
Qed.

(* second half: when no statement of the list targets an unknown name (and every import is importable), the skip
   setting is irrelevant: applying with skipping switched OFF gives the same result *)
Definition targets_known (env : fenv) (s : tstate) (st : stmt) : bool :=
  match st with
  | SBind _ sel arg _ _ =>
      String.eqb arg "" || match sm_matching (to_key sel) (t_reg s) with [] => false | _ :: _ => true end
  | SBlock _ sel _ => match sm_matching (to_key sel) (t_reg s) with [] => false | _ :: _ => true end
  | SImport m _ _ _ => str_in m (e_modules env)
  | SInclude _ _ => true
  end.

Lemma known_no_skip : forall s sel sk,
  match sm_matching (to_key sel) (t_reg s) with [] => false | _ :: _ => true end = true -> should_skip s sel sk = false.
Proof.
  intros s sel sk H. apply C15_known_never_skipped. intro E. rewrite E in H. discriminate.
Qed.

Lemma targets_known_reg : forall env s s' st, t_reg s' = t_reg s -> targets_known env s' st = targets_known env s st.
Proof. intros env s s' st H. destruct st; cbn [targets_known]; rewrite ?H; reflexivity. Qed.

Lemma C15_known_targets_skip_irrelevant_gen : forall env sk sk' fname inc s0 stmts s im ic,
  pure_imports env ->
  forallb (fun st => negb (is_include st)) stmts = true ->
  forallb (targets_known env s0) stmts = true ->
  t_reg s = t_reg s0 ->
  apply_stmts env sk fname inc stmts s im ic = apply_stmts env sk' fname inc stmts s im ic.
Proof.
  intros env sk sk' fname inc s0 stmts. induction stmts as [|st rest IH]; intros s im ic Hpure Hn Hk Hreg.
  - reflexivity.
  - cbn [forallb] in Hn, Hk. apply andb_true_iff in Hn. destruct Hn as [Hst Hrest].
    apply andb_true_iff in Hk. destruct Hk as [Hkst Hkrest].
    rewrite <- (targets_known_reg env s0 s st Hreg) in Hkst.
    assert (Hb : forall sc sel arg v l s1, bind s sc sel arg v l = SOk s1 -> t_reg s1 = t_reg s0).
    { intros sc sel arg v l s1 Hbind. destruct (bind_ok_frame _ _ _ _ _ _ _ Hbind) as [B1 _]. congruence. }
    destruct st as [sc sel arg v line|sc sel line|m isf al line|v line]; cbn [apply_stmts]; cbn [targets_known] in Hkst.
    + destruct (String.eqb arg "") eqn:Ea; cbn [orb] in Hkst.
      * destruct (bind s _ "gin.macro" "value" v (fname, line)) as [s1|e] eqn:Hbind; [|reflexivity].
        apply IH; try assumption. eapply Hb; exact Hbind.
      * rewrite (known_no_skip s sel sk Hkst), (known_no_skip s sel sk' Hkst).
        destruct (bind s sc sel arg v (fname, line)) as [s1|e] eqn:Hbind; [|reflexivity].
        apply IH; try assumption. eapply Hb; exact Hbind.
    + rewrite (known_no_skip s sel sk Hkst), (known_no_skip s sel sk' Hkst).
      destruct (sm_get_match (to_key sel) (t_reg s)) as [| |k [c|]]; try reflexivity. apply IH; assumption.
    + rewrite Hkst, (register_mod_pure env m s Hpure). apply IH; assumption.
    + cbn in Hst. discriminate.
Qed.

Theorem C15_known_targets_skip_irrelevant : forall env sk fname inc stmts s im ic,
  pure_imports env ->
  forallb (fun st => negb (is_include st)) stmts = true ->
  forallb (targets_known env s) stmts = true ->
  apply_stmts env sk fname inc stmts s im ic = apply_stmts env SkFalse fname inc stmts s im ic.
Proof.
  intros env sk fname inc stmts s im ic Hpure Hn Hk.
  apply (C15_known_targets_skip_irrelevant_gen env sk SkFalse fname inc s); auto.
Qed.

(* both halves together: the original list under [sk] = the reduced list with skipping switched off, provided the
   statements that remain target known names only *)
Corollary C15_reduce_equiv_skfalse : forall env sk fname inc stmts s im ic,
  pure_imports env ->
  forallb (fun st => negb (is_include st)) stmts = true ->
  forallb (targets_known env s) (filter (fun st => negb (covered_env env s sk st)) stmts) = true ->
  apply_stmts env sk fname inc stmts s im ic =
  apply_stmts env SkFalse fname inc (filter (fun st => negb (covered_env env s sk st)) stmts) s im ic.
Proof.
  intros env sk fname inc stmts s im ic Hpure Hn Hk.
  rewrite (C15_reduce_equiv_imports env sk fname inc stmts s im ic Hpure Hn).
  apply C15_known_targets_skip_irrelevant; [exact Hpure| |exact Hk].
  clear Hk. induction stmts as [|st rest IH]; [reflexivity|].
  cbn [forallb] in Hn. apply andb_true_iff in Hn. destruct Hn as [Hst Hrest].
  cbn [filter]. destruct (negb (covered_env env s sk st)); [cbn [forallb]; rewrite Hst|]; auto.
Qed.

(* ---------- references ---------- *)
(* placeholders are kept, never resolved to something else *)
Theorem C15_placeholder_kept : forall s sk scoped ev, should_skip s (last_slash scoped) sk = true ->
  make_reference s sk scoped ev = SOk (OT "Unk" [OS (last_slash scoped); OB ev]).
Proof. intros s sk scoped ev H. unfold make_reference. rewrite H. reflexivity. Qed.

Lemma get_match_one_matching : forall (V : Type) p (m : smap V) k v,
  sm_get_match p m = MOne k v -> sm_matching p m = [k].
Proof.
  intros V p m k v H. unfold sm_get_match in H.
  destruct (sm_matching p m) as [|k0 [|k1 l]]; try discriminate. inversion H. reflexivity.
Qed.

Lemma get_match_none_matching : forall (V : Type) p (m : smap V),
  sm_get_match p m = MNone <-> sm_matching p m = [].
Proof.
  intros V p m. unfold sm_get_match.
  destruct (sm_matching p m) as [|k0 [|k1 l]]; split; intro H; try discriminate; reflexivity.
Qed.

Theorem C15_known_reference_resolved : forall s sk scoped ev k c,
  sm_get_match (to_key (last_slash scoped)) (t_reg s) = MOne k (Some c) ->
  make_reference s sk scoped ev = SOk (OT "Ref" [OL (map OS (removelast (split_slash scoped))); OS (cs_sel c); OB ev]).
Proof.
  intros s sk scoped ev k c H. unfold make_reference.
  rewrite (C15_known_never_skipped s (last_slash scoped) sk)
    by (rewrite (get_match_one_matching _ _ _ _ _ H); discriminate).
  rewrite H. reflexivity.
Qed.

(* an unknown, uncovered reference is an error *)
Theorem C15_unknown_reference_errors : forall s sk scoped ev,
  should_skip s (last_slash scoped) sk = false -> sm_get_match (to_key (last_slash scoped)) (t_reg s) = MNone ->
  make_reference s sk scoped ev = SErr (SEOther "ValueError" []).
Proof. intros s sk scoped ev Hsk Hm. unfold make_reference. rewrite Hsk, Hm. reflexivity. Qed.

(* ================================================================== *)
(* C14: file resolution order                                         *)
(* ================================================================== *)
Definition readable (env : fenv) (r : nat) (full : string) : Prop := al_get rp_eqb (r, full) (e_files env) <> None.

(* the two loops of resolve_file, named *)
Definition rf_inner (env : fenv) (full : string) : list nat -> option gfile :=
  fix inner (rs : list nat) : option gfile :=
    match rs with
    | [] => None
    | x :: t => match al_get rp_eqb (x, full) (e_files env) with Some g => Some g | None => inner t end
    end.
Definition rf_outer (env : fenv) (name : string) : list string -> option (string * gfile) :=
  fix outer (ps : list string) : option (string * gfile) :=
    match ps with
    | [] => None
    | p :: r => match rf_inner env (path_join p name) (e_readers env) with
                | Some g => Some (path_join p name, g)
                | None => outer r
                end
    end.

Lemma rf_inner_nil : forall env full, rf_inner env full [] = None.
Proof. reflexivity. Qed.
Lemma rf_inner_cons : forall env full x t, rf_inner env full (x :: t) =
  match al_get rp_eqb (x, full) (e_files env) with Some g => Some g | None => rf_inner env full t end.
Proof. reflexivity. Qed.
Lemma rf_outer_nil : forall env name, rf_outer env name [] = None.
Proof. reflexivity. Qed.
Lemma rf_outer_cons : forall env name p r, rf_outer env name (p :: r) =
  match rf_inner env (path_join p name) (e_readers env) with
  | Some g => Some (path_join p name, g)
  | None => rf_outer env name r
  end.
Proof. reflexivity. Qed.

Lemma resolve_file_eq : forall env name,
  resolve_file env name = rf_outer env name (if is_abs name then [""] else e_prefixes env).
Proof. reflexivity. Qed.

Lemma rf_inner_some : forall env full rs g, rf_inner env full rs = Some g ->
  exists r rs1 rs2, rs = rs1 ++ r :: rs2 /\ al_get rp_eqb (r, full) (e_files env) = Some g /\
    (forall r', In r' rs1 -> al_get rp_eqb (r', full) (e_files env) = None).
Proof.
  intros env full rs. induction rs as [|x t IH]; intros g H.
  - discriminate.
  - rewrite rf_inner_cons in H. destruct (al_get rp_eqb (x, full) (e_files env)) as [g0|] eqn:E.
    + inversion H; subst g0. exists x, [], t. split; [reflexivity|]. split; [exact E|]. intros r' [].
    + destruct (IH g H) as [r [rs1 [rs2 [A [B C]]]]]. exists r, (x :: rs1), rs2.
      split; [rewrite A; reflexivity|]. split; [exact B|].
      intros r' [Hr|Hr]; [subst r'; exact E|apply C; exact Hr].
Qed.

Lemma rf_inner_none : forall env full rs,
  rf_inner env full rs = None <-> (forall r, In r rs -> al_get rp_eqb (r, full) (e_files env) = None).
Proof.
  intros env full rs. induction rs as [|x t IH].
  - split; [intros _ r []|reflexivity].
  - rewrite rf_inner_cons. destruct (al_get rp_eqb (x, full) (e_files env)) as [g0|] eqn:E.
    + split; [discriminate|]. intros H. rewrite (H x (or_introl eq_refl)) in E. discriminate.
    + rewrite IH. split.
      * intros H r [Hr|Hr]; [subst r; exact E|apply H; exact Hr].
      * intros H r Hr. apply H. right. exact Hr.
Qed.

Lemma rf_outer_some : forall env name ps full g, rf_outer env name ps = Some (full, g) ->
  exists p ps1 ps2, ps = ps1 ++ p :: ps2 /\ full = path_join p name /\
    rf_inner env full (e_readers env) = Some g /\
    (forall p', In p' ps1 -> rf_inner env (path_join p' name) (e_readers env) = None).
Proof.
  intros env name ps. induction ps as [|p t IH]; intros full g H.
  - discriminate.
  - rewrite rf_outer_cons in H. destruct (rf_inner env (path_join p name) (e_readers env)) as [g0|] eqn:E.
    + inversion H; subst full g0. exists p, [], t. split; [reflexivity|]. split; [reflexivity|].
      split; [exact E|]. intros p' [].
    + destruct (IH full g H) as [q [ps1 [ps2 [A [B [C D]]]]]]. exists q, (p :: ps1), ps2.
      split; [rewrite A; reflexivity|]. split; [exact B|]. split; [exact C|].
      intros p' [Hp|Hp]; [subst p'; exact E|apply D; exact Hp].
Qed.

Lemma rf_outer_none : forall env name ps,
  (forall p, In p ps -> rf_inner env (path_join p name) (e_readers env) = None) -> rf_outer env name ps = None.
Proof.
  intros env name ps. induction ps as [|p t IH]; intros H; [reflexivity|].
  rewrite rf_outer_cons. rewrite (H p (or_introl eq_refl)). apply IH. intros q Hq. apply H. right. exact Hq.
Qed.

(* general form (absolute or not): the search list is [""] for an absolute name *)
Theorem C14_resolve_order_gen : forall env name full g, resolve_file env name = Some (full, g) ->
  exists p r, In p (if is_abs name then [""] else e_prefixes env) /\ In r (e_readers env) /\
    full = path_join p name /\ al_get rp_eqb (r, full) (e_files env) = Some g /\
    (exists ps1 ps2 rs1 rs2, (if is_abs name then [""] else e_prefixes env) = ps1 ++ p :: ps2 /\
       e_readers env = rs1 ++ r :: rs2 /\
       (forall p', In p' ps1 -> forall r', In r' (e_readers env) -> ~ readable env r' (path_join p' name)) /\
       (forall r', In r' rs1 -> ~ readable env r' full)).
Proof.
  intros env name full g H. rewrite resolve_file_eq in H.
  destruct (rf_outer_some _ _ _ _ _ H) as [p [ps1 [ps2 [A [B [C D]]]]]].
  destruct (rf_inner_some _ _ _ _ C) as [r [rs1 [rs2 [E [F G]]]]].
  exists p, r.
  split; [rewrite A; apply in_or_app; right; left; reflexivity|].
  split; [rewrite E; apply in_or_app; right; left; reflexivity|].
  split; [exact B|]. split; [exact F|].
  exists ps1, ps2, rs1, rs2. split; [exact A|]. split; [exact E|]. split.
  - intros p' Hp' r' Hr' Hread. apply Hread.
    apply (proj1 (rf_inner_none env (path_join p' name) (e_readers env)) (D p' Hp') r' Hr').
  - intros r' Hr' Hread. apply Hread. apply G. exact Hr'.
Qed.

(* resolve_file returns the FIRST (location, reader) pair, locations outer, readers inner, that can read the name *)
Theorem C14_resolve_order : forall env name full g, is_abs name = false -> resolve_file env name = Some (full, g) ->
  exists p r, In p (e_prefixes env) /\ In r (e_readers env) /\ full = path_join p name /\
    al_get rp_eqb (r, full) (e_files env) = Some g /\
    (exists ps1 ps2 rs1 rs2, e_prefixes env = ps1 ++ p :: ps2 /\ e_readers env = rs1 ++ r :: rs2 /\
       (forall p', In p' ps1 -> forall r', In r' (e_readers env) -> ~ readable env r' (path_join p' name)) /\
       (forall r', In r' rs1 -> ~ readable env r' full)).
Proof.
  intros env name full g Habs H. pose proof (C14_resolve_order_gen env name full g H) as G.
  rewrite Habs in G. exact G.
Qed.

(* converse: the first readable pair IS what resolve_file returns (so the result is characterised exactly) *)
Theorem C14_resolve_first : forall env name p r g ps1 ps2 rs1 rs2,
  (if is_abs name then [""] else e_prefixes env) = ps1 ++ p :: ps2 -> e_readers env = rs1 ++ r :: rs2 ->
  al_get rp_eqb (r, path_join p name) (e_files env) = Some g ->
  (forall p', In p' ps1 -> forall r', In r' (e_readers env) -> ~ readable env r' (path_join p' name)) ->
  (forall r', In r' rs1 -> ~ readable env r' (path_join p name)) ->
  resolve_file env name = Some (path_join p name, g).
Proof.
  intros env name p r g ps1 ps2 rs1 rs2 Hp Hr Hg Hps Hrs. rewrite resolve_file_eq, Hp.
  assert (NN : forall o : option gfile, ~ o <> None -> o = None).
  { intros [x|] Hn; [exfalso; apply Hn; discriminate|reflexivity]. }
  clear Hp. induction ps1 as [|q ps1 IH]; cbn [app]; rewrite rf_outer_cons.
  - assert (Hin : rf_inner env (path_join p name) (e_readers env) = Some g).
    { rewrite Hr. clear Hr Hps. induction rs1 as [|x rs1 IHr]; cbn [app]; rewrite rf_inner_cons.
      - rewrite Hg. reflexivity.
      - rewrite (NN _ (Hrs x (or_introl eq_refl))). apply IHr. intros r' Hr'. apply Hrs. right. exact Hr'. }
    rewrite Hin. reflexivity.
  - assert (Hq : rf_inner env (path_join q name) (e_readers env) = None).
    { apply rf_inner_none. intros r' Hr'. apply NN. apply (Hps q (or_introl eq_refl) r' Hr'). }
    rewrite Hq. apply IH. intros p' Hp'. apply Hps. right. exact Hp'.
Qed.

(* an absolute name ignores the location prefixes: only "" is tried (and path_join "" name = name) *)
Theorem C14_absolute_bypasses : forall env name, is_abs name = true ->
  resolve_file env name =
  resolve_file {| e_files := e_files env; e_readers := e_readers env; e_prefixes := [""]; e_modules := e_modules env;
                  e_mod_regs := e_mod_regs env |} name.
Proof. intros env name H. rewrite !resolve_file_eq. rewrite H. reflexivity. Qed.

Theorem C14_absolute_full_is_name : forall env name full g, is_abs name = true ->
  resolve_file env name = Some (full, g) -> full = name.
Proof.
  intros env name full g Habs H. destruct (C14_resolve_order_gen env name full g H) as [p [r [_ [_ [Hf _]]]]].
  subst full. unfold path_join. rewrite Habs. reflexivity.
Qed.

Theorem C14_missing : forall env name,
  (forall p r, In p (if is_abs name then [""] else e_prefixes env) -> In r (e_readers env) ->
               ~ readable env r (path_join p name)) ->
  resolve_file env name = None.
Proof.
  intros env name H. rewrite resolve_file_eq. apply rf_outer_none. intros p Hp.
  apply rf_inner_none. intros r Hr. specialize (H p r Hp Hr). unfold readable in H.
  destruct (al_get rp_eqb (r, path_join p name) (e_files env)); [exfalso; apply H; discriminate|reflexivity].
Qed.

Theorem C14_missing_applies_nothing : forall env sk name s, resolve_file env name = None ->
  parse_config_file env sk name s = (s, SErr (SEOther "OSError" [])).
Proof. intros env sk name s H. unfold parse_config_file. rewrite H. reflexivity. Qed.

(* the same inside an include: the handler applies nothing and reports the OSError *)
Theorem C14_missing_include_applies_nothing : forall f env sk name s, resolve_file env name = None ->
  inc_of f env sk name s = (s, SErr (SEOther "OSError" [])).
Proof. intros f env sk name s H. unfold inc_of. rewrite H. reflexivity. Qed.

(* ================================================================== *)
(* C14: an include acts as in-place inclusion                         *)
(* ================================================================== *)
Theorem C14_include_step : forall env sk fname inc v line rest s im ic,
  apply_stmts env sk fname inc (SInclude v line :: rest) s im ic =
  (let '(s', r) := inc (str_of_value v) s in
   match r with
   | SErr e => (s', with_loc (fname, line) (SErr e))
   | SOk t => apply_stmts env sk fname inc rest s' im (ic ++ [t])
   end).
Proof. reflexivity. Qed.

(* parse_config_file IS the handler at fuel 60 *)
Theorem C14_parse_config_file_is_handler : forall env sk name s,
  parse_config_file env sk name s = inc_of 60 env sk name s.
Proof.
  intros env sk name s. unfold parse_config_file, inc_of, parse_config.
  destruct (resolve_file env name) as [[full g]|]; [|reflexivity].
  destruct (settle (f_tokens g)) as [ts0|[ln|c]]; reflexivity.
Qed.

(* in-place inclusion, one level *)
Theorem C14_inplace_one_level : forall f env sk name full g ts0 gs2 s,
  resolve_file env name = Some (full, g) -> settle (f_tokens g) = POk ts0 ->
  parse_groups f (f_oracle g) false ts0 = (gs2, None) -> no_includes gs2 -> List.length gs2 < f ->
  inc_of f env sk name s =
  (let '(s1, r) := consume env sk full no_inc gs2 s [] [] in
   match r with
   | SErr e => (s1, SErr e)
   | SOk (im, ic) => (s1, SOk (INode name im ic))
   end).
Proof.
  intros f env sk name full g ts0 gs2 s Hres Hset Hpg Hn Hl.
  unfold inc_of. rewrite Hres, Hset.
  rewrite (C16_stream_eq f env sk full (f_oracle g) false ts0 s [] [] gs2 None Hpg Hn Hl).
  destruct (consume env sk full no_inc gs2 s [] []) as [s1 r]. destruct r as [[im ic]|e]; reflexivity.
Qed.

(* ================================================================== *)
(* resolve_value / resolve_group read only the registry and constants *)
(* ================================================================== *)
Definition rv_go (rec : out -> sres out) : list out -> sres (list out) :=
  fix go (l : list out) : sres (list out) :=
    match l with
    | [] => SOk []
    | x :: r => match rec x with
                | SErr e => SErr e
                | SOk x' => match go r with SErr e => SErr e | SOk r' => SOk (x' :: r') end
                end
    end.
Definition rv_body (rec : out -> sres out) (mr : string -> bool -> sres out) (mm : string -> sres out) (v : out)
  : sres out :=
  match v with
  | OT "Ref" [OS name; OT ev []] => mr name (String.eqb ev "True")
  | OT "Macro" [OS name] => mm name
  | OT "L" l => match rv_go rec l with SErr e => SErr e | SOk l' => SOk (OT "L" l') end
  | OT "T" l => match rv_go rec l with SErr e => SErr e | SOk l' => SOk (OT "T" l') end
  | OT "D" l => match rv_go rec l with SErr e => SErr e | SOk l' => SOk (OT "D" l') end
  | OL l => match rv_go rec l with SErr e => SErr e | SOk l' => SOk (OL l') end
  | _ => SOk v
  end.

Lemma resolve_value_S : forall f s sk v,
  resolve_value (S f) s sk v = rv_body (resolve_value f s sk) (make_reference s sk) (make_macro s) v.
Proof. reflexivity. Qed.

Lemma rv_go_ext : forall rec rec', (forall x, rec x = rec' x) -> forall l, rv_go rec l = rv_go rec' l.
Proof.
  intros rec rec' H l. induction l as [|x r IH]; [reflexivity|].
  change (rv_go rec (x :: r)) with
    (match rec x with SErr e => SErr e
     | SOk x' => match rv_go rec r with SErr e => SErr e | SOk r' => SOk (x' :: r') end end).
  change (rv_go rec' (x :: r)) with
    (match rec' x with SErr e => SErr e
     | SOk x' => match rv_go rec' r with SErr e => SErr e | SOk r' => SOk (x' :: r') end end).
  rewrite H, IH. reflexivity.
Qed.

Lemma rv_body_ext : forall rec rec' mr mr' mm mm' v,
  (forall x, rec x = rec' x) -> (forall n b, mr n b = mr' n b) -> (forall n, mm n = mm' n) ->
  rv_body rec mr mm v = rv_body rec' mr' mm' v.
Proof.
  intros rec rec' mr mr' mm mm' v Hrec Hmr Hmm.
  pose proof (rv_go_ext rec rec' Hrec) as Hgo.
  unfold rv_body.
  repeat (first [ reflexivity
                | rewrite Hgo; reflexivity
                | apply Hmr
                | apply Hmm
                | match goal with |- context [match ?x with _ => _ end] => is_var x; destruct x end ]).
Qed.

Lemma make_reference_reg : forall s s' sk n b, t_reg s = t_reg s' -> make_reference s sk n b = make_reference s' sk n b.
Proof. intros s s' sk n b H. unfold make_reference, should_skip. rewrite H. reflexivity. Qed.

Lemma make_macro_consts : forall s s' n, t_consts s = t_consts s' -> make_macro s n = make_macro s' n.
Proof. intros s s' n H. unfold make_macro. rewrite H. reflexivity. Qed.

Theorem resolve_value_reg_consts : forall f s s' sk v, t_reg s = t_reg s' -> t_consts s = t_consts s' ->
  resolve_value f s sk v = resolve_value f s' sk v.
Proof.
  induction f as [|f IH]; intros s s' sk v Hr Hc; [reflexivity|].
  rewrite !resolve_value_S. apply rv_body_ext.
  - intros x. apply IH; assumption.
  - intros n b. apply make_reference_reg; assumption.
  - intros n. apply make_macro_consts; assumption.
Qed.

(* ---------- similarity: everything but provenance (the recorded imports included, in their order) ---------- *)
Definition sim (s s' : tstate) : Prop :=
  t_reg s = t_reg s' /\ t_consts s = t_consts s' /\ t_store s = t_store s' /\ t_locked s = t_locked s' /\
  t_imports s = t_imports s'.
(* errors: same class (locations may differ) *)
Definition err_sim (e e' : serr) : Prop :=
  match e, e' with
  | SEOther c _, SEOther c' _ => c = c'
  | SESyntax _ l, SESyntax _ l' => l = l'
  | _, _ => False
  end.
Definition res_sim {A B : Type} (r : sres A) (r' : sres B) : Prop :=
  match r, r' with
  | SOk _, SOk _ => True
  | SErr e, SErr e' => err_sim e e'
  | _, _ => False
  end.

Lemma sim_refl : forall s, sim s s.
Proof. intros s. repeat split; reflexivity. Qed.
Lemma sim_add_imports : forall l s s', sim s s' -> sim (add_imports l s) (add_imports l s').
Proof.
  intros l s s' [H1 [H2 [H3 [H4 H5]]]]. unfold sim, add_imports. cbn [t_reg t_consts t_store t_locked t_imports].
  rewrite H5. repeat split; assumption.
Qed.
Lemma err_sim_refl : forall e, err_sim e e.
Proof. intros [f l|c ch]; reflexivity. Qed.
Lemma err_sim_with_loc : forall l l' e e', err_sim e e' -> err_sim (with_loc_err l e) (with_loc_err l' e').
Proof. intros l l' [f n|c ch] [f' n'|c' ch'] H; exact H. Qed.
Lemma err_sim_with_loc_l : forall l e e', err_sim e e' -> err_sim (with_loc_err l e) e'.
Proof. intros l [f n|c ch] [f' n'|c' ch'] H; exact H. Qed.

Lemma resolve_group_sim : forall sk fname fname' g s s', t_reg s = t_reg s' -> t_consts s = t_consts s' ->
  match resolve_group s sk fname g, resolve_group s' sk fname' g with
  | SOk a, SOk b => a = b
  | SErr e, SErr e' => err_sim e e'
  | _, _ => False
  end.
Proof.
  intros sk fname fname' g s s' Hr Hc. induction g as [|st rest IH].
  - rewrite !resolve_group_nil. reflexivity.
  - assert (Hother : (forall sc sel arg v line, st <> SBind sc sel arg v line) ->
      match resolve_group s sk fname (st :: rest), resolve_group s' sk fname' (st :: rest) with
      | SOk a, SOk b => a = b | SErr e, SErr e' => err_sim e e' | _, _ => False end).
    { intros Hst. rewrite !resolve_group_other by exact Hst.
      destruct (resolve_group s sk fname rest) as [a|e], (resolve_group s' sk fname' rest) as [b|e'];
        try contradiction; [subst b; reflexivity|exact IH]. }
    destruct st as [sc sel arg v line|sc sel line|m isf al line|v line];
      try (apply Hother; intros; discriminate).
    rewrite !resolve_group_SBind. rewrite (resolve_value_reg_consts 100 s s' sk v Hr Hc).
    destruct (resolve_value 100 s' sk v) as [v'|e].
    + destruct (resolve_group s sk fname rest) as [a|e], (resolve_group s' sk fname' rest) as [b|e'];
        try contradiction; [subst b; reflexivity|exact IH].
    + rewrite !with_loc_SErr. apply err_sim_with_loc. apply err_sim_refl.
Qed.

Lemma bind_sim : forall s s' sc sel arg v l l', sim s s' ->
  match bind s sc sel arg v l, bind s' sc sel arg v l' with
  | SOk a, SOk b => sim a b
  | SErr e, SErr e' => e = e'
  | _, _ => False
  end.
Proof.
  intros s s' sc sel arg v l l' [H1 [H2 [H3 [H4 H5]]]]. unfold bind. rewrite H4, H1.
  destruct (t_locked s') eqn:Hl'; [reflexivity|].
  destruct (sm_get_match (to_key sel) (t_reg s')) as [| |k [c|]]; try reflexivity.
  destruct (negb (cs_varkw c || str_in arg (cs_args c))); [reflexivity|].
  destruct (negb (match cs_allow c with [] => true | _ :: _ => false end) && negb (str_in arg (cs_allow c)));
    [reflexivity|].
  destruct (str_in arg (cs_deny c)); [reflexivity|].
  unfold sim, set_store. cbn [t_reg t_consts t_store t_locked t_imports]. rewrite H3.
  repeat split; congruence.
Qed.

Lemma register_mod_sim : forall env m s s', sim s s' ->
  match register_mod env m s, register_mod env m s' with
  | SOk a, SOk b => sim a b
  | SErr e, SErr e' => e = e'
  | _, _ => False
  end.
Proof.
  intros env m s s' [H1 [H2 [H3 [H4 H5]]]].
  pose proof (register_mod_reg_lock env m s s' H1 H4) as A.
  pose proof (register_mod_reg_lock env m s' s (eq_sym H1) (eq_sym H4)) as B.
  destruct (register_mod env m s) as [a|e], (register_mod env m s') as [b|e']; try contradiction; [|exact A].
  destruct A as [A1 [A2 [A3 [A4 [_ A6]]]]]. destruct B as [_ [_ [B3 [B4 [_ B6]]]]].
  unfold sim. repeat split; congruence.
Qed.

Lemma apply_stmts_sim : forall env sk fname fname' inc inc' stmts s s' im ic im' ic',
  forallb (fun st => negb (is_include st)) stmts = true -> sim s s' ->
  sim (fst (apply_stmts env sk fname inc stmts s im ic)) (fst (apply_stmts env sk fname' inc' stmts s' im' ic')) /\
  res_sim (snd (apply_stmts env sk fname inc stmts s im ic)) (snd (apply_stmts env sk fname' inc' stmts s' im' ic')).
Proof.
  intros env sk fname fname' inc inc' stmts. induction stmts as [|st rest IH]; intros s s' im ic im' ic' Hn Hs.
  - cbn [apply_stmts fst snd]. split; [exact Hs|exact I].
  - cbn [forallb] in Hn. apply andb_true_iff in Hn. destruct Hn as [Hst Hrest].
    assert (Hsk : forall sel, should_skip s sel sk = should_skip s' sel sk).
    { intros sel. apply should_skip_reg. exact (proj1 Hs). }
    assert (Hb : forall sc sel arg v line,
      sim (fst (match bind s sc sel arg v (fname, line) with
                | SErr e => (s, with_loc (fname, line) (SErr e))
                | SOk s1 => apply_stmts env sk fname inc rest s1 im ic end))
          (fst (match bind s' sc sel arg v (fname', line) with
                | SErr e => (s', with_loc (fname', line) (SErr e))
                | SOk s1 => apply_stmts env sk fname' inc' rest s1 im' ic' end)) /\
      res_sim (snd (match bind s sc sel arg v (fname, line) with
                | SErr e => (s, with_loc (fname, line) (SErr e))
                | SOk s1 => apply_stmts env sk fname inc rest s1 im ic end))
          (snd (match bind s' sc sel arg v (fname', line) with
                | SErr e => (s', with_loc (fname', line) (SErr e))
                | SOk s1 => apply_stmts env sk fname' inc' rest s1 im' ic' end))).
    { intros sc sel arg v line.
      pose proof (bind_sim s s' sc sel arg v (fname, line) (fname', line) Hs) as B.
      destruct (bind s sc sel arg v (fname, line)) as [a|e], (bind s' sc sel arg v (fname', line)) as [b|e'];
        try contradiction.
      - apply IH; assumption.
      - subst e'. rewrite !with_loc_SErr. cbn [fst snd res_sim]. split; [exact Hs|].
        apply err_sim_with_loc. apply err_sim_refl. }
    destruct st as [sc sel arg v line|sc sel line|m isf al line|v line]; cbn [apply_stmts].
    + destruct (String.eqb arg ""); [apply Hb|].
      rewrite <- Hsk. destruct (should_skip s sel sk); [apply IH; assumption|apply Hb].
    + rewrite <- Hsk. destruct (should_skip s sel sk); [apply IH; assumption|].
      destruct Hs as [H1 Hs']. rewrite <- H1. pose proof (conj H1 Hs') as Hs.
      destruct (sm_get_match (to_key sel) (t_reg s)) as [| |k [c|]];
        try (cbn [fst snd with_loc res_sim err_sim]; split; [exact Hs|reflexivity]).
      apply IH; assumption.
    + destruct (str_in m (e_modules env)).
      * pose proof (register_mod_sim env m s s' Hs) as B.
        destruct (register_mod env m s) as [a|e], (register_mod env m s') as [b|e']; try contradiction.
        -- apply IH; [assumption|apply sim_add_imports; exact B].
        -- subst e'. rewrite !with_loc_SErr. cbn [fst snd res_sim]. split; [exact Hs|].
           apply err_sim_with_loc. apply err_sim_refl.
      * destruct (sk_truthy sk); [apply IH; assumption|].
        cbn [fst snd with_loc res_sim err_sim]. split; [exact Hs|reflexivity].
    + cbn in Hst. discriminate.
Qed.

Lemma consume_sim : forall env sk fname fname' inc inc' gs s s' im ic im' ic',
  no_includes gs -> sim s s' ->
  sim (fst (consume env sk fname inc gs s im ic)) (fst (consume env sk fname' inc' gs s' im' ic')) /\
  res_sim (snd (consume env sk fname inc gs s im ic)) (snd (consume env sk fname' inc' gs s' im' ic')).
Proof.
  intros env sk fname fname' inc inc' gs. induction gs as [|g rest IH]; intros s s' im ic im' ic' Hn Hs.
  - cbn [consume fst snd]. split; [exact Hs|exact I].
  - inversion Hn as [|g0 rest0 Hg Hrest]; subst g0 rest0. cbn [consume].
    pose proof (resolve_group_sim sk fname fname' g s s' (proj1 Hs) (proj1 (proj2 Hs))) as R.
    destruct (resolve_group s sk fname g) as [a|e] eqn:Ra, (resolve_group s' sk fname' g) as [b|e'];
      try contradiction.
    + subst b.
      assert (Ha : forallb (fun st => negb (is_include st)) a = true)
        by (rewrite (resolve_group_noinc _ _ _ _ _ Ra); exact Hg).
      pose proof (apply_stmts_sim env sk fname fname' inc inc' a s s' im ic im' ic' Ha Hs) as [A1 A2].
      destruct (apply_stmts env sk fname inc a s im ic) as [s1 r1].
      destruct (apply_stmts env sk fname' inc' a s' im' ic') as [s1' r1'].
      cbn [fst snd] in A1, A2.
      destruct r1 as [[im1 ic1]|e1], r1' as [[im1' ic1']|e1']; try contradiction.
      * apply IH; assumption.
      * cbn [fst snd]. split; assumption.
    + cbn [fst snd]. split; [exact Hs|exact R].
Qed.

Lemma consume_app : forall env sk fname inc a b s im ic,
  consume env sk fname inc (a ++ b) s im ic =
  (let '(s1, r) := consume env sk fname inc a s im ic in
   match r with SErr e => (s1, SErr e) | SOk (im', ic') => consume env sk fname inc b s1 im' ic' end).
Proof.
  intros env sk fname inc a. induction a as [|g a IH]; intros b s im ic.
  - reflexivity.
  - cbn [app consume]. destruct (resolve_group s sk fname g) as [g'|e]; [|reflexivity].
    destruct (apply_stmts env sk fname inc g' s im ic) as [s1 r1].
    destruct r1 as [[im1 ic1]|e1]; [apply IH|reflexivity].
Qed.

Lemma no_includes_app : forall a b, no_includes a -> no_includes b -> no_includes (a ++ b).
Proof. intros a b Ha Hb. unfold no_includes in *. apply Forall_app. split; assumption. Qed.

(* ---------- parse_tokens on an include-free prefix of the groups ---------- *)
Lemma parse_tokens_split : forall gs1 fuel o pending ts rest pe,
  parse_groups fuel o pending ts = (gs1 ++ rest, pe) -> no_includes gs1 ->
  exists pending' ts', parse_groups (fuel - List.length gs1) o pending' ts' = (rest, pe) /\
    forall env sk fname s im ic,
      parse_tokens fuel env sk fname o pending ts s im ic =
      (let '(s1, r) := consume env sk fname no_inc gs1 s im ic in
       match r with
       | SErr e => (s1, SErr e)
       | SOk (im1, ic1) => parse_tokens (fuel - List.length gs1) env sk fname o pending' ts' s1 im1 ic1
       end).
Proof.
  induction gs1 as [|g gs1 IH]; intros fuel o pending ts rest pe H Hn.
  - exists pending, ts. cbn [List.length app] in *. rewrite Nat.sub_0_r. split; [exact H|reflexivity].
  - inversion Hn as [|g0 rest0 Hg Hrest]; subst g0 rest0. cbn [app] in H.
    destruct fuel as [|f]; [cbn [parse_groups] in H; discriminate|].
    rewrite parse_groups_S in H.
    destruct (parse_statement o pending ts) as [[[[stmts ts1] pending1]|]|e] eqn:Hps; try discriminate.
    destruct (parse_groups f o pending1 ts1) as [gs' e'] eqn:Hpg. inversion H; subst stmts gs' e'.
    destruct (IH f o pending1 ts1 rest pe Hpg Hrest) as [p' [t' [A B]]].
    exists p', t'. cbn [List.length]. change (S f - S (List.length gs1)) with (f - List.length gs1).
    split; [exact A|].
    intros env sk fname s im ic. rewrite parse_tokens_S, Hps. cbn [consume].
    destruct (resolve_group s sk fname g) as [g'|e0] eqn:Hr; [|reflexivity].
    assert (Hg' : forallb (fun st => negb (is_include st)) g' = true)
      by (rewrite (resolve_group_noinc _ _ _ _ _ Hr); exact Hg).
    rewrite (apply_stmts_inc_indep env sk fname (inc_of f env sk) no_inc g' s im ic Hg').
    destruct (apply_stmts env sk fname no_inc g' s im ic) as [s1 r1].
    destruct r1 as [[im1 ic1]|e1]; [|reflexivity].
    rewrite B. reflexivity.
Qed.

(* ---------- in-place inclusion: the exact sequential form ---------- *)
(* A main file whose groups are gs1 ++ [[include v]] ++ gs3 (gs1, gs3 include-free), the included file being
   include-free with groups gs2: parsing the main file is EXACTLY
     consume gs1 (main's name) ; consume gs2 (the included file's resolved name) ; consume gs3 (main's name)
   threaded on one state, i.e. the included statements take effect at the point of the include.  An error inside
   the included file gets the include statement's location appended to its chain.  Every import is recorded in the
   state when its statement takes effect (apply_stmts), the included file's own among them at their place. *)
Theorem C14_inplace_sequential : forall fuel env sk fname o pending ts s im ic gs1 v line gs3 full g ts0 gs2,
  parse_groups fuel o pending ts = (gs1 ++ [SInclude v line] :: gs3, None) ->
  no_includes gs1 -> no_includes gs3 -> List.length gs1 + S (List.length gs3) < fuel ->
  resolve_file env (str_of_value v) = Some (full, g) -> settle (f_tokens g) = POk ts0 ->
  parse_groups (fuel - S (List.length gs1)) (f_oracle g) false ts0 = (gs2, None) -> no_includes gs2 ->
  List.length gs2 < fuel - S (List.length gs1) ->
  parse_tokens fuel env sk fname o pending ts s im ic =
  (let '(s1, r1) := consume env sk fname no_inc gs1 s im ic in
   match r1 with
   | SErr e => (s1, SErr e)
   | SOk (im1, ic1) =>
       let '(s2, r2) := consume env sk full no_inc gs2 s1 [] [] in
       match r2 with
       | SErr e => (s2, SErr (with_loc_err (fname, line) e))
       | SOk (im2, ic2) =>
           consume env sk fname no_inc gs3 s2 im1 (ic1 ++ [INode (str_of_value v) im2 ic2])
       end
   end).
Proof.
  intros fuel env sk fname o pending ts s im ic gs1 v line gs3 full g ts0 gs2 Hpg Hn1 Hn3 Hl Hres Hset Hpg2 Hn2 Hl2.
  destruct (parse_tokens_split gs1 fuel o pending ts _ _ Hpg Hn1) as [p' [t' [A B]]].
  rewrite B. clear B.
  destruct (consume env sk fname no_inc gs1 s im ic) as [s1 r1]. destruct r1 as [[im1 ic1]|e1]; [|reflexivity].
  remember (fuel - S (List.length gs1)) as f' eqn:Ef.
  assert (E : fuel - List.length gs1 = S f') by lia. rewrite E in *. clear E.
  rewrite parse_groups_S in A.
  destruct (parse_statement o p' t') as [[[[stmts ts1] pending1]|]|e] eqn:Hps; try discriminate.
  destruct (parse_groups f' o pending1 ts1) as [gs' e'] eqn:Hpg3. inversion A; subst stmts gs' e'. clear A.
  rewrite parse_tokens_S, Hps.
  rewrite resolve_group_other by (intros; discriminate). rewrite resolve_group_nil.
  rewrite C14_include_step.
  rewrite (C14_inplace_one_level f' env sk (str_of_value v) full g ts0 gs2 s1 Hres Hset Hpg2 Hn2 Hl2).
  destruct (consume env sk full no_inc gs2 s1 [] []) as [s2 r2]. destruct r2 as [[im2 ic2]|e2].
  - cbn [apply_stmts].
    assert (Hl3 : List.length gs3 < f') by lia.
    rewrite (C16_stream_eq f' env sk fname o pending1 ts1 _ _ _ gs3 None Hpg3 Hn3 Hl3).
    destruct (consume env sk fname no_inc gs3 s2 im1 (ic1 ++ [INode (str_of_value v) im2 ic2])) as [s3 r3].
    destruct r3 as [[im3 ic3]|e3]; reflexivity.
  - rewrite with_loc_SErr. reflexivity.
Qed.

(* ---------- the flattened form ---------- *)
(* ... and therefore parsing the main file agrees with consuming the textually flattened group list
   gs1 ++ gs2 ++ gs3 (all under the main file's name) on: registry, constants, THE STORE, the lock, the recorded
   imports in their order (each import is recorded when it takes effect), and on success/failure including the error
   class.  What is NOT equal: provenance file names (t_prov), the returned imports / include tree, and error
   location chains. *)
Theorem C14_flatten_store : forall fuel env sk fname o pending ts s im ic gs1 v line gs3 full g ts0 gs2,
  parse_groups fuel o pending ts = (gs1 ++ [SInclude v line] :: gs3, None) ->
  no_includes gs1 -> no_includes gs3 -> List.length gs1 + S (List.length gs3) < fuel ->
  resolve_file env (str_of_value v) = Some (full, g) -> settle (f_tokens g) = POk ts0 ->
  parse_groups (fuel - S (List.length gs1)) (f_oracle g) false ts0 = (gs2, None) -> no_includes gs2 ->
  List.length gs2 < fuel - S (List.length gs1) ->
  sim (fst (parse_tokens fuel env sk fname o pending ts s im ic))
      (fst (consume env sk fname no_inc (gs1 ++ gs2 ++ gs3) s im ic)) /\
  res_sim (snd (parse_tokens fuel env sk fname o pending ts s im ic))
          (snd (consume env sk fname no_inc (gs1 ++ gs2 ++ gs3) s im ic)).
Proof.
  intros fuel env sk fname o pending ts s im ic gs1 v line gs3 full g ts0 gs2 Hpg Hn1 Hn3 Hl Hres Hset Hpg2 Hn2 Hl2.
  rewrite (C14_inplace_sequential fuel env sk fname o pending ts s im ic gs1 v line gs3 full g ts0 gs2
             Hpg Hn1 Hn3 Hl Hres Hset Hpg2 Hn2 Hl2).
  rewrite !consume_app.
  destruct (consume env sk fname no_inc gs1 s im ic) as [s1 r1]. destruct r1 as [[im1 ic1]|e1].
  2:{ cbn [fst snd res_sim]. split; [apply sim_refl|apply err_sim_refl]. }
  rewrite consume_app.
  pose proof (consume_sim env sk full fname no_inc no_inc gs2 s1 s1 [] [] im1 ic1 Hn2 (sim_refl s1)) as [A1 A2].
  destruct (consume env sk full no_inc gs2 s1 [] []) as [s2 r2].
  destruct (consume env sk fname no_inc gs2 s1 im1 ic1) as [s2' r2'].
  cbn [fst snd] in A1, A2.
  destruct r2 as [[im2 ic2]|e2], r2' as [[im2' ic2']|e2']; try contradiction.
  2:{ cbn [fst snd res_sim]. split; [exact A1|apply err_sim_with_loc_l; exact A2]. }
  exact (consume_sim env sk fname fname no_inc no_inc gs3 s2 s2'
           im1 (ic1 ++ [INode (str_of_value v) im2 ic2]) im2' ic2' Hn3 A1).
Qed.

(* readable corollary: on success of the flattened run the real parse succeeds with the SAME store *)
Corollary C14_flatten_store_ok : forall fuel env sk fname o pending ts s im ic gs1 v line gs3 full g ts0 gs2 sF imF icF,
  parse_groups fuel o pending ts = (gs1 ++ [SInclude v line] :: gs3, None) ->
  no_includes gs1 -> no_includes gs3 -> List.length gs1 + S (List.length gs3) < fuel ->
  resolve_file env (str_of_value v) = Some (full, g) -> settle (f_tokens g) = POk ts0 ->
  parse_groups (fuel - S (List.length gs1)) (f_oracle g) false ts0 = (gs2, None) -> no_includes gs2 ->
  List.length gs2 < fuel - S (List.length gs1) ->
  consume env sk fname no_inc (gs1 ++ gs2 ++ gs3) s im ic = (sF, SOk (imF, icF)) ->
  exists sR imR icR, parse_tokens fuel env sk fname o pending ts s im ic = (sR, SOk (imR, icR)) /\
    t_store sR = t_store sF /\ t_reg sR = t_reg sF /\ t_consts sR = t_consts sF /\ t_locked sR = t_locked sF.
Proof.
  intros fuel env sk fname o pending ts s im ic gs1 v line gs3 full g ts0 gs2 sF imF icF
         Hpg Hn1 Hn3 Hl Hres Hset Hpg2 Hn2 Hl2 HF.
  pose proof (C14_flatten_store fuel env sk fname o pending ts s im ic gs1 v line gs3 full g ts0 gs2
                Hpg Hn1 Hn3 Hl Hres Hset Hpg2 Hn2 Hl2) as [A B].
  rewrite HF in A, B. cbn [fst snd] in A, B.
  destruct (parse_tokens fuel env sk fname o pending ts s im ic) as [sR rR]. cbn [fst snd] in A, B.
  destruct rR as [[imR icR]|eR]; [|contradiction].
  exists sR, imR, icR. destruct A as [A1 [A2 [A3 [A4 _]]]]. auto.
Qed.

(* ---------- a concrete instance (non-vacuity; later binding overrides across the file boundary) ---------- *)
(* main.gin:  f.x = 1 / include 'b.gin' / f.y = 3          b.gin:  f.x = 2 / f.y = 2
   result: f.x = 2 (the included binding overrides the earlier one of the including file, provenance b.gin:1),
           f.y = 3 (the later binding of the including file overrides the included one, provenance main.gin:3) *)
Module C14Example.
  Definition tk (t : ttype) (x : string) (r c e : nat) : token :=
    {| ty := t; text := x; srow := r; scol := c; erow := r; ecol := e |}.
  Definition nlc : string := String (Ascii.ascii_of_nat 10) "".
  Definition bind_line (r : nat) (a n : string) : list token :=
    [tk NAME "f" r 0 1; tk OP "." r 1 2; tk NAME a r 2 3; tk OP "=" r 4 5; tk NUMBER n r 6 7; tk NEWLINE nlc r 7 8].
  Definition ex_main : gfile :=
    {| f_tokens := bind_line 1 "x" "1"
                   ++ [tk NAME "include" 2 0 7; tk STRING "'b.gin'" 2 8 15; tk NEWLINE nlc 2 15 16]
                   ++ bind_line 3 "y" "3" ++ [tk ENDMARKER "" 4 0 0];
       f_oracle := [("1", Some (OZ 1)); ("3", Some (OZ 3)); ("'b.gin'", Some (OT "str" [OS "b.gin"]))] |}.
  Definition ex_inc : gfile :=
    {| f_tokens := bind_line 1 "x" "2" ++ bind_line 2 "y" "2" ++ [tk ENDMARKER "" 3 0 0];
       f_oracle := [("2", Some (OZ 2))] |}.
  Definition ex_env : fenv :=
    {| e_files := [((0, "b.gin"), ex_inc); ((0, "main.gin"), ex_main)];
       e_readers := [0]; e_prefixes := [""]; e_modules := []; e_mod_regs := [] |}.
  Definition ex_s : tstate :=
    init_tstate [ {| cs_sel := "f"; cs_args := ["x"; "y"]; cs_varkw := false; cs_allow := []; cs_deny := [] |} ] [].
  Definition gs1 := [[SBind "" "f" "x" (OZ 1) 1]].
  Definition gs2 := [[SBind "" "f" "x" (OZ 2) 1]; [SBind "" "f" "y" (OZ 2) 2]].
  Definition gs3 := [[SBind "" "f" "y" (OZ 3) 3]].
  Definition incv := OT "str" [OS "b.gin"].

  (* the hypotheses of C14_inplace_sequential / C14_flatten_store are satisfiable *)
  Example hyps :
    settle (f_tokens ex_main) = POk (f_tokens ex_main) /\
    parse_groups 60 (f_oracle ex_main) false (f_tokens ex_main) = (gs1 ++ [SInclude incv 2] :: gs3, None) /\
    no_includes gs1 /\ no_includes gs3 /\ List.length gs1 + S (List.length gs3) < 60 /\
    resolve_file ex_env (str_of_value incv) = Some ("b.gin", ex_inc) /\
    settle (f_tokens ex_inc) = POk (f_tokens ex_inc) /\
    parse_groups (60 - S (List.length gs1)) (f_oracle ex_inc) false (f_tokens ex_inc) = (gs2, None) /\
    no_includes gs2 /\ List.length gs2 < 60 - S (List.length gs1).
  Proof.
    repeat split; try (vm_compute; reflexivity); try (vm_compute; lia);
      repeat constructor.
  Qed.

  (* what the real parse does, and what consuming the flattened list does *)
  Example real_run :
    (let '(s, r) := parse_config_file ex_env SkFalse "main.gin" ex_s in (t_store s, t_prov s, r)) =
    ([(("", "f"), [("x", OZ 2); ("y", OZ 3)])],
     [(("", "f"), [("x", ("b.gin", 1)); ("y", ("main.gin", 3))])],
     SOk (INode "main.gin" [] [INode "b.gin" [] []])).
  Proof. vm_compute. reflexivity. Qed.
  Example flat_run :
    (let '(s, r) := consume ex_env SkFalse "main.gin" no_inc (gs1 ++ gs2 ++ gs3) ex_s [] [] in (t_store s, t_prov s, r)) =
    ([(("", "f"), [("x", OZ 2); ("y", OZ 3)])],
     [(("", "f"), [("x", ("main.gin", 1)); ("y", ("main.gin", 3))])],
     SOk ([], [])).
  Proof. vm_compute. reflexivity. Qed.
End C14Example.

Print Assumptions C15_known_never_skipped.
Print Assumptions C15_skip_false.
Print Assumptions C15_skip_list.
Print Assumptions C15_skip_true.
Print Assumptions C15_covered_binding_dropped.
Print Assumptions C15_covered_block_dropped.
Print Assumptions C15_missing_import_dropped.
Print Assumptions C15_uncovered_unknown_errors.
Print Assumptions C15_uncovered_unknown_errors_exact.
Print Assumptions C15_uncovered_unknown_block_errors.
Print Assumptions C15_reduce_equiv.
Print Assumptions C15_reduce_equiv_imports.
Print Assumptions C15_known_targets_skip_irrelevant.
Print Assumptions C15_reduce_equiv_skfalse.
Print Assumptions C15_placeholder_kept.
Print Assumptions C15_known_reference_resolved.
Print Assumptions C15_unknown_reference_errors.
Print Assumptions C14_resolve_order_gen.
Print Assumptions C14_resolve_order.
Print Assumptions C14_resolve_first.
Print Assumptions C14_absolute_bypasses.
Print Assumptions C14_absolute_full_is_name.
Print Assumptions C14_missing.
Print Assumptions C14_missing_applies_nothing.
Print Assumptions C14_missing_include_applies_nothing.
Print Assumptions C14_include_step.
Print Assumptions C14_parse_config_file_is_handler.
Print Assumptions C14_inplace_one_level.
Print Assumptions resolve_value_reg_consts.
Print Assumptions C14_inplace_sequential.
Print Assumptions C14_flatten_store.
Print Assumptions C14_flatten_store_ok.
Print Assumptions C14Example.hyps.
Print Assumptions C14Example.real_run.
