(* Proofs about the model of dynamic registration (Model/DynReg.v). *)
From Coq Require Import List String ZArith Bool Arith Lia.
From GinV Require Import Lib.Out Lib.PyStr Model.SelectorMap Model.Serial Model.DynReg.
Import ListNotations.
Open Scope string_scope.
Open Scope list_scope.

(* ------------------------------------------------------------------ *)
(* ---- import binding rules ---- *)
(* ------------------------------------------------------------------ *)
Definition has_alias (d : dimport) : bool := match d_alias d with Some _ => true | None => false end.

Lemma tget_filter_neq : forall n b l, n <> b ->
  tget n (filter (fun e : string * (pyobj * dimport) => negb (String.eqb (fst e) b)) l) = tget n l.
Proof.
  intros n b l Hn. induction l as [|[k v] l IH]; [reflexivity|].
  cbn [filter fst]. destruct (String.eqb k b) eqn:Ekb; cbn [negb tget].
  - apply String.eqb_eq in Ekb. subst k.
    destruct (String.eqb n b) eqn:Enb; [apply String.eqb_eq in Enb; contradiction|]. exact IH.
  - destruct (String.eqb n k); [reflexivity|exact IH].
Qed.

(* `import a.b.c` binds the TOP package under the name a; `import a.b.c as x` and `from a.b import c [as x]` bind the LEAF *)
Theorem C19_import_binds : forall univ c d c' leaf, c_dynamic c = true ->
  (d_from d && String.prefix gin_feature_prefix (d_module d)) = false ->
  import_path univ (split_dot (d_module d)) = Some leaf -> d_bound_name d <> "gin" ->
  process_import univ c d = DOk c' ->
  tget (d_bound_name d) (c_table c') =
    Some (if d_from d || has_alias d then leaf
          else match pget (hd "" (split_dot (d_module d))) univ with Some m => m | None => POther end, d) /\
  (forall n, n <> d_bound_name d -> tget n (c_table c') = tget n (c_table c)) /\ c_dynamic c' = true.
Proof.
  intros univ c d c' leaf Hdyn Hfeat Himp Hgin Hproc.
  unfold process_import in Hproc. rewrite Hfeat, Himp, Hdyn in Hproc.
  destruct (String.eqb (d_bound_name d) "gin") eqn:Eg.
  - apply String.eqb_eq in Eg. contradiction.
  - inversion Hproc; subst c'; clear Hproc. cbn [c_table c_dynamic].
    split; [|split].
    + cbn [tget]. rewrite String.eqb_refl. unfold has_alias. reflexivity.
    + intros n Hn. cbn [tget]. destruct (String.eqb n (d_bound_name d)) eqn:E.
      * apply String.eqb_eq in E; contradiction.
      * apply tget_filter_neq; assumption.
    + reflexivity.
Qed.

Theorem C19_missing_module : forall univ c d, (d_from d && String.prefix gin_feature_prefix (d_module d)) = false ->
  import_path univ (split_dot (d_module d)) = None -> process_import univ c d = DErr "ModuleNotFoundError".
Proof.
  intros univ c d Hfeat Himp. unfold process_import. rewrite Hfeat, Himp. reflexivity.
Qed.

Theorem C19_unknown_feature : forall univ c m, String.prefix gin_feature_prefix m = true -> m <> "__gin__.dynamic_registration" ->
  process_import univ c {| d_module := m; d_from := true; d_alias := None |} = DErr "SyntaxError".
Proof.
  intros univ c m Hp Hm. unfold process_import. cbn [d_from d_module d_alias andb]. rewrite Hp.
  destruct (String.eqb m "__gin__.dynamic_registration") eqn:E; [apply String.eqb_eq in E; contradiction|reflexivity].
Qed.

(* ---- statements: case analysis of one step of run_stmts ---- *)
Lemma process_import_static : forall univ c d c1,
  d_module d <> "__gin__.dynamic_registration" -> c_table c = [] -> c_dynamic c = false ->
  process_import univ c d = DOk c1 -> c_table c1 = [] /\ c_dynamic c1 = false.
Proof.
  intros univ c d c1 Hm Ht Hd Hp. unfold process_import in Hp.
  destruct (d_from d && String.prefix gin_feature_prefix (d_module d)).
  - destruct (d_alias d); [discriminate|].
    destruct (String.eqb (d_module d) "__gin__.dynamic_registration") eqn:E; [apply String.eqb_eq in E; contradiction|discriminate].
  - destruct (import_path univ (split_dot (d_module d))); [|discriminate].
    rewrite Hd in Hp. inversion Hp; subst c1. cbn. split; [assumption|reflexivity].
Qed.

(* without the feature nothing enters the symbol table *)
Lemma run_static_gen : forall univ stmts s refs c s' refs' c' e,
  (forall d, In (DImport d) stmts -> d_module d <> "__gin__.dynamic_registration") ->
  c_table c = [] -> c_dynamic c = false ->
  run_stmts univ stmts s refs c = (s', refs', c', e) -> c_table c' = [] /\ c_dynamic c' = false.
Proof.
  intros univ stmts. induction stmts as [|st rest IH]; intros s refs c s' refs' c' e Hall Ht Hd Hrun.
  - cbn [run_stmts] in Hrun. inversion Hrun; subst. split; assumption.
  - assert (Hall' : forall d, In (DImport d) rest -> d_module d <> "__gin__.dynamic_registration")
      by (intros d0 Hin; apply Hall; right; exact Hin).
    destruct st as [d | scope sel param v | scope sel]; cbn [run_stmts] in Hrun.
    + destruct (process_import univ c d) as [c1|err] eqn:Ep.
      * destruct (process_import_static univ c d c1 (Hall d (or_introl eq_refl)) Ht Hd Ep) as [Ht1 Hd1].
        eapply IH; eauto.
      * inversion Hrun; subst. split; assumption.
    + destruct v as [z | scopes rsel].
      * destruct (get_configurable (ds_reg s) c sel) as [[[reg2 full] rp2]|err].
        -- eapply IH; eauto.
        -- inversion Hrun; subst. split; assumption.
      * destruct (get_configurable (ds_reg s) c rsel) as [[[reg1 rfull] rp1]|err].
        -- destruct (get_configurable reg1 c sel) as [[[reg2 full] rp2]|err].
           ++ eapply IH; eauto.
           ++ inversion Hrun; subst. split; assumption.
        -- inversion Hrun; subst. split; assumption.
    + destruct (get_configurable (ds_reg s) c sel) as [[[reg2 full] rp2]|err].
      * eapply IH; eauto.
      * inversion Hrun; subst. split; assumption.
Qed.

Theorem C19_static_file_has_empty_table : forall univ stmts s refs s' refs' c' e,
  (forall d, In (DImport d) stmts -> d_module d <> "__gin__.dynamic_registration") ->
  run_stmts univ stmts s refs empty_ctx = (s', refs', c', e) -> c_table c' = [] /\ c_dynamic c' = false.
Proof.
  intros univ stmts s refs s' refs' c' e Hall Hrun.
  eapply run_static_gen; [exact Hall | | | exact Hrun]; reflexivity.
Qed.

(* ------------------------------------------------------------------ *)
(* ---- C19_isolation ---- *)
(* ------------------------------------------------------------------ *)
Lemma run_iso_gen : forall univ stmts s1 refs1 s2 refs2 c s1' r1' c1 e1 s2' r2' c2 e2,
  ds_reg s1 = ds_reg s2 ->
  run_stmts univ stmts s1 refs1 c = (s1', r1', c1, e1) ->
  run_stmts univ stmts s2 refs2 c = (s2', r2', c2, e2) ->
  c1 = c2 /\ e1 = e2 /\ ds_reg s1' = ds_reg s2'.
Proof.
  intros univ stmts. induction stmts as [|st rest IH];
    intros s1 refs1 s2 refs2 c s1' r1' c1 e1 s2' r2' c2 e2 Hreg H1 H2.
  - cbn [run_stmts] in H1, H2. inversion H1; inversion H2; subst. auto.
  - destruct st as [d | scope sel param v | scope sel]; cbn [run_stmts] in H1, H2.
    + destruct (process_import univ c d) as [c0|err].
      * eapply IH; eauto.
      * inversion H1; inversion H2; subst. auto.
    + rewrite Hreg in H1. destruct v as [z | scopes rsel].
      * destruct (get_configurable (ds_reg s2) c sel) as [[[reg2 full] rp2]|err].
        -- eapply IH; [|exact H1|exact H2]. reflexivity.
        -- inversion H1; inversion H2; subst. repeat split; reflexivity.
      * destruct (get_configurable (ds_reg s2) c rsel) as [[[reg1 rfull] rp1]|err].
        -- destruct (get_configurable reg1 c sel) as [[[reg2 full] rp2]|err].
           ++ eapply IH; [|exact H1|exact H2]. reflexivity.
           ++ inversion H1; inversion H2; subst. repeat split; reflexivity.
        -- inversion H1; inversion H2; subst. repeat split; reflexivity.
    + rewrite Hreg in H1. destruct (get_configurable (ds_reg s2) c sel) as [[[reg2 full] rp2]|err].
      * eapply IH; [|exact H1|exact H2]. reflexivity.
      * inversion H1; inversion H2; subst. repeat split; reflexivity.
Qed.

(* a call's symbol table is built from ITS OWN import statements only: the state handed in (registry, store,
   recorded imports of earlier calls) never enters the symbol table; the error class and the registry evolution
   depend on the statements and the registry only *)
Theorem C19_isolation_table : forall univ stmts s1 refs1 s2 refs2 s1' r1' c1 e1 s2' r2' c2 e2,
  ds_reg s1 = ds_reg s2 ->
  run_stmts univ stmts s1 refs1 empty_ctx = (s1', r1', c1, e1) ->
  run_stmts univ stmts s2 refs2 empty_ctx = (s2', r2', c2, e2) ->
  c_table c1 = c_table c2 /\ e1 = e2 /\ ds_reg s1' = ds_reg s2'.
Proof.
  intros univ stmts s1 refs1 s2 refs2 s1' r1' c1 e1 s2' r2' c2 e2 Hreg H1 H2.
  destruct (run_iso_gen _ _ _ _ _ _ _ _ _ _ _ _ _ _ _ Hreg H1 H2) as [Hc [He Hr]].
  subst c2. auto.
Qed.
(* stronger: the whole final context (flag, imports, table) coincides *)
Theorem C19_isolation_ctx : forall univ stmts s1 refs1 s2 refs2 s1' r1' c1 e1 s2' r2' c2 e2,
  ds_reg s1 = ds_reg s2 ->
  run_stmts univ stmts s1 refs1 empty_ctx = (s1', r1', c1, e1) ->
  run_stmts univ stmts s2 refs2 empty_ctx = (s2', r2', c2, e2) ->
  c1 = c2 /\ e1 = e2 /\ ds_reg s1' = ds_reg s2'.
Proof. intros; eapply run_iso_gen; eauto. Qed.

Lemma process_import_table : forall univ c d c1 n v, process_import univ c d = DOk c1 ->
  tget n (c_table c1) = Some v -> tget n (c_table c) = Some v \/ (d_bound_name d = n /\ snd v = d).
Proof.
  intros univ c d c1 n v Hp Hg. unfold process_import in Hp.
  destruct (d_from d && String.prefix gin_feature_prefix (d_module d)).
  - destruct (d_alias d); [discriminate|].
    destruct (String.eqb (d_module d) "__gin__.dynamic_registration"); [|discriminate].
    destruct (c_imports c); [|discriminate]. inversion Hp; subst c1. left. exact Hg.
  - destruct (import_path univ (split_dot (d_module d))) as [leaf|]; [|discriminate].
    destruct (c_dynamic c).
    + destruct (String.eqb (d_bound_name d) "gin"); [discriminate|]. inversion Hp; subst c1; clear Hp.
      cbn [c_table tget] in Hg. destruct (String.eqb n (d_bound_name d)) eqn:E.
      * apply String.eqb_eq in E. inversion Hg; subst. right. split; reflexivity.
      * left. rewrite tget_filter_neq in Hg; [exact Hg|]. intro Hc. subst n. rewrite String.eqb_refl in E. discriminate.
    + inversion Hp; subst c1. left. exact Hg.
Qed.

Lemma run_table_gen : forall univ stmts s refs c s' refs' c' e n v,
  run_stmts univ stmts s refs c = (s', refs', c', e) -> tget n (c_table c') = Some v ->
  tget n (c_table c) = Some v \/ exists d, In (DImport d) stmts /\ d_bound_name d = n /\ snd v = d.
Proof.
  intros univ stmts. induction stmts as [|st rest IH]; intros s refs c s' refs' c' e n v Hrun Hg.
  - cbn [run_stmts] in Hrun. inversion Hrun; subst. left. exact Hg.
  - assert (Hlift : forall c0, (tget n (c_table c0) = Some v \/ exists d, In (DImport d) rest /\ d_bound_name d = n /\ snd v = d) ->
                    c0 = c -> tget n (c_table c) = Some v \/ exists d, In (DImport d) (st :: rest) /\ d_bound_name d = n /\ snd v = d).
    { intros c0 [Hl|[d0 [Hin Hd0]]] Hc; [subst c0; left; exact Hl|]. right. exists d0. split; [right; exact Hin|exact Hd0]. }
    destruct st as [d | scope sel param v0 | scope sel]; cbn [run_stmts] in Hrun.
    + destruct (process_import univ c d) as [c1|err] eqn:Ep.
      * destruct (IH _ _ _ _ _ _ _ _ _ Hrun Hg) as [Hl|[d0 [Hin Hd0]]].
        -- destruct (process_import_table _ _ _ _ _ _ Ep Hl) as [Hl'|[Hb Hs]]; [left; exact Hl'|].
           right. exists d. split; [left; reflexivity|split; assumption].
        -- right. exists d0. split; [right; exact Hin|exact Hd0].
      * inversion Hrun; subst. left. exact Hg.
    + destruct v0 as [z | scopes rsel].
      * destruct (get_configurable (ds_reg s) c sel) as [[[reg2 full] rp2]|err].
        -- eapply Hlift; [eapply IH; eauto|reflexivity].
        -- inversion Hrun; subst. left. exact Hg.
      * destruct (get_configurable (ds_reg s) c rsel) as [[[reg1 rfull] rp1]|err].
        -- destruct (get_configurable reg1 c sel) as [[[reg2 full] rp2]|err].
           ++ eapply Hlift; [eapply IH; eauto|reflexivity].
           ++ inversion Hrun; subst. left. exact Hg.
        -- inversion Hrun; subst. left. exact Hg.
    + destruct (get_configurable (ds_reg s) c sel) as [[[reg2 full] rp2]|err].
      * eapply Hlift; [eapply IH; eauto|reflexivity].
      * inversion Hrun; subst. left. exact Hg.
Qed.

Theorem C19_table_from_own_imports : forall univ stmts s refs s' refs' c' e n v,
  run_stmts univ stmts s refs empty_ctx = (s', refs', c', e) -> tget n (c_table c') = Some v ->
  exists d, In (DImport d) stmts /\ d_bound_name d = n /\ snd v = d.
Proof.
  intros univ stmts s refs s' refs' c' e n v Hrun Hg.
  destruct (run_table_gen _ _ _ _ _ _ _ _ _ _ _ Hrun Hg) as [Hl|Hr]; [cbn in Hl; discriminate|exact Hr].
Qed.

(* ------------------------------------------------------------------ *)
(* ---- follow ---- *)
(* ------------------------------------------------------------------ *)
(* the attribute chain really is a chain of attribute look-ups *)
Theorem follow_spec : forall names o acc chain, follow o names acc = Some chain ->
  List.length chain = List.length acc + S (List.length names) /\ firstn (List.length acc) chain = acc.
Proof.
  induction names as [|n r IH]; intros o acc chain Hf; cbn [follow] in Hf.
  - inversion Hf; subst chain. rewrite app_length. cbn [List.length]. split; [lia|].
    rewrite firstn_app, Nat.sub_diag, firstn_all. cbn [firstn]. apply app_nil_r.
  - destruct (pget n (attrs_of o)) as [o'|]; [|discriminate].
    destruct (IH _ _ _ Hf) as [Hlen Hfst]. rewrite app_length in Hlen, Hfst. cbn [List.length] in *.
    split; [lia|].
    assert (Hmin : List.length acc = Nat.min (List.length acc) (List.length acc + 1)) by lia.
    rewrite Hmin at 1. rewrite <- firstn_firstn, Hfst.
    rewrite firstn_app, Nat.sub_diag, firstn_all. cbn [firstn]. apply app_nil_r.
Qed.
(* consecutive elements of the chain are related by attribute look-up, and the chain starts at the root *)
Lemma follow_attrs : forall names o acc chain, follow o names acc = Some chain ->
  exists tail, chain = acc ++ o :: tail /\ List.length tail = List.length names /\
    forall k p q nm, nth_error (o :: tail) k = Some p -> nth_error tail k = Some q -> nth_error names k = Some nm ->
      pget nm (attrs_of p) = Some q.
Proof.
  induction names as [|n r IH]; intros o acc chain Hf; cbn [follow] in Hf.
  - inversion Hf; subst chain. exists []. split; [reflexivity|]. split; [reflexivity|].
    intros k p q nm _ Hq. destruct k; discriminate.
  - destruct (pget n (attrs_of o)) as [o'|] eqn:Eg; [|discriminate].
    destruct (IH _ _ _ Hf) as [tail [Hc [Hl Hrel]]].
    exists (o' :: tail). split; [rewrite Hc, <- app_assoc; reflexivity|]. split; [cbn; rewrite Hl; reflexivity|].
    intros k p q nm Hp Hq Hn. destruct k as [|k].
    + cbn in Hp, Hq, Hn. inversion Hp; inversion Hq; inversion Hn; subst. exact Eg.
    + cbn [nth_error] in Hp, Hq, Hn. eapply Hrel; eauto.
Qed.

(* errors: missing attribute -> AttributeError *)
Theorem C19_missing_attribute : forall reg c sel root d, c_dynamic c = true ->
  tget (hd "" (split_dot sel)) (c_table c) = Some (root, d) -> follow root (tl (split_dot sel)) [] = None ->
  get_configurable reg c sel = DErr "AttributeError".
Proof.
  intros reg c sel root d Hd Ht Hf. unfold get_configurable. rewrite Hd. cbn [negb]. rewrite Ht, Hf. reflexivity.
Qed.

(* ------------------------------------------------------------------ *)
(* ---- registry lemmas ---- *)
(* ------------------------------------------------------------------ *)
Definition reg_wf (reg : list centry) : Prop := NoDup (map ce_sel reg).

Lemma NoDup_snoc : forall (A : Type) (l : list A) (x : A), NoDup l -> ~ In x l -> NoDup (l ++ [x]).
Proof.
  intros A l x Hnd. induction Hnd as [|y l Hy Hnd IH]; intros Hx; cbn [app].
  - constructor; [intros []|constructor].
  - constructor.
    + rewrite in_app_iff. intros [Hin|[Heq|[]]]; [exact (Hy Hin)|]. subst y. apply Hx. left. reflexivity.
    + apply IH. intro Hin. apply Hx. right. exact Hin.
Qed.

Lemma find_sel_Some : forall s reg e, find_sel s reg = Some e -> In e reg /\ ce_sel e = s.
Proof.
  intros s reg. induction reg as [|x r IH]; intros e H; cbn [find_sel] in H; [discriminate|].
  destruct (String.eqb (ce_sel x) s) eqn:E.
  - inversion H; subst e. apply String.eqb_eq in E. split; [left; reflexivity|exact E].
  - destruct (IH _ H) as [Hin Hs]. split; [right; exact Hin|exact Hs].
Qed.
Lemma find_sel_None : forall s reg, find_sel s reg = None -> ~ In s (map ce_sel reg).
Proof.
  intros s reg. induction reg as [|x r IH]; intros H; cbn [find_sel] in H; [intros []|].
  destruct (String.eqb (ce_sel x) s) eqn:E; [discriminate|].
  cbn [map]. intros [Heq|Hin]; [rewrite Heq, String.eqb_refl in E; discriminate|exact (IH H Hin)].
Qed.
Lemma find_sel_In_nodup : forall reg e, reg_wf reg -> In e reg -> find_sel (ce_sel e) reg = Some e.
Proof.
  unfold reg_wf. intros reg. induction reg as [|x r IH]; intros e Hnd Hin; [destruct Hin|].
  cbn [map] in Hnd. inversion Hnd as [|? ? Hx Hnd']; subst. cbn [find_sel].
  destruct Hin as [Heq|Hin].
  - subst x. rewrite String.eqb_refl. reflexivity.
  - destruct (String.eqb (ce_sel x) (ce_sel e)) eqn:E.
    + apply String.eqb_eq in E. exfalso. apply Hx. rewrite E. apply in_map. exact Hin.
    + apply IH; assumption.
Qed.
Lemma find_sel_app : forall s l x, find_sel s (l ++ [x]) =
  match find_sel s l with Some e => Some e | None => if String.eqb (ce_sel x) s then Some x else None end.
Proof.
  intros s l x. induction l as [|y r IH]; cbn [app find_sel]; [reflexivity|].
  destruct (String.eqb (ce_sel y) s); [reflexivity|exact IH].
Qed.
Lemma map_sel_replace : forall sel entry reg, ce_sel entry = sel -> map ce_sel (replace_entry sel entry reg) = map ce_sel reg.
Proof.
  intros sel entry reg He. induction reg as [|x r IH]; cbn [replace_entry map]; [reflexivity|].
  destruct (String.eqb (ce_sel x) sel) eqn:E; cbn [map].
  - apply String.eqb_eq in E. rewrite He, E. reflexivity.
  - rewrite IH. reflexivity.
Qed.
Lemma find_sel_replace_same : forall sel entry reg e, find_sel sel reg = Some e -> ce_sel entry = sel ->
  find_sel sel (replace_entry sel entry reg) = Some entry.
Proof.
  intros sel entry reg. induction reg as [|x r IH]; intros e H He; cbn [find_sel] in H; [discriminate|].
  cbn [replace_entry]. destruct (String.eqb (ce_sel x) sel) eqn:E; cbn [find_sel].
  - rewrite He, String.eqb_refl. reflexivity.
  - rewrite E. eapply IH; eauto.
Qed.
Lemma find_sel_replace_other : forall s sel entry reg, s <> sel -> ce_sel entry = sel ->
  find_sel s (replace_entry sel entry reg) = find_sel s reg.
Proof.
  intros s sel entry reg Hs He. induction reg as [|x r IH]; cbn [replace_entry find_sel]; [reflexivity|].
  destruct (String.eqb (ce_sel x) sel) eqn:E; cbn [find_sel].
  - apply String.eqb_eq in E. rewrite He, E.
    destruct (String.eqb sel s) eqn:E2; [apply String.eqb_eq in E2; congruence|reflexivity].
  - destruct (String.eqb (ce_sel x) s); [reflexivity|exact IH].
Qed.
Lemma In_replace_entry : forall sel entry reg x, In x (replace_entry sel entry reg) -> x = entry \/ In x reg.
Proof.
  intros sel entry reg. induction reg as [|y r IH]; intros x H; cbn [replace_entry] in H; [destruct H|].
  destruct (String.eqb (ce_sel y) sel).
  - destruct H as [H|H]; [left; symmetry; exact H|right; right; exact H].
  - destruct H as [H|H]; [right; left; exact H|]. destruct (IH _ H) as [H1|H1]; [left; exact H1|right; right; exact H1].
Qed.

Lemma find_obj_first_None : forall i l, find_obj_first i l = None <-> (forall e, In e l -> ce_obj e <> i).
Proof.
  intros i l. induction l as [|x r IH]; cbn [find_obj_first].
  - split; [intros _ e []|reflexivity].
  - destruct (Nat.eqb (ce_obj x) i) eqn:E.
    + split; [discriminate|]. intros H. apply Nat.eqb_eq in E. exfalso. exact (H x (or_introl eq_refl) E).
    + apply Nat.eqb_neq in E. rewrite IH. split.
      * intros H e [Heq|Hin]; [subst e; exact E|exact (H e Hin)].
      * intros H e Hin. apply H. right. exact Hin.
Qed.
Lemma find_obj_None : forall i reg, find_obj i reg = None <-> (forall e, In e reg -> ce_obj e <> i).
Proof.
  intros i reg. unfold find_obj. rewrite find_obj_first_None. split; intros H e Hin; apply H.
  - rewrite <- in_rev. exact Hin.
  - rewrite in_rev. exact Hin.
Qed.
Lemma find_obj_first_Some : forall i l e, find_obj_first i l = Some e -> In e l /\ ce_obj e = i.
Proof.
  intros i l. induction l as [|x r IH]; intros e H; cbn [find_obj_first] in H; [discriminate|].
  destruct (Nat.eqb (ce_obj x) i) eqn:E.
  - inversion H; subst e. apply Nat.eqb_eq in E. split; [left; reflexivity|exact E].
  - destruct (IH _ H) as [Hin Ho]. split; [right; exact Hin|exact Ho].
Qed.
Lemma find_obj_Some : forall i reg e, find_obj i reg = Some e -> In e reg /\ ce_obj e = i.
Proof.
  intros i reg e H. unfold find_obj in H. destruct (find_obj_first_Some _ _ _ H) as [Hin Ho].
  split; [rewrite in_rev; exact Hin|exact Ho].
Qed.
Lemma find_obj_snoc_same : forall i reg x, ce_obj x = i -> find_obj i (reg ++ [x]) = Some x.
Proof.
  intros i reg x Hx. unfold find_obj. rewrite rev_app_distr. cbn [rev app find_obj_first].
  rewrite Hx, Nat.eqb_refl. reflexivity.
Qed.

Lemma append_neq : forall s t, t <> "" -> (s ++ t)%string <> s.
Proof.
  induction s as [|a s IH]; intros t Ht; cbn [String.append].
  - exact Ht.
  - intro H. inversion H as [H1]. exact (IH t Ht H1).
Qed.

Lemma rev_removelast : forall (A : Type) (l : list A), rev (removelast l) = tl (rev l).
Proof.
  intros A l. destruct (rev l) as [|x r] eqn:E.
  - assert (l = []) by (rewrite <- (rev_involutive l), E; reflexivity). subst l. reflexivity.
  - assert (Hl : l = rev r ++ [x]) by (rewrite <- (rev_involutive l), E; reflexivity).
    rewrite Hl, removelast_last, rev_involutive. reflexivity.
Qed.
Lemma last_rev_hd : forall (A : Type) (l : list A) x r (dflt : A), rev l = x :: r -> last l dflt = x.
Proof.
  intros A l x r dflt E. assert (Hl : l = rev r ++ [x]) by (rewrite <- (rev_involutive l), E; reflexivity).
  rewrite Hl. apply last_last.
Qed.

(* ---- one registration (Model.DynReg.do_one) ---- *)
Lemma register_chain_unfold : forall reg d attr_names chain,
  register_chain reg d attr_names chain =
  match rev chain, rev (removelast chain) with
  | leaf :: _, parent :: _ =>
      if is_func leaf && is_class parent then
        match do_one d reg (removelast attr_names) parent false with
        | DErr e => DErr e
        | DOk (reg1, csel, rp) =>
            match obj_id leaf with
            | None => DErr "TypeError"
            | Some i =>
                let sel := (csel ++ "." ++ last attr_names "")%string in
                match find_obj i reg1 with
                | Some _ => DOk (reg1, sel, rp)
                | None =>
                    match find_sel sel reg1 with
                    | Some _ => DErr "ValueError"
                    | None => DOk (reg1 ++ [{| ce_sel := sel; ce_obj := i; ce_method := true; ce_src := Some (import_source d attr_names); ce_home := ("", "") |}], sel, rp)
                    end
                end
            end
        end
      else do_one d reg attr_names leaf false
  | _, _ => DErr "ModelError"
  end.
Proof. reflexivity. Qed.

(* removing the registrations under a selector *)
Definition remove_sel (sel : string) (reg : list centry) : list centry :=
  filter (fun x => negb (String.eqb (ce_sel x) sel)) reg.
Lemma In_remove_sel : forall sel reg x, In x (remove_sel sel reg) <-> In x reg /\ ce_sel x <> sel.
Proof.
  intros sel reg x. unfold remove_sel. rewrite filter_In. split; intros [H1 H2]; (split; [exact H1|]).
  - intro Hc. rewrite Hc, String.eqb_refl in H2. discriminate.
  - destruct (String.eqb (ce_sel x) sel) eqn:E; [apply String.eqb_eq in E; contradiction|reflexivity].
Qed.
Lemma find_sel_remove_same : forall sel reg, find_sel sel (remove_sel sel reg) = None.
Proof.
  intros sel reg. destruct (find_sel sel (remove_sel sel reg)) as [e|] eqn:E; [|reflexivity].
  destruct (find_sel_Some _ _ _ E) as [Hin Hs]. apply In_remove_sel in Hin. destruct Hin as [_ Hne]. contradiction.
Qed.
Lemma find_sel_remove_other : forall s sel reg, s <> sel -> find_sel s (remove_sel sel reg) = find_sel s reg.
Proof.
  intros s sel reg Hne. induction reg as [|x r IH]; [reflexivity|]. unfold remove_sel in *. cbn [filter find_sel].
  destruct (String.eqb (ce_sel x) sel) eqn:E; cbn [negb find_sel].
  - apply String.eqb_eq in E. destruct (String.eqb (ce_sel x) s) eqn:E2; [apply String.eqb_eq in E2; congruence|exact IH].
  - destruct (String.eqb (ce_sel x) s); [reflexivity|exact IH].
Qed.
Lemma remove_sel_wf : forall sel reg, reg_wf reg -> reg_wf (remove_sel sel reg).
Proof.
  intros sel reg. unfold reg_wf, remove_sel. induction reg as [|x r IH]; intros H; cbn [filter map]; [constructor|].
  cbn [map] in H. inversion H as [|? ? Hx Hr]; subst.
  destruct (negb (String.eqb (ce_sel x) sel)); [|exact (IH Hr)].
  cbn [map]. constructor; [|exact (IH Hr)].
  intro Hin. apply Hx. apply in_map_iff in Hin. destruct Hin as [y [Hy Hin]]. apply filter_In in Hin.
  rewrite <- Hy. apply in_map. exact (proj1 Hin).
Qed.
(* what one registration does: the entry is appended; if the selector was already registered (FOR THE SAME OBJECT)
   the old registration is removed - the new one is the most recent registration of the object *)
Lemma do_one_inv : forall d reg names o m reg' sel rp, do_one d reg names o m = DOk (reg', sel, rp) ->
  exists i entry, obj_id o = Some i /\ ce_sel entry = sel /\ ce_obj entry = i /\
    ((exists e, find_sel sel reg = Some e /\ ce_obj e = i /\ reg' = remove_sel sel reg ++ [entry]) \/
     (find_sel sel reg = None /\ reg' = reg ++ [entry])).
Proof.
  intros d reg names o m reg' sel rp H. unfold do_one in H.
  destruct (obj_id o) as [i|]; [|discriminate]. cbv zeta in H.
  match type of H with context [find_sel ?s reg] => set (sel0 := s) in * end.
  match type of H with context [reg ++ [?en]] => set (entry := en) in * end.
  exists i, entry. split; [reflexivity|].
  destruct (find_sel sel0 reg) as [e|] eqn:Ef.
  - destruct (Nat.eqb (ce_obj e) i) eqn:En; [|discriminate]. inversion H; subst. apply Nat.eqb_eq in En.
    split; [reflexivity|]. split; [reflexivity|]. left. exists e. auto.
  - inversion H; subst. split; [reflexivity|]. split; [reflexivity|]. right. auto.
Qed.
(* uniformly: the registry without the selector, plus the entry *)
Lemma do_one_shape : forall d reg names o m reg' sel rp, do_one d reg names o m = DOk (reg', sel, rp) ->
  exists i entry, obj_id o = Some i /\ ce_sel entry = sel /\ ce_obj entry = i /\ reg' = remove_sel sel reg ++ [entry] /\
    (forall e, find_sel sel reg = Some e -> ce_obj e = i).
Proof.
  intros d reg names o m reg' sel rp H.
  destruct (do_one_inv _ _ _ _ _ _ _ _ H) as [i [entry [Hi [Hse [Hoe [[e [Hf [Ho Hr]]]|[Hf Hr]]]]]]]; exists i, entry.
  - repeat (split; [assumption|]). intros e1 He1. congruence.
  - repeat (split; [assumption|]). split; [|intros e1 He1; congruence].
    subst reg'. f_equal. unfold remove_sel. symmetry. clear -Hf.
    induction reg as [|x r IH]; [reflexivity|]. cbn [find_sel] in Hf. cbn [filter].
    destruct (String.eqb (ce_sel x) sel); [discriminate|]. cbn [negb]. rewrite (IH Hf) at 1. reflexivity.
Qed.

Lemma do_one_wf : forall d reg names o m reg' sel rp, reg_wf reg -> do_one d reg names o m = DOk (reg', sel, rp) -> reg_wf reg'.
Proof.
  intros d reg names o m reg' sel rp Hwf H.
  destruct (do_one_shape _ _ _ _ _ _ _ _ H) as [i [entry [_ [Hs [_ [Hr _]]]]]]. subst reg'. unfold reg_wf.
  rewrite map_app. cbn [map]. apply NoDup_snoc; [apply remove_sel_wf; exact Hwf|].
  rewrite Hs. apply find_sel_None. apply find_sel_remove_same.
Qed.
(* selectors are never lost and keep their object *)
Lemma do_one_monotone : forall d reg names o m reg' sel rp, do_one d reg names o m = DOk (reg', sel, rp) ->
  forall s e, find_sel s reg = Some e -> exists e', find_sel s reg' = Some e' /\ ce_obj e' = ce_obj e.
Proof.
  intros d reg names o m reg' sel rp H s e0 Hs.
  destruct (do_one_shape _ _ _ _ _ _ _ _ H) as [i [entry [_ [Hse [Hoe [Hr Hsame]]]]]]. subst reg'.
  rewrite find_sel_app. destruct (string_dec s sel) as [Heq|Hne].
  - subst s. rewrite find_sel_remove_same, Hse, String.eqb_refl. exists entry. split; [reflexivity|].
    rewrite (Hsame _ Hs). exact Hoe.
  - rewrite find_sel_remove_other, Hs by exact Hne. exists e0. auto.
Qed.
(* the registered selector maps to the registered object afterwards *)
Lemma do_one_registered : forall d reg names o m reg' sel rp, do_one d reg names o m = DOk (reg', sel, rp) ->
  exists i e, obj_id o = Some i /\ find_sel sel reg' = Some e /\ ce_obj e = i.
Proof.
  intros d reg names o m reg' sel rp H.
  destruct (do_one_shape _ _ _ _ _ _ _ _ H) as [i [entry [Hi [Hse [Hoe [Hr _]]]]]]. subst reg'. exists i, entry.
  split; [exact Hi|]. split; [|exact Hoe]. rewrite find_sel_app, find_sel_remove_same, Hse, String.eqb_refl. reflexivity.
Qed.
(* look-ups of other selectors are unchanged *)
Lemma do_one_other : forall d reg names o m reg' sel rp, do_one d reg names o m = DOk (reg', sel, rp) ->
  forall s, s <> sel -> find_sel s reg' = find_sel s reg.
Proof.
  intros d reg names o m reg' sel rp H s Hne.
  destruct (do_one_shape _ _ _ _ _ _ _ _ H) as [i [entry [Hi [Hse [Hoe [Hr _]]]]]]. subst reg'.
  rewrite find_sel_app, find_sel_remove_other by exact Hne. destruct (find_sel s reg); [reflexivity|].
  destruct (String.eqb (ce_sel entry) s) eqn:E; [apply String.eqb_eq in E; congruence|reflexivity].
Qed.
(* the set of registered objects only grows by the object just registered *)
Lemma do_one_objs : forall d reg names o m reg' sel rp, do_one d reg names o m = DOk (reg', sel, rp) ->
  forall x, In x reg' -> In x reg \/ obj_id o = Some (ce_obj x).
Proof.
  intros d reg names o m reg' sel rp H x Hin.
  destruct (do_one_shape _ _ _ _ _ _ _ _ H) as [i [entry [Hi [Hse [Hoe [Hr _]]]]]]. subst reg'.
  apply in_app_or in Hin. destruct Hin as [Hx|[Hx|[]]]; [left; exact (proj1 (proj1 (In_remove_sel _ _ _) Hx))|right; subst x; congruence].
Qed.

(* ------------------------------------------------------------------ *)
(* ---- registry invariant ---- *)
(* ------------------------------------------------------------------ *)
(* the chain denotes a METHOD: a function whose parent in the chain is a class (the test of register_chain) *)
Definition is_method_chain (chain : list pyobj) : bool :=
  match rev chain, rev (removelast chain) with
  | leaf :: _, parent :: _ => is_func leaf && is_class parent
  | _, _ => false
  end.
(* distinct objects carry distinct ids: the last object of the chain and its parent (boolean, on the chain) *)
Definition ids_differ (child parent : pyobj) : bool :=
  match obj_id child, obj_id parent with Some a, Some b => negb (Nat.eqb a b) | _, _ => true end.
Definition distinct_ids (chain : list pyobj) : bool :=
  match rev chain with leaf :: parent :: _ => ids_differ leaf parent | _ => true end.
(* the same as a property of the universe: no class has an attribute carrying the class's own id (hereditarily).
   The same object may well be reachable along several paths (aliasing is allowed). *)
Fixpoint class_ids_ok (o : pyobj) : bool :=
  match o with
  | PMod attrs => (fix go (l : list (string * pyobj)) : bool :=
                     match l with [] => true | (_, v) :: r => class_ids_ok v && go r end) attrs
  | PClass i attrs => (fix go (l : list (string * pyobj)) : bool :=
                     match l with [] => true | (_, v) :: r => ids_differ v (PClass i []) && class_ids_ok v && go r end) attrs
  | _ => true
  end.

Lemma is_method_chain_parent : forall chain, is_method_chain chain = true ->
  exists leaf parent, last chain POther = leaf /\ nth_error (rev chain) 1 = Some parent /\ is_func leaf = true /\ is_class parent = true.
Proof.
  intros chain H. unfold is_method_chain in H. rewrite rev_removelast in H.
  destruct (rev chain) as [|leaf rc] eqn:Erc; [discriminate|]. cbn [tl] in H.
  destruct rc as [|parent rc']; [discriminate|]. apply andb_true_iff in H. destruct H as [Hf Hc].
  exists leaf, parent. split; [eapply last_rev_hd; eauto|]. split; [reflexivity|]. split; assumption.
Qed.

Theorem register_chain_wf : forall reg d names chain reg' sel rp, reg_wf reg ->
  register_chain reg d names chain = DOk (reg', sel, rp) -> reg_wf reg'.
Proof.
  intros reg d names chain reg' sel rp Hwf H. rewrite register_chain_unfold in H.
  destruct (rev chain) as [|leaf rc] eqn:Erc; [discriminate|].
  destruct (rev (removelast chain)) as [|parent rp0] eqn:Erp; [discriminate|].
  destruct (is_func leaf && is_class parent) eqn:Em.
  - destruct (do_one d reg (removelast names) parent false) as [[[reg1 csel] rp1]|err] eqn:Ed; [|discriminate].
    destruct (obj_id leaf) as [i|] eqn:Ei; [|discriminate]. cbv zeta in H.
    assert (Hwf1 : reg_wf reg1) by (eapply do_one_wf; eauto).
    destruct (find_obj i reg1) as [e1|] eqn:Efo; [inversion H; subst; exact Hwf1|].
    match type of H with context [find_sel ?s reg1] => destruct (find_sel s reg1) as [e2|] eqn:Efs end; [discriminate|].
    inversion H; subst; clear H.
    unfold reg_wf. rewrite map_app. cbn [map ce_sel]. apply NoDup_snoc; [exact Hwf1|].
    apply find_sel_None. exact Efs.
  - eapply do_one_wf; eauto.
Qed.

Lemma get_configurable_static : forall reg c sel reg' full rp, c_dynamic c = false ->
  get_configurable reg c sel = DOk (reg', full, rp) -> reg' = reg.
Proof.
  intros reg c sel reg' full rp Hd H. unfold get_configurable in H. rewrite Hd in H. cbn [negb] in H.
  match type of H with context [sm_get_match ?a ?b] => destruct (sm_get_match a b) end; inversion H; reflexivity.
Qed.

(* the successful dynamic resolution, taken apart *)
Lemma get_configurable_dyn_inv : forall reg c sel reg' full rp, c_dynamic c = true ->
  get_configurable reg c sel = DOk (reg', full, rp) ->
  exists root d chain i, tget (hd "" (split_dot sel)) (c_table c) = Some (root, d) /\
    follow root (tl (split_dot sel)) [] = Some chain /\ obj_id (last chain POther) = Some i /\
    ((exists e, find_obj i reg = Some e /\ reg' = reg /\ full = ce_sel e /\ rp = []) \/
     (find_obj i reg = None /\ register_chain reg d (split_dot sel) chain = DOk (reg', full, rp))).
Proof.
  intros reg c sel reg' full rp Hd H. unfold get_configurable in H. rewrite Hd in H. cbn [negb] in H. cbv zeta in H.
  destruct (tget (hd "" (split_dot sel)) (c_table c)) as [[root d]|] eqn:Et; [|discriminate].
  destruct (follow root (tl (split_dot sel)) []) as [chain|] eqn:Ef; [|discriminate].
  destruct (obj_id (last chain POther)) as [i|] eqn:Ei; [|discriminate].
  exists root, d, chain, i. split; [reflexivity|]. split; [exact Ef|]. split; [exact Ei|].
  destruct (find_obj i reg) as [e|] eqn:Efo.
  - inversion H; subst. left. exists e. auto.
  - right. auto.
Qed.

Theorem get_configurable_wf : forall reg c sel reg' full rp, reg_wf reg ->
  get_configurable reg c sel = DOk (reg', full, rp) -> reg_wf reg'.
Proof.
  intros reg c sel reg' full rp Hwf H. destruct (c_dynamic c) eqn:Hd.
  - destruct (get_configurable_dyn_inv _ _ _ _ _ _ Hd H) as [root [d [chain [i [Ht [Hf [Hi [[e [_ [Hr _]]]|[Hfo Hreg]]]]]]]]].
    + subst reg'. exact Hwf.
    + eapply register_chain_wf; eauto.
  - rewrite (get_configurable_static _ _ _ _ _ _ Hd H). exact Hwf.
Qed.

(* ---- registrations are never removed ---- *)
Lemma register_chain_monotone : forall reg d names chain reg' sel rp,
  register_chain reg d names chain = DOk (reg', sel, rp) ->
  forall s e, find_sel s reg = Some e -> exists e', find_sel s reg' = Some e' /\ ce_obj e' = ce_obj e.
Proof.
  intros reg d names chain reg' sel rp H s e Hs. rewrite register_chain_unfold in H.
  destruct (rev chain) as [|leaf rc]; [discriminate|].
  destruct (rev (removelast chain)) as [|parent rp0]; [discriminate|].
  destruct (is_func leaf && is_class parent).
  - destruct (do_one d reg (removelast names) parent false) as [[[reg1 csel] rp1]|err] eqn:Ed; [|discriminate].
    destruct (do_one_monotone _ _ _ _ _ _ _ _ Ed _ _ Hs) as [e' [He' Ho']].
    destruct (obj_id leaf) as [i|]; [|discriminate]. cbv zeta in H.
    destruct (find_obj i reg1); [inversion H; subst; clear H; exists e'; split; auto|].
    match type of H with context [find_sel ?s0 reg1] => destruct (find_sel s0 reg1) end; [discriminate|].
    inversion H; subst; clear H; exists e'; split; auto.
    rewrite find_sel_app, He'. reflexivity.
  - eapply do_one_monotone; eauto.
Qed.
(* every selector that resolved before still resolves, to the same object (no invariant needed) *)
Theorem get_configurable_monotone_sel : forall reg c sel reg' full rp,
  get_configurable reg c sel = DOk (reg', full, rp) ->
  forall s e, find_sel s reg = Some e -> exists e', find_sel s reg' = Some e' /\ ce_obj e' = ce_obj e.
Proof.
  intros reg c sel reg' full rp H s e Hs. destruct (c_dynamic c) eqn:Hd.
  - destruct (get_configurable_dyn_inv _ _ _ _ _ _ Hd H) as [root [d [chain [i [Ht [Hf [Hi [[e1 [_ [Hr _]]]|[Hfo Hreg]]]]]]]]].
    + subst reg'. exists e. auto.
    + eapply register_chain_monotone; eauto.
  - rewrite (get_configurable_static _ _ _ _ _ _ Hd H). exists e. auto.
Qed.
Theorem get_configurable_monotone : forall reg c sel reg' full rp, reg_wf reg -> get_configurable reg c sel = DOk (reg', full, rp) ->
  forall e, In e reg -> exists e', find_sel (ce_sel e) reg' = Some e' /\ ce_obj e' = ce_obj e.
Proof.
  intros reg c sel reg' full rp Hwf H e Hin.
  eapply get_configurable_monotone_sel; eauto. apply find_sel_In_nodup; assumption.
Qed.

(* ------------------------------------------------------------------ *)
(* ---- C19_exact_object ---- *)
(* ------------------------------------------------------------------ *)
Lemma register_chain_registered : forall reg d names chain reg' sel rp i,
  register_chain reg d names chain = DOk (reg', sel, rp) ->
  obj_id (last chain POther) = Some i -> find_obj i reg = None ->
  distinct_ids chain = true ->
  exists e, find_sel sel reg' = Some e /\ ce_obj e = i.
Proof.
  intros reg d names chain reg' sel rp i H Hi Hfo Hids. rewrite register_chain_unfold in H.
  unfold distinct_ids in Hids. rewrite rev_removelast in H.
  destruct (rev chain) as [|leaf rc] eqn:Erc; [discriminate|]. cbn [tl] in H.
  destruct rc as [|parent rp0]; [discriminate|].
  rewrite (last_rev_hd _ _ _ _ POther Erc) in Hi.
  destruct (is_func leaf && is_class parent) eqn:Em.
  - destruct (do_one d reg (removelast names) parent false) as [[[reg1 csel] rp1]|err] eqn:Ed; [|discriminate].
    rewrite Hi in H. cbv zeta in H.
    assert (Hfo1 : find_obj i reg1 = None).
    { apply find_obj_None. intros x Hx. destruct (do_one_objs _ _ _ _ _ _ _ _ Ed _ Hx) as [Hin|Hp].
      - rewrite find_obj_None in Hfo. exact (Hfo _ Hin).
      - intro Hc. unfold ids_differ in Hids. rewrite Hi, Hp, Hc, Nat.eqb_refl in Hids. discriminate. }
    rewrite Hfo1 in H.
    match type of H with context [find_sel ?s0 reg1] => destruct (find_sel s0 reg1) as [e2|] eqn:Efs end; [discriminate|].
    inversion H; subst; clear H.
    eexists. split.
    + rewrite find_sel_app.
      match goal with |- context [find_sel ?s1 reg1] => replace (find_sel s1 reg1) with (@None centry) by (symmetry; exact Efs) end.
      cbn [ce_sel]. rewrite String.eqb_refl. reflexivity.
    + reflexivity.
  - destruct (do_one_registered _ _ _ _ _ _ _ _ H) as [i' [e [Hi' [Hfs Ho]]]].
    exists e. split; [exact Hfs|congruence].
Qed.

(* the configurable returned for a dotted name wraps THE VERY OBJECT the attribute chain denotes *)
Theorem C19_exact_object : forall reg c sel reg' full rp, reg_wf reg -> c_dynamic c = true ->
  get_configurable reg c sel = DOk (reg', full, rp) ->
  (forall root d chain, tget (hd "" (split_dot sel)) (c_table c) = Some (root, d) ->
     follow root (tl (split_dot sel)) [] = Some chain -> distinct_ids chain = true) ->
  exists root d chain i e, tget (hd "" (split_dot sel)) (c_table c) = Some (root, d) /\
    follow root (tl (split_dot sel)) [] = Some chain /\ obj_id (last chain POther) = Some i /\
    find_sel full reg' = Some e /\ ce_obj e = i.
Proof.
  intros reg c sel reg' full rp Hwf Hd H Hside.
  destruct (get_configurable_dyn_inv _ _ _ _ _ _ Hd H) as [root [d [chain [i [Ht [Hf [Hi [[e [Hfo [Hr [Hfull _]]]]|[Hfo Hreg]]]]]]]]].
  - subst reg' full. destruct (find_obj_Some _ _ _ Hfo) as [Hin Ho].
    exists root, d, chain, i, e. repeat (split; [assumption|]). split; [apply find_sel_In_nodup; assumption|exact Ho].
  - destruct (register_chain_registered _ _ _ _ _ _ _ i Hreg Hi Hfo (Hside _ _ _ Ht Hf)) as [e [Hfs Ho]].
    exists root, d, chain, i, e. repeat split; assumption.
Qed.

(* ---- the hypothesis as a property of the universe ---- *)
Lemma class_ids_ok_PMod : forall a, class_ids_ok (PMod a) = forallb (fun kv => class_ids_ok (snd kv)) a.
Proof.
  induction a as [|[k v] r IH]; [reflexivity|]. cbn [forallb snd]. rewrite <- IH. reflexivity.
Qed.
Lemma class_ids_ok_PClass : forall i a, class_ids_ok (PClass i a) =
  forallb (fun kv => ids_differ (snd kv) (PClass i []) && class_ids_ok (snd kv)) a.
Proof.
  intros i. induction a as [|[k v] r IH]; [reflexivity|]. cbn [forallb snd]. rewrite <- IH. reflexivity.
Qed.
Lemma pget_In : forall n a v, pget n a = Some v -> exists k, In (k, v) a.
Proof.
  intros n a. induction a as [|[k w] r IH]; intros v H; cbn [pget] in H; [discriminate|].
  destruct (String.eqb n k).
  - inversion H; subst. exists k. left. reflexivity.
  - destruct (IH _ H) as [k' Hin]. exists k'. right. exact Hin.
Qed.
Lemma class_ids_ok_child : forall o n o', class_ids_ok o = true -> pget n (attrs_of o) = Some o' ->
  class_ids_ok o' = true /\ ids_differ o' o = true.
Proof.
  intros o n o' Hok Hg. destruct o as [a|i a| |]; cbn [attrs_of] in Hg; try discriminate.
  - rewrite class_ids_ok_PMod, forallb_forall in Hok. destruct (pget_In _ _ _ Hg) as [k Hin].
    split; [exact (Hok _ Hin)|]. unfold ids_differ. cbn [obj_id]. destruct (obj_id o'); reflexivity.
  - rewrite class_ids_ok_PClass, forallb_forall in Hok. destruct (pget_In _ _ _ Hg) as [k Hin].
    specialize (Hok _ Hin). cbn [snd] in Hok. apply andb_true_iff in Hok. destruct Hok as [H1 H2].
    split; [exact H2|exact H1].
Qed.
Lemma follow_distinct_ids : forall names o acc chain, follow o names acc = Some chain ->
  class_ids_ok o = true -> distinct_ids (acc ++ [o]) = true -> distinct_ids chain = true.
Proof.
  induction names as [|n r IH]; intros o acc chain Hf Hok Hacc; cbn [follow] in Hf.
  - inversion Hf; subst. exact Hacc.
  - destruct (pget n (attrs_of o)) as [o'|] eqn:Eg; [|discriminate].
    destruct (class_ids_ok_child _ _ _ Hok Eg) as [Hok' Hd].
    eapply IH; [exact Hf|exact Hok'|].
    unfold distinct_ids. rewrite !rev_app_distr. cbn [rev app]. exact Hd.
Qed.
Theorem C19_exact_object_universe : forall reg c sel reg' full rp, reg_wf reg -> c_dynamic c = true ->
  get_configurable reg c sel = DOk (reg', full, rp) ->
  (forall root d, tget (hd "" (split_dot sel)) (c_table c) = Some (root, d) -> class_ids_ok root = true) ->
  exists root d chain i e, tget (hd "" (split_dot sel)) (c_table c) = Some (root, d) /\
    follow root (tl (split_dot sel)) [] = Some chain /\ obj_id (last chain POther) = Some i /\
    find_sel full reg' = Some e /\ ce_obj e = i.
Proof.
  intros reg c sel reg' full rp Hwf Hd H Hok. eapply C19_exact_object; eauto.
  intros root d chain Ht Hf. eapply follow_distinct_ids; [exact Hf|exact (Hok _ _ Ht)|reflexivity].
Qed.
(* unconditionally for anything that is not a method *)
Corollary C19_exact_object_nonmethod : forall reg c sel reg' full rp, reg_wf reg -> c_dynamic c = true ->
  get_configurable reg c sel = DOk (reg', full, rp) ->
  (forall root d chain, tget (hd "" (split_dot sel)) (c_table c) = Some (root, d) ->
     follow root (tl (split_dot sel)) [] = Some chain -> is_method_chain chain = false) ->
  exists root d chain i e, tget (hd "" (split_dot sel)) (c_table c) = Some (root, d) /\
    follow root (tl (split_dot sel)) [] = Some chain /\ obj_id (last chain POther) = Some i /\
    find_sel full reg' = Some e /\ ce_obj e = i.
Proof.
  intros reg c sel reg' full rp Hwf Hd H Hnm.
  destruct (get_configurable_dyn_inv _ _ _ _ _ _ Hd H) as [root [d [chain [i [Ht [Hf [Hi [[e [Hfo [Hr [Hfull _]]]]|[Hfo Hreg]]]]]]]]].
  - subst reg' full. destruct (find_obj_Some _ _ _ Hfo) as [Hin Ho].
    exists root, d, chain, i, e. repeat (split; [assumption|]). split; [apply find_sel_In_nodup; assumption|exact Ho].
  - specialize (Hnm _ _ _ Ht Hf). unfold is_method_chain in Hnm. rewrite register_chain_unfold in Hreg.
    destruct (rev chain) as [|leaf rc] eqn:Erc; [discriminate|].
    destruct (rev (removelast chain)) as [|parent rp0]; [discriminate|].
    rewrite Hnm in Hreg. pose proof Hi as Hi2. rewrite (last_rev_hd _ _ _ _ POther Erc) in Hi2.
    destruct (do_one_registered _ _ _ _ _ _ _ _ Hreg) as [i' [e [Hi' [Hfs Ho]]]].
    exists root, d, chain, i, e. split; [exact Ht|]. split; [exact Hf|]. split; [exact Hi|]. split; [exact Hfs|congruence].
Qed.

(* ------------------------------------------------------------------ *)
(* ---- what a FAILED resolution leaves registered ---- *)
(* ------------------------------------------------------------------ *)
(* failed_reg is the registry itself, or the registry after ONE (successful) plain registration *)
Lemma failed_reg_cases : forall reg c sel,
  failed_reg reg c sel = reg \/
  exists d names o sel' rp, do_one d reg names o false = DOk (failed_reg reg c sel, sel', rp).
Proof.
  intros reg c sel. unfold failed_reg.
  destruct (negb (c_dynamic c)); [left; reflexivity|]. cbv zeta.
  destruct (tget (hd "" (split_dot sel)) (c_table c)) as [[root d]|]; [|left; reflexivity].
  destruct (follow root (tl (split_dot sel)) []) as [chain|]; [|left; reflexivity].
  destruct (rev chain) as [|leaf rc]; [left; reflexivity|].
  destruct (rev (removelast chain)) as [|parent rp0]; [left; reflexivity|].
  destruct (obj_id leaf) as [i|]; [|left; reflexivity].
  destruct (is_func leaf && is_class parent && match find_obj i reg with None => true | Some _ => false end); [|left; reflexivity].
  destruct (do_one d reg (split_dot sel) leaf false) as [[[reg1 s1] rp1]|err1] eqn:E1; [|left; reflexivity].
  destruct (do_one d reg (removelast (split_dot sel)) parent false) as [[[reg2 s2] rp2]|err2]; [left; reflexivity|].
  right. exists d, (split_dot sel), leaf, s1, rp1. exact E1.
Qed.
Theorem failed_reg_wf : forall reg c sel, reg_wf reg -> reg_wf (failed_reg reg c sel).
Proof.
  intros reg c sel Hwf. destruct (failed_reg_cases reg c sel) as [E|[d [names [o [sel' [rp E]]]]]].
  - rewrite E. exact Hwf.
  - eapply do_one_wf; eauto.
Qed.
Theorem failed_reg_monotone : forall reg c sel s e, find_sel s reg = Some e ->
  exists e', find_sel s (failed_reg reg c sel) = Some e' /\ ce_obj e' = ce_obj e.
Proof.
  intros reg c sel s e Hs. destruct (failed_reg_cases reg c sel) as [E|[d [names [o [sel' [rp E]]]]]].
  - rewrite E. exists e. auto.
  - eapply do_one_monotone; eauto.
Qed.
Theorem failed_reg_static : forall reg c sel, c_dynamic c = false -> failed_reg reg c sel = reg.
Proof. intros reg c sel Hd. unfold failed_reg. rewrite Hd. reflexivity. Qed.

(* ------------------------------------------------------------------ *)
(* ---- re-pointing of references after a re-registration ---- *)
(* ------------------------------------------------------------------ *)
(* what retarget does to one referenced selector *)
Definition retarget1 (rp : list (string * string)) (r : string) : string :=
  match (fix go (l : list (string * string)) := match l with [] => None | (o, n) :: t => if String.eqb o r then Some n else go t end) rp with
  | Some n => n | None => r end.
Lemma retarget_map : forall rp refs, retarget rp refs = map (fun x => (fst x, retarget1 rp (snd x))) refs.
Proof. reflexivity. Qed.
Lemma retarget1_nil : forall r, retarget1 [] r = r.
Proof. reflexivity. Qed.
Lemma retarget1_single : forall a b r, retarget1 [(a, b)] r = if String.eqb a r then b else r.
Proof. intros a b r. unfold retarget1. destruct (String.eqb a r); reflexivity. Qed.

(* "latest": the selector is registered and is the most recent registration of its object *)
Definition latest (reg : list centry) (r : string) : Prop :=
  exists e, find_sel r reg = Some e /\ find_obj (ce_obj e) reg = Some e.
Lemma find_obj_first_app : forall k l1 l2, find_obj_first k (l1 ++ l2) =
  match find_obj_first k l1 with Some x => Some x | None => find_obj_first k l2 end.
Proof.
  intros k l1 l2. induction l1 as [|x r IH]; cbn [app find_obj_first]; [reflexivity|].
  destruct (Nat.eqb (ce_obj x) k); [reflexivity|exact IH].
Qed.
Lemma find_obj_app : forall k l1 l2, find_obj k (l1 ++ l2) =
  match find_obj k l2 with Some x => Some x | None => find_obj k l1 end.
Proof. intros k l1 l2. unfold find_obj. rewrite rev_app_distr. apply find_obj_first_app. Qed.
Lemma find_obj_single : forall k x, find_obj k [x] = if Nat.eqb (ce_obj x) k then Some x else None.
Proof. reflexivity. Qed.
Lemma find_obj_cons : forall k x l, find_obj k (x :: l) =
  match find_obj k l with Some y => Some y | None => if Nat.eqb (ce_obj x) k then Some x else None end.
Proof. intros k x l. change (x :: l) with ([x] ++ l). rewrite find_obj_app, find_obj_single. reflexivity. Qed.
Lemma find_obj_snoc : forall k l x, find_obj k (l ++ [x]) = if Nat.eqb (ce_obj x) k then Some x else find_obj k l.
Proof. intros k l x. rewrite find_obj_app, find_obj_single. destruct (Nat.eqb (ce_obj x) k); reflexivity. Qed.

Lemma find_obj_filter : forall k (f : centry -> bool) reg, (forall x, In x reg -> f x = false -> ce_obj x <> k) ->
  find_obj k (filter f reg) = find_obj k reg.
Proof.
  intros k f reg. induction reg as [|x r IH]; intros H; [reflexivity|]. cbn [filter].
  assert (IH' : find_obj k (filter f r) = find_obj k r) by (apply IH; intros y Hy; apply H; right; exact Hy).
  destruct (f x) eqn:Ef.
  - rewrite !find_obj_cons, IH'. reflexivity.
  - rewrite find_obj_cons, IH'. destruct (find_obj k r); [reflexivity|].
    pose proof (H x (or_introl eq_refl) Ef) as Hne. apply Nat.eqb_neq in Hne. rewrite Hne. reflexivity.
Qed.

Lemma replace_decomp : forall sel entry reg ec, find_sel sel reg = Some ec ->
  exists a b, reg = a ++ ec :: b /\ replace_entry sel entry reg = a ++ entry :: b.
Proof.
  intros sel entry reg. induction reg as [|x r IH]; intros ec H; cbn [find_sel] in H; [discriminate|].
  cbn [replace_entry]. destruct (String.eqb (ce_sel x) sel).
  - inversion H; subst. exists [], r. split; reflexivity.
  - destruct (IH _ H) as [a [b [E1 E2]]]. exists (x :: a), b. rewrite E1 at 1. rewrite E2. split; reflexivity.
Qed.
Lemma wf_mid_notin : forall a x b, reg_wf (a ++ x :: b) -> ~ In x b.
Proof.
  intros a x b Hwf Hin. unfold reg_wf in Hwf. rewrite map_app in Hwf. cbn [map] in Hwf.
  apply NoDup_remove_2 in Hwf. apply Hwf. apply in_or_app. right. apply in_map. exact Hin.
Qed.
Lemma In_map_find_sel : forall s reg, In s (map ce_sel reg) -> exists e, find_sel s reg = Some e.
Proof.
  intros s reg Hin. destruct (find_sel s reg) as [e|] eqn:E; [exists e; reflexivity|].
  exfalso. exact (find_sel_None _ _ E Hin).
Qed.
Lemma find_sel_In_map : forall s reg e, find_sel s reg = Some e -> In s (map ce_sel reg).
Proof. intros s reg e H. destruct (find_sel_Some _ _ _ H) as [Hin Hs]. rewrite <- Hs. apply in_map. exact Hin. Qed.

(* the re-pointings produced by one registration *)
Lemma do_one_rp : forall d reg names o m reg' sel rp, do_one d reg names o m = DOk (reg', sel, rp) ->
  exists i, obj_id o = Some i /\ rp = match find_obj i reg with Some e0 => [(ce_sel e0, sel)] | None => [] end.
Proof.
  intros d reg names o m reg' sel rp H. unfold do_one in H.
  destruct (obj_id o) as [i|]; [|discriminate]. cbv zeta in H. exists i. split; [reflexivity|].
  match type of H with context [find_sel ?s reg] => destruct (find_sel s reg) as [e|] end.
  - destruct (Nat.eqb (ce_obj e) i); [|discriminate]. inversion H; subst. reflexivity.
  - inversion H; subst. reflexivity.
Qed.

(* one registration: a registered selector, re-pointed, is still registered for the same object *)
Lemma do_one_ref : forall d reg names o m reg1 sel rp r e, reg_wf reg ->
  do_one d reg names o m = DOk (reg1, sel, rp) -> find_sel r reg = Some e ->
  exists e', find_sel (retarget1 rp r) reg1 = Some e' /\ ce_obj e' = ce_obj e.
Proof.
  intros d reg names o m reg1 sel rp r e Hwf Hdo Hs.
  destruct (do_one_rp _ _ _ _ _ _ _ _ Hdo) as [i [Hi Hrp]].
  destruct (find_obj i reg) as [e0|] eqn:Efo; subst rp.
  - rewrite retarget1_single. destruct (String.eqb (ce_sel e0) r) eqn:Er.
    + apply String.eqb_eq in Er. destruct (find_obj_Some _ _ _ Efo) as [Hin0 Ho0].
      rewrite <- Er, (find_sel_In_nodup _ _ Hwf Hin0) in Hs. inversion Hs; subst e.
      destruct (do_one_registered _ _ _ _ _ _ _ _ Hdo) as [i' [e' [Hi' [Hfs Ho']]]].
      exists e'. split; [exact Hfs|congruence].
    + eapply do_one_monotone; eauto.
  - rewrite retarget1_nil. eapply do_one_monotone; eauto.
Qed.
(* ... and stays the latest registration of its object *)
Lemma do_one_latest : forall d reg names o m reg1 sel rp r e, reg_wf reg ->
  do_one d reg names o m = DOk (reg1, sel, rp) ->
  find_sel r reg = Some e -> find_obj (ce_obj e) reg = Some e ->
  exists e', find_sel (retarget1 rp r) reg1 = Some e' /\ ce_obj e' = ce_obj e /\ find_obj (ce_obj e) reg1 = Some e'.
Proof.
  intros d reg names o m reg1 sel rp r e Hwf Hdo Hs Hl.
  destruct (do_one_rp _ _ _ _ _ _ _ _ Hdo) as [i [Hi Hrp]].
  destruct (do_one_shape _ _ _ _ _ _ _ _ Hdo) as [i1 [entry [Hi1 [Hse [Hoe [Hr Hsame]]]]]].
  rewrite Hi in Hi1; injection Hi1 as Hi1; subst i1. subst reg1.
  destruct (Nat.eq_dec (ce_obj e) i) as [Heq|Hne].
  - rewrite Heq in Hl. rewrite Hl in Hrp. subst rp. destruct (find_sel_Some _ _ _ Hs) as [_ Hr'].
    rewrite retarget1_single, Hr', String.eqb_refl.
    exists entry. split; [rewrite find_sel_app, find_sel_remove_same, Hse, String.eqb_refl; reflexivity|]. split; [congruence|].
    rewrite Heq. apply find_obj_snoc_same. exact Hoe.
  - assert (Hret : retarget1 rp r = r).
    { destruct (find_obj i reg) as [e0|] eqn:Efo; subst rp; [|apply retarget1_nil].
      rewrite retarget1_single. destruct (String.eqb (ce_sel e0) r) eqn:Er; [|reflexivity].
      exfalso. apply String.eqb_eq in Er. destruct (find_obj_Some _ _ _ Efo) as [Hin0 Ho0].
      rewrite <- Er, (find_sel_In_nodup _ _ Hwf Hin0) in Hs. injection Hs as Hs. subst e0. exact (Hne Ho0). }
    assert (Hrs : r <> sel) by (intro Hc; subst r; exact (Hne (Hsame _ Hs))).
    rewrite Hret. exists e. split; [rewrite find_sel_app, find_sel_remove_other, Hs by exact Hrs; reflexivity|].
    split; [reflexivity|]. rewrite find_obj_snoc.
    assert (E1 : Nat.eqb (ce_obj entry) (ce_obj e) = false) by (apply Nat.eqb_neq; congruence).
    rewrite E1. unfold remove_sel. rewrite find_obj_filter; [exact Hl|].
    intros x Hx Hf. apply negb_false_iff in Hf. apply String.eqb_eq in Hf.
    pose proof (find_sel_In_nodup _ _ Hwf Hx) as Hfx. rewrite Hf in Hfx. rewrite (Hsame _ Hfx). congruence.
Qed.

Lemma register_chain_ref : forall reg d names chain reg' sel rp r e, reg_wf reg ->
  register_chain reg d names chain = DOk (reg', sel, rp) -> find_sel r reg = Some e ->
  exists e', find_sel (retarget1 rp r) reg' = Some e' /\ ce_obj e' = ce_obj e.
Proof.
  intros reg d names chain reg' sel rp r e Hwf H Hs. rewrite register_chain_unfold in H.
  destruct (rev chain) as [|leaf rc]; [discriminate|].
  destruct (rev (removelast chain)) as [|parent rp0]; [discriminate|].
  destruct (is_func leaf && is_class parent).
  - destruct (do_one d reg (removelast names) parent false) as [[[reg1 csel] rp1]|err] eqn:Ed; [|discriminate].
    destruct (do_one_ref _ _ _ _ _ _ _ _ _ _ Hwf Ed Hs) as [e' [He' Ho']].
    destruct (obj_id leaf) as [i|]; [|discriminate]. cbv zeta in H.
    destruct (find_obj i reg1); [inversion H; subst; clear H; exists e'; split; auto|].
    match type of H with context [find_sel ?s0 reg1] => destruct (find_sel s0 reg1) end; [discriminate|].
    inversion H; subst; clear H. exists e'. split; [rewrite find_sel_app, He'; reflexivity|exact Ho'].
  - eapply do_one_ref; eauto.
Qed.
Lemma register_chain_latest : forall reg d names chain reg' sel rp r e, reg_wf reg ->
  register_chain reg d names chain = DOk (reg', sel, rp) ->
  find_sel r reg = Some e -> find_obj (ce_obj e) reg = Some e ->
  exists e', find_sel (retarget1 rp r) reg' = Some e' /\ ce_obj e' = ce_obj e /\ find_obj (ce_obj e) reg' = Some e'.
Proof.
  intros reg d names chain reg' sel rp r e Hwf H Hs Hl. rewrite register_chain_unfold in H.
  destruct (rev chain) as [|leaf rc]; [discriminate|].
  destruct (rev (removelast chain)) as [|parent rp0]; [discriminate|].
  destruct (is_func leaf && is_class parent).
  - destruct (do_one d reg (removelast names) parent false) as [[[reg1 csel] rp1]|err] eqn:Ed; [|discriminate].
    destruct (obj_id leaf) as [i|]; [|discriminate]. cbv zeta in H.
    destruct (find_obj i reg1) as [x|] eqn:Efo.
    + inversion H; subst; clear H. eapply do_one_latest; eauto.
    + match type of H with context [find_sel ?s0 reg1] => destruct (find_sel s0 reg1) end; [discriminate|].
      inversion H; subst; clear H.
      destruct (do_one_latest _ _ _ _ _ _ _ _ _ _ Hwf Ed Hs Hl) as [e' [He' [Ho' Hl']]].
      exists e'. split; [rewrite find_sel_app, He'; reflexivity|]. split; [exact Ho'|].
      rewrite find_obj_snoc. cbn [ce_obj].
      destruct (Nat.eqb i (ce_obj e)) eqn:En; [|exact Hl'].
      apply Nat.eqb_eq in En. rewrite <- En, Efo in Hl'. discriminate.
  - eapply do_one_latest; eauto.
Qed.

Lemma get_configurable_static2 : forall reg c sel reg' full rp, c_dynamic c = false ->
  get_configurable reg c sel = DOk (reg', full, rp) -> reg' = reg /\ rp = [].
Proof.
  intros reg c sel reg' full rp Hd H. unfold get_configurable in H. rewrite Hd in H. cbn [negb] in H.
  match type of H with context [sm_get_match ?a ?b] => destruct (sm_get_match a b) end; inversion H; split; reflexivity.
Qed.

(* a registered selector, re-pointed, is still registered and denotes the same object (no condition) *)
Theorem C19_reference_keeps_object : forall reg c sel reg' full rp r e, reg_wf reg ->
  find_sel r reg = Some e -> get_configurable reg c sel = DOk (reg', full, rp) ->
  exists e', find_sel (retarget1 rp r) reg' = Some e' /\ ce_obj e' = ce_obj e.
Proof.
  intros reg c sel reg' full rp r e Hwf Hs H. destruct (c_dynamic c) eqn:Hd.
  - destruct (get_configurable_dyn_inv _ _ _ _ _ _ Hd H) as [root [d [chain [i [Ht [Hf [Hi [[e1 [_ [Hr [_ Hrp]]]]|[Hfo Hreg]]]]]]]]].
    + subst reg' rp. exists e. auto.
    + eapply register_chain_ref; eauto.
  - destruct (get_configurable_static2 _ _ _ _ _ _ Hd H) as [Hr Hrp]. subst reg' rp. exists e. auto.
Qed.
(* ... and is still the latest registration of its object *)
Theorem C19_reference_survives_step : forall reg c sel reg' full rp r e, reg_wf reg ->
  find_sel r reg = Some e -> find_obj (ce_obj e) reg = Some e ->
  get_configurable reg c sel = DOk (reg', full, rp) ->
  exists e', find_sel (retarget1 rp r) reg' = Some e' /\ ce_obj e' = ce_obj e /\ find_obj (ce_obj e) reg' = Some e'.
Proof.
  intros reg c sel reg' full rp r e Hwf Hs Hl H. destruct (c_dynamic c) eqn:Hd.
  - destruct (get_configurable_dyn_inv _ _ _ _ _ _ Hd H) as [root [d [chain [i [Ht [Hf [Hi [[e1 [_ [Hr [_ Hrp]]]]|[Hfo Hreg]]]]]]]]].
    + subst reg' rp. exists e. auto.
    + eapply register_chain_latest; eauto.
  - destruct (get_configurable_static2 _ _ _ _ _ _ Hd H) as [Hr Hrp]. subst reg' rp. exists e. auto.
Qed.
Corollary C19_latest_survives_step : forall reg c sel reg' full rp r, reg_wf reg -> latest reg r ->
  get_configurable reg c sel = DOk (reg', full, rp) -> latest reg' (retarget1 rp r).
Proof.
  intros reg c sel reg' full rp r Hwf [e [Hs Hl]] H.
  destruct (C19_reference_survives_step _ _ _ _ _ _ _ _ Hwf Hs Hl H) as [e' [Hs' [Ho' Hl']]].
  exists e'. split; [exact Hs'|]. rewrite Ho'. exact Hl'.
Qed.

(* ---- the configurable handed back is the latest registration of its object ---- *)
Lemma register_chain_appended : forall reg d names chain reg' sel rp i,
  register_chain reg d names chain = DOk (reg', sel, rp) ->
  obj_id (last chain POther) = Some i -> find_obj i reg = None -> distinct_ids chain = true ->
  exists reg0 e, reg' = reg0 ++ [e] /\ ce_sel e = sel /\ ce_obj e = i /\ find_sel sel reg0 = None.
Proof.
  intros reg d names chain reg' sel rp i H Hi Hfo Hids. rewrite register_chain_unfold in H.
  unfold distinct_ids in Hids. rewrite rev_removelast in H.
  destruct (rev chain) as [|leaf rc] eqn:Erc; [discriminate|]. cbn [tl] in H.
  destruct rc as [|parent rp0]; [discriminate|].
  rewrite (last_rev_hd _ _ _ _ POther Erc) in Hi.
  destruct (is_func leaf && is_class parent) eqn:Em.
  - destruct (do_one d reg (removelast names) parent false) as [[[reg1 csel] rp1]|err] eqn:Ed; [|discriminate].
    rewrite Hi in H. cbv zeta in H.
    assert (Hfo1 : find_obj i reg1 = None).
    { apply find_obj_None. intros x Hx. destruct (do_one_objs _ _ _ _ _ _ _ _ Ed _ Hx) as [Hin|Hp].
      - rewrite find_obj_None in Hfo. exact (Hfo _ Hin).
      - intro Hc. unfold ids_differ in Hids. rewrite Hi, Hp, Hc, Nat.eqb_refl in Hids. discriminate. }
    rewrite Hfo1 in H.
    match type of H with context [find_sel ?s0 reg1] => destruct (find_sel s0 reg1) as [e2|] eqn:Efs end; [discriminate|].
    inversion H; subst; clear H.
    eexists. eexists. split; [reflexivity|]. split; [reflexivity|]. split; [reflexivity|]. exact Efs.
  - destruct (do_one_inv _ _ _ _ _ _ _ _ H) as [i1 [entry [Hi1 [Hse [Hoe [[ec [Hfs [Hoc Hr]]]|[Hfs Hr]]]]]]];
      rewrite Hi in Hi1; injection Hi1 as Hi1; subst i1.
    + exfalso. destruct (find_sel_Some _ _ _ Hfs) as [Hin _]. rewrite find_obj_None in Hfo. exact (Hfo _ Hin Hoc).
    + exists reg, entry. auto.
Qed.
Theorem C19_result_is_latest : forall reg c sel reg' full rp, reg_wf reg -> c_dynamic c = true ->
  get_configurable reg c sel = DOk (reg', full, rp) ->
  (forall root d chain, tget (hd "" (split_dot sel)) (c_table c) = Some (root, d) ->
     follow root (tl (split_dot sel)) [] = Some chain -> distinct_ids chain = true) ->
  latest reg' full.
Proof.
  intros reg c sel reg' full rp Hwf Hd H Hside.
  destruct (get_configurable_dyn_inv _ _ _ _ _ _ Hd H) as [root [d [chain [i [Ht [Hf [Hi [[e [Hfo [Hr [Hfull _]]]]|[Hfo Hreg]]]]]]]]].
  - subst reg' full. destruct (find_obj_Some _ _ _ Hfo) as [Hin Ho].
    exists e. split; [apply find_sel_In_nodup; assumption|]. rewrite Ho. exact Hfo.
  - destruct (register_chain_appended _ _ _ _ _ _ _ i Hreg Hi Hfo (Hside _ _ _ Ht Hf)) as [reg0 [e [Hr [Hse [Hoe Hn]]]]].
    subst reg'. exists e. split.
    + rewrite find_sel_app, Hn, Hse, String.eqb_refl. reflexivity.
    + apply find_obj_snoc_same. reflexivity.
Qed.

(* ------------------------------------------------------------------ *)
(* ---- C19_spelling_same_configurable ---- *)
(* ------------------------------------------------------------------ *)
(* the selector do_one registers under: the one the object already has, if it has one (F22) *)
Lemma do_one_sel_spec : forall d reg names o m reg' sel rp, do_one d reg names o m = DOk (reg', sel, rp) ->
  exists i, obj_id o = Some i /\
    (forall e0, find_obj i reg = Some e0 -> sel = ce_sel e0) /\
    (find_obj i reg = None ->
       sel = (join_dot (partial_path d :: removelast (tl names)) ++ "." ++ last names "")%string).
Proof.
  intros d reg names o m reg' sel rp H. unfold do_one in H.
  destruct (obj_id o) as [i|]; [|discriminate]. cbv zeta in H. exists i. split; [reflexivity|].
  destruct (find_obj i reg) as [e0|] eqn:Efo.
  - split; [|discriminate]. intros e1 He1. injection He1 as <-.
    destruct (find_sel (ce_sel e0) reg) as [e|]; [destruct (Nat.eqb (ce_obj e) i); [|discriminate]|]; inversion H; reflexivity.
  - split; [discriminate|]. intros _.
    match type of H with context [find_sel ?s reg] => destruct (find_sel s reg) as [e|] end;
      [destruct (Nat.eqb (ce_obj e) i); [|discriminate]|]; inversion H; reflexivity.
Qed.
(* any object (function, method or class) resolved through one spelling and then through another one: the second
   resolution hands back the same configurable and changes nothing.  (The chain of the first resolution is not that of a
   method, or it carries distinct ids -- as every chain of a universe with class_ids_ok does.) *)
Theorem C19_spelling_same_configurable : forall reg c1 c2 sel1 sel2 reg1 full1 rp1 reg2 full2 rp2 i,
  reg_wf reg -> c_dynamic c1 = true -> c_dynamic c2 = true ->
  get_configurable reg c1 sel1 = DOk (reg1, full1, rp1) ->
  (exists root d chain, tget (hd "" (split_dot sel1)) (c_table c1) = Some (root, d) /\ follow root (tl (split_dot sel1)) [] = Some chain /\
     obj_id (last chain POther) = Some i /\ (is_method_chain chain = false \/ distinct_ids chain = true)) ->
  get_configurable reg1 c2 sel2 = DOk (reg2, full2, rp2) ->
  (exists root d chain, tget (hd "" (split_dot sel2)) (c_table c2) = Some (root, d) /\ follow root (tl (split_dot sel2)) [] = Some chain /\
     obj_id (last chain POther) = Some i) ->
  full2 = full1 /\ reg2 = reg1.
Proof.
  intros reg c1 c2 sel1 sel2 reg1 full1 rp1 reg2 full2 rp2 i _ Hd1 Hd2 H1 [root1 [d1 [chain1 [Ht1 [Hf1 [Hl1 Hside]]]]]]
         H2 [root2 [d2 [chain2 [Ht2 [Hf2 Hl2]]]]].
  (* after the first resolution the object is in the inverse registry under full1 *)
  assert (Hkey : exists e, find_obj i reg1 = Some e /\ ce_sel e = full1).
  { destruct (get_configurable_dyn_inv _ _ _ _ _ _ Hd1 H1) as [root [d [chain [i' [Ht [Hf [Hi [[e [Hfo [Hr [Hfull _]]]]|[Hfo Hreg]]]]]]]]];
      rewrite Ht1 in Ht; inversion Ht; subst root d; rewrite Hf1 in Hf; inversion Hf; subst chain;
      rewrite Hl1 in Hi; inversion Hi; subst i'.
    - subst reg1 full1. exists e. auto.
    - destruct Hside as [Hnm|Hids].
      + rewrite register_chain_unfold in Hreg. unfold is_method_chain in Hnm.
        destruct (rev chain1) as [|leaf rc] eqn:Erc; [discriminate|].
        destruct (rev (removelast chain1)) as [|parent rp0]; [discriminate|].
        rewrite Hnm in Hreg. rewrite (last_rev_hd _ _ _ _ POther Erc) in Hl1.
        destruct (do_one_inv _ _ _ _ _ _ _ _ Hreg) as [i0 [entry [Hi0 [Hse [Hoe [[e [Hfs [Ho Hr]]]|[Hfs Hr]]]]]]];
          rewrite Hl1 in Hi0; injection Hi0 as Hi0; subst i0.
        * exfalso. destruct (find_sel_Some _ _ _ Hfs) as [Hin _]. rewrite find_obj_None in Hfo. exact (Hfo _ Hin Ho).
        * subst reg1. exists entry. split; [apply find_obj_snoc_same; exact Hoe|exact Hse].
      + destruct (register_chain_appended _ _ _ _ _ _ _ i Hreg Hl1 Hfo Hids) as [reg0 [e [Hr [Hse [Hoe _]]]]].
        subst reg1. exists e. split; [apply find_obj_snoc_same; exact Hoe|exact Hse]. }
  destruct Hkey as [e [Hfo He]].
  unfold get_configurable in H2. rewrite Hd2 in H2. cbn [negb] in H2. cbv zeta in H2.
  rewrite Ht2, Hf2, Hl2 in H2. rewrite Hfo in H2. inversion H2; subst. auto.
Qed.
(* F22, the clause the known finding was a deviation from: a class that is already registered -- through whatever
   spelling -- and is now reached as the parent of an unregistered method through (possibly) another spelling KEEPS its
   selector and its import source (the entry found for its object afterwards has them); the method is registered under
   <the class's selector>.<method name> *)
Theorem C19_class_keeps_selector_via_method : forall reg c sel reg' full rp root d chain leaf parent rest i cid ec,
  c_dynamic c = true -> get_configurable reg c sel = DOk (reg', full, rp) ->
  tget (hd "" (split_dot sel)) (c_table c) = Some (root, d) -> follow root (tl (split_dot sel)) [] = Some chain ->
  rev chain = leaf :: parent :: rest ->
  is_func leaf = true -> is_class parent = true -> obj_id leaf = Some i -> obj_id parent = Some cid -> i <> cid ->
  find_obj i reg = None -> find_obj cid reg = Some ec ->
  full = (ce_sel ec ++ "." ++ last (split_dot sel) "")%string /\
  (exists e', find_obj cid reg' = Some e' /\ ce_sel e' = ce_sel ec /\ ce_src e' = ce_src ec /\ ce_home e' = ce_home ec) /\
  (exists em, find_obj i reg' = Some em /\ ce_sel em = full).
Proof.
  intros reg c sel reg' full rp root d chain leaf parent rest i cid ec Hd H Ht Hf Hrev Hfl Hcp Hi Hcid Hne Hfo Hfc.
  unfold get_configurable in H. rewrite Hd in H. cbn [negb] in H. cbv zeta in H. rewrite Ht, Hf in H.
  rewrite (last_rev_hd _ _ _ _ POther Hrev), Hi, Hfo in H.
  rewrite register_chain_unfold, rev_removelast, Hrev in H. cbn [tl] in H. rewrite Hfl, Hcp in H. cbn [andb] in H.
  destruct (do_one d reg (removelast (split_dot sel)) parent false) as [[[reg1 csel] rp1]|err] eqn:Ed; [|discriminate].
  rewrite Hi in H. cbv zeta in H.
  destruct (do_one_sel_spec _ _ _ _ _ _ _ _ Ed) as [cid' [Hcid' [Hsel _]]]. rewrite Hcid in Hcid'. injection Hcid' as <-.
  pose proof (Hsel _ Hfc) as Hcsel. subst csel.
  (* the class's entry after do_one *)
  assert (Hcls : exists e', find_obj cid reg1 = Some e' /\ ce_sel e' = ce_sel ec /\ ce_src e' = ce_src ec /\ ce_home e' = ce_home ec).
  { unfold do_one in Ed. rewrite Hcid in Ed. cbv zeta in Ed. rewrite Hfc in Ed.
    destruct (find_sel (ce_sel ec) reg) as [e|]; [destruct (Nat.eqb (ce_obj e) cid); [|discriminate]|];
      inversion Ed; subst reg1; eexists; (split; [apply find_obj_snoc_same; reflexivity|]); repeat split; reflexivity. }
  assert (Hfo1 : find_obj i reg1 = None).
  { apply find_obj_None. intros x Hx. destruct (do_one_objs _ _ _ _ _ _ _ _ Ed _ Hx) as [Hin|Hp].
    - rewrite find_obj_None in Hfo. exact (Hfo _ Hin).
    - rewrite Hcid in Hp. injection Hp as Hp. congruence. }
  rewrite Hfo1 in H.
  match type of H with context [find_sel ?s0 reg1] => destruct (find_sel s0 reg1) as [e2|] eqn:Efs end; [discriminate|].
  inversion H; subst reg' full rp; clear H. split; [reflexivity|]. split.
  - destruct Hcls as [e' [He' Hrest]]. exists e'. split; [|exact Hrest].
    rewrite find_obj_snoc. cbn [ce_obj]. destruct (Nat.eqb i cid) eqn:E; [apply Nat.eqb_eq in E; contradiction|exact He'].
  - eexists. split; [apply find_obj_snoc_same; reflexivity|reflexivity].
Qed.

(* ------------------------------------------------------------------ *)
(* ---- the static branch of get_configurable (no dynamic registration in the file) ---- *)
(* ------------------------------------------------------------------ *)
From GinV Require Import Model.SelectorMapSpec Proofs.SelectorMapLemmas Proofs.SelectorMapProofs.

Definition builtins : list string := ["gin.macro"; "gin.constant"; "gin.singleton"].

Lemma split_aux_nonempty' : forall sep s cur, split_aux sep s cur <> [].
Proof.
  intros sep s. induction s as [|c r IH]; intros cur; cbn [split_aux]; [discriminate|].
  destruct (Ascii.eqb c sep); [discriminate|apply IH].
Qed.
Lemma str_app_assoc' : forall a b c : string, ((a ++ b) ++ c = a ++ (b ++ c))%string.
Proof. induction a as [|x a IH]; intros b c; cbn [String.append]; [reflexivity|rewrite IH; reflexivity]. Qed.
Lemma str_app_nil_r' : forall a : string, (a ++ "" = a)%string.
Proof. induction a as [|x a IH]; cbn [String.append]; [reflexivity|rewrite IH; reflexivity]. Qed.
Lemma join_split_aux' : forall s cur, join "." (split_aux dot s cur) = (cur ++ s)%string.
Proof.
  induction s as [|c r IH]; intros cur; cbn [split_aux].
  - cbn [join]. rewrite str_app_nil_r'. reflexivity.
  - destruct (Ascii.eqb_spec c dot) as [->|Hne].
    + pose proof (IH EmptyString) as H. pose proof (split_aux_nonempty' dot r EmptyString) as Hn.
      destruct (split_aux dot r "") as [|y l]; [contradiction|].
      change (join "." (cur :: y :: l)) with (cur ++ "." ++ join "." (y :: l))%string.
      rewrite H. reflexivity.
    + rewrite IH. rewrite str_app_assoc'. reflexivity.
Qed.
Lemma of_key_to_key' : forall name, of_key (to_key name) = name.
Proof. intro name. unfold of_key, to_key, join_dot, split_dot, split. apply join_split_aux'. Qed.
Lemma to_key_nonempty : forall s, to_key s <> [].
Proof. intro s. unfold to_key, split_dot, split. apply split_aux_nonempty'. Qed.

Lemma regmap_inv : forall names (m : smap unit), Inv m -> Inv (fold_left (fun m sel => sm_set (to_key sel) tt m) names m).
Proof.
  induction names as [|n r IH]; intros m Hm; cbn [fold_left]; [exact Hm|].
  apply IH. apply inv_set; [exact Hm|apply to_key_nonempty].
Qed.
Lemma regmap_dom : forall names (m : smap unit) k, In k (dom (fold_left (fun m sel => sm_set (to_key sel) tt m) names m)) ->
  In k (dom m) \/ exists n, In n names /\ k = to_key n.
Proof.
  induction names as [|n r IH]; intros m k H; cbn [fold_left] in H; [left; exact H|].
  destruct (IH _ _ H) as [H1|[n' [Hin Hk]]].
  - apply dom_set in H1. destruct H1 as [H1|H1]; [right; exists n; split; [left; reflexivity|exact H1]|left; exact H1].
  - right. exists n'. split; [right; exact Hin|exact Hk].
Qed.

(* without the feature: nothing is registered or re-pointed, and the selector handed back is a registered one
   (or one of gin's own three).  It need NOT be the latest registration of its object. *)
Theorem get_configurable_static_spec : forall reg c sel reg' full rp, c_dynamic c = false ->
  get_configurable reg c sel = DOk (reg', full, rp) ->
  reg' = reg /\ rp = [] /\ In full (builtins ++ map ce_sel reg).
Proof.
  intros reg c sel reg' full rp Hd H.
  destruct (get_configurable_static2 _ _ _ _ _ _ Hd H) as [Hr Hrp]. split; [exact Hr|]. split; [exact Hrp|].
  unfold get_configurable in H. rewrite Hd in H. cbn [negb] in H. cbv zeta in H.
  change (["gin.macro"; "gin.constant"; "gin.singleton"] ++ map ce_sel reg) with (builtins ++ map ce_sel reg) in H.
  set (names := builtins ++ map ce_sel reg) in *.
  set (rm := fold_left (fun m sel => sm_set (to_key sel) tt m) names sm_empty) in *.
  assert (HI : Inv rm) by (apply regmap_inv; apply inv_empty).
  destruct (sm_get_match (to_key sel) rm) as [| |k v] eqn:E; try discriminate.
  inversion H; subst. clear H.
  assert (Hk : In k (dom rm)).
  { unfold sm_get_match in E. destruct (sm_matching (to_key sel) rm) as [|k0 [|k1 l]] eqn:Em; try discriminate.
    inversion E; subst k0.
    assert (Hin : In k (sm_matching (to_key sel) rm)) by (rewrite Em; left; reflexivity).
    apply (matching_spec _ rm (to_key sel) HI (to_key_nonempty sel)) in Hin. unfold spec_matches in Hin.
    destruct (existsb (key_eqb (to_key sel)) (dom rm)) eqn:Ex.
    - apply existsb_exists in Ex. destruct Ex as [x [Hx Hkx]]. destruct (key_eqb_spec (to_key sel) x); [|discriminate].
      subst. exact Hx.
    - exact (proj1 Hin). }
  destruct (regmap_dom _ _ _ Hk) as [Hc|[n [Hin Hkn]]]; [destruct Hc|].
  subst k. rewrite of_key_to_key'. exact Hin.
Qed.

(* ------------------------------------------------------------------ *)
(* ---- references over a whole run ---- *)
(* ------------------------------------------------------------------ *)
(* the invariant asked for: every referenced selector is the LATEST registration of its object.  It is NOT an
   invariant of run_stmts (Counterexamples.refs_ok_latest_not_invariant): the static branch hands back
   whatever selector matches, also an older registration of an object registered twice from Python. *)
Definition refs_ok (reg : list centry) (refs : list ((string * string) * string * string)) : Prop :=
  forall x, In x refs -> latest reg (snd x).
(* what IS invariant: every referenced selector is registered (or one of gin's own three) *)
Definition resolvable (reg : list centry) (r : string) : Prop := In r (builtins ++ map ce_sel reg).
Definition refs_resolvable (reg : list centry) (refs : list ((string * string) * string * string)) : Prop :=
  forall x, In x refs -> resolvable reg (snd x).
(* the symbol table binds objects of a universe in which no class has an attribute with the class's own id *)
Definition table_ok (c : dctx) : Prop := forall n root d, tget n (c_table c) = Some (root, d) -> class_ids_ok root = true.

Lemma register_chain_rp : forall reg d names chain reg' sel rp, register_chain reg d names chain = DOk (reg', sel, rp) ->
  exists names' o m reg1 sel1, do_one d reg names' o m = DOk (reg1, sel1, rp).
Proof.
  intros reg d names chain reg' sel rp H. rewrite register_chain_unfold in H.
  destruct (rev chain) as [|leaf rc]; [discriminate|].
  destruct (rev (removelast chain)) as [|parent rp0]; [discriminate|].
  destruct (is_func leaf && is_class parent).
  - destruct (do_one d reg (removelast names) parent false) as [[[reg1 csel] rp1]|err] eqn:Ed; [|discriminate].
    destruct (obj_id leaf) as [i|]; [|discriminate]. cbv zeta in H.
    destruct (find_obj i reg1).
    + inversion H; subst. eauto 6.
    + match type of H with context [find_sel ?s0 reg1] => destruct (find_sel s0 reg1) end; [discriminate|].
      inversion H; subst. eauto 6.
  - eauto 6.
Qed.
Lemma gc_rp_shape : forall reg c sel reg' full rp, get_configurable reg c sel = DOk (reg', full, rp) ->
  rp = [] \/ exists e0 n, rp = [(ce_sel e0, n)] /\ In e0 reg.
Proof.
  intros reg c sel reg' full rp H. destruct (c_dynamic c) eqn:Hd.
  - destruct (get_configurable_dyn_inv _ _ _ _ _ _ Hd H) as [root [d [chain [i [Ht [Hf [Hi [[e1 [_ [Hr [_ Hrp]]]]|[Hfo Hreg]]]]]]]]].
    + left. exact Hrp.
    + destruct (register_chain_rp _ _ _ _ _ _ _ Hreg) as [names' [o [m [reg1 [sel1 Hdo]]]]].
      destruct (do_one_rp _ _ _ _ _ _ _ _ Hdo) as [j [_ Hrp]].
      destruct (find_obj j reg) as [e0|] eqn:Efo; [|left; exact Hrp].
      right. exists e0, sel1. split; [exact Hrp|exact (proj1 (find_obj_Some _ _ _ Efo))].
  - left. exact (proj2 (get_configurable_static2 _ _ _ _ _ _ Hd H)).
Qed.

Lemma gc_resolvable_step : forall reg c sel reg' full rp r, reg_wf reg ->
  get_configurable reg c sel = DOk (reg', full, rp) -> resolvable reg r -> resolvable reg' (retarget1 rp r).
Proof.
  intros reg c sel reg' full rp r Hwf H Hr. unfold resolvable in *.
  destruct (in_dec string_dec r (map ce_sel reg)) as [Hin|Hnin].
  - destruct (In_map_find_sel _ _ Hin) as [e He].
    destruct (C19_reference_keeps_object _ _ _ _ _ _ _ _ Hwf He H) as [e' [He' _]].
    apply in_or_app. right. eapply find_sel_In_map; eauto.
  - apply in_app_or in Hr. destruct Hr as [Hb|Hc]; [|contradiction].
    assert (Hret : retarget1 rp r = r).
    { destruct (gc_rp_shape _ _ _ _ _ _ H) as [E|[e0 [n [E Hin0]]]]; subst rp; [apply retarget1_nil|].
      rewrite retarget1_single. destruct (String.eqb (ce_sel e0) r) eqn:Er; [|reflexivity].
      exfalso. apply String.eqb_eq in Er. apply Hnin. rewrite <- Er. apply in_map. exact Hin0. }
    rewrite Hret. apply in_or_app. left. exact Hb.
Qed.
Lemma gc_resolvable_mono : forall reg c sel reg' full rp r,
  get_configurable reg c sel = DOk (reg', full, rp) -> resolvable reg r -> resolvable reg' r.
Proof.
  intros reg c sel reg' full rp r H Hr. unfold resolvable in *. apply in_app_or in Hr. apply in_or_app.
  destruct Hr as [Hb|Hc]; [left; exact Hb|right].
  destruct (In_map_find_sel _ _ Hc) as [e He].
  destruct (get_configurable_monotone_sel _ _ _ _ _ _ H _ _ He) as [e' [He' _]]. eapply find_sel_In_map; eauto.
Qed.
Lemma gc_full_resolvable : forall reg c sel reg' full rp, reg_wf reg -> table_ok c ->
  get_configurable reg c sel = DOk (reg', full, rp) -> resolvable reg' full.
Proof.
  intros reg c sel reg' full rp Hwf Hok H. unfold resolvable. destruct (c_dynamic c) eqn:Hd.
  - destruct (C19_exact_object_universe _ _ _ _ _ _ Hwf Hd H (fun root d Ht => Hok _ _ _ Ht))
      as [root [d [chain [i [e [_ [_ [_ [He _]]]]]]]]].
    apply in_or_app. right. eapply find_sel_In_map; eauto.
  - destruct (get_configurable_static_spec _ _ _ _ _ _ Hd H) as [Hr [_ Hin]]. subst reg'. exact Hin.
Qed.
Lemma failed_reg_resolvable : forall reg c sel r, resolvable reg r -> resolvable (failed_reg reg c sel) r.
Proof.
  intros reg c sel r Hr. unfold resolvable in *. apply in_app_or in Hr. apply in_or_app.
  destruct Hr as [Hb|Hc]; [left; exact Hb|right].
  destruct (In_map_find_sel _ _ Hc) as [e He].
  destruct (failed_reg_monotone reg c sel _ _ He) as [e' [He' _]]. eapply find_sel_In_map; eauto.
Qed.

Lemma refs_retarget : forall reg reg' rp refs, (forall r, resolvable reg r -> resolvable reg' (retarget1 rp r)) ->
  refs_resolvable reg refs -> refs_resolvable reg' (retarget rp refs).
Proof.
  intros reg reg' rp refs Hstep Hrefs x Hin. rewrite retarget_map in Hin. apply in_map_iff in Hin.
  destruct Hin as [x0 [Hx Hin0]]. subst x. cbn [snd]. apply Hstep. apply Hrefs. exact Hin0.
Qed.
Lemma refs_filter : forall reg f refs, refs_resolvable reg refs -> refs_resolvable reg (filter f refs).
Proof. intros reg f refs H x Hin. apply filter_In in Hin. apply H. exact (proj1 Hin). Qed.
Lemma refs_snoc : forall reg refs x, refs_resolvable reg refs -> resolvable reg (snd x) -> refs_resolvable reg (refs ++ [x]).
Proof.
  intros reg refs x H Hx y Hin. apply in_app_or in Hin. destruct Hin as [Hin|[Hin|[]]]; [apply H; exact Hin|subst y; exact Hx].
Qed.
Lemma refs_mono : forall reg reg' refs, (forall r, resolvable reg r -> resolvable reg' r) ->
  refs_resolvable reg refs -> refs_resolvable reg' refs.
Proof. intros reg reg' refs Hm H x Hin. apply Hm. apply H. exact Hin. Qed.

Lemma import_path_ok : forall parts univ leaf, class_ids_ok (PMod univ) = true ->
  import_path univ parts = Some leaf -> class_ids_ok leaf = true.
Proof.
  induction parts as [|p r IH]; intros univ leaf Hok H; cbn [import_path] in H; [discriminate|].
  destruct r as [|q r'].
  - destruct (pget p univ) as [[a|? ?| |]|] eqn:Eg; try discriminate. inversion H; subst.
    exact (proj1 (class_ids_ok_child (PMod univ) p _ Hok Eg)).
  - destruct (pget p univ) as [[a|? ?| |]|] eqn:Eg; try discriminate.
    apply (IH a leaf); [|exact H]. exact (proj1 (class_ids_ok_child (PMod univ) p _ Hok Eg)).
Qed.
Lemma process_import_table_ok : forall univ c d c1, class_ids_ok (PMod univ) = true -> table_ok c ->
  process_import univ c d = DOk c1 -> table_ok c1.
Proof.
  intros univ c d c1 Hu Hok Hp. unfold process_import in Hp.
  destruct (d_from d && String.prefix gin_feature_prefix (d_module d)).
  - destruct (d_alias d); [discriminate|].
    destruct (String.eqb (d_module d) "__gin__.dynamic_registration"); [|discriminate].
    destruct (c_imports c); [|discriminate]. inversion Hp; subst c1. exact Hok.
  - destruct (import_path univ (split_dot (d_module d))) as [leaf|] eqn:Ei; [|discriminate].
    destruct (c_dynamic c).
    + destruct (String.eqb (d_bound_name d) "gin"); [discriminate|]. inversion Hp; subst c1; clear Hp.
      intros n root d0 Hg. cbn [c_table tget] in Hg. destruct (String.eqb n (d_bound_name d)) eqn:E.
      * injection Hg as Hroot _. rewrite <- Hroot.
        destruct (d_from d || match d_alias d with Some _ => true | None => false end).
        -- eapply import_path_ok; eauto.
        -- destruct (pget (hd "" (split_dot (d_module d))) univ) as [m|] eqn:Eg; [|reflexivity].
           exact (proj1 (class_ids_ok_child (PMod univ) _ _ Hu Eg)).
      * rewrite tget_filter_neq in Hg; [exact (Hok _ _ _ Hg)|].
        intro Hc. subst n. rewrite String.eqb_refl in E. discriminate.
    + inversion Hp; subst c1. exact Hok.
Qed.

(* configuring keeps existing references working: over a whole run - successful or failed - the registry stays
   well-formed and every reference (old ones re-pointed, new ones as created) names a registered selector *)
Theorem C19_references_keep_working : forall univ stmts s refs c s' refs' c' e,
  class_ids_ok (PMod univ) = true -> table_ok c ->
  reg_wf (ds_reg s) -> refs_resolvable (ds_reg s) refs ->
  run_stmts univ stmts s refs c = (s', refs', c', e) ->
  reg_wf (ds_reg s') /\ refs_resolvable (ds_reg s') refs'.
Proof.
  intros univ stmts. induction stmts as [|st rest IH]; intros s refs c s' refs' c' e Hu Hok Hwf Hrefs Hrun.
  - cbn [run_stmts] in Hrun. inversion Hrun; subst. split; assumption.
  - destruct st as [d | scope sel param v | scope sel]; cbn [run_stmts] in Hrun.
    + destruct (process_import univ c d) as [c1|err] eqn:Ep.
      * eapply IH; [exact Hu|eapply process_import_table_ok; eauto|exact Hwf|exact Hrefs|exact Hrun].
      * inversion Hrun; subst. split; assumption.
    + destruct v as [z | scopes rsel].
      * destruct (get_configurable (ds_reg s) c sel) as [[[reg2 full] rp2]|err] eqn:E2.
        -- eapply IH; [exact Hu|exact Hok| | |exact Hrun]; cbn [ds_reg].
           ++ eapply get_configurable_wf; eauto.
           ++ apply refs_filter. eapply refs_retarget; [intros r Hr; exact (gc_resolvable_step _ _ _ _ _ _ _ Hwf E2 Hr)|].
              eapply refs_retarget; [|exact Hrefs]. intros r Hr. rewrite retarget1_nil. exact Hr.
        -- inversion Hrun; subst. cbn [ds_reg with_reg]. split; [apply failed_reg_wf; exact Hwf|].
           eapply refs_retarget; [|exact Hrefs]. intros r Hr. rewrite retarget1_nil. apply failed_reg_resolvable. exact Hr.
      * destruct (get_configurable (ds_reg s) c rsel) as [[[reg1 rfull] rp1]|err] eqn:E1.
        -- assert (Hwf1 : reg_wf reg1) by (eapply get_configurable_wf; eauto).
           destruct (get_configurable reg1 c sel) as [[[reg2 full] rp2]|err] eqn:E2.
           ++ eapply IH; [exact Hu|exact Hok| | |exact Hrun]; cbn [ds_reg].
              ** eapply get_configurable_wf; eauto.
              ** apply refs_snoc.
                 --- apply refs_filter. eapply refs_retarget; [intros r Hr; exact (gc_resolvable_step _ _ _ _ _ _ _ Hwf1 E2 Hr)|].
                     eapply refs_retarget; [|exact Hrefs]. intros r Hr. exact (gc_resolvable_step _ _ _ _ _ _ _ Hwf E1 Hr).
                 --- cbn [snd]. eapply gc_resolvable_mono; [exact E2|]. exact (gc_full_resolvable _ _ _ _ _ _ Hwf Hok E1).
           ++ inversion Hrun; subst. cbn [ds_reg with_reg]. split; [apply failed_reg_wf; exact Hwf1|].
              eapply refs_retarget; [|exact Hrefs]. intros r Hr. apply failed_reg_resolvable.
              exact (gc_resolvable_step _ _ _ _ _ _ _ Hwf E1 Hr).
        -- inversion Hrun; subst. cbn [ds_reg with_reg]. split; [apply failed_reg_wf; exact Hwf|].
           eapply refs_mono; [|exact Hrefs]. intros r Hr. apply failed_reg_resolvable. exact Hr.
    + destruct (get_configurable (ds_reg s) c sel) as [[[reg2 full] rp2]|err] eqn:E2.
      * eapply IH; [exact Hu|exact Hok| | |exact Hrun]; cbn [ds_reg].
        -- eapply get_configurable_wf; eauto.
        -- eapply refs_retarget; [|exact Hrefs]. intros r Hr. exact (gc_resolvable_step _ _ _ _ _ _ _ Hwf E2 Hr).
      * inversion Hrun; subst. cbn [ds_reg with_reg]. split; [apply failed_reg_wf; exact Hwf|].
        eapply refs_mono; [|exact Hrefs]. intros r Hr. apply failed_reg_resolvable. exact Hr.
Qed.
(* one parse call (fresh context) *)
Corollary C19_references_keep_working_call : forall univ stmts s refs s' refs' c' e,
  class_ids_ok (PMod univ) = true -> reg_wf (ds_reg s) -> refs_resolvable (ds_reg s) refs ->
  run_stmts univ stmts s refs empty_ctx = (s', refs', c', e) ->
  reg_wf (ds_reg s') /\ refs_resolvable (ds_reg s') refs'.
Proof.
  intros univ stmts s refs s' refs' c' e Hu Hwf Hrefs Hrun.
  eapply C19_references_keep_working; [exact Hu| |exact Hwf|exact Hrefs|exact Hrun].
  intros n root d Hg. cbn in Hg. discriminate.
Qed.

(* ---- object preservation over a whole run ---- *)
Lemma in_retarget : forall rp refs x, In x refs -> In (fst x, retarget1 rp (snd x)) (retarget rp refs).
Proof. intros rp refs x Hin. rewrite retarget_map. apply (in_map (fun x => (fst x, retarget1 rp (snd x)))). exact Hin. Qed.
Lemma keep_true : forall (kp : (string * string) * string) scope full param,
  scope <> fst (fst kp) \/ param <> snd kp ->
  negb (skey_eqb (fst kp) (scope, full) && String.eqb (snd kp) param) = true.
Proof.
  intros kp scope full param [H|H]; apply negb_true_iff.
  - unfold skey_eqb. cbn [fst snd]. destruct (String.eqb (fst (fst kp)) scope) eqn:E; [|reflexivity].
    apply String.eqb_eq in E. congruence.
  - destruct (String.eqb (snd kp) param) eqn:E; [|apply andb_false_r].
    apply String.eqb_eq in E. congruence.
Qed.

(* a reference (key, param) -> r present before the run, whose (scope, param) no statement of the run binds again,
   is still present after the run (re-pointed), and its selector is registered for the same object *)
Theorem C19_reference_object_preserved : forall univ stmts s refs c s' refs' c' e kp r e0,
  reg_wf (ds_reg s) -> In (kp, r) refs -> find_sel r (ds_reg s) = Some e0 ->
  (forall scope sel param v, In (DBind scope sel param v) stmts -> scope <> fst (fst kp) \/ param <> snd kp) ->
  run_stmts univ stmts s refs c = (s', refs', c', e) ->
  exists r' e', In (kp, r') refs' /\ find_sel r' (ds_reg s') = Some e' /\ ce_obj e' = ce_obj e0.
Proof.
  intros univ stmts. induction stmts as [|st rest IH]; intros s refs c s' refs' c' e kp r e0 Hwf Hin Hs Hnb Hrun.
  - cbn [run_stmts] in Hrun. inversion Hrun; subst. exists r, e0. auto.
  - assert (Hnb' : forall scope sel param v, In (DBind scope sel param v) rest -> scope <> fst (fst kp) \/ param <> snd kp)
      by (intros scope0 sel0 param0 v0 H0; eapply Hnb; right; exact H0).
    destruct st as [d | scope sel param v | scope sel]; cbn [run_stmts] in Hrun.
    + destruct (process_import univ c d) as [c1|err].
      * eapply IH; eauto.
      * inversion Hrun; subst. exists r, e0. auto.
    + pose proof (Hnb scope sel param v (or_introl eq_refl)) as Hk.
      destruct v as [z | scopes rsel].
      * destruct (get_configurable (ds_reg s) c sel) as [[[reg2 full] rp2]|err] eqn:E2.
        -- destruct (C19_reference_keeps_object _ _ _ _ _ _ _ _ Hwf Hs E2) as [e1 [He1 Ho1]].
           assert (Hin2 : In (kp, retarget1 rp2 r)
                     (filter (fun x => negb (skey_eqb (fst (fst x)) (scope, full) && String.eqb (snd (fst x)) param))
                             (retarget rp2 (retarget [] refs)))).
           { apply filter_In. split; [|cbn [fst]; apply keep_true; exact Hk].
             apply (in_retarget rp2 _ (kp, r)). apply (in_retarget [] _ (kp, r)). exact Hin. }
           pose proof (fun W I S => IH _ _ _ _ _ _ _ kp (retarget1 rp2 r) e1 W I S Hnb' Hrun) as IH'.
           destruct (IH' (get_configurable_wf _ _ _ _ _ _ Hwf E2) Hin2 He1) as [r' [e' [Hi' [Hs' Ho']]]].
           exists r', e'. split; [exact Hi'|]. split; [exact Hs'|congruence].
        -- inversion Hrun; subst. cbn [ds_reg with_reg].
           destruct (failed_reg_monotone (ds_reg s) c' sel _ _ Hs) as [e' [He' Ho']]. exists r, e'.
           split; [exact (in_retarget [] _ (kp, r) Hin)|]. split; assumption.
      * destruct (get_configurable (ds_reg s) c rsel) as [[[reg1 rfull] rp1]|err] eqn:E1.
        -- assert (Hwf1 : reg_wf reg1) by (eapply get_configurable_wf; eauto).
           destruct (C19_reference_keeps_object _ _ _ _ _ _ _ _ Hwf Hs E1) as [e1 [He1 Ho1]].
           destruct (get_configurable reg1 c sel) as [[[reg2 full] rp2]|err] eqn:E2.
           ++ destruct (C19_reference_keeps_object _ _ _ _ _ _ _ _ Hwf1 He1 E2) as [e2 [He2 Ho2]].
              assert (Hin2 : In (kp, retarget1 rp2 (retarget1 rp1 r))
                        (filter (fun x => negb (skey_eqb (fst (fst x)) (scope, full) && String.eqb (snd (fst x)) param))
                                (retarget rp2 (retarget rp1 refs)) ++ [(scope, full, param, rfull)])).
              { apply in_or_app. left. apply filter_In. split; [|cbn [fst]; apply keep_true; exact Hk].
                apply (in_retarget rp2 _ (kp, retarget1 rp1 r)). apply (in_retarget rp1 _ (kp, r)). exact Hin. }
              pose proof (fun W I S => IH _ _ _ _ _ _ _ kp (retarget1 rp2 (retarget1 rp1 r)) e2 W I S Hnb' Hrun) as IH'.
           destruct (IH' (get_configurable_wf _ _ _ _ _ _ Hwf1 E2) Hin2 He2) as [r' [e' [Hi' [Hs' Ho']]]].
              exists r', e'. split; [exact Hi'|]. split; [exact Hs'|congruence].
           ++ inversion Hrun; subst. cbn [ds_reg with_reg].
              destruct (failed_reg_monotone reg1 c' sel _ _ He1) as [e' [He' Ho']]. exists (retarget1 rp1 r), e'.
              split; [exact (in_retarget rp1 _ (kp, r) Hin)|]. split; [exact He'|congruence].
        -- inversion Hrun; subst. cbn [ds_reg with_reg].
           destruct (failed_reg_monotone (ds_reg s) c' rsel _ _ Hs) as [e' [He' Ho']]. exists r, e'. auto.
    + destruct (get_configurable (ds_reg s) c sel) as [[[reg2 full] rp2]|err] eqn:E2.
      * destruct (C19_reference_keeps_object _ _ _ _ _ _ _ _ Hwf Hs E2) as [e1 [He1 Ho1]].
        pose proof (in_retarget rp2 _ (kp, r) Hin) as Hin2. cbn [fst snd] in Hin2.
        pose proof (fun W I S => IH _ _ _ _ _ _ _ kp (retarget1 rp2 r) e1 W I S Hnb' Hrun) as IH'.
           destruct (IH' (get_configurable_wf _ _ _ _ _ _ Hwf E2) Hin2 He1) as [r' [e' [Hi' [Hs' Ho']]]].
        exists r', e'. split; [exact Hi'|]. split; [exact Hs'|congruence].
      * inversion Hrun; subst. cbn [ds_reg with_reg].
        destruct (failed_reg_monotone (ds_reg s) c' sel _ _ Hs) as [e' [He' Ho']]. exists r, e'. auto.
Qed.
(* ------------------------------------------------------------------ *)
(* ---- why the hypothesis on ids: without it C19_exact_object is FALSE in the model ---- *)
(* ------------------------------------------------------------------ *)
Module Counterexamples.
  Definition cx_d : dimport := {| d_module := "m"; d_from := false; d_alias := None |}.
  Definition cx_cls (cid : nat) : pyobj := PClass cid [("f", PFunc 5)].
  Definition cx_mod (cid : nat) : pyobj := PMod [("C", cx_cls cid)].
  Definition cx_reg : list centry :=
    [{| ce_sel := "m.C.f"; ce_obj := 99; ce_method := false; ce_src := None; ce_home := ("other", "f") |}].
  Definition cx_ctx (cid : nat) : dctx := {| c_dynamic := true; c_imports := [cx_d]; c_table := [("m", (cx_mod cid, cx_d))] |}.
  Definition show (r : dres (list centry * string * list (string * string))) :=
    match r with DOk (reg, full, _) => OL [OL (map (fun e => OL [OS (ce_sel e); OZ (Z.of_nat (ce_obj e))]) reg); OS full;
                                           match find_sel full reg with Some e => OZ (Z.of_nat (ce_obj e)) | None => ONone end]
               | DErr cls => OErr cls end.

  (* (1) a method whose selector is already registered for another object is a ValueError (as in _make_configurable) *)
  Eval vm_compute in show (get_configurable cx_reg (cx_ctx 1) "m.C.f").
  Lemma method_selector_collision_is_error : get_configurable cx_reg (cx_ctx 1) "m.C.f" = DErr "ValueError".
  Proof. vm_compute. reflexivity. Qed.
  (* (2) a class and its method carrying the same id (not a Python situation): the method is taken for registered
         after its class was, and the selector handed back is not registered at all *)
  Eval vm_compute in show (get_configurable [] (cx_ctx 5) "m.C.f").
  Eval vm_compute in (class_ids_ok (cx_mod 5), class_ids_ok (cx_mod 1)).

  Theorem C19_exact_object_orig_refuted :
    ~ (forall reg c sel reg' full rp, reg_wf reg -> c_dynamic c = true ->
         get_configurable reg c sel = DOk (reg', full, rp) ->
         exists root d chain i e, tget (hd "" (split_dot sel)) (c_table c) = Some (root, d) /\
           follow root (tl (split_dot sel)) [] = Some chain /\ obj_id (last chain POther) = Some i /\
           find_sel full reg' = Some e /\ ce_obj e = i).
  Proof.
    intro H. destruct (get_configurable [] (cx_ctx 5) "m.C.f") as [[[r s] p]|err] eqn:E.
    - assert (Hwf : reg_wf []) by constructor.
      destruct (H [] (cx_ctx 5) _ _ _ _ Hwf eq_refl E) as [root [d [chain [i [e [Ht [Hf [Hi [Hfs Ho]]]]]]]]].
      vm_compute in E. inversion E; subst r s p. clear E.
      vm_compute in Hfs. discriminate.
    - vm_compute in E. discriminate.
  Qed.

  (* (3) a class (object 1) registered twice from outside, as a.C and, later, as b.C; a reference names b.C (the latest).
         A file importing a configures the unregistered method a.C.k.  Repaired code (F22): the class keeps the
         registration it has (gin's _INVERSE_REGISTRY[cls], i.e. b.C), the method is homed under it (b.C.k), nothing is
         re-pointed.  The code before the repair re-registered the class under the current spelling a.C, which became
         its latest registration, and re-pointed the reference b.C -> a.C. *)
  Definition cx_cls2 : pyobj := PClass 1 [("k", PFunc 7)].
  Definition cx_da : dimport := {| d_module := "a"; d_from := false; d_alias := None |}.
  Definition cx_eA : centry := {| ce_sel := "a.C"; ce_obj := 1; ce_method := false; ce_src := None; ce_home := ("", "") |}.
  Definition cx_eB : centry := {| ce_sel := "b.C"; ce_obj := 1; ce_method := false; ce_src := None; ce_home := ("", "") |}.
  Definition cx_reg2 : list centry := [cx_eA; cx_eB].
  Definition cx_ctx2 : dctx := {| c_dynamic := true; c_imports := [cx_da]; c_table := [("a", (PMod [("C", cx_cls2)], cx_da))] |}.
  Definition show3 (r : dres (list centry * string * list (string * string))) :=
    match r with
    | DOk (reg', full, rp) => Some (map (fun e => (ce_sel e, ce_obj e)) reg', full, rp, retarget1 rp "b.C",
                                    option_map ce_sel (find_obj 1 reg'))
    | DErr _ => None end.
  Eval vm_compute in (show3 (get_configurable cx_reg2 cx_ctx2 "a.C.k"), show3 (get_configurable_orig cx_reg2 cx_ctx2 "a.C.k")).
  Lemma cx_reg2_wf : reg_wf cx_reg2.
  Proof.
    unfold reg_wf, cx_reg2. cbn [map ce_sel cx_eA cx_eB].
    constructor; [intros [H|[]]; discriminate|constructor; [intros []|constructor]].
  Qed.
  Lemma respelled_class_keeps_latest : forall reg' full rp,
    get_configurable cx_reg2 cx_ctx2 "a.C.k" = DOk (reg', full, rp) ->
    full = "b.C.k" /\ retarget1 rp "b.C" = "b.C" /\ option_map ce_sel (find_obj 1 reg') = Some "b.C".
  Proof. intros reg' full rp H. vm_compute in H. inversion H; subst. repeat split; reflexivity. Qed.
  Lemma respelled_class_is_latest_orig : forall reg' full rp,
    get_configurable_orig cx_reg2 cx_ctx2 "a.C.k" = DOk (reg', full, rp) ->
    full = "a.C.k" /\ retarget1 rp "b.C" = "a.C" /\ option_map ce_sel (find_obj 1 reg') = Some "a.C".
  Proof. intros reg' full rp H. vm_compute in H. inversion H; subst. repeat split; reflexivity. Qed.

  (* (4) refs_ok (every reference names the LATEST registration of its object) is not an invariant of a run: a file
         WITHOUT dynamic registration resolves names through the registry, which hands back whatever selector matches:
         with the class registered as a.C and, later, as b.C,  `b.C.x = @a.C`  records a reference to the older a.C.
         It still names a registered selector of the same object. *)
  Definition cx_stmts : list dstmt := [DBind "" "b.C" "x" (DRef [] "a.C")].
  Definition cx_s0 : dstate := {| ds_reg := cx_reg2; ds_store := []; ds_imports := []; ds_dynamic_seen := false |}.
  Eval vm_compute in
    let '(s', refs', _, e) := run_stmts [] cx_stmts cx_s0 [] empty_ctx in
    (map (fun e => (ce_sel e, ce_obj e)) (ds_reg s'), refs', e, option_map ce_sel (find_obj 1 (ds_reg s'))).
  Theorem refs_ok_latest_not_invariant :
    refs_ok (ds_reg cx_s0) [] /\ reg_wf (ds_reg cx_s0) /\
    exists s' refs' c', run_stmts [] cx_stmts cx_s0 [] empty_ctx = (s', refs', c', None) /\ ~ refs_ok (ds_reg s') refs'.
  Proof.
    split; [intros x []|]. split; [exact cx_reg2_wf|].
    destruct (run_stmts [] cx_stmts cx_s0 [] empty_ctx) as [[[s' refs'] c'] e] eqn:E.
    vm_compute in E. inversion E; subst s' refs' c' e. clear E.
    eexists. eexists. eexists. split; [reflexivity|].
    intro H. destruct (H _ (or_introl eq_refl)) as [e1 [Hs Hl]].
    vm_compute in Hs. injection Hs as Hs. subst e1. vm_compute in Hl. discriminate Hl.
  Qed.

  (* (5) the static branch: the selector handed back need not be `latest` - gin's own names are not in the model's
         registry at all, and an older registration of an object is handed back as it is *)
  Eval vm_compute in show (get_configurable [] empty_ctx "macro").
  Eval vm_compute in show (get_configurable cx_reg2 empty_ctx "a.C").
  Theorem static_result_not_latest :
    get_configurable [] empty_ctx "macro" = DOk ([], "gin.macro", []) /\ ~ latest [] "gin.macro" /\
    get_configurable cx_reg2 empty_ctx "a.C" = DOk (cx_reg2, "a.C", []) /\ ~ latest cx_reg2 "a.C".
  Proof.
    split; [vm_compute; reflexivity|]. split; [intros [e [H _]]; discriminate|].
    split; [vm_compute; reflexivity|]. intros [e [Hs Hl]].
    vm_compute in Hs. injection Hs as Hs. subst e. vm_compute in Hl. discriminate Hl.
  Qed.
End Counterexamples.

(* ------------------------------------------------------------------ *)
Print Assumptions C19_import_binds.
Print Assumptions C19_missing_module.
Print Assumptions C19_unknown_feature.
Print Assumptions C19_static_file_has_empty_table.
Print Assumptions register_chain_wf.
Print Assumptions get_configurable_wf.
Print Assumptions get_configurable_monotone_sel.
Print Assumptions get_configurable_monotone.
Print Assumptions C19_exact_object.
Print Assumptions C19_exact_object_universe.
Print Assumptions C19_exact_object_nonmethod.
Print Assumptions follow_spec.
Print Assumptions follow_attrs.
Print Assumptions C19_missing_attribute.
Print Assumptions C19_spelling_same_configurable.
Print Assumptions C19_class_keeps_selector_via_method.
Print Assumptions C19_isolation_table.
Print Assumptions C19_isolation_ctx.
Print Assumptions C19_table_from_own_imports.
Print Assumptions failed_reg_wf.
Print Assumptions failed_reg_monotone.
Print Assumptions failed_reg_static.
Print Assumptions retarget_map.
Print Assumptions C19_reference_keeps_object.
Print Assumptions C19_reference_survives_step.
Print Assumptions C19_latest_survives_step.
Print Assumptions C19_result_is_latest.
Print Assumptions get_configurable_static_spec.
Print Assumptions C19_references_keep_working.
Print Assumptions C19_references_keep_working_call.
Print Assumptions C19_reference_object_preserved.
Print Assumptions Counterexamples.method_selector_collision_is_error.
Print Assumptions Counterexamples.C19_exact_object_orig_refuted.
Print Assumptions Counterexamples.respelled_class_keeps_latest.
Print Assumptions Counterexamples.respelled_class_is_latest_orig.
Print Assumptions Counterexamples.refs_ok_latest_not_invariant.
Print Assumptions Counterexamples.static_result_not_latest.
